"""C02 — XLS (BIFF8): every cell record reads back at its position with its value.

Correspondence (implementation vs extracted Coq model, same input):
  * hook rk_num on 6-byte RkRecs: structured forms, boundaries, random words, wrong lengths;
  * hook parse_cell_record on NUMBER / RK / MULRK / BOOLERR / LABELSST / LABEL bodies: valid,
    truncated at every length, over-long, field-mutated (outcome classes ok / err / panic);
  * hooks parse_formula_value, parse_dimensions, records (framing with CONTINUE runs);
  * generated .xls files (tools/xlsgen.py) through Xls::new + worksheet_range under every encoding
    variation (NUMBER vs every RK form vs MULRK grouping, DIMENSIONS variants, ignorable
    records, 8/16-bit strings, formula cached values + STRING, SHRFMLA / ARRAY / TABLE / other
    ignored records between FORMULA and STRING, STRING continued in CONTINUE records, INDEX / ROW /
    DBCELL / BLANK / MULBLANK around the row blocks, both DIMENSIONS widths, MERGECELLS records, and
    substreams NESTED in the sheet - xlsgen.chart_sub: the chart substream of an embedded chart object
    with its series cache ON positions of the sheet's own cells, FORMULA / STRING / MERGECELLS / CONTINUE
    records and deeper BOF ... EOF pairs inside, behind the cell table or anywhere between the cell
    records, several per sheet), the model reading the
    very same substream bytes; the same substreams through the RecordIter hook; plus malformed
    substreams (truncation, unsorted rows, bad DIMENSIONS, stray / missing STRING records).
  * shared strings end to end (run_sst_files, corpus sst-*): workbooks whose SST spills into CONTINUE
    records with cuts between strings, inside character data (fresh flag byte, also inside a
    surrogate pair), inside rgRun and inside ExtRst (no flag byte), rich / phonetic strings, natural
    cuts at the 8224-byte limit; every string referenced by LABELSST cells; the model gets the
    LOGICAL strings as its environment (the SST decoding theorem is C12's C12_sst_any_split; this
    family ties the composition parse_sst -> parse_label_sst -> range to the real code).
Search oracle (implementation vs specification): an independent Python reading of the property
(exact rational RK values, IEEE division for x/100, bounding box + dictionary), and the Coq
spec range_of (logical c) printed by the model driver; the Coq encoder's bytes must equal
xlsgen's bytes for the same layout (so the theorem's E is what the real reader is fed).
Thorough tier: all integer payloads |v| < 2^20 x both flags, all 2^16 high halves and low halves
of the RK word x 4 flag combinations (a dense structured subset; the full 2^32 is not swept)."""
import os, struct, sys
from fractions import Fraction
sys.path.insert(0, os.path.dirname(os.path.dirname(os.path.abspath(__file__))))
import vlib, xlsgen
from xlsgen import f64_bits, bits_f64, rk_int, rk_float, rk_forms_of

ASSUMPTIONS = [
    "x / 100.0 is the Section variable fdiv100 of the Coq model, instantiated in the OCaml driver by hardware IEEE-754 division (RKFloat.v relates it to Flocq's b64_div)",
    "UTF-16LE decoding is the Section variable decode16 (string decoding is C12/C19); instantiated by a UTF-16 decoder with U+FFFD replacement",
    "the formula token stream (r.data[20..], parse_formula) is opaque to the model: generated formulas use a valid rgce; a panic inside parse_formula on a malformed rgce is C14/C06 material",
    "cell records may come in any row order (theorem and generator: 15 % of the sheets shuffle their row blocks); within a row the generator keeps column order",
    "allocation (cells.reserve from DIMENSIONS, the dense range) is not modelled; generated bounding boxes stay below 2^18 cells",
    "records between a FORMULA and its STRING are of types the sheet loop ignores (SHRFMLA, ARRAY, TABLE, any non-interpreted type); an ARRAY / SHRFMLA body itself continued in CONTINUE records is not in the layout type (the framing of such runs is exercised by the recs cases)",
    "a FormulaValue that announces a string with no STRING record after it is treated as malformed (no value cell; model = implementation), not as a legal layout",
    "the shared-string table is an environment of the Coq sheet model (e_strings = the logical strings); its decoding across CONTINUE records is C12's theorem C12_sst_any_split, and the generated files with rich / phonetic strings and cuts inside characters, rgRun and ExtRst tie the composition parse_sst -> parse_label_sst -> range to the real code",
]
TMP = os.path.join(vlib.CACHE, "tmp", "c02-%d" % os.getpid())
ERRS = [0x00, 0x07, 0x0F, 0x17, 0x1D, 0x24, 0x2A, 0x2B]          # cerr order of RK.v
ERR_CANON = {0x00: 3, 0x07: 0, 0x0F: 6, 0x17: 5, 0x1D: 2, 0x24: 4, 0x2A: 1, 0x2B: 7}   # util.rs err_code

def hx(b):
    return bytes(b).hex() if len(b) else "-"

# ------------------------------------------------------------------ independent oracle
def wrap(kind, payload, fmt, d1904):
    """canonical text of a numeric value under a cell format (0 other, 1 datetime, 2 timedelta)"""
    if fmt in (1, 2):
        bits = payload if kind == "F" else f64_bits(float(payload))
        return "D%d:%d:%d" % (bits, 1 if fmt == 2 else 0, 1 if d1904 else 0)
    return "%s%d" % (kind, payload)

def oracle_rk(word, fmt, d1904):
    """what the property demands for an RK word: 30-bit integers as Int, /100 honoured (Int when
    it divides, else the IEEE quotient), otherwise the double with the low 34 bits zero"""
    x100 = word & 1
    if word & 2:
        v = (word >> 2) & 0x3FFFFFFF
        if v >= 1 << 29:
            v -= 1 << 30
        if x100 and v % 100 != 0:
            return wrap("F", f64_bits(float(v) / 100.0), fmt, d1904)
        return wrap("I", v // 100 if x100 else v, fmt, d1904)
    bits = (word & 0xFFFFFFFC) << 32
    if x100:
        bits = f64_bits(bits_f64(bits) / 100.0)
    return wrap("F", bits, fmt, d1904)

def is_nan_bits(b):
    return (b >> 52) & 0x7FF == 0x7FF and b & ((1 << 52) - 1) != 0

def same_value(a, b):
    """canonical texts equal, NaN payloads ignored"""
    if a == b:
        return True
    if a and b and a[0] == b[0] == "F":
        return is_nan_bits(int(a[1:])) and is_nan_bits(int(b[1:]))
    if a and b and a[0] == b[0] == "D":
        fa, fb = a[1:].split(":"), b[1:].split(":")
        return fa[1:] == fb[1:] and is_nan_bits(int(fa[0])) and is_nan_bits(int(fb[0]))
    return False

def numeric(txt):
    """exact value of a canonical numeric cell text (None for NaN/inf, ('z', sign) for zeros)"""
    if txt.startswith("I"):
        return Fraction(int(txt[1:]))
    if txt.startswith("F") or txt.startswith("D"):
        bits = int(txt[1:].split(":")[0])
        d = bits_f64(bits)
        if d != d:
            return "nan"
        if d in (float("inf"), float("-inf")):
            return str(d)
        return Fraction(d)
    return txt

def fmt_code(env, xf):
    return env["fmts"][xf] if xf < len(env["fmts"]) else 0

def env_args(env):
    fm = "".join(str(x) for x in env["fmts"]) or "-"
    st = ",".join("s" + s.encode("utf-8").hex() for s in env["strings"]) or "-"
    return fm, "1" if env["d1904"] else "0", st

# ------------------------------------------------------------------ A. RK words through rk_num
INT_EDGES = [0, 1, -1, 2, 7, 25, 50, 75, 99, 100, -100, 101, -101, 199, 200, 12345, -12345, 123456700,
             (1 << 29) - 1, -(1 << 29), (1 << 29) - 100, -(1 << 29) + 100, 536870900, -536870900,
             (1 << 28), -(1 << 28), 99999999, -99999999, 1 << 20, -(1 << 20)]
FLOAT_EDGES = [0.0, -0.0, 1.0, -1.0, 0.5, 1.5, 100.0, 12.5, 1e300, -1e300, 1e-300, 123456789.0,
               float("inf"), float("-inf"), 2.0 ** 29, 2.0 ** 30, 4294967296.0, 0.1, 1.23, 2.0 ** -1022]

def rk_words(ctx, n_random):
    ws = []
    for v in INT_EDGES:
        for x in (False, True):
            ws.append(rk_int(v, x))
    for d in FLOAT_EDGES:
        hi = f64_bits(d) >> 34
        for x in (False, True):
            ws.append(rk_float(hi, x))
            ws.append(rk_float((hi + 1) & 0x3FFFFFFF, x))
    for hi in (0, 1, 2, 0x3FFFFFFF, 0x1FFFFFFF, 0x20000000, 0x1FFC0000, 0x1FFC0001, 0x3FFC0000, 0x00040000,
               0x0003FFFF, 0x1FFBFFFF):           # zeros, denormals, infinities, NaNs, largest finite
        for x in (False, True):
            ws.append(rk_float(hi, x))
    for _ in range(n_random):
        r = ctx.rng.random()
        if r < 0.4:
            ws.append(ctx.rng.getrandbits(32))
        elif r < 0.7:
            v = ctx.rng.choice([1, -1]) * ctx.rng.getrandbits(ctx.rng.randrange(1, 30))
            v = max(-(1 << 29), min((1 << 29) - 1, v))
            ws.append(rk_int(v, ctx.rng.random() < 0.5))
        else:
            d = ctx.rng.choice([ctx.rng.uniform(-1000, 1000), float(ctx.rng.randrange(-10 ** 6, 10 ** 6)) / 100,
                                ctx.rng.uniform(-1, 1) * 10.0 ** ctx.rng.randrange(-300, 300)])
            ws.append(rk_float(f64_bits(d) >> 34, ctx.rng.random() < 0.5))
    return ws

def check_rk_batch(ctx, cases, tag):
    """cases: [(word, ixfe, fmts list, d1904)]"""
    lines = []
    for k, (w, ixfe, fmts, d) in enumerate(cases):
        lines.append("%s%d\tbiffrec\trk\t%s\t%s\t%d" % (
            tag, k, struct.pack("<HI", ixfe, w).hex(), "".join(map(str, fmts)) or "-", d))
    impl, model = ctx.run_both(lines)
    for k, (w, ixfe, fmts, d) in enumerate(cases):
        lid = "%s%d" % (tag, k)
        i, m = impl.get(lid), model.get(lid)
        s = oracle_rk(w, fmts[ixfe] if ixfe < len(fmts) else 0, d)
        ctx.traces += 1
        if not same_value(i, s):
            ctx.violations.append({"case": lines[k], "expected": s, "actual": i, "model": m,
                                   "what": "rk_num on RK word 0x%08x (ixfe %d)" % (w, ixfe)})
        elif not same_value(i, m):
            ctx.disagreements.append({"function": "rk_num", "case": lines[k], "impl": i, "model": m})

def run_rk(ctx):
    words = rk_words(ctx, ctx.scale(6000, 120000))
    cases = []
    for w in words:
        fmts = [ctx.rng.randrange(3) for _ in range(ctx.rng.choice([0, 1, 3, 3]))]
        ixfe = ctx.rng.choice([0, 0, 1, 2, 3, 65535])
        cases.append((w, ixfe, fmts, ctx.rng.randrange(2)))
        ctx.count("rk:" + ("int" if w & 2 else "float") + ("/100" if w & 1 else ""))
        ctx.nontrivial("rk%08x" % w)
    check_rk_batch(ctx, cases, "rk")
    for j, w in enumerate(words[:4]):
        ctx.sample({"rk_word": "0x%08x" % w, "expected": oracle_rk(w, 0, 0)})
    # wrong slice lengths: rk_num panics unless the slice has exactly 6 bytes
    lines = ["rl%d\tbiffrec\trk\t%s\t0\t0" % (n, hx(bytes(range(1, n + 1)))) for n in (0, 1, 2, 3, 5, 7, 8, 12)]
    impl, model = ctx.run_both(lines)
    for l in lines:
        lid = l.split("\t")[0]
        ctx.traces += 1
        ctx.count("rk:bad-length")
        if impl.get(lid) != model.get(lid):
            ctx.disagreements.append({"function": "rk_num", "case": l, "impl": impl.get(lid), "model": model.get(lid)})

def run_fdiv(ctx):
    """the driver instantiates fdiv100 with hardware division; the extracted Flocq binary64
    division (RKFloat.fdiv100_flocq) must give the same bits (NaN payloads aside)"""
    rng = ctx.rng
    vals = [f64_bits(float(v)) for v in INT_EDGES] + [f64_bits(d) for d in FLOAT_EDGES]
    for _ in range(ctx.scale(2500, 60000)):
        r = rng.random()
        if r < 0.4:
            vals.append(f64_bits(float(rng.randrange(-(1 << 29), 1 << 29))))
        elif r < 0.8:
            vals.append(rng.getrandbits(30) << 34)
        else:
            vals.append(rng.getrandbits(64))
    lines = ["d%d\tbiffrec\tfdiv\t%d" % (k, b) for k, b in enumerate(vals)]
    ans = ctx.run_model(lines)
    bad = 0
    for k, b in enumerate(vals):
        a = (ans.get("d%d" % k) or "").split(",")
        ctx.count("fdiv100:hardware-vs-flocq")
        if len(a) != 2 or not (a[0] == a[1] or (a[0].isdigit() and a[1].isdigit() and is_nan_bits(int(a[0])) and is_nan_bits(int(a[1])))):
            bad += 1
            ctx.disagreements.append({"function": "fdiv100 (OCaml hardware division vs extracted Flocq b64_div)",
                                      "case": lines[k], "impl": a[0] if a else None, "model": a[-1] if a else None})
    ctx.extra["fdiv100_crosschecked"] = len(vals)

def sweep_rk(ctx):
    """thorough: all integer payloads |v| < 2^20 with both flags; all 2^16 high halves and low
    halves of the word (the other half zero / 0xFFFF) under the four flag combinations"""
    def chunks():
        cur = []
        for v in range(-(1 << 20), 1 << 20):
            for x in (False, True):
                cur.append(rk_int(v, x))
            if len(cur) >= 400000:
                yield cur
                cur = []
        for h in range(1 << 16):
            for low in (0x0000, 0xFFFC):
                for fl in range(4):
                    cur.append((h << 16) | low | fl)
        for l in range(1 << 14):
            for high in (0x0000, 0xFFFF, 0x3FF0, 0xC059):
                for fl in range(4):
                    cur.append((high << 16) | (l << 2) | fl)
        yield cur
    n = 0
    for part in chunks():
        check_rk_batch(ctx, [(w, 0, [], 0) for w in part], "sw%d_" % n)
        n += 1
        ctx.count("rk:sweep", len(part))
    ctx.notes.append("thorough RK sweep: all integer payloads |v| < 2^20 x {plain, /100}; all 2^16 high halves x {low 0, low all-ones} x 4 flags; all 2^14 low halves x 4 high halves x 4 flags (a dense subset, not the full 2^32)")

# ------------------------------------------------------------------ B. cell record bodies
def cell_line(lid, typ, body, env):
    fm, d, st = env_args(env)
    return "%s\tbiffrec\tcell\t%d\t%s\t%s\t%s\t%s" % (lid, typ, hx(body), fm, d, st)

def expected_cell(c, env):
    """independent expectation for one generated cell description: [(r, c, canonical)]"""
    k = c["k"]
    f = fmt_code(env, c.get("xf", 0))
    if k == "number":
        return [(c["r"], c["c"], wrap("F", c["bits"], f, env["d1904"]))]
    if k == "rk":
        return [(c["r"], c["c"], oracle_rk(c["rk"], f, env["d1904"]))]
    if k == "mulrk":
        return [(c["r"], c["c"] + i, oracle_rk(w, fmt_code(env, xf), env["d1904"]))
                for i, (xf, w) in enumerate(c["rks"])]
    if k == "labelsst":
        s = env["strings"][c["isst"]] if c["isst"] < len(env["strings"]) else ""
        return [(c["r"], c["c"], "S" + s.encode("utf-8").hex())] if s else []
    if k == "label":
        return [(c["r"], c["c"], "S" + units_text(c["units"]).encode("utf-8").hex())]
    if k == "bool":
        return [(c["r"], c["c"], "B%d" % (1 if c["v"] else 0))]
    if k == "error":
        return [(c["r"], c["c"], "X%d" % ERR_CANON[c["code"]])]
    if k == "formula":
        ca = c["cached"]
        v = {"num": lambda: wrap("F", ca[1], f, env["d1904"]), "bool": lambda: "B%d" % (1 if ca[1] else 0),
             "err": lambda: "X%d" % ERR_CANON[ca[1]], "blank": lambda: "S",
             "str": lambda: "S" + units_text(list(ca[1]) + [u for fr, _ in c.get("cont", []) for u in fr]).encode("utf-8").hex()}[ca[0]]()
        return [(c["r"], c["c"], v)]
    return []

def units_text(units):
    b = b"".join(struct.pack("<H", u) for u in units)
    return b.decode("utf-16-le", "replace")

def rand_units(rng, maxlen=12, allow_wide=True):
    n = rng.choice([0, 1, 1, 2, 3, 5, maxlen])
    # 0x80 / 0x85 / 0x99 / 0x9F: C1 controls (a compressed string is Latin-1, not windows-1252);
    # 0xC3 0xA9, 0xC2 0xA3: Latin-1 text whose bytes spell well-formed UTF-8
    alpha = [0x41, 0x62, 0x7A, 0x20, 0xE9, 0xFF, 0x80, 0x85, 0x99, 0x9F, 0xC3, 0xA9, 0xC2, 0xA3] + \
            ([0x100, 0x4E2D, 0x20AC, 0xFEFF, 0xFFFE] if allow_wide else [])
    u = [rng.choice(alpha) for _ in range(n)]
    if allow_wide and rng.random() < 0.2 and n + 2 <= maxlen:
        u += [0xD83D, 0xDE00]                     # a surrogate pair
    return u

def rand_number_bits(rng):
    r = rng.random()
    if r < 0.3:
        return f64_bits(float(rng.choice(INT_EDGES + [3, 42, 1000, -7])))
    if r < 0.5:
        return f64_bits(rng.randrange(-10 ** 7, 10 ** 7) / 100.0)
    if r < 0.65:
        return f64_bits(rng.choice(FLOAT_EDGES))
    if r < 0.8:
        return (rng.getrandbits(30) << 34)
    b = rng.getrandbits(64)
    return b

def gen_cell(rng, env, r, c, kinds=None):
    """one random cell description (xlsgen format) at (r, c)"""
    xf = rng.choice([0, 0, 0, 1, 2, 3, len(env["fmts"]), 7])
    k = rng.choice(kinds or ["number", "number", "rk", "rk", "labelsst", "label", "bool", "error", "formula", "formula"])
    d = {"k": k, "r": r, "c": c, "xf": xf}
    if k == "number":
        d["bits"] = rand_number_bits(rng)
    elif k == "rk":
        bits = rand_number_bits(rng)
        forms = rk_forms_of(bits)
        d["rk"] = rng.choice(forms) if forms and rng.random() < 0.8 else rng.getrandbits(32)
    elif k == "labelsst":
        d["isst"] = rng.choice(list(range(len(env["strings"]))) + [len(env["strings"]), 4000000000, 65536, 65537, 0xFFFF0000]) if env["strings"] else rng.choice([0, 5, 65536])
    elif k == "label":
        u = rand_units(rng)
        d["units"] = u
        d["wide"] = True if any(x > 255 for x in u) else rng.random() < 0.5
    elif k == "bool":
        d["v"] = rng.random() < 0.5
    elif k == "error":
        d["code"] = rng.choice(ERRS)
    elif k == "formula":
        t = rng.choice(["num", "num", "bool", "err", "blank", "str", "str"])
        if t == "num":
            b = rand_number_bits(rng)
            while (b >> 48) == 0xFFFF:
                b = rand_number_bits(rng)
            d["cached"] = ("num", b)
        elif t == "bool":
            d["cached"] = ("bool", rng.random() < 0.5)
        elif t == "err":
            d["cached"] = ("err", rng.choice(ERRS))
        elif t == "blank":
            d["cached"] = ("blank",)
        else:
            u = rand_units(rng, 20)
            d["cached"] = ("str", u, True if any(x > 255 for x in u) else rng.random() < 0.5)
        d["rgce"] = rng.choice([xlsgen.PTG_INT_1, bytes([0x1E, 0x02, 0x00, 0x1E, 0x03, 0x00, 0x03]),
                                bytes([0x1F]) + struct.pack("<d", 1.5)])
        d["grbit"] = rng.choice([0, 2, 8])
    return d

def run_cells(ctx):
    rng = ctx.rng
    cases = []          # (typ, body, env, expected-or-None, label)
    n = ctx.scale(700, 12000)
    for _ in range(n):
        env = {"fmts": [rng.randrange(3) for _ in range(rng.choice([0, 2, 4]))], "d1904": rng.random() < 0.3,
               "strings": [units_text(rand_units(rng, 6)) for _ in range(rng.choice([0, 1, 3]))]}
        r = rng.choice([0, 1, 255, 256, 65535, rng.randrange(65536)])
        c = rng.choice([0, 1, 255, rng.randrange(256)])
        kind = rng.choice(["number", "rk", "mulrk", "labelsst", "label", "bool", "error"])
        if kind == "mulrk":
            k = rng.choice([1, 2, 3, 8])
            c = min(c, 256 - k)
            cell = {"k": "mulrk", "r": r, "c": c, "rks": [(rng.choice([0, 1, 2, 9]), rng.choice(
                rk_forms_of(rand_number_bits(rng)) or [rng.getrandbits(32)])) for _ in range(k)]}
        else:
            cell = gen_cell(rng, env, r, c, [kind])
        typ, body = xlsgen.cell_records(cell)[0]
        exp = "ok:" + ";".join("%d,%d=%s" % t for t in expected_cell(cell, env))
        cases.append((typ, body, env, exp, kind))
        # malformed variants of the same body
        m = rng.random()
        if m < 0.5:
            cut = rng.randrange(0, len(body))
            cases.append((typ, body[:cut], env, None, kind + ":truncated"))
        elif m < 0.65:
            cases.append((typ, body + bytes(rng.getrandbits(8) for _ in range(rng.choice([1, 2, 6]))), env, None, kind + ":overlong"))
        elif m < 0.9:
            b = bytearray(body)
            pos = rng.randrange(len(b))
            b[pos] = rng.choice([0, 1, 0xFF, rng.getrandbits(8)])
            cases.append((typ, bytes(b), env, None, kind + ":mutated"))
    # MULRK column arithmetic: col_last < col_first, wrap-around, length identity off by one
    env0 = {"fmts": [], "d1904": False, "strings": []}
    for cf, cl, nrk in [(5, 4, 1), (5, 3, 0), (0, 65535, 1), (65535, 0, 1), (3, 3, 1), (3, 4, 1), (3, 4, 3), (0, 255, 256),
                        (250, 255, 6), (65530, 65535, 6), (1, 0, 0), (0, 0, 0), (0, 65535, 0), (65535, 65535, 1)]:
        body = struct.pack("<HH", 7, cf) + b"".join(struct.pack("<HI", 0, rk_int(i)) for i in range(nrk)) + struct.pack("<H", cl)
        cases.append((0xBD, body, env0, None, "mulrk:columns"))
    # BOOLERR: every (value, fError) pair on a coarse grid, all 256 error codes
    for v in range(256):
        cases.append((0x205, struct.pack("<HHHBB", 1, 2, 0, v, 1), env0, None, "boolerr:code"))
    for v in (0, 1, 2, 255):
        for f in (0, 1, 2, 255):
            cases.append((0x205, struct.pack("<HHHBB", 1, 2, 0, v, f), env0, None, "boolerr:ferror"))
    for typ in (0x201, 0x6, 0x207, 0x200, 0):
        cases.append((typ, bytes(20), env0, None, "unsupported-type"))
    lines = [cell_line("c%d" % k, t, b, e) for k, (t, b, e, x, lab) in enumerate(cases)]
    impl, model = ctx.run_both(lines)
    for k, (t, b, e, exp, lab) in enumerate(cases):
        lid = "c%d" % k
        i, m = impl.get(lid), model.get(lid)
        ctx.traces += 1
        ctx.count("cell:" + lab)
        if exp is not None:
            ctx.nontrivial("cell%d:%s" % (t, b.hex()))
            if not same_cells(i, exp):
                ctx.violations.append({"case": lines[k], "expected": exp, "actual": i, "model": m,
                                       "what": "cell record 0x%04x (%s)" % (t, lab)})
                continue
        if not same_cells(i, m):
            ctx.disagreements.append({"function": "parse_cell_record", "case": lines[k], "impl": i, "model": m})
        if k < 2:
            ctx.sample({"record": "0x%04x" % t, "body": b.hex(), "impl": i})

def same_cells(a, b):
    if a == b:
        return True
    if not a or not b or not a.startswith("ok:") or not b.startswith("ok:"):
        return False
    ca, cb = a[3:].split(";"), b[3:].split(";")
    if len(ca) != len(cb):
        return False
    for x, y in zip(ca, cb):
        if x == y:
            continue
        px, _, vx = x.partition("=")
        py, _, vy = y.partition("=")
        if px != py or not same_value(vx, vy):
            return False
    return True

# ------------------------------------------------------------------ C. formula value, dimensions, framing
def run_small(ctx):
    rng = ctx.rng
    lines, labs = [], []
    def add(cmd, body, lab):
        lines.append("s%d\tbiffrec\t%s\t%s" % (len(lines), cmd, hx(body)))
        labs.append(lab)
    # FormulaValue: the slice patterns
    for b0 in (0, 1, 2, 3, 4, 0xFF):
        for b2 in (0, 1, 7, 0x2A, 0x2B, 0x2C, 0xFF):
            for tail in ((0xFF, 0xFF), (0xFF, 0xFE), (0, 0xFF), (0xF0, 0x3F)):
                add("fval", bytes([b0, rng.getrandbits(8), b2, 0, 0, 0, tail[0], tail[1]]), "fval:8")
    for e in range(256):
        add("fval", bytes([2, 0, e, 0, 0, 0, 0xFF, 0xFF]), "fval:err-code")
    for n in (0, 1, 2, 3, 4, 5, 6, 7, 9, 16):
        for b0 in (0, 1, 2, 3, 9):
            add("fval", bytes([b0] + [0xFF] * (n - 1)) if n else b"", "fval:len%d" % n)
            add("fval", bytes([b0] + [0] * (n - 1)) if n else b"", "fval:len%d" % n)
    for _ in range(ctx.scale(300, 5000)):
        add("fval", struct.pack("<Q", rand_number_bits(rng)), "fval:number")
    # DIMENSIONS
    edge = [0, 1, 2, 255, 256, 65535, 65536, 0xFFFFFFFF]
    for _ in range(ctx.scale(300, 5000)):
        if rng.random() < 0.5:
            add("dims", struct.pack("<IIHHH", rng.choice(edge), rng.choice(edge), rng.choice(edge) & 0xFFFF,
                                    rng.choice(edge) & 0xFFFF, 0), "dims:14")
        else:
            add("dims", struct.pack("<HHHHH", *[rng.choice(edge) & 0xFFFF for _ in range(4)], 0), "dims:10")
    for n in list(range(0, 16)) + [20]:
        add("dims", bytes(rng.getrandbits(8) for _ in range(n)), "dims:len%d" % n)
    # framing: well-framed streams with CONTINUE runs and zero-length records
    for _ in range(ctx.scale(250, 4000)):
        s = b""
        for _ in range(rng.randrange(0, 7)):
            t = rng.choice([0x3C, 0x3C, 0x0A, 0x203, 0xFC, 0, 0x3D, rng.getrandbits(16)])
            n = rng.choice([0, 0, 1, 4, 5, 9, 300])
            s += xlsgen.rec(t, bytes(rng.getrandbits(8) for _ in range(n)))
        add("recs", s, "recs:framed")
    model = ctx.run_model(lines)
    # the real iterator repeats its error item forever: only error-free streams go to the hook
    send = [l for k, l in enumerate(lines)
            if not labs[k].startswith("recs") or (model.get("s%d" % k) or "").startswith("ok")]
    impl = ctx.run_impl(send)
    for k, l in enumerate(lines):
        lid = "s%d" % k
        ctx.count(labs[k].split(":")[0] + ":" + labs[k].split(":")[1][:3])
        if l not in send:
            continue
        ctx.traces += 1
        i, m = impl.get(lid), model.get(lid)
        if labs[k].startswith("fval") and i and i.startswith("ok:F"):
            ok = m and m.startswith("ok:F") and same_value(i[3:], m[3:])
        else:
            ok = i == m
        if not ok:
            ctx.disagreements.append({"function": labs[k].split(":")[0], "case": l, "impl": i, "model": m})
        elif labs[k] in ("fval:8", "dims:14", "recs:framed"):
            ctx.nontrivial(l.split("\t", 2)[2])
    # truncated / trailing-garbage streams: model only (the hook cannot be called), counted
    bad = []
    for _ in range(ctx.scale(50, 500)):
        s = xlsgen.rec(0x203, bytes(14)) + xlsgen.rec(0x3C, bytes(5))
        cut = rng.randrange(1, len(s))
        bad.append("t%d\tbiffrec\trecs\t%s" % (len(bad), hx(s[:cut])))
    mm = ctx.run_model(bad)
    ctx.extra["framing_error_streams_model_only"] = sum(1 for v in mm.values() if v == "err")

# ------------------------------------------------------------------ D. generated files
def item_text(c):
    """the model driver's item language for one xlsgen cell description"""
    k = c["k"]
    def form(w):
        if w & 2:
            v = (w >> 2) & 0x3FFFFFFF
            if v >= 1 << 29:
                v -= 1 << 30
            return "i:%d:%d" % (v, w & 1)
        return "f:%d:%d" % (w >> 2, w & 1)
    def units(u):
        return ",".join(str(x) for x in u) or "-"
    head = "%d %d %d" % (c.get("r", 0), c.get("c", 0), c.get("xf", 0))
    if k == "number":
        return "N %s %d" % (head, c["bits"])
    if k == "rk":
        return "R %s %s" % (head, form(c["rk"]))
    if k == "mulrk":
        return "M %d %d %s" % (c["r"], c["c"], "|".join("%d/%s" % (xf, form(w)) for xf, w in c["rks"]))
    if k == "labelsst":
        return "S %s %d" % (head, c["isst"])
    if k == "label":
        return "L %s %d %s" % (head, 1 if c["wide"] else 0, units(c["units"]))
    if k == "bool":
        return "B %s %d" % (head, 1 if c["v"] else 0)
    if k == "error":
        return "E %s %d" % (head, ERRS.index(c["code"]))
    if k == "formula":
        ca = c["cached"]
        cs = {"num": lambda: "n:%d" % ca[1], "bool": lambda: "b:%d" % (1 if ca[1] else 0),
              "err": lambda: "e:%d" % ERRS.index(ca[1]), "blank": lambda: "k",
              "str": lambda: "s:%d:%s" % (1 if ca[2] else 0, units(ca[1])) +
                             "".join(":%d:%s" % (1 if w else 0, units(u)) for u, w in c.get("cont", []))}[ca[0]]()
        rgce = c.get("rgce", xlsgen.PTG_INT_1)
        between = "|".join("%d:%s" % (t, hx(b)) for t, b in c.get("between", [])) or "-"
        return "F %s %s %d %d %s %s" % (head, cs, c.get("grbit", 0), c.get("chn", 0),
                                        (struct.pack("<H", len(rgce)) + rgce).hex(), between)
    if k == "blank":
        return "O %d %s" % (0x0201, struct.pack("<HHH", c["r"], c["c"], c.get("xf", 0)).hex())
    if k == "raw":
        return "O %d %s" % (c["typ"], hx(c["body"]))
    if k == "sub":
        return "U %s %s" % (hx(c["bof"]), "|".join(":".join(["%d" % t, hx(b)] + [bytes(x).hex() for x in conts])
                                                  for t, b, conts in c["recs"]) or "-")
    if k == "merge":
        return "G %s" % ("/".join("%d,%d,%d,%d" % tuple(r) for r in c["regs"]) or "-")
    raise ValueError(k)

# (a BOF 0x0809 is not among them: inside a sheet it opens a nested substream, item kind "sub")
IGNORABLE = [0x0208, 0x023E, 0x001D, 0x00D7, 0x0055, 0x7FFF, 0x00FC, 0x013D, 0x00EC, 0x005D, 0x01B6]

def gen_logical(rng, env, small=False):
    """a random logical sheet: {(r, c): logical value}; values are
    ('num', bits) | ('sst', i) | ('label', units) | ('bool', b) | ('err', code) | ('fml', cached).
    small: keep everything near the origin (malformed substreams may place a cell at (0, 0),
    and the dense range between it and a far cell would be millions of cells)"""
    base_r = rng.choice([0, 0, 1, 7] if small else [0, 0, 1, 7, 65535 - 5, 32768, 999, 256])
    base_c = rng.choice([0, 0, 1, 3] if small else [0, 0, 1, 3, 250, 128])
    nr, nc = rng.randrange(1, 7), rng.randrange(1, 7)
    dens = rng.choice([0.2, 0.5, 0.9, 1.0])
    sheet = {}
    for i in range(nr):
        for j in range(nc):
            if rng.random() < dens:
                sheet[(min(base_r + i, 65535), min(base_c + j, 255))] = None
    if not small and rng.random() < 0.08:      # a far-away cell: tall or wide bounding box
        sheet[(min(base_r + rng.choice([300, 2000]), 65535), min(base_c + rng.choice([0, 5]), 255))] = None
    numeric_bias = rng.random() < 0.5
    for p in sheet:
        xf = rng.choice([0, 0, 0, 1, 2, 3, len(env["fmts"])])
        k = rng.choice(["num"] * (8 if numeric_bias else 3) + ["sst", "label", "bool", "err", "fml", "fml"])
        if k == "num":
            v = ("num", rand_number_bits(rng))
        elif k == "sst":
            v = ("sst", rng.randrange(0, len(env["strings"]) + 1))
            if rng.random() < 0.12:               # far outside the table (no cell), equal to a valid index mod 2^16
                v = ("sst", rng.choice([1, 2, 0xFFFF]) * 65536 + v[1])
        elif k == "label":
            v = ("label", rand_units(rng))
        elif k == "bool":
            v = ("bool", rng.random() < 0.5)
        elif k == "err":
            v = ("err", rng.choice(ERRS))
        else:
            v = ("fml", gen_cell(rng, env, 0, 0, ["formula"])["cached"])
        sheet[p] = (xf, v)
    return sheet

def frag_wide(rng, units):
    return True if any(u > 255 for u in units) else rng.random() < 0.5

def formula_layout(rng, cell, cont=True):
    """physical choices for one FORMULA cell (the logical value does not change):
    records between FORMULA and STRING ([MS-XLS] 2.1.7.20.5: Formula [Array / Table / ShrFmla /
    SUB] [String *Continue]) and CONTINUE cuts of a string result"""
    r, c = cell["r"], cell["c"]
    is_str = cell["cached"][0] == "str"
    if rng.random() < (0.55 if is_str else 0.25):
        kind = rng.choice(["shrfmla", "shrfmla", "shrfmla", "array", "array", "table", "other", "multi"])
        # the reference contains the cell; it need not start there (the first cell written of a
        # shared formula is usually, not always, the range's top-left corner)
        rf, cf = max(r - rng.choice([0, 0, 0, 1, 2]), 0), max(c - rng.choice([0, 0, 0, 1]), 0)
        rl, cl = min(r + rng.choice([0, 1, 3]), 65535), min(c + rng.choice([0, 0, 2]), 255)
        rg = rng.choice([xlsgen.PTG_INT_1, bytes([0x17, 2, 0, 0x61, 0x62]), bytes([0x1E, 2, 0, 0x1E, 3, 0, 0x03])])
        other = (rng.choice(IGNORABLE), bytes(rng.getrandbits(8) for _ in range(rng.choice([0, 2, 9]))))
        cell["between"] = {"shrfmla": [(0x04BC, xlsgen.shrfmla_body(rf, rl, cf, cl, rg))],
                           "array": [(0x0221, xlsgen.array_body(rf, rl, cf, cl, rg))],
                           "table": [(0x0236, xlsgen.table_body(rf, rl, cf, cl))],
                           "other": [other],
                           "multi": [(0x0221, xlsgen.array_body(rf, rl, cf, cl, rg)), other, (0x0201, struct.pack("<HHH", r, 255, 0))]}[kind]
        if kind != "other":
            cell["rgce"] = xlsgen.ptg_exp(rf, cf)
            cell["grbit"] = 8 if kind == "shrfmla" else cell.get("grbit", 0)
        cell["_between"] = kind
    if cont and is_str and rng.random() < 0.12:
        units = list(cell["cached"][1])
        ncut = rng.choice([1, 1, 2, 3])
        if rng.random() < 0.25:
            cuts = [len(units)] * ncut                  # CONTINUE records holding only their flag byte
        else:
            cuts = sorted(rng.randrange(0, len(units) + 1) for _ in range(ncut))
        parts = [units[a:b] for a, b in zip([0] + cuts, cuts + [len(units)])]
        cell["cached"] = ("str", parts[0], frag_wide(rng, parts[0]))
        cell["cont"] = [(p, frag_wide(rng, p)) for p in parts[1:]]
    return cell

def row_record(r, cf, cl):
    return {"k": "raw", "typ": 0x0208, "body": struct.pack("<HHHHHHI", r, cf, cl + 1, 255, 0, 0, 0x00000100)}

def choose_layout(rng, env, sheet, all_number=False, cont=True):
    """one legal physical layout of the logical sheet: list of xlsgen cell descriptions in row
    order, numbers as NUMBER or any RK form, RK neighbours grouped into MULRK runs at random"""
    cells = []
    rows = sorted(set(p[0] for p in sheet))
    if rng.random() < 0.15:          # row blocks in any order: legal, Range::from_sparse searches all bounds
        rng.shuffle(rows)
    for r in rows:
        cols = sorted(c for (rr, c) in sheet if rr == r)
        run = []           # pending RK-encoded neighbours
        def flush():
            while run:
                if len(run) == 1 and rng.random() < 0.7:
                    c0, xf, w = run.pop(0)
                    cells.append({"k": "rk", "r": r, "c": c0, "xf": xf, "rk": w})
                else:
                    n = rng.randrange(1, len(run) + 1)
                    part = [run.pop(0) for _ in range(n)]
                    cells.append({"k": "mulrk", "r": r, "c": part[0][0], "rks": [(xf, w) for _, xf, w in part]})
        for c in cols:
            xf, v = sheet[(r, c)]
            if v[0] == "num":
                forms = [] if all_number else rk_forms_of(v[1])
                if forms and rng.random() < 0.75:
                    if run and run[-1][0] + 1 != c:
                        flush()
                    run.append((c, xf, rng.choice(forms)))
                    continue
                flush()
                cells.append({"k": "number", "r": r, "c": c, "xf": xf, "bits": v[1]})
                continue
            flush()
            if v[0] == "sst":
                cells.append({"k": "labelsst", "r": r, "c": c, "xf": xf, "isst": v[1]})
            elif v[0] == "label":
                cells.append({"k": "label", "r": r, "c": c, "xf": xf, "units": v[1],
                              "wide": True if any(u > 255 for u in v[1]) else rng.random() < 0.5})
            elif v[0] == "bool":
                cells.append({"k": "bool", "r": r, "c": c, "xf": xf, "v": v[1]})
            elif v[0] == "err":
                cells.append({"k": "error", "r": r, "c": c, "xf": xf, "code": v[1]})
            else:
                ca = v[1]
                if ca[0] == "str":
                    ca = ("str", ca[1], True if any(u > 255 for u in ca[1]) else rng.random() < 0.5)
                cells.append(formula_layout(rng, {
                    "k": "formula", "r": r, "c": c, "xf": xf, "cached": ca,
                    "rgce": rng.choice([xlsgen.PTG_INT_1, bytes([0x1E, 0x02, 0x00, 0x1E, 0x03, 0x00, 0x03])]),
                    "grbit": rng.choice([0, 2])}, cont))
        flush()
    # ignorable records anywhere; with row_blocks the shape Excel writes: INDEX, then per block
    # the ROW records, the cells, DBCELL
    row_blocks = rng.random() < 0.4
    out = []
    if row_blocks and rows:
        out.append({"k": "raw", "typ": 0x020B, "body": struct.pack("<IIII", 0, min(rows), max(rows) + 1, 0) +
                    struct.pack("<I", rng.getrandbits(20))})
    last_row, block = None, 0
    for c in cells:
        if row_blocks and c["r"] != last_row:
            if last_row is not None and (block >= 2 or rng.random() < 0.3):
                out.append({"k": "raw", "typ": 0x00D7, "body": struct.pack("<I", rng.getrandbits(16)) +
                            b"".join(struct.pack("<H", rng.getrandbits(12)) for _ in range(block))})
                block = 0
            cols = [cc for (rr, cc) in sheet if rr == c["r"]]
            out.append(row_record(c["r"], min(cols), max(cols)))
            block += 1
            last_row = c["r"]
        if rng.random() < 0.15:
            t = rng.choice(IGNORABLE)
            out.append({"k": "raw", "typ": t, "body": bytes(rng.getrandbits(8) for _ in range(rng.choice([0, 4, 16])))})
        if rng.random() < 0.1:
            out.append({"k": "blank", "r": c["r"], "c": rng.randrange(256), "xf": 0})
        if rng.random() < 0.06:
            n, cf = rng.choice([2, 3, 5]), rng.randrange(200)
            out.append({"k": "raw", "typ": 0x00BE, "body": struct.pack("<HH", c["r"], cf) +
                        b"".join(struct.pack("<H", rng.randrange(3)) for _ in range(n)) + struct.pack("<H", cf + n - 1)})
        out.append(c)
    if row_blocks and block:
        out.append({"k": "raw", "typ": 0x00D7, "body": struct.pack("<I", rng.getrandbits(16)) +
                    b"".join(struct.pack("<H", rng.getrandbits(12)) for _ in range(block))})
    # nested substreams ([MS-XLS] 2.1.7.20.5 OBJECTS: one chart substream per embedded chart object, its
    # series cache addressed like cells of the sheet).  Mostly where Excel puts them - MsoDrawing, OBJ,
    # BOF ... EOF behind the cell table, MERGECELLS and more records behind -, sometimes anywhere between
    # the cell records, sometimes several; the cache records collide with cells of the sheet
    k = rng.random()
    if k < 0.35:
        ps = sorted(sheet)
        for _ in range(rng.choice([1, 1, 1, 2, 3])):
            sub = xlsgen.chart_sub(rng, ps)
            if rng.random() < 0.7:
                out += [{"k": "raw", "typ": 0x00EC, "body": bytes(rng.getrandbits(8) for _ in range(8))},
                        {"k": "raw", "typ": 0x005D, "body": bytes(26)}, sub]
            else:
                out.insert(rng.randrange(len(out) + 1), sub)
    if rng.random() < 0.25:
        ps = sorted(sheet) or [(0, 0)]
        regs = []
        for _ in range(rng.choice([0, 1, 1, 2, 5])):
            r0, c0 = rng.choice(ps)
            regs.append((r0, min(r0 + rng.randrange(3), 65535), c0, min(c0 + rng.randrange(3), 255)))
        at = len(out) if rng.random() < 0.8 else rng.randrange(len(out) + 1)
        out.insert(at, {"k": "merge", "regs": regs})
        if rng.random() < 0.5:
            out.append({"k": "raw", "typ": 0x023E, "body": bytes(18)})      # WINDOW2 after the objects
    return out

def logical_expected(sheet, env):
    """the property's reading of a logical sheet: {(r, c): canonical value} of the non-empty cells"""
    exp = {}
    for (r, c), (xf, v) in sheet.items():
        f = fmt_code(env, xf)
        if v[0] == "num":
            exp[(r, c)] = ("num", wrap("F", v[1], f, env["d1904"]))
        elif v[0] == "sst":
            s = env["strings"][v[1]] if v[1] < len(env["strings"]) else ""
            if s:
                exp[(r, c)] = ("val", "S" + s.encode("utf-8").hex())
        elif v[0] == "label":
            exp[(r, c)] = ("val", "S" + units_text(v[1]).encode("utf-8").hex())
        elif v[0] == "bool":
            exp[(r, c)] = ("val", "B%d" % (1 if v[1] else 0))
        elif v[0] == "err":
            exp[(r, c)] = ("val", "X%d" % ERR_CANON[v[1]])
        else:
            exp[(r, c)] = ("val", expected_cell({"k": "formula", "r": r, "c": c, "xf": xf, "cached": v[1]}, env)[0][2])
    return exp

def parse_range(txt):
    """R[sr,sc,er,ec|h,w|i:j:V,...] -> (bounds, {(abs r, abs c): V}) ; R[-] -> (None, {})"""
    if txt == "R[-]":
        return None, {}
    if not txt or not txt.startswith("R["):
        return txt, None
    body = txt[2:-1]
    b, hw, cells = body.split("|", 2)
    sr, sc, er, ec = [int(x) for x in b.split(",")]
    h, w = [int(x) for x in hw.split(",")]
    d = {}
    if cells:
        for t in cells.split(","):
            i, j, v = t.split(":", 2)
            d[(sr + int(i), sc + int(j))] = v
    if (h, w) != (er - sr + 1, ec - sc + 1):
        return "bad-size", None
    return (sr, sc, er, ec), d

def value_matches(kind, exp, got):
    """exp under the property: exact for non-numbers; numerically equal for numbers (an Int k
    is the double k; a DateTime keeps its serial)"""
    if got is None:
        return False
    if kind == "val":
        return exp == got
    if same_value(exp, got):
        return True
    if exp[0] == "D" or got[0] == "D":
        return False
    if got[0] not in "IF":
        return False
    a, b = numeric(exp), numeric(got)
    if isinstance(a, Fraction) and isinstance(b, Fraction) and a == b:
        # zeros: an RK integer 0 cannot stand for -0.0 (the generator never encodes -0.0 so)
        return True
    return a == b and a in ("nan",)

def check_range_against(exp, txt):
    """None when the range text satisfies the property for the expected cells, else a reason"""
    bounds, got = parse_range(txt)
    if got is None:
        return "no range: %s" % txt
    if not exp:
        return None if bounds is None else "expected an empty range"
    rs = [p[0] for p in exp]
    cs = [p[1] for p in exp]
    want = (min(rs), min(cs), max(rs), max(cs))
    if bounds != want:
        return "bounds %s, expected %s" % (bounds, want)
    for p, (kind, v) in exp.items():
        if not value_matches(kind, v, got.get(p)):
            return "cell %s: expected %s, got %s" % (p, v, got.get(p))
    extra = [p for p in got if p not in exp]
    if extra:
        return "unexpected non-empty cell %s = %s" % (extra[0], got[extra[0]])
    return None

def wb_for(env, sheets):
    """xlsgen workbook around the sheets, realising env (formats, date system, strings)"""
    xfs, formats = [], {}
    for k, f in enumerate(env["fmts"]):
        style = env["fmt_style"][k]
        if f == 0:
            xfs.append(0 if style == 0 else 2)
        elif f == 1:
            if style == 0:
                xfs.append(14)
            else:
                formats[164] = "yyyy\\-mm\\-dd hh:mm"
                xfs.append(164)
        else:
            if style == 0:
                xfs.append(46)
            else:
                formats[165] = "[h]:mm:ss"
                xfs.append(165)
    wb = {"date1904": env["d1904"], "xfs": xfs, "formats": formats, "sheets": sheets}
    if env["strings"] or env["force_sst"]:
        # the physical SST: plain strings, or entries with an explicit layout (rich runs, ExtRst,
        # CONTINUE cuts) denoting the same logical strings
        wb["sst"] = env.get("sst_entries") or env["strings"]
    return wb

def gen_env(rng):
    nf = rng.choice([0, 1, 3, 4])
    return {"fmts": [rng.randrange(3) for _ in range(nf)], "fmt_style": [rng.randrange(2) for _ in range(nf)],
            "d1904": rng.random() < 0.3, "force_sst": rng.random() < 0.3,
            "strings": [units_text([u for u in rand_units(rng, 6) if not 0xD800 <= u < 0xE000])
                        for _ in range(rng.choice([0, 1, 2, 4]))]}

def dims_choice(rng, cells):
    r = rng.random()
    if r < 0.35:
        return "exact", None
    if r < 0.45:
        return "none", None
    ps = [p for c in cells for p in xlsgen.cell_positions(c) if c["k"] != "blank"]
    if r < 0.55 or not ps:
        if rng.random() < 0.5:
            return ("narrow", 0, 0, 0, 0), "D 0 0 0 0 0"
        return (0, 0, 0, 0), "D 1 0 0 0 0"
    rf, rl = min(p[0] for p in ps), max(p[0] for p in ps) + 1
    cf, cl = min(p[1] for p in ps), max(p[1] for p in ps) + 1
    if r < 0.75 and rl <= 65535:           # the 10-byte form (rows as u16), exact
        return ("narrow", rf, rl, cf, cl), "D 0 %d %d %d %d" % (rf, rl, cf, cl)
    # declared larger than used (legal; only a reservation hint), either width
    rl2, cl2 = min(rl + rng.choice([0, 3]), 65536), min(cl + rng.choice([0, 2]), 256)
    if rl2 <= 65535 and rng.random() < 0.5:
        return ("narrow", rf, rl2, cf, cl2), "D 0 %d %d %d %d" % (rf, rl2, cf, cl2)
    return (rf, rl2, cf, cl2), "D 1 %d %d %d %d" % (rf, rl2, cf, cl2)

# ------------------------------------------------------------------ shared strings spilling into CONTINUE records
def sst_units(rng, n, kind):
    if kind == "ascii":
        return [rng.randrange(0x20, 0x7F) for _ in range(n)]
    if kind == "latin1":
        return [rng.choice([rng.randrange(0x20, 0x7F), rng.randrange(0xA0, 0x100)]) for _ in range(n)]
    if kind == "bmp":
        return [rng.choice([rng.randrange(0x20, 0x7F), rng.randrange(0x100, 0x800), rng.randrange(0x4E00, 0x9FFF),
                            0xFEFF, 0xFFFE, 0x20AC]) for _ in range(n)]
    us = []                                        # astral: valid surrogate pairs among BMP characters
    while len(us) < n:
        if rng.random() < 0.5 and len(us) + 2 <= n:
            cp = rng.choice([0x1F600, 0x10000, 0x10FFFF, rng.randrange(0x10000, 0x110000)]) - 0x10000
            us += [0xD800 + (cp >> 10), 0xDC00 + (cp & 0x3FF)]
        else:
            us.append(rng.choice([rng.randrange(0x20, 0x7F), rng.randrange(0x100, 0x3000)]))
    return us

def sst_entry(rng, units, cutty):
    """one SST entry with a random legal physical layout (xlsgen dict form)"""
    n = len(units)
    e = {"units": units, "wide": True if rng.random() < 0.4 else None}
    if rng.random() < 0.45:
        e["runs"] = [(min(rng.randrange(0, n + 1), 65535), rng.randrange(0, 12)) for _ in range(rng.choice([0, 1, 2, 3, 6, 20]))]
    if rng.random() < 0.4:
        if rng.random() < 0.5:
            e["ext"] = xlsgen.phonetic_ext(sst_units(rng, rng.choice([0, 1, 3, 8]), rng.choice(["ascii", "bmp"])))
        else:
            e["ext"] = bytes(rng.getrandbits(8) for _ in range(rng.choice([0, 1, 4, 12, 60])))
    if cutty:
        if n and rng.random() < 0.6:
            ps = sorted(rng.randrange(0, n) for _ in range(rng.choice([1, 1, 2, 3])))
            if rng.random() < 0.15:
                ps.append(ps[0]); ps.sort()
            pairs = [i for i in range(1, n) if 0xD800 <= units[i - 1] < 0xDC00 and 0xDC00 <= units[i] < 0xE000]
            if pairs and rng.random() < 0.5:
                ps.append(rng.choice(pairs)); ps.sort()
            e["cuts"] = [(p, rng.choice([None, None, True])) for p in ps]
        tl = 4 * len(e.get("runs") or []) + len(e.get("ext") or b"")
        if tl and rng.random() < 0.75:
            ts = sorted(rng.randrange(0, tl) for _ in range(rng.choice([1, 1, 2, 4])))
            if rng.random() < 0.15:
                ts.append(ts[0]); ts.sort()
            e["tail_cuts"] = ts
        e["cut_before"] = rng.random() < 0.25
    return e

def gen_sst_case(rng):
    """(env, [logical sheet]): a workbook whose shared strings have rich / phonetic parts and whose SST
    is cut by CONTINUE records; every string is referenced by LABELSST cells"""
    env = gen_env(rng)
    big = rng.random() < 0.12
    tbl = []
    for i in range(rng.choice([2, 3, 4, 6, 9])):
        kind = rng.choice(["ascii", "latin1", "bmp", "astral"])
        n = rng.choice([0, 1, 2, 3, 5, 9, 20, 60])
        if big and i in (0, 2):
            n = rng.choice([3000, 5000, 8300])           # the 8224-byte limit forces the cuts
        tbl.append(sst_units(rng, n, kind))
    cutty = rng.random() < 0.85
    env["strings"] = [units_text(u) for u in tbl]
    env["sst_entries"] = [sst_entry(rng, u, cutty) for u in tbl]
    env["sst_cut"] = None if big else rng.choice([None, None, 16, 24, 40, 100, 1000])
    env["force_sst"] = True
    sheets = []
    for si in range(rng.choice([1, 1, 2])):
        logical = {}
        r0, c0 = rng.choice([0, 0, 3, 65535 - len(tbl) - 3]), rng.choice([0, 0, 2, 250])
        order = list(range(len(tbl)))
        if si:
            rng.shuffle(order)
        for j, ix in enumerate(order):                   # one LABELSST cell per string, in or out of table order
            logical[(r0 + j, c0 + (j % 3))] = (rng.choice([0, 0, 1]), ("sst", ix))
        for _ in range(rng.randrange(0, 4)):             # plus a few cells of the other kinds around them
            p = (r0 + rng.randrange(0, len(tbl) + 2), c0 + 3 + rng.randrange(0, 2))
            logical[p] = (0, rng.choice([("num", rand_number_bits(rng)), ("label", rand_units(rng)), ("bool", True),
                                         ("sst", rng.randrange(0, len(tbl) + 2))]))
        sheets.append(logical)
    return env, sheets

def run_sst_files(ctx, n_files, tag):
    run_files(ctx, n_files, tag, make=gen_sst_case)

def sst_boundary_tables():
    """deterministic tables: a rich string (two FormatRuns), a phonetic string (ExtRst), then plain,
    empty and non-ASCII strings; ONE cut per file, at every byte offset of rgRun, at every byte
    offset of ExtRst, before every character (both packings after the cut), before every string;
    then every cut kind at once"""
    ext = xlsgen.phonetic_ext("\u30cb\u30db\u30f3")
    def base():
        return [{"units": xlsgen.units_of("Hello"), "runs": [(0, 1), (3, 2)]},
                {"units": xlsgen.units_of("\u65e5\u672c"), "ext": ext},
                {"units": xlsgen.units_of("plain")}, {"units": []},
                {"units": xlsgen.units_of("\u00e9\u20ac\U0001F600!"), "runs": [(1, 3)], "ext": bytes([1, 0, 2, 0, 9, 9])}]
    out = []
    for t in range(8):
        b = base(); b[0]["tail_cuts"] = [t]; out.append(("runs@%d" % t, b))
    for t in range(len(ext)):
        b = base(); b[1]["tail_cuts"] = [t]; out.append(("ext@%d" % t, b))
    for t in range(10):
        b = base(); b[4]["tail_cuts"] = [t]; out.append(("runs+ext@%d" % t, b))
    for k in (0, 1, 2, 4):
        for i in range(len(base()[k]["units"])):
            for w in (None, True):
                b = base(); b[k]["cuts"] = [(i, w)]; out.append(("chars%d@%d" % (k, i), b))
    for k in range(1, 5):
        b = base(); b[k]["cut_before"] = True; out.append(("before%d" % k, b))
    b = base()
    b[0].update({"cuts": [(2, None), (2, True)], "tail_cuts": [0, 4, 4]}); b[1].update({"cut_before": True, "tail_cuts": [3, 20]})
    b[2]["cut_before"] = True; b[4].update({"cuts": [(3, True)], "tail_cuts": [2, 5]})
    out.append(("all-kinds", b))
    return out

def run_sst_corpus(ctx):
    tables = sst_boundary_tables()
    it = iter(tables)
    def make(rng):
        lab, entries = next(it)
        env = {"fmts": [], "fmt_style": [], "d1904": False, "force_sst": True, "sst_cut": None,
               "strings": [units_text(e["units"]) for e in entries], "sst_entries": entries}
        logical = {(j, j % 2): (0, ("sst", j)) for j in range(len(entries))}
        logical[(len(entries), 0)] = (0, ("sst", 0))
        return env, [logical]
    run_files(ctx, len(tables), "ksst", make=make)

def run_files(ctx, n_files, tag, make=None):
    rng = ctx.rng
    os.makedirs(TMP, exist_ok=True)
    enc_lines, file_lines, meta, sst_note = [], [], [], {}
    for k in range(n_files):
        if make is not None:
            env, logicals = make(rng)
            nsheets = len(logicals)
        else:
            env = gen_env(rng)
            nsheets = rng.choice([1, 1, 2, 3])
            logicals = None
        sheets, descr = [], []
        for si in range(nsheets):
            logical = logicals[si] if logicals is not None else gen_logical(rng, env)
            cells = choose_layout(rng, env, logical, all_number=(rng.random() < 0.1))
            dspec, ditem = dims_choice(rng, cells)
            name = "S%d" % si
            sh = {"name": name, "cells": cells, "dimensions": dspec}
            if rng.random() < 0.05:
                # MERGECELLS written by xlsgen's own "merges" key: such a sheet goes to the model as bytes
                ps = sorted(logical)
                if ps:
                    sh["merges"] = [(ps[0][0], min(ps[0][0] + 1, 65535), ps[0][1], min(ps[0][1] + 1, 255))]
            sheets.append(sh)
            descr.append((name, logical, cells, dspec, ditem, sh.get("merges")))
        wb = wb_for(env, sheets)
        opts = {"pad_to": rng.choice([0, 0, 4096, 5000]), "cfb": {"version": rng.choice([3, 3, 4])}}
        if env.get("sst_entries"):
            stats = {}
            opts["sst_cut"], opts["sst_stats"] = env.get("sst_cut"), stats
        stream, offs = xlsgen.workbook_stream(wb, opts, rng)
        if env.get("sst_entries"):
            ctx.count("sst:files")
            for kk, v in stats.items():
                ctx.count("sst:cut-" + kk if kk != "records" else "sst:records", v)
                if kk != "records":
                    ctx.count("sst:files-with-cut-" + kk)
            for e in env["sst_entries"]:
                if e.get("runs") is not None: ctx.count("sst:rich-strings")
                if e.get("ext") is not None: ctx.count("sst:ext-strings")
        path = os.path.join(TMP, "%s%d.xls" % (tag, k))
        with open(path, "wb") as f:
            f.write(xlsgen.cfb_wrap([("Workbook", stream)], rng=rng, **opts["cfb"]))
        fm, d, st = env_args(env)
        for si, (name, logical, cells, dspec, ditem, merges) in enumerate(descr):
            sub = stream[offs[si]:]
            # the items of the Coq layout: DIMENSIONS (if written), then the cells, ignorable records,
            # nested substreams ("sub") and MERGECELLS records ("merge") in the order of the stream
            items = []
            if dspec == "exact":
                ps = [p for c in cells for p in xlsgen.cell_positions(c) if c["k"] != "blank"]
                if ps:
                    items.append("D 1 %d %d %d %d" % (min(p[0] for p in ps), max(p[0] for p in ps) + 1,
                                                     min(p[1] for p in ps), max(p[1] for p in ps) + 1))
                else:
                    items.append("D 1 0 0 0 0")
            elif ditem:
                items.append(ditem)
            items += [item_text(c) for c in cells]
            sheet_bytes = xlsgen.sheet_stream(sheets[si])
            trailer = sub[len(sheet_bytes):]
            lid = "%s%d_%d" % (tag, k, si)
            if merges:
                enc_lines.append("%s\tbiffrec\tsheet\t%s\t%s\t%s\t%s" % (lid, hx(sub), fm, d, st))
            else:
                enc_lines.append("%s\tbiffrec\tenc\t%s\t%s\t%s\t%s\t%s" % (lid, fm, d, st, hx(trailer), ";".join(items) or "-"))
            file_lines.append("%s\tbiffrec\tfile\t%s\t%s" % (lid, path, name.encode().hex()))
            if env.get("sst_entries"):          # the physical SST of the file, for the report of a failing case
                sst_note[lid] = "\t#sst(max record body %s): %s" % (env.get("sst_cut") or 8224, sst_descr(env["sst_entries"])[:3000])
            meta.append((lid, env, logical, cells, sub, bool(merges)))
    model = ctx.run_model(enc_lines)
    impl = ctx.run_impl(file_lines)
    run_sheet_records(ctx, meta, tag)
    for n, (lid, env, logical, cells, sub, raw) in enumerate(meta):
        i, m = impl.get(lid), model.get(lid)
        ctx.traces += 1
        exp = logical_expected(logical, env)
        for c in cells:
            ctx.count("file:" + c["k"])
            if c["k"] == "raw":
                ctx.count("file:raw:0x%04x" % c["typ"] if c["typ"] in (0x0208, 0x00D7, 0x020B, 0x00BE) else "file:raw:other")
            if c["k"] == "sub":
                pos = set(logical)
                hit = [t for t, b, _ in c["recs"] if t in (0x0203, 0x0204, 0x0205, 0x027E, 0x00FD, 0x0006) and len(b) >= 4
                       and struct.unpack("<HH", b[:4]) in pos]
                ctx.count("sub:with-colliding-cell-record" if hit else "sub:without-collision")
                ctx.count("sub:records", len(c["recs"]))
                if any(t == 0x0809 for t, _, _ in c["recs"]): ctx.count("sub:nested-deeper")
                if any(conts for _, _, conts in c["recs"]): ctx.count("sub:with-continue")
                if any(t in (0x00E5, 0x0006, 0x0207, 0x04BC) for t, _, _ in c["recs"]): ctx.count("sub:with-formula-or-mergecells")
                if cells.index(c) < max([n2 for n2, c2 in enumerate(cells) if xlsgen.cell_positions(c2)] + [-1]):
                    ctx.count("sub:before-later-cells")
            if c["k"] == "formula":
                res = "string" if c["cached"][0] == "str" else "value"
                ctx.count("layout:formula-%s:%s" % (res, "between-" + c["_between"] if c.get("between") else "adjacent"))
                if c.get("cont"):
                    ctx.count("layout:string-continue:" + ("chars" if any(u for u, _ in c["cont"]) else "flag-only"))
        ctx.count("file:sheets")
        if raw:
            mm, spec_coq = m, None
        else:
            f = (m or "").split("#")
            if len(f) != 6:
                ctx.disagreements.append({"function": "driver", "case": enc_lines[n][:400], "impl": i, "model": m})
                continue
            enc_hex, wf, srt, known, spec_coq, mm = f
            spec_coq, mm = spec_coq[len("spec="):], mm[len("model="):]
            if enc_hex != sub.hex():
                ctx.disagreements.append({"function": "encoder(E vs xlsgen)", "case": enc_lines[n][:600],
                                          "impl": sub.hex()[:400], "model": enc_hex[:400]})
                continue
            ctx.count("layout:rows-" + ("ascending" if srt == "1" else "any-order"))
            if wf != "1":
                ctx.disagreements.append({"function": "legal(generator)", "case": enc_lines[n][:600], "impl": i, "model": m[:200]})
                continue
            if known != "-":
                ctx.disagreements.append({"function": "known_C02 (no class is registered)", "case": enc_lines[n][:600],
                                          "impl": "-", "model": known})
                continue
            why = check_range_against(exp, spec_coq)
            if why:
                ctx.disagreements.append({"function": "spec(Coq range_of vs oracle): " + why, "case": enc_lines[n][:600],
                                          "impl": i, "model": spec_coq[:300]})
                continue
        why = check_range_against(exp, i)
        if why:
            ctx.violations.append({"case": file_lines[n] + sst_note.get(lid, "") + "\t#items: " + enc_lines[n][-1500:], "expected": spec_coq or str(sorted(exp.items()))[:600],
                                   "actual": (i or "")[:600], "model": (mm or "")[:600], "what": why})
            continue
        if not same_range(i, mm):
            ctx.disagreements.append({"function": "sheet_model", "case": file_lines[n] + sst_note.get(lid, "") + "\t#" + enc_lines[n][-1500:],
                                      "impl": (i or "")[:600], "model": (mm or "")[:600]})
            continue
        if exp:
            ctx.nontrivial(sub.hex())
        if n < 2:
            ctx.sample({"file_case": enc_lines[n][:300], "impl": (i or "")[:200]})

def sst_descr(entries):
    out = []
    for e in entries:
        u = e["units"]
        out.append("{%s%s%s%s%s%s}" % (
            ("units=" + "".join("%04x" % x for x in u[:24]) + ("..(%d)" % len(u) if len(u) > 24 else "")),
            " runs=%d" % len(e["runs"]) if e.get("runs") is not None else "",
            " ext=%d" % len(e["ext"]) if e.get("ext") is not None else "",
            " cuts=%s" % [p for p, _ in e["cuts"]] if e.get("cuts") else "",
            " tail_cuts=%s" % e["tail_cuts"] if e.get("tail_cuts") else "",
            " cut_before" if e.get("cut_before") else ""))
    return " ".join(out)

def run_sheet_records(ctx, meta, tag):
    """the generated substreams through the RecordIter hook (framing of FORMULA / between / STRING /
    CONTINUE runs as the sheet loop sees them) against the model's all_records"""
    if not ctx.hooks:
        return
    lines = ["%sr_%s\tbiffrec\trecs\t%s" % (tag, lid, hx(sub)) for (lid, env, logical, cells, sub, raw) in meta]
    model = ctx.run_model(lines)
    send = [l for l in lines if (model.get(l.split("\t", 1)[0]) or "").startswith("ok")]
    impl = ctx.run_impl(send)
    for l in send:
        lid = l.split("\t", 1)[0]
        ctx.traces += 1
        ctx.count("recs:sheet-substream")
        if impl.get(lid) != model.get(lid):
            ctx.disagreements.append({"function": "recs(sheet substream)", "case": l[:1500],
                                      "impl": (impl.get(lid) or "")[:400], "model": (model.get(lid) or "")[:400]})

def same_range(a, b):
    if a == b:
        return True
    ba, da = parse_range(a or "")
    bb, db = parse_range(b or "")
    if da is None or db is None or ba != bb or set(da) != set(db):
        return False
    return all(same_value(da[p], db[p]) for p in da)

def run_equiv(ctx, n, tag):
    """metamorphic: the same logical sheet written all-NUMBER and under random RK/MULRK choices
    reads numerically equal at every cell (implementation only; the theorem is encodings_equivalent)"""
    rng = ctx.rng
    os.makedirs(TMP, exist_ok=True)
    lines, metas = [], []
    for k in range(n):
        env = gen_env(rng)
        logical = gen_logical(rng, env)
        for v, alln in (("a", True), ("b", False), ("c", False)):
            cells = choose_layout(rng, env, logical, all_number=alln)
            wb = wb_for(env, [{"name": "S", "cells": cells}])
            path = os.path.join(TMP, "%s%d%s.xls" % (tag, k, v))
            with open(path, "wb") as f:
                f.write(xlsgen.write_xls(wb, {}, rng))
            lines.append("%s%d%s\tbiffrec\tfile\t%s\t%s" % (tag, k, v, path, b"S".hex()))
        metas.append((k, env, logical))
    impl = ctx.run_impl(lines)
    for k, env, logical in metas:
        ra = impl.get("%s%da" % (tag, k))
        exp = logical_expected(logical, env)
        ctx.traces += 1
        for v in "bc":
            rb = impl.get("%s%d%s" % (tag, k, v))
            ba, da = parse_range(ra or "")
            bb, db = parse_range(rb or "")
            ok = da is not None and db is not None and ba == bb and set(da) == set(db) and all(
                value_matches("num" if da[p][0] in "IFD" else "val", da[p], db[p]) for p in da)
            if not ok:
                ctx.violations.append({"case": [l for l in lines if l.startswith("%s%d" % (tag, k))],
                                       "expected": (ra or "")[:600], "actual": (rb or "")[:600], "model": None,
                                       "what": "NUMBER-only and RK/MULRK encodings of one sheet read differently"})
                break
        ctx.count("equiv:sheets")

def dims_reservation(b):
    """cells a DIMENSIONS body makes the reader reserve (0 when it errors or panics first)"""
    if len(b) == 10:
        rf, rl, cf, cl = struct.unpack("<HHHH", b[:8])
    elif len(b) == 14:
        rf, rl, cf, cl = struct.unpack("<IIHH", b[:12])
    else:
        return 0
    if rl >= 1 and cl >= 1:
        if rl - 1 < rf or cl - 1 < cf:
            return 0
        return (rl - rf) * (cl - cf)
    return 1

def run_malformed_files(ctx, n, tag):
    """raw substreams outside [legal]: truncation at any byte, rows out of order, inverted or huge
    DIMENSIONS, CONTINUE records, missing EOF, trailing garbage.  Model and implementation must
    agree on the outcome class and on the range when there is one."""
    rng = ctx.rng
    os.makedirs(TMP, exist_ok=True)
    mlines, flines, labs = [], [], []
    for k in range(n):
        env = gen_env(rng)
        logical = gen_logical(rng, env, small=True)
        cells = choose_layout(rng, env, logical)
        recs = []
        for c in cells:
            recs += xlsgen.cell_records(c)
        kind = rng.choice(["truncate", "unsorted", "dims", "continue", "noeof", "garbage", "mergecells", "dup", "formula-short",
                           "string-absent", "stray-string", "string-after-two-formulas",
                           "nest-open", "nest-open", "nest-extra-eof", "nest-bof-continue"])
        pre = []
        if kind == "unsorted" and len(recs) > 1:
            rng.shuffle(recs)
        elif kind == "dims":
            e = [0, 1, 5, 65535, 65536, 70000]
            while True:
                if rng.random() < 0.5:
                    b = struct.pack("<IIHHH", rng.choice(e), rng.choice(e), rng.choice(e) & 0xFFFF, rng.choice([0, 1, 3, 256]), 0)
                else:
                    b = bytes(rng.getrandbits(8) for _ in range(rng.choice([0, 4, 9, 10, 12, 14, 15])))
                if dims_reservation(b) <= 1 << 20:      # allocation is not modelled: keep the reserve small
                    break
            pre = [(0x200, b)]
        elif kind == "continue":
            pos = rng.randrange(len(recs) + 1)
            recs[pos:pos] = [(0x3C, bytes(rng.getrandbits(8) for _ in range(rng.choice([0, 1, 7]))))
                             for _ in range(rng.choice([1, 2]))]
        elif kind == "mergecells":
            cnt = rng.choice([0, 1, 2, 3])
            body = struct.pack("<H", cnt) + bytes(8 * max(0, cnt + rng.choice([-1, 0, 0, 1])))
            recs.append((0xE5, body if rng.random() < 0.8 else body[:rng.randrange(len(body) + 1)]))
        elif kind == "dup" and recs:
            recs.append(rng.choice(recs))
        elif kind in ("string-absent", "string-after-two-formulas"):
            # FormulaValue says "string" but no STRING follows (no cell; the position stays pending);
            # in the second form a numeric FORMULA comes next and then one STRING: it lands there
            r = max([0] + [p[0] for p in logical])
            recs += xlsgen.cell_records({"k": "formula", "r": r, "c": rng.randrange(0, 8), "cached": ("str", [0x61], False),
                                         "no_string": True, "between": rng.choice([[], [(0x04BC, xlsgen.shrfmla_body(r, r, 0, 0))]])})
            if kind == "string-after-two-formulas":
                recs += xlsgen.cell_records({"k": "formula", "r": r, "c": rng.randrange(0, 8), "cached": rng.choice([("num", f64_bits(2.5)), ("bool", True)])})
                recs.append((0x0207, xlsgen.xl_unicode([0x7A, 0x7A], rng.random() < 0.5)))
            elif rng.random() < 0.5:
                recs += xlsgen.cell_records({"k": "bool", "r": r, "c": 9, "v": True})
        elif kind == "stray-string":
            # a STRING record with no string FORMULA before it: goes to the last FORMULA's cell, or (0, 0)
            pos = rng.randrange(len(recs) + 1)
            recs[pos:pos] = [(0x0207, xlsgen.xl_unicode(rand_units(rng, 5, False), False))]
            if rng.random() < 0.3:
                recs[pos + 1:pos + 1] = [(0x003C, bytes([0, 0x62]))]
        elif kind in ("nest-open", "nest-extra-eof", "nest-bof-continue"):
            # unbalanced nesting: a nested BOF that is never closed (the rest of the sheet is inside it), a
            # nested substream closed twice (the second EOF ends the sheet), a BOF followed by CONTINUE
            sub = xlsgen.cell_records(xlsgen.chart_sub(rng, sorted(logical)))
            pos = rng.randrange(len(recs) + 1)
            if kind == "nest-open":
                sub = sub[:-1] if rng.random() < 0.7 else [r for r in sub if r[0] != 0x0A]
            elif kind == "nest-extra-eof":
                sub = sub + [(0x0A, b"")]
            else:
                sub = [sub[0], (0x3C, bytes([1, 2, 3]))] + sub[1:]
            recs[pos:pos] = sub
        elif kind == "formula-short":
            # below 20 bytes: Err.  20 or 21 bytes reach parse_formula with fewer than the two bytes
            # of cce: an Err there since the C06 hardening (it panicked), turned into the formula text;
            # the value cell is read normally
            recs.append((0x6, bytes(rng.choice([0, 5, 19, 20, 21])) if rng.random() < 0.7 else bytes(22)))
        body = xlsgen.bof(0x10) + b"".join(xlsgen.rec(t, b) for t, b in pre + recs)
        if kind not in ("noeof",):
            body += xlsgen.rec(0x0A)
        if kind == "truncate":
            body = body[:rng.randrange(len(xlsgen.bof(0x10)), len(body))]
        if kind == "garbage":
            body += bytes(rng.getrandbits(8) for _ in range(rng.choice([1, 3, 4, 5, 9])))
        # globals around it
        wb = wb_for(env, [{"name": "S", "records": []}])
        stream, offs = xlsgen.workbook_stream(wb, {}, rng)
        stream = stream[:offs[0]] + body
        path = os.path.join(TMP, "%s%d.xls" % (tag, k))
        with open(path, "wb") as f:
            f.write(xlsgen.cfb_wrap([("Workbook", stream)], rng=rng))
        fm, d, st = env_args(env)
        lid = "%s%d" % (tag, k)
        mlines.append("%s\tbiffrec\tsheet\t%s\t%s\t%s\t%s" % (lid, hx(body), fm, d, st))
        flines.append("%s\tbiffrec\tfile\t%s\t%s" % (lid, path, b"S".hex()))
        labs.append(kind)
    model = ctx.run_model(mlines)
    impl = ctx.run_impl(flines)
    for k in range(n):
        lid = "%s%d" % (tag, k)
        i, m = impl.get(lid), model.get(lid)
        ctx.traces += 1
        ctx.count("malformed:" + labs[k])
        ctx.count("malformed-outcome:" + (i if i in ("err", "panic", "alloc") else "range"))
        if not same_range(i, m):
            ctx.disagreements.append({"function": "sheet_model(malformed:%s)" % labs[k], "case": mlines[k][:1500],
                                      "impl": (i or "")[:500], "model": (m or "")[:500]})

CORPUS_FILES = [
    # (label, cells) — boundary positions, the repaired empty-string class, every RK form of 7 and of 1.23
    ("corners", [{"k": "bool", "r": 0, "c": 0, "v": True}, {"k": "number", "r": 0, "c": 255, "bits": f64_bits(2.5)},
                 {"k": "rk", "r": 300, "c": 0, "rk": rk_int(-1)}, {"k": "error", "r": 300, "c": 255, "code": 0x2A}]),
    ("last-row", [{"k": "mulrk", "r": 65535, "c": 253, "rks": [(0, rk_int(-(1 << 29))), (0, rk_int((1 << 29) - 1, True)), (0, rk_float(f64_bits(1.0) >> 34))]}]),
    ("empty-label", [{"k": "number", "r": 0, "c": 0, "bits": 0}, {"k": "label", "r": 1, "c": 2, "units": [], "wide": False}]),
    ("empty-string-result", [{"k": "formula", "r": 2, "c": 1, "cached": ("str", [], True)},
                             {"k": "formula", "r": 2, "c": 2, "cached": ("str", [], False)},
                             {"k": "label", "r": 3, "c": 0, "units": [], "wide": True}]),
    ("seven", [{"k": "number", "r": 1, "c": 0, "bits": f64_bits(7.0)}] +
              [{"k": "rk", "r": 1, "c": 1 + n, "rk": w} for n, w in enumerate(rk_forms_of(f64_bits(7.0)))]),
    ("one-twenty-three", [{"k": "number", "r": 1, "c": 0, "bits": f64_bits(1.23)}] +
                         [{"k": "rk", "r": 1, "c": 1 + n, "rk": w} for n, w in enumerate(rk_forms_of(f64_bits(1.23)))]),
    ("bom-strings", [{"k": "label", "r": 0, "c": 0, "units": [0xFEFF, 0x41], "wide": True},
                     {"k": "formula", "r": 0, "c": 1, "cached": ("str", [0xFFFE, 0x42], True)}]),
    ("empty-sheet", []),
    # FORMULA, SHRFMLA, STRING (first cell of a filled-down shared text formula); FORMULA, STRING (second
    # cell); FORMULA, ARRAY, STRING (array anchor returning text); FORMULA (number), TABLE; FORMULA, ARRAY,
    # DBCELL, BLANK, STRING
    ("shared-formula", [
        {"k": "formula", "r": 2, "c": 0, "cached": ("str", xlsgen.units_of("shared-a"), False), "rgce": xlsgen.ptg_exp(2, 0), "grbit": 8,
         "between": [(0x04BC, xlsgen.shrfmla_body(2, 3, 0, 0, bytes([0x17, 1, 0, 0x61])))]},
        {"k": "formula", "r": 3, "c": 0, "cached": ("str", xlsgen.units_of("shared-b"), False), "rgce": xlsgen.ptg_exp(2, 0), "grbit": 8},
        {"k": "formula", "r": 4, "c": 2, "cached": ("str", xlsgen.units_of("array"), False), "rgce": xlsgen.ptg_exp(4, 2),
         "between": [(0x0221, xlsgen.array_body(4, 4, 2, 2))]},
        {"k": "formula", "r": 5, "c": 1, "cached": ("num", f64_bits(3.0)), "rgce": xlsgen.ptg_exp(5, 1),
         "between": [(0x0236, xlsgen.table_body(5, 6, 1, 2))]},
        {"k": "formula", "r": 6, "c": 3, "cached": ("str", [0x20AC], True), "rgce": xlsgen.ptg_exp(6, 3),
         "between": [(0x0221, xlsgen.array_body(6, 6, 3, 3)), (0x00D7, bytes(6)), (0x0201, struct.pack("<HHH", 6, 2, 0))]}]),
    ("row-blocks", [
        {"k": "raw", "typ": 0x020B, "body": struct.pack("<IIIII", 0, 1, 3, 0, 1234)},
        {"k": "raw", "typ": 0x0208, "body": struct.pack("<HHHHHHI", 1, 0, 4, 255, 0, 0, 0x100)},
        {"k": "raw", "typ": 0x0208, "body": struct.pack("<HHHHHHI", 2, 1, 6, 255, 0, 0, 0x100)},
        {"k": "number", "r": 1, "c": 0, "bits": f64_bits(1.5)},
        {"k": "raw", "typ": 0x00BE, "body": struct.pack("<HHHHHH", 1, 1, 0, 0, 0, 3)},
        {"k": "rk", "r": 2, "c": 1, "rk": rk_int(42)}, {"k": "blank", "r": 2, "c": 2},
        {"k": "mulrk", "r": 2, "c": 3, "rks": [(0, rk_int(1)), (0, rk_int(250, True))]},
        {"k": "raw", "typ": 0x00D7, "body": struct.pack("<IHH", 100, 20, 30)}]),
    # CONTINUE records holding only their flag byte: nothing is lost
    ("string-continue-flag-only", [{"k": "formula", "r": 1, "c": 1, "cached": ("str", [0x61, 0x62], False), "cont": [([], False), ([], True)]}]),
    # the former known class StringContinue: "ab" in STRING, "c€" in CONTINUE
    ("string-continue", [{"k": "formula", "r": 1, "c": 1, "cached": ("str", [0x61, 0x62], False), "cont": [([0x63, 0x20AC], True)],
                          "between": [(0x04BC, xlsgen.shrfmla_body(1, 2, 1, 1))], "rgce": xlsgen.ptg_exp(1, 1), "grbit": 8}]),
    # the same where the cut is forced: =REPT("x",9000), 8220 characters fill the STRING record
    ("string-continue-long", [{"k": "formula", "r": 0, "c": 0, "cached": ("str", [0x78] * 8220, False), "cont": [([0x78] * 780, False)]},
                              {"k": "number", "r": 1, "c": 0, "bits": f64_bits(9000.0)}]),
    # the former defect XLS-2 (notes/AUDIT2.md 3.2; repaired by "fix: records of a chart substream nested in an xls
    # worksheet ..."): a worksheet with an embedded chart.  The chart substream's series cache is addressed (point,
    # series) = like A1, A2 of the sheet; MERGECELLS and a later cell follow the chart
    ("embedded-chart", [
        {"k": "label", "r": 0, "c": 0, "units": xlsgen.units_of("Name"), "wide": False},
        {"k": "label", "r": 0, "c": 1, "units": xlsgen.units_of("Val"), "wide": False},
        {"k": "label", "r": 1, "c": 0, "units": [0x61], "wide": False}, {"k": "number", "r": 1, "c": 1, "bits": f64_bits(10.0)},
        {"k": "label", "r": 2, "c": 0, "units": [0x62], "wide": False}, {"k": "number", "r": 2, "c": 1, "bits": f64_bits(20.0)},
        {"k": "raw", "typ": 0x00EC, "body": bytes(8)}, {"k": "raw", "typ": 0x005D, "body": bytes(26)},
        {"k": "sub", "bof": xlsgen.bof_body(0x0020), "recs": [
            (0x1001, struct.pack("<H", 0), []), (0x1002, struct.pack("<iiii", 0, 0, 100, 100), []), (0x1033, b"", []), (0x1034, b"", []),
            (0x0200, struct.pack("<IIHHH", 0, 2, 0, 2, 0), []), (0x1065, struct.pack("<H", 1), []),
            (0x0203, struct.pack("<HHHd", 0, 0, 0, 10.0), []), (0x0203, struct.pack("<HHHd", 1, 0, 0, 20.0), []),
            (0x1065, struct.pack("<H", 2), []),
            (0x0204, struct.pack("<HHH", 0, 0, 0) + xlsgen.xl_unicode([0x61], False), []),
            (0x0204, struct.pack("<HHH", 1, 0, 0) + xlsgen.xl_unicode([0x62], False), []),
            (0x1065, struct.pack("<H", 3), [])]},
        {"k": "raw", "typ": 0x023E, "body": struct.pack("<HHHHIHHI", 0x06B6, 0, 0, 64, 0, 0, 0, 0)},
        {"k": "merge", "regs": [(4, 5, 0, 1)]},
        {"k": "bool", "r": 3, "c": 1, "v": True}]),
    # a second chart on the same sheet, the first one holding a further BOF ... EOF pair, FORMULA + STRING, MERGECELLS
    # and a record with CONTINUE records; a cell between the two charts
    ("two-charts-nested", [
        {"k": "number", "r": 0, "c": 0, "bits": f64_bits(1.0)},
        {"k": "sub", "bof": xlsgen.bof_body(0x0020), "recs": [
            (0x0203, struct.pack("<HHHd", 0, 0, 0, 99.0), []),
            (0x0809, xlsgen.bof_body(0x0020), [bytes([7])]), (0x027E, struct.pack("<HHHI", 0, 0, 0, rk_int(5)), []), (0x000A, b"", []),
            (0x0006, struct.pack("<HHH", 0, 0, 0) + xlsgen.formula_value(("str", [0x78], False)) + struct.pack("<HI", 0, 0) + struct.pack("<H", 3) + xlsgen.PTG_INT_1, []),
            (0x0207, xlsgen.xl_unicode([0x78], False), []),
            (0x00E5, struct.pack("<HHHHH", 1, 0, 1, 0, 1), []),
            (0x00EC, bytes(5), [bytes([1, 2]), bytes([3])])]},
        {"k": "bool", "r": 1, "c": 0, "v": False},
        {"k": "sub", "bof": b"", "recs": []},
        {"k": "sub", "bof": xlsgen.bof_body(0x0020), "recs": [(0x0205, struct.pack("<HHHBB", 1, 0, 0, 1, 0), [])]},
        {"k": "rk", "r": 2, "c": 0, "rk": rk_int(3)}]),
]


def run_corpus(ctx):
    os.makedirs(TMP, exist_ok=True)
    env = {"fmts": [0, 1, 2], "fmt_style": [0, 0, 1], "d1904": False, "force_sst": True, "strings": ["abc", "", "é中"]}
    enc_lines, file_lines, exps = [], [], []
    for lab, cells in CORPUS_FILES:
        for c in cells:
            c.setdefault("xf", 0)
        wb = wb_for(env, [{"name": "S", "cells": cells}])
        stream, offs = xlsgen.workbook_stream(wb, {}, ctx.rng)
        path = os.path.join(TMP, "corpus_%s.xls" % lab)
        with open(path, "wb") as f:
            f.write(xlsgen.cfb_wrap([("Workbook", stream)]))
        fm, d, st = env_args(env)
        ps = [p for c in cells for p in xlsgen.cell_positions(c) if c["k"] != "blank"]
        dim = "D 1 %d %d %d %d" % ((min(p[0] for p in ps), max(p[0] for p in ps) + 1, min(p[1] for p in ps),
                                    max(p[1] for p in ps) + 1) if ps else (0, 0, 0, 0))
        enc_lines.append("k_%s\tbiffrec\tenc\t%s\t%s\t%s\t-\t%s" % (lab, fm, d, st, ";".join([dim] + [item_text(c) for c in cells])))
        file_lines.append("k_%s\tbiffrec\tfile\t%s\t%s" % (lab, path, b"S".hex()))
        exp = {}
        for c in cells:
            for (r, cc, v) in expected_cell(c, env):
                exp[(r, cc)] = ("num" if c["k"] in ("number", "rk", "mulrk") else "val", v)
        exps.append((exp, stream[offs[0]:]))
    model = ctx.run_model(enc_lines)
    impl = ctx.run_impl(file_lines)
    for n, (lab, cells) in enumerate(CORPUS_FILES):
        lid = "k_" + lab
        i, m = impl.get(lid), model.get(lid)
        ctx.traces += 1
        ctx.count("corpus")
        f = (m or "").split("#")
        exp, sub = exps[n]
        if len(f) != 6 or f[0] != sub.hex():
            ctx.disagreements.append({"function": "encoder(E vs xlsgen)", "case": enc_lines[n], "impl": sub.hex()[:300], "model": (m or "")[:300]})
            continue
        why = check_range_against(exp, i)
        if why:
            ctx.violations.append({"case": file_lines[n] + "\t#" + enc_lines[n], "expected": f[4][5:], "actual": i,
                                   "model": f[5][6:], "what": "corpus %s: %s" % (lab, why)})
        elif not same_range(i, f[5][6:]) or f[1] != "1":
            ctx.disagreements.append({"function": "sheet_model", "case": enc_lines[n], "impl": i, "model": m[-400:]})
        else:
            ctx.nontrivial(sub.hex())

def keep_failing_files(ctx, limit=6):
    """generated files named by the first violations / disagreements are copied next to the
    replays (the temp directory is emptied at the end of a run) and the cases re-pointed"""
    import re, shutil
    dst = os.path.join(vlib.OUTROOT, "replays", "C02-files")
    kept = 0
    for rec in ctx.violations + ctx.disagreements:
        cases = rec.get("case")
        one = isinstance(cases, str)
        out = []
        for c in ([cases] if one else (cases or [])):
            for path in re.findall(re.escape(TMP) + r"/[A-Za-z0-9_.\-]+\.xls", c or ""):
                if kept < limit and os.path.exists(path):
                    os.makedirs(dst, exist_ok=True)
                    shutil.copy(path, dst)
                    kept += 1
                if os.path.exists(os.path.join(dst, os.path.basename(path))):
                    c = c.replace(path, os.path.join(dst, os.path.basename(path)))
            out.append(c)
        rec["case"] = out[0] if one else out

def cleanup(ctx=None):
    if ctx is not None:
        keep_failing_files(ctx)
    try:
        for f in os.listdir(TMP):
            os.remove(os.path.join(TMP, f))
    except OSError:
        pass

def run(ctx):
    if not ctx.hooks:
        ctx.notes.append("hooks unavailable: only the file-level cases ran")
    run_corpus(ctx)
    run_sst_corpus(ctx)
    if ctx.hooks:
        run_rk(ctx)
        run_cells(ctx)
        run_small(ctx)
    run_fdiv(ctx)
    run_files(ctx, ctx.scale(350, 6000), "f")
    run_sst_files(ctx, ctx.scale(220, 4000), "t")
    run_equiv(ctx, ctx.scale(120, 2000), "q")
    run_malformed_files(ctx, ctx.scale(400, 6000), "m")
    if ctx.tier == "thorough" and ctx.hooks:
        sweep_rk(ctx)
    # whole files: container x globals x SST x sheets composed (XlsFile.v), real reader vs model vs logical workbook
    import wholegen
    wholegen.run_whole(ctx)
    cleanup(ctx)
def search(ctx):
    run_files(ctx, ctx.scale(3000, 20000), "sf")
    run_sst_files(ctx, ctx.scale(600, 4000), "st")
    run_equiv(ctx, ctx.scale(600, 4000), "sq")
    if ctx.hooks:
        words = rk_words(ctx, ctx.scale(60000, 400000))
        check_rk_batch(ctx, [(w, 0, [], 0) for w in words], "srk")
        run_cells(ctx)
    cleanup(ctx)

def replay(ctx, rep):
    case = rep.get("case")
    if isinstance(case, list):
        case = case[0]
    line = case.split("\t#")[0]
    print("replaying:", line[:300])
    lid = line.split("\t", 1)[0]
    if "\tfile\t" in line:
        path = line.split("\t")[3]
        if not os.path.exists(path):
            print("the generated file is gone; re-run ./check C02 with the same VERIF_SEED to regenerate it")
            return 2
        impl = ctx.run_impl([line])
        print("impl :", impl.get(lid))
        print("expected:", rep.get("expected"))
        print("model:", rep.get("model"))
        return 0 if same_range(impl.get(lid), rep.get("expected")) else 1
    impl, model = ctx.run_both([line])
    print("impl :", impl.get(lid))
    print("model:", model.get(lid))
    print("expected:", rep.get("expected"))
    return 0 if same_value(impl.get(lid), rep.get("expected")) or same_cells(impl.get(lid), rep.get("expected")) else 1
