(* Property C18 — VBA modules are extracted byte-exact from the compressed project.
   This file contains only the property theorems (closed by [exact]), [Check] pins of the main
   statements, non-vacuity examples and [Print Assumptions].
   Model, spec and encoder: Ovba.v (compression), OvbaDir.v (dir stream, project);
   proofs: Ovba_proofs.v, OvbaDir_proofs.v. *)
From Calamine Require Import Prelude Ovba Ovba_proofs OvbaDir OvbaDir_proofs.
Open Scope N_scope.

(* Decompression inverts every valid compressed container: any list of valid chunks (raw chunks
   and token chunks mixing literal and copy tokens within the format's limits, any number of
   4096-byte chunks) written by the MS-OVBA container writer is decompressed by the model of
   cfb::decompress_stream to exactly the bytes the tokens mean.  No class of valid containers is
   excepted any more ([known_C18] is constantly [None]). *)
Theorem C18_decompress_inverts_encode :
  forall cs : list chunk,
    Forall valid_chunk cs -> known_C18 cs = None ->
    decompress (ovba_encode cs) = Ok (concat (map sem_chunk cs)).
Proof. exact decompress_encode. Qed.

(* the same with the fuel stated: any fuel not below the container length suffices … *)
Theorem C18_decompress_inverts_encode_fuel :
  forall (cs : list chunk) (fuel : nat),
    Forall valid_chunk cs -> known_C18 cs = None ->
    (length (ovba_encode cs) <= fuel)%nat ->
    decompress_fuel fuel (ovba_encode cs) = Ok (sem cs).
Proof. exact decompress_encode_fuel. Qed.

(* … and on EVERY input (malformed ones included) the fuel [decompress] uses is enough *)
Theorem C18_decompress_never_out_of_fuel :
  forall s : list N, decompress s <> OutOfFuel.
Proof. exact decompress_no_fuel. Qed.

(* the encoder really emits bytes, so the containers of the main theorem are byte strings *)
Theorem C18_encoder_emits_bytes :
  forall cs : list chunk, Forall valid_chunk cs -> Forall (fun b => b < 256) (ovba_encode cs).
Proof. exact encode_bytes. Qed.

(* copy tokens: at every position of a chunk the code's field extraction inverts MS-OVBA's
   packing, for every offset and length the format allows there *)
Theorem C18_copy_token_codec :
  forall pos off len : N,
    1 <= pos <= 4096 -> 1 <= off <= pos -> 3 <= len <= max_len pos ->
    pack pos off len < 65536 /\
    copy_token_fields pos (pack pos off len) = Ok (len, off).
Proof. exact copy_token_codec. Qed.

(* the bit count found by the code's search through POWER_2 is MS-OVBA's
   max(ceil(log2(position)), 4), powers of two included, as long as the search succeeds at all *)
Theorem C18_bit_count_is_msovba :
  forall d : N, d <= 32768 -> bit_count_of d = Some (spec_bit_count d).
Proof. exact bit_count_of_spec. Qed.

(* the copy loop through the 4096-byte scratch buffer equals the byte-by-byte copy, overlapping
   source and destination included *)
Theorem C18_overlap_copy_is_bytewise :
  forall (l : list N) (off len : N),
    1 <= off <= N.of_nat (length l) -> off <= 4096 -> 1 <= len ->
    (do (len', res1) <- copy_loop (N.to_nat len) len off (vec_of l); copy_tail len' off res1)
    = Ok (vec_of (copy_bytes (N.to_nat len) (N.to_nat off) l)).
Proof. exact overlap_copy_is_bytewise. Qed.

(* a module's raw content is the decompression of its stream from the recorded text offset,
   whatever precedes the container in the stream *)
Theorem C18_module_from_offset :
  forall (pcode : list N) (cs : list chunk),
    Forall valid_chunk cs -> known_C18 cs = None ->
    module_content (pcode ++ ovba_encode cs) (N.of_nat (length pcode)) = Ok (sem cs).
Proof. exact module_content_roundtrip. Qed.

(* the dir stream: for every project description whose fields fit their size fields, written
   record by record as MS-OVBA 2.3.4.2 prescribes (optional PROJECTCOMPATVERSION; references of
   the three kinds, REFERENCECONTROL with or without REFERENCEORIGINAL and extended name; modules
   with optional read-only / private records), the three passes of vba.rs return the code page,
   the references with their names (description and path as the libid texts say) and the modules
   with name, stream name and text offset — for every code-page decoder.  Excepted (known
   class 1): descriptions in which some REFERENCE lacks its optional NameRecord. *)
Theorem C18_dir_roundtrip :
  forall (decode : N -> list N -> list N) (p : proj) (refs : list reference),
    valid_projb decode p = true -> known_C18_dir p = None ->
    expected_refs decode (p_codepage p) (p_refs p) = Some refs ->
    parse_dir decode (encode_dir p)
    = Ok (p_codepage p, refs, map (expected_mod decode (p_codepage p)) (p_mods p)).
Proof. exact dir_roundtrip. Qed.

(* the whole project: dir stream under ANY valid compression, every module stream = any
   performance cache of [offset] bytes followed by ANY valid compression of its source:
   VbaProject::from_cfb returns the references and, module by module, the decoded name with
   exactly the bytes its tokens mean *)
Theorem C18_vba_project_roundtrip :
  forall (decode : N -> list N -> list N) (p : proj) (dir_chunks : list chunk)
         (mbs : list (mod_spec * mod_body)) (refs : list reference),
    valid_projb decode p = true -> known_C18_dir p = None ->
    expected_refs decode (p_codepage p) (p_refs p) = Some refs ->
    Forall valid_chunk dir_chunks -> known_C18 dir_chunks = None ->
    sem dir_chunks = encode_dir p ->
    p_mods p = map fst mbs ->
    Forall body_ok mbs ->
    NoDup (map fst (project_streams decode p dir_chunks mbs)) ->
    vba_project decode (project_streams decode p dir_chunks mbs)
    = Ok (mkproject (p_codepage p) refs
            (map (fun mb => (decode (p_codepage p) (ms_name (fst mb)), sem (mb_chunks (snd mb))))
                 mbs)).
Proof. exact vba_project_roundtrip. Qed.

(* known class 1, witness: two registered references, the second without NameRecord: the code
   lists one reference, named after the first and described by the libid of the second *)
Theorem C18_refuted_nameless_reference :
  exists (p : proj) (refs : list reference),
    valid_projb dec_id p = true /\ known_C18_dir p = Some 1 /\
    expected_refs dec_id (p_codepage p) (p_refs p) = Some refs /\
    parse_dir dec_id (encode_dir p)
    <> Ok (p_codepage p, refs, map (expected_mod dec_id (p_codepage p)) (p_mods p)) /\
    parse_dir dec_id (encode_dir p)
    = Ok (1252, [mkref [115; 116; 100] [70; 111; 111] [67; 58; 92; 115; 46; 116; 108; 98]], []).
Proof. exact refuted_nameless_reference. Qed.

(* the fuel used by the loops of the project reader is enough on every container, malformed
   ones included: the model never answers OutOfFuel *)
Theorem C18_vba_project_never_out_of_fuel :
  forall (decode : N -> list N -> list N) (streams : list (list N * list N)),
    vba_project decode streams <> OutOfFuel.
Proof. exact vba_project_no_fuel. Qed.

(* get_module_raw finds every module under its name when the names are distinct (BTreeMap) *)
Theorem C18_module_lookup :
  forall (ms : list (list N * list N)) (n c : list N),
    NoDup (map fst ms) -> In (n, c) ms -> get_module_raw ms n = Some c.
Proof. exact get_module_raw_in. Qed.

(* the libid text "…#path#description": description = after the last '#', path = between the
   last two; no '#' at all is the LibId error *)
Theorem C18_libid_split :
  forall a path desc : list N, ~ In 35 path -> ~ In 35 desc ->
    rsplit2 (a ++ 35 :: path ++ 35 :: desc) = Some (desc, path).
Proof. exact rsplit2_spec. Qed.
Theorem C18_libid_no_hash :
  forall l : list N, ~ In 35 l -> rsplit2 l = None.
Proof. exact rsplit2_no_hash. Qed.

(* non-vacuity: raw chunk, a chunk of exactly 8 tokens followed by others, overlapping copies,
   chunks reaching exactly 4096 bytes, a short final chunk *)
Example C18_decompress_nonvacuous :
  Forall valid_chunk example_chunks /\ known_C18 example_chunks = None.
Proof. exact example_valid. Qed.
Example C18_example_runs_nonvacuous :
  decompress (ovba_encode example_chunks) = Ok (sem example_chunks) /\
  length (sem example_chunks) = N.to_nat (20 + 4096 + 4096 + 4096 + 9).
Proof. exact example_decompress. Qed.
Example C18_codec_nonvacuous :
  pack 17 17 2050 = 34815 /\ max_len 17 = 2050 /\ copy_token_fields 17 34815 = Ok (2050, 17) /\
  pack 16 16 4098 = 65535 /\ max_len 16 = 4098 /\ copy_token_fields 16 65535 = Ok (4098, 16).
Proof. exact example_codec. Qed.
Example C18_overlap_nonvacuous :
  copy_bytes 7 2 [120; 121] = [120; 121; 120; 121; 120; 121; 120; 121; 120].
Proof. exact example_overlap. Qed.

Example C18_project_nonvacuous :
  valid_projb dec_id ex_proj = true /\ known_C18_dir ex_proj = None /\
  (exists refs, expected_refs dec_id 1252 (p_refs ex_proj) = Some refs /\ length refs = 3%nat) /\
  Forall valid_chunk ex_dir_chunks /\ sem ex_dir_chunks = encode_dir ex_proj /\
  p_mods ex_proj = map fst ex_bodies /\ Forall body_ok ex_bodies /\
  NoDup (map fst (project_streams dec_id ex_proj ex_dir_chunks ex_bodies)).
Proof. exact ex_project_valid. Qed.

Check C18_decompress_inverts_encode :
  forall cs : list chunk,
    Forall valid_chunk cs -> known_C18 cs = None ->
    decompress (ovba_encode cs) = Ok (concat (map sem_chunk cs)).
Check C18_copy_token_codec :
  forall pos off len : N,
    1 <= pos <= 4096 -> 1 <= off <= pos -> 3 <= len <= max_len pos ->
    pack pos off len < 65536 /\ copy_token_fields pos (pack pos off len) = Ok (len, off).
Check C18_decompress_never_out_of_fuel : forall s : list N, decompress s <> OutOfFuel.

Print Assumptions C18_decompress_inverts_encode.
Print Assumptions C18_decompress_inverts_encode_fuel.
Print Assumptions C18_decompress_never_out_of_fuel.
Print Assumptions C18_encoder_emits_bytes.
Print Assumptions C18_copy_token_codec.
Print Assumptions C18_bit_count_is_msovba.
Print Assumptions C18_overlap_copy_is_bytewise.
Print Assumptions C18_module_from_offset.
Print Assumptions C18_dir_roundtrip.
Print Assumptions C18_vba_project_roundtrip.
Print Assumptions C18_module_lookup.
Print Assumptions C18_libid_split.
Print Assumptions C18_libid_no_hash.
Print Assumptions C18_refuted_nameless_reference.
Print Assumptions C18_vba_project_never_out_of_fuel.
