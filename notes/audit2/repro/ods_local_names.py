#!/usr/bin/env python3
"""ods with a sheet-scoped name: LibreOffice writes table:named-expressions as the first child of
the table:table the name belongs to (ODF 1.2 part 1, 9.1.2); the global ones follow the tables.
defined_names lists only the global one."""
import sys; sys.path.insert(0, '/tmp/ag/audit2'); sys.path.insert(0, '/tmp/ag/audit2/repro')
from vhrun import vh, hx
from odslib import write_ods
body = ('<table:table table:name="S1"><table:named-expressions><table:named-range table:name="loc" '
        'table:base-cell-address="$S1.$A$1" table:cell-range-address="$S1.$A$1:.$B$1"/></table:named-expressions>'
        '<table:table-row><table:table-cell office:value-type="string"><text:p>a</text:p></table:table-cell></table:table-row></table:table>'
        '<table:named-expressions><table:named-range table:name="glob" table:base-cell-address="$S1.$A$1" '
        'table:cell-range-address="$S1.$A$1"/></table:named-expressions>')
out = vh('ods', write_ods('ods_local_names.ods', body), ['names'])
print(out, ' = ', [tuple(bytes.fromhex(x).decode() for x in p.split('=')) for p in out.split(',') if p])
