#!/usr/bin/env python3
"""xls worksheet with an embedded chart: [MS-XLS] 2.1.7.20.5 worksheet substream
   ... Dimensions [CELLTABLE] OBJECTS ... *WINDOW ... *MergeCells ... EOF, where
   OBJECTS = *(MsoDrawing *(TEXTOBJECT / OBJ / CHART)) and CHART = BOF(dt=0x0020) CHARTSHEETCONTENT EOF,
   CHARTSHEETCONTENT ending in SERIESDATA = Dimensions 3(SIIndex *(Number / BoolErr / Blank / Label)).
   This is what Excel 97-2003 writes for every sheet that carries a chart object."""
import sys, struct
sys.path.insert(0, '/verif/tools')
import xlsgen as g
OUT = '/tmp/ag/audit2/repro/out/xls_embedded_chart.xls'
def head(r, c, xf=0): return struct.pack('<HHH', r, c, xf)
def label(r, c, s): return (0x0204, head(r, c) + g.xl_unicode(g.units_of(s), False))
def number(r, c, v): return (0x0203, head(r, c) + struct.pack('<d', v))
cells = [label(0, 0, 'Name'), label(0, 1, 'Val'), label(1, 0, 'a'), number(1, 1, 10.0),
         label(2, 0, 'b'), number(2, 1, 20.0)]
chart = [
    (0x0809, struct.pack('<HHHHII', 0x0600, 0x0020, 0x0DBB, 0x07CC, 0, 0x0306)),  # BOF, dt = chart
    (0x1001, struct.pack('<H', 0)),                          # Units
    (0x1002, struct.pack('<iiii', 0, 0, 100, 100)),          # Chart
    (0x1033, b''), (0x1034, b''),                            # Begin / End
    (0x0200, struct.pack('<IIHHH', 0, 2, 0, 2, 0)),          # Dimensions of the series cache
    (0x1065, struct.pack('<H', 1)),                          # SIIndex = 1: values
    number(0, 0, 10.0), number(1, 0, 20.0),                  # cached points (rw = point, col = series)
    (0x1065, struct.pack('<H', 2)),                          # SIIndex = 2: categories
    label(0, 0, 'a'), label(1, 0, 'b'),
    (0x000A, b''),                                           # EOF of the chart substream
]
records = ([(0x0200, struct.pack('<IIHHH', 0, 3, 0, 2, 0))] + cells +
           [(0x00EC, b'\0' * 8), (0x005D, b'\0' * 26)] + chart +
           [(0x023E, struct.pack('<HHHHIHHI', 0x06B6, 0, 0, 64, 0, 0, 0, 0)),       # Window2
            (0x00E5, struct.pack('<HHHHH', 1, 4, 5, 0, 1))])                      # MergeCells A5:B6
wb = {'sheets': [{'name': 'S1', 'records': records}]}
open(OUT, 'wb').write(g.write_xls(wb))
print(OUT)
sys.path.insert(0, '/tmp/ag/audit2')
from vhrun import vh, hx
# expected: R[0,0,2,1|S"Name",S"Val"/S"a",F10/S"b",F20] ;; merges 4,0,5,1
print(vh('xls', OUT, ['range ' + hx('S1'), 'merges ' + hx('S1')]))
