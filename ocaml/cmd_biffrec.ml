(* C02: RK decoding, BIFF8 cell records, record framing and the sheet model, printed in exactly
   the format of harness/src/cmds/biffrec.rs.
     biffrec rk    <hex 6 bytes> <fmts> <1904>
     biffrec cell  <typ> <hex body> <fmts> <1904> <strings>
     biffrec fval  <hex>
     biffrec dims  <hex>
     biffrec recs  <hex stream>
     biffrec sheet <hex substream> <fmts> <1904> <strings>          (model of what `file` reads)
     biffrec enc   <fmts> <1904> <strings> <hex trailer> <items>    (encoder, spec, known class, model)
       items, ';'-separated: N r c xf bits | R r c xf form | M r cf xf/form|… | S r c xf isst |
         L r c xf wide units | B r c xf b | E r c xf e | D wide rf rl cf cl | O typ hex |
         U hexbof recs  (nested substream: BOF body, recs = - | typ:hex[:hexcont…]|…, then its EOF) |
         G rf,rl,cf,cl/…  (MERGECELLS; - for no region) |
         F r c xf cached grbit chn hexfmla [between]   cached = n:bits | b:0/1 | e:i | k |
           s:wide:units[:wide:units]…  (STRING fragment, then one pair per CONTINUE record);
           between = - | typ:hex|typ:hex  (records between FORMULA and STRING)
     biffrec fdiv  <bits>         hardware x/100.0 and Flocq's b64_div on the same bits (model side only)
   fmts: one digit per XF (0 Other, 1 DateTime, 2 TimeDelta), "-" for none;
   strings: "-" or comma-separated tokens "s<hex utf8>".
   The two Section variables of the Coq model are instantiated here (trusted glue):
     fdiv100  = hardware IEEE-754 division by 100.0 on the bit pattern;
     decode16 = UTF-16LE decoding as encoding_rs' decode_without_bom_handling does it
                (U+FFFD for lone surrogates). *)
open Conv
open BinNums
open Prelude
open RK
open BiffRec

(* ---- N <-> int64 (unsigned 64-bit patterns) ---- *)
let int64_of_n (n : coq_N) : int64 =
  let rec pos p = match p with
    | Coq_xH -> 1L
    | Coq_xO q -> Int64.shift_left (pos q) 1
    | Coq_xI q -> Int64.logor (Int64.shift_left (pos q) 1) 1L in
  match n with N0 -> 0L | Npos p -> pos p
let n_of_int64 (x : int64) : coq_N =
  let rec go (x : int64) : positive =
    (* x <> 0, treated as unsigned *)
    let rest = Int64.shift_right_logical x 1 in
    let bit = Int64.logand x 1L in
    if rest = 0L then Coq_xH
    else if bit = 0L then Coq_xO (go rest) else Coq_xI (go rest) in
  if x = 0L then N0 else Npos (go x)

let fdiv100 (bits : coq_N) : coq_N =
  n_of_int64 (Int64.bits_of_float (Int64.float_of_bits (int64_of_n bits) /. 100.0))

(* ---- encoding_rs UTF_16LE.decode_without_bom_handling: UTF-16 with replacement ---- *)
let decode_units (units : int list) : int list =
  let rec go l acc = match l with
    | [] -> List.rev acc
    | u :: rest when u >= 0xD800 && u < 0xDC00 ->
      (match rest with
       | v :: rest' when v >= 0xDC00 && v < 0xE000 ->
         go rest' ((0x10000 + ((u - 0xD800) lsl 10) + (v - 0xDC00)) :: acc)
       | _ -> go rest (0xFFFD :: acc))
    | u :: rest when u >= 0xDC00 && u < 0xE000 -> go rest (0xFFFD :: acc)
    | u :: rest -> go rest (u :: acc) in
  go units []
let decode16 (bytes : coq_N list) : coq_N list =
  let b = List.map int_of_n bytes in
  let rec units l = match l with
    | x :: y :: rest -> (x lor (y lsl 8)) :: units rest
    | [_] -> [0xFFFD]
    | [] -> [] in
  List.map n_of_int (decode_units (units b))

(* ---- canonical printing (harness/src/util.rs data_str) ---- *)
let err_num (e : cerr) : int =
  match e with
  | EDiv0 -> 0 | ENA -> 1 | EName -> 2 | ENull -> 3 | ENum -> 4 | ERef -> 5 | EValue -> 6
  | EGettingData -> 7
let b01 b = if b then "1" else "0"
let data_str (d : data) : string =
  match d with
  | DEmpty -> "E"
  | DInt z -> "I" ^ string_of_z z
  | DFloat b -> "F" ^ string_of_n b
  | DString s -> "S" ^ hex_of_scalars s
  | DBool b -> "B" ^ b01 b
  | DDateTime (b, dur, s) -> "D" ^ string_of_n b ^ ":" ^ b01 dur ^ ":" ^ b01 s
  | DError e -> "X" ^ string_of_int (err_num e)

let parse_fmts (s : string) : cellfmt list =
  if s = "-" then [] else
    List.init (String.length s) (fun i ->
        match s.[i] with '1' -> FDateTime | '2' -> FTimeDelta | _ -> FOther)
let parse_strings (s : string) : coq_N list list =
  if s = "-" then [] else
    List.map (fun t -> scalars_of_hex (String.sub t 1 (String.length t - 1)))
      (String.split_on_char ',' s)
let mk_env fmts s1904 strings : env =
  { e_formats = parse_fmts fmts; e_1904 = (s1904 = "1"); e_strings = parse_strings strings }
let hexarg (s : string) : coq_N list = if s = "-" then [] else bytes_of_hex s

let outcome_str (f : 'a -> string) (o : 'a outcome) : string =
  match o with
  | Ok v -> f v
  | Err _ -> "err"
  | Panic -> "panic"
  | OutOfFuel -> "fuel"

let cells_str (cells : cellv list) : string =
  "ok:" ^ String.concat ";" (List.map (fun ((r, c), d) ->
      string_of_n r ^ "," ^ string_of_n c ^ "=" ^ data_str d) cells)

(* start/end, number of cells, then the non-empty cells with relative coordinates *)
let range_str (r : data Range.range) : string =
  match Range.start r, Range.end_ r with
  | Some (sr, sc), Some (er, ec) ->
    let used = Range.used_cells DEmpty (fun a b -> a = b) r in
    Printf.sprintf "R[%s,%s,%s,%s|%s,%s|%s]" (string_of_n sr) (string_of_n sc) (string_of_n er)
      (string_of_n ec) (string_of_n (Range.height r)) (string_of_n (Range.width r))
      (String.concat "," (List.map (fun ((i, j), v) ->
           string_of_n i ^ ":" ^ string_of_n j ^ ":" ^ data_str v) used))
  | _ -> "R[-]"

(* ---- the item language of the `enc` subcommand ---- *)
let cerr_of_int i =
  match i with
  | 0 -> ENull | 1 -> EDiv0 | 2 -> EValue | 3 -> ERef | 4 -> EName | 5 -> ENum | 6 -> ENA
  | _ -> EGettingData
let units_of (s : string) : coq_N list =
  if s = "-" then [] else List.map n_of_string (String.split_on_char ',' s)
let form_of_str (s : string) : rk_form =
  match String.split_on_char ':' s with
  | ["i"; v; x] -> RkI (z_of_string v, x = "1")
  | ["f"; h; x] -> RkF (n_of_string h, x = "1")
  | _ -> failwith "bad rk form"
let cached_of_str (s : string) : cached =
  match String.split_on_char ':' s with
  | ["n"; b] -> CNum (n_of_string b)
  | ["b"; b] -> CBool (b = "1")
  | ["e"; e] -> CErr (cerr_of_int (int_of_string e))
  | ["k"] -> CBlank
  | "s" :: w :: u :: more ->
    (* s:<wide>:<units> then one <wide>:<units> pair per CONTINUE fragment *)
    let rec frags l = match l with
      | [] -> []
      | w :: u :: rest -> { s_units = units_of u; s_wide = (w = "1") } :: frags rest
      | _ -> failwith "bad string fragments" in
    CStr ({ s_units = units_of u; s_wide = (w = "1") }, frags more)
  | _ -> failwith "bad cached value"
(* records between FORMULA and STRING: "-" or typ:hex|typ:hex ("-" for an empty body) *)
let mids_of_str (s : string) : (coq_N * coq_N list) list =
  if s = "-" then [] else
    List.map (fun t ->
        match String.split_on_char ':' t with
        | [typ; hx] -> (n_of_string typ, (if hx = "-" then [] else bytes_of_hex hx))
        | _ -> failwith "bad between record") (String.split_on_char '|' s)
(* the records of a nested substream: "-" or typ:hex[:hexcont…]|… ("-" for an empty body; the
   CONTINUE bodies are never empty) *)
let srecs_of_str (s : string) : srec list =
  if s = "-" then [] else
    List.map (fun t ->
        match String.split_on_char ':' t with
        | typ :: hx :: conts ->
          { sr_typ = n_of_string typ; sr_body = (if hx = "-" then [] else bytes_of_hex hx);
            sr_conts = List.map bytes_of_hex conts }
        | _ -> failwith "bad substream record") (String.split_on_char '|' s)
let item_of_str (s : string) : item =
  let f = Array.of_list (String.split_on_char ' ' s) in
  let n i = n_of_string f.(i) in
  match f.(0) with
  | "N" -> INumber (n 1, n 2, n 3, n 4)
  | "R" -> IRk (n 1, n 2, n 3, form_of_str f.(4))
  | "M" ->
    let rks = List.map (fun t ->
        match String.split_on_char '/' t with
        | [x; fm] -> (n_of_string x, form_of_str fm)
        | _ -> failwith "bad rkrec") (String.split_on_char '|' f.(3)) in
    IMulRk (n 1, n 2, rks)
  | "S" -> ILabelSst (n 1, n 2, n 3, n 4)
  | "L" -> ILabel (n 1, n 2, n 3, { s_units = units_of f.(5); s_wide = (f.(4) = "1") })
  | "B" -> IBool (n 1, n 2, n 3, f.(4) = "1")
  | "E" -> IErr (n 1, n 2, n 3, cerr_of_int (int_of_string f.(4)))
  | "F" -> IFormula (n 1, n 2, n 3, cached_of_str f.(4), n 5, n 6, hexarg f.(7),
                     (if Array.length f > 8 then mids_of_str f.(8) else []))
  | "D" -> IDims (f.(1) = "1", n 2, n 3, n 4, n 5)
  | "O" -> IOther (n 1, hexarg f.(2))
  | "U" -> ISub (hexarg f.(1), srecs_of_str f.(2))
  | "G" ->
    IMerge (if f.(1) = "-" then [] else
              List.map (fun t ->
                  match String.split_on_char ',' t with
                  | [a; b; c; d] -> (((n_of_string a, n_of_string b), n_of_string c), n_of_string d)
                  | _ -> failwith "bad region") (String.split_on_char '/' f.(1)))
  | _ -> failwith "bad item"

let run (args : string list) : string =
  match args with
  | ["rk"; hx; fmts; s1904] ->
    outcome_str data_str (rk_num fdiv100 (hexarg hx) (parse_fmts fmts) (s1904 = "1"))
  | ["cell"; typ; hx; fmts; s1904; strings] ->
    outcome_str cells_str
      (parse_cell_record fdiv100 decode16 (mk_env fmts s1904 strings) (n_of_string typ) (hexarg hx))
  | ["fval"; hx] ->
    outcome_str (fun v -> match v with None -> "ok:-" | Some d -> "ok:" ^ data_str d)
      (parse_formula_value (hexarg hx))
  | ["dims"; hx] ->
    outcome_str (fun ((sr, sc), (er, ec)) ->
        Printf.sprintf "ok:%s,%s,%s,%s" (string_of_n sr) (string_of_n sc) (string_of_n er) (string_of_n ec))
      (parse_dimensions (hexarg hx))
  | ["recs"; hx] ->
    let s = hexarg hx in
    outcome_str (fun recs ->
        "ok:" ^ String.concat ";" (List.map (fun r ->
            string_of_n r.f_typ ^ ":" ^ hex_of_bytes r.f_data ^ ":" ^
            (match r.f_cont with
             | None -> "-"
             | Some cs -> "c" ^ String.concat "|" (List.map hex_of_bytes cs))) recs))
      (all_records (nat_of_int (List.length s + 1)) s)
  | ["fdiv"; bits] ->
    (* the driver's hardware division against the extracted Flocq binary64 division *)
    let b = n_of_string bits in
    string_of_n (fdiv100 b) ^ "," ^ string_of_n (RKFloat.fdiv100_flocq b)
  | ["sheet"; hx; fmts; s1904; strings] ->
    outcome_str range_str (sheet_model fdiv100 decode16 (mk_env fmts s1904 strings) (hexarg hx))
  | ["enc"; fmts; s1904; strings; trailer; items] ->
    let en = mk_env fmts s1904 strings in
    let its = if items = "-" then [] else List.map item_of_str (String.split_on_char ';' items) in
    let c = { l_items = its; l_trailer = hexarg trailer } in
    let bytes = encode_sheet c in
    let l = logical fdiv100 decode16 en c in
    String.concat "#" [
      hex_of_bytes bytes;
      b01 (wf_layout c);
      b01 (sorted_by_rowb l);
      (match known_C02 c with None -> "-" | Some k -> string_of_n k);
      "spec=" ^ range_str (range_of l);
      "model=" ^ outcome_str range_str (sheet_model fdiv100 decode16 en bytes) ]
  | _ -> "bad-args"

let () = Registry.register "biffrec" run
let init () = ()
