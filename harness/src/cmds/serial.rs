// C11: serial date-time conversions through calamine's public API (feature "dates").
// args: kind value is1904 what   (see ocaml/cmd_serial.ml for the grammar and the answer format)
use calamine::{CellErrorType, Data, DataType, ExcelDateTime, ExcelDateTimeType};
use chrono::{Datelike, Duration, NaiveDate, NaiveDateTime, NaiveTime, Timelike};
use std::panic::{catch_unwind, AssertUnwindSafe};

const CE_TO_UNIX: i64 = 719_163; // NaiveDate::num_days_from_ce() of 1970-01-01

fn show_date(d: &NaiveDate) -> String {
    format!(
        "{},{}-{}-{}",
        d.num_days_from_ce() as i64 - CE_TO_UNIX,
        d.year(),
        d.month(),
        d.day()
    )
}
fn show_time(t: &NaiveTime) -> String {
    format!("{},{}", t.num_seconds_from_midnight(), t.nanosecond())
}
fn show_dt(dt: &NaiveDateTime) -> String {
    let d = dt.date();
    let t = dt.time();
    format!(
        "D{},{},{},{}-{}-{}",
        d.num_days_from_ce() as i64 - CE_TO_UNIX,
        t.num_seconds_from_midnight(),
        t.nanosecond(),
        d.year(),
        d.month(),
        d.day()
    )
}
fn show_dur(d: &Duration) -> String {
    format!("{},{},{}", d.num_seconds(), d.subsec_nanos(), d.num_milliseconds())
}
fn guard<T>(f: impl FnOnce() -> Option<T>, show: impl Fn(&T) -> String) -> String {
    match catch_unwind(AssertUnwindSafe(f)) {
        Ok(Some(v)) => show(&v),
        Ok(None) => "N".to_string(),
        Err(_) => "panic".to_string(),
    }
}

fn cell_all(c: &Data) -> String {
    [
        guard(|| c.as_datetime(), show_dt),
        guard(|| c.as_date(), show_date),
        guard(|| c.as_time(), show_time),
        guard(|| c.as_duration(), show_dur),
    ]
    .join("|")
}

// ---- the serde helpers deserialize_as_{datetime,date,time,duration}_or_{none,string} ----
// One row holding the same cell eight times, deserialized (without headers, by position) into a
// struct whose fields use the eight helpers.  An Err(String) of the *_or_string variants is
// printed as "E" (its text is f64/Data Display output, which the model does not cover).
#[derive(serde::Deserialize)]
struct HelperRow {
    #[serde(deserialize_with = "calamine::deserialize_as_datetime_or_none")]
    a: Option<NaiveDateTime>,
    #[serde(deserialize_with = "calamine::deserialize_as_date_or_none")]
    b: Option<NaiveDate>,
    #[serde(deserialize_with = "calamine::deserialize_as_time_or_none")]
    c: Option<NaiveTime>,
    #[serde(deserialize_with = "calamine::deserialize_as_duration_or_none")]
    d: Option<Duration>,
    #[serde(deserialize_with = "calamine::deserialize_as_datetime_or_string")]
    e: Result<NaiveDateTime, String>,
    #[serde(deserialize_with = "calamine::deserialize_as_date_or_string")]
    f: Result<NaiveDate, String>,
    #[serde(deserialize_with = "calamine::deserialize_as_time_or_string")]
    g: Result<NaiveTime, String>,
    #[serde(deserialize_with = "calamine::deserialize_as_duration_or_string")]
    h: Result<Duration, String>,
}

fn opt<T>(o: &Option<T>, show: impl Fn(&T) -> String) -> String {
    match o {
        Some(v) => show(v),
        None => "N".to_string(),
    }
}
fn res<T>(o: &Result<T, String>, show: impl Fn(&T) -> String) -> String {
    match o {
        Ok(v) => show(v),
        Err(_) => "E".to_string(),
    }
}

fn helpers_all(c: &Data) -> String {
    // no header row: fields are matched by position, so that empty cells are not skipped
    let mut range: calamine::Range<Data> = calamine::Range::new((0, 0), (0, 7));
    for j in 0..8u32 {
        range.set_value((0, j), c.clone());
    }
    let mut it = match calamine::RangeDeserializerBuilder::new()
        .has_headers(false)
        .from_range::<_, HelperRow>(&range)
    {
        Ok(it) => it,
        Err(_) => return "err".to_string(),
    };
    match it.next() {
        Some(Ok(r)) => [
            opt(&r.a, show_dt),
            opt(&r.b, show_date),
            opt(&r.c, show_time),
            opt(&r.d, show_dur),
            res(&r.e, show_dt),
            res(&r.f, show_date),
            res(&r.g, show_time),
            res(&r.h, show_dur),
        ]
        .join("|"),
        Some(Err(_)) => "err".to_string(),
        None => "norow".to_string(),
    }
}

fn unhex(h: &str) -> String {
    let b: Vec<u8> = (0..h.len() / 2)
        .map(|i| u8::from_str_radix(&h[2 * i..2 * i + 2], 16).unwrap_or(b'?'))
        .collect();
    String::from_utf8_lossy(&b).into_owned()
}

pub fn run(args: &[&str]) -> String {
    if args.len() < 3 {
        return "bad-args".to_string();
    }
    let kind = args[0];
    let is1904 = args[2] == "1";
    let fl = || f64::from_bits(args[1].parse::<u64>().unwrap());
    let cell_all = |c: &Data| -> String {
        if args.len() > 3 && args[3] == "de" {
            helpers_all(c)
        } else {
            cell_all(c)
        }
    };
    match kind {
        "edt_dt" | "edt_td" => {
            let ty = if kind == "edt_td" {
                ExcelDateTimeType::TimeDelta
            } else {
                ExcelDateTimeType::DateTime
            };
            let x = ExcelDateTime::new(fl(), ty, is1904);
            [guard(|| x.as_datetime(), show_dt), guard(|| x.as_duration(), show_dur)].join("|")
        }
        "float" => cell_all(&Data::Float(fl())),
        "dt" => cell_all(&Data::DateTime(ExcelDateTime::new(fl(), ExcelDateTimeType::DateTime, is1904))),
        "td" => cell_all(&Data::DateTime(ExcelDateTime::new(fl(), ExcelDateTimeType::TimeDelta, is1904))),
        "int" => cell_all(&Data::Int(args[1].parse::<i64>().unwrap())),
        "bool" => cell_all(&Data::Bool(true)),
        "empty" => cell_all(&Data::Empty),
        "string" => cell_all(&Data::String("1900-01-01".to_string())),
        "error" => cell_all(&Data::Error(CellErrorType::Div0)),
        // ISO cells (ods): value = the text as lowercase hex; implementation only (the model has
        // no ISO cells: chrono's parser is external), used for "helper = the cell's own conversion"
        "iso" => cell_all(&Data::DateTimeIso(unhex(args[1]))),
        "isodur" => cell_all(&Data::DurationIso(unhex(args[1]))),
        _ => "bad-kind".to_string(),
    }
}
