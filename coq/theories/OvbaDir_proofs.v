(* OvbaDir_proofs — proofs about the dir-stream / project model of OvbaDir.v (property C18).
   Main results:
     dir_roundtrip           parse_dir (encode_dir p) = code page, references, modules of p
     read_module_enc         one MODULE record, with or without its optional MODULENAMEUNICODE
                             record (MS-OVBA 2.3.4.2.3.2), is read back: name, stream, offset
     vba_project_roundtrip   a whole project container is read back: references, module names,
                             each module = the meaning of its compressed source from its offset
     rsplit2_spec …          the "…#path#description" reading of a libid
     get_module_raw_in       distinct module names: every module is found under its name
     vba_project_no_fuel     the fuel of the dir-stream loops suffices on EVERY input
     module_text_is_codepage_decoding   get_module = the project's decoder applied to the
                             decompression of the module stream from its text offset
     nameless_reference_reads   the witness of the former known class 1 (a REFERENCE without
                             NameRecord), now read as MS-OVBA prescribes *)
From Calamine Require Import Prelude Ovba Ovba_proofs OvbaDir.
Open Scope N_scope.

(* ---------- little-endian fields ---------- *)
Lemma le16_length : forall x, length (le16 x) = 2%nat. Proof. reflexivity. Qed.
Lemma le32_length : forall x, length (le32 x) = 4%nat. Proof. reflexivity. Qed.

Lemma rd_u16_le16 : forall x rest, rd_u16 (le16 x ++ rest) = Ok (x, rest).
Proof.
  intros x rest. unfold le16. cbn [app rd_u16]. do 2 f_equal. pose proof (N.div_mod x 256). lia.
Qed.

Lemma rd_u32_le32 : forall x rest, x < 4294967296 -> rd_u32 (le32 x ++ rest) = Ok (x, rest).
Proof.
  intros x rest H. unfold le32. cbn [app rd_u32]. do 2 f_equal. lia.
Qed.

Lemma check_record_le16 : forall id rest, check_record id (le16 id ++ rest) = Ok rest.
Proof.
  intros id rest. unfold check_record. rewrite rd_u16_le16. cbn [obind]. rewrite N.eqb_refl. reflexivity.
Qed.

Lemma lenb_lt : forall b, lenb b = true -> N.of_nat (length b) < 4294967296.
Proof. intros b H. unfold lenb, u32b in H. apply N.ltb_lt, H. Qed.

Lemma read_variable_record_flat : forall b rest, lenb b = true ->
  read_variable_record (le32 (N.of_nat (length b)) ++ b ++ rest) = Ok (b, rest).
Proof.
  intros b rest H. unfold read_variable_record.
  rewrite rd_u32_le32 by (apply lenb_lt, H). cbn [obind].
  destruct (N.ltb_spec (N.of_nat (length (b ++ rest))) (N.of_nat (length b))) as [Hlt|_].
  { rewrite app_length in Hlt. lia. }
  rewrite Nat2N.id. rewrite firstn_exact, skipn_exact by reflexivity. reflexivity.
Qed.

Lemma read_variable_record_sized : forall b rest, lenb b = true ->
  read_variable_record (sized b ++ rest) = Ok (b, rest).
Proof.
  intros b rest H. unfold sized. rewrite <- app_assoc. apply read_variable_record_flat, H.
Qed.

Lemma check_variable_record_var_rec : forall id b rest, lenb b = true ->
  check_variable_record id (var_rec id b ++ rest) = Ok (b, rest).
Proof.
  intros id b rest H. unfold check_variable_record, var_rec. rewrite <- !app_assoc.
  rewrite check_record_le16. cbn [obind]. apply read_variable_record_flat, H.
Qed.

Lemma advance_0 : forall r, advance 0 r = Ok r.
Proof. intro r. unfold advance. destruct (N.ltb_spec (N.of_nat (length r)) 0); [lia|reflexivity]. Qed.

Lemma advance_le16 : forall n x r, 2 <= n -> advance n (le16 x ++ r) = advance (n - 2) r.
Proof.
  intros n x r H. unfold advance, le16. cbn [app length].
  destruct (N.ltb_spec (N.of_nat (S (S (length r)))) n), (N.ltb_spec (N.of_nat (length r)) (n - 2));
    try lia; [reflexivity|].
  replace (N.to_nat n) with (S (S (N.to_nat (n - 2)))) by lia. reflexivity.
Qed.

Lemma advance_le32 : forall n x r, 4 <= n -> advance n (le32 x ++ r) = advance (n - 4) r.
Proof.
  intros n x r H. unfold advance, le32. cbn [app length].
  destruct (N.ltb_spec (N.of_nat (S (S (S (S (length r)))))) n), (N.ltb_spec (N.of_nat (length r)) (n - 4));
    try lia; [reflexivity|].
  replace (N.to_nat n) with (S (S (S (S (N.to_nat (n - 4)))))) by lia. reflexivity.
Qed.

Lemma advance_bytes : forall n b r, N.of_nat (length b) = n -> advance n (b ++ r) = Ok r.
Proof.
  intros n b r <-. unfold advance. rewrite app_length.
  destruct (N.ltb_spec (N.of_nat (length b + length r)) (N.of_nat (length b))); [lia|].
  rewrite Nat2N.id, skipn_exact by reflexivity. reflexivity.
Qed.

Ltac adv :=
  repeat first
    [ rewrite advance_0
    | match goal with |- context [advance ?n (le16 ?x ++ ?r)] =>
        let m := eval vm_compute in (n - 2) in
        rewrite (advance_le16 n x r) by lia; change (n - 2) with m end
    | match goal with |- context [advance ?n (le32 ?x ++ ?r)] =>
        let m := eval vm_compute in (n - 4) in
        rewrite (advance_le32 n x r) by lia; change (n - 4) with m end ].

Ltac eqb_closed :=
  repeat match goal with
  | |- context [?a =? ?b] =>
    let v := eval vm_compute in (a =? b) in
    match v with true => idtac | false => idtac end;
    change (a =? b) with v
  end.

Ltac split_valid H :=
  repeat (apply andb_true_iff in H; let H' := fresh "V" in destruct H as [H H']).

Lemma skipn_6 : forall a b r, skipn 6 (le16 a ++ le32 b ++ r) = r.
Proof. reflexivity. Qed.

Section DirProofs.
Variable decode : N -> list N -> list N.

Lemma le16_cons : forall x r, exists a b, le16 x ++ r = a :: b :: r /\ a + 256 * b = x.
Proof.
  intros x r. exists (x mod 256), (x / 256). split; [reflexivity|]. pose proof (N.div_mod x 256). lia.
Qed.

Lemma read_dir_information_enc : forall p tail,
  valid_projb p = true ->
  read_dir_information (enc_info p ++ tail) = Ok (p_codepage p, tail).
Proof.
  intros p tail Hv. unfold valid_projb in Hv. split_valid Hv.
  unfold read_dir_information, enc_info. rewrite <- !app_assoc. adv. cbn [obind].
  assert (Hcp : forall r, (if N.of_nat (length (le16 3 ++ le32 2 ++ le16 (p_codepage p) ++ r)) <? 8
                           then Err E_IO
                           else match skipn 6 (le16 3 ++ le32 2 ++ le16 (p_codepage p) ++ r) with
                                | a :: b :: _ => Ok (a + 256 * b) | _ => Err E_IO end)
                          = Ok (p_codepage p)).
  { intro r.
    destruct (N.ltb_spec (N.of_nat (length (le16 3 ++ le32 2 ++ le16 (p_codepage p) ++ r))) 8) as [Hl|_].
    { rewrite !app_length, !le16_length, !le32_length in Hl. lia. }
    rewrite skipn_6. destruct (le16_cons (p_codepage p) r) as (a & b & -> & <-). reflexivity. }
  destruct (p_compat p) as [v|].
  - rewrite <- !app_assoc.
    destruct (le16_cons 74 (le32 4 ++ le32 v ++ le16 2 ++ le32 4 ++ le32 (p_lcid p) ++ le16 20 ++ le32 4 ++
                le32 (p_lcid_invoke p) ++ le16 3 ++ le32 2 ++ le16 (p_codepage p) ++
                var_rec 4 (p_name p) ++ var_rec 5 (p_doc p) ++ var_rec 64 (p_doc_u p) ++
                var_rec 6 (p_help1 p) ++ var_rec 61 (p_help2 p) ++ le16 7 ++ le32 4 ++ le32 (p_helpctx p) ++
                le16 8 ++ le32 4 ++ le32 (p_libflags p) ++ le16 9 ++ le32 4 ++ le32 (p_vmajor p) ++
                le16 (p_vminor p) ++ var_rec 12 (p_const p) ++ var_rec 60 (p_const_u p) ++ tail))
      as (a & b & Eab & Hab).
    rewrite Eab, Hab. eqb_closed. rewrite <- Eab. adv. cbn [obind]. adv. cbn [obind].
    rewrite Hcp. cbn [obind].
    match goal with H : cp_known _ = true |- _ => rewrite H end. cbn [negb]. adv. cbn [obind].
    repeat (rewrite check_variable_record_var_rec by assumption; cbn [obind]).
    adv. cbn [obind].
    repeat (rewrite check_variable_record_var_rec by assumption; cbn [obind]).
    reflexivity.
  - cbn [app].
    destruct (le16_cons 2 (le32 4 ++ le32 (p_lcid p) ++ le16 20 ++ le32 4 ++
                le32 (p_lcid_invoke p) ++ le16 3 ++ le32 2 ++ le16 (p_codepage p) ++
                var_rec 4 (p_name p) ++ var_rec 5 (p_doc p) ++ var_rec 64 (p_doc_u p) ++
                var_rec 6 (p_help1 p) ++ var_rec 61 (p_help2 p) ++ le16 7 ++ le32 4 ++ le32 (p_helpctx p) ++
                le16 8 ++ le32 4 ++ le32 (p_libflags p) ++ le16 9 ++ le32 4 ++ le32 (p_vmajor p) ++
                le16 (p_vminor p) ++ var_rec 12 (p_const p) ++ var_rec 60 (p_const_u p) ++ tail))
      as (a & b & Eab & Hab).
    rewrite Eab, Hab. eqb_closed. rewrite <- Eab. cbn [obind]. adv. cbn [obind].
    rewrite Hcp. cbn [obind].
    match goal with H : cp_known _ = true |- _ => rewrite H end. cbn [negb]. adv. cbn [obind].
    repeat (rewrite check_variable_record_var_rec by assumption; cbn [obind]).
    adv. cbn [obind].
    repeat (rewrite check_variable_record_var_rec by assumption; cbn [obind]).
    reflexivity.
Qed.

(* ---------- references ---------- *)
Lemma set_libid_sized : forall cp r libid rest, lenb libid = true ->
  set_libid decode cp r (sized libid ++ rest) =
  match libid_effect decode cp r libid with
  | Some r' => Ok (r', rest)
  | None => Err E_LIBID
  end.
Proof.
  intros cp r libid rest H. unfold set_libid, libid_effect.
  rewrite read_variable_record_sized by exact H. cbn [obind].
  destruct (is_empty libid || ends_with_hh libid); [reflexivity|].
  destruct (rsplit2 (decode cp libid)) as [[desc path]|]; reflexivity.
Qed.

Lemma libid_effect_name : forall cp r libid r',
  libid_effect decode cp r libid = Some r' -> r_name r' = r_name r.
Proof.
  intros cp r libid r' H. unfold libid_effect in H.
  destruct (is_empty libid || ends_with_hh libid); [injection H as <-; reflexivity|].
  destruct (rsplit2 (decode cp libid)) as [[desc path]|]; [|discriminate].
  injection H as <-. reflexivity.
Qed.

Lemma refs_loop_continue : forall cp st st' f,
  ref_step decode cp st = Ok (Continue st') ->
  refs_loop decode (S f) cp st = refs_loop decode f cp st'.
Proof. intros cp st st' f H. cbn [refs_loop]. rewrite H. reflexivity. Qed.

Lemma refs_loop_mono : forall f f' cp st r, (f <= f')%nat ->
  refs_loop decode f cp st = Ok r -> refs_loop decode f' cp st = Ok r.
Proof.
  induction f as [|f IH]; intros f' cp st r Hle H; [discriminate|].
  destruct f' as [|f']; [lia|]. cbn [refs_loop] in *.
  destruct (ref_step decode cp st) as [[st'|r']|e| |]; cbn [obind] in *; try discriminate; auto.
  apply (IH f'); [lia|exact H].
Qed.

(* the name record of a reference *)
Lemma ref_step_name : forall cp refs cur complete name nameu rest,
  lenb name = true -> lenb nameu = true ->
  ref_step decode cp (refs, cur, complete, var_rec 0x0016 name ++ var_rec 0x003E nameu ++ rest)
  = Ok (Continue (push_ref refs cur complete, mkref (decode cp name) (decode cp name) [], false, rest)).
Proof.
  intros cp refs cur complete name nameu rest H1 H2. unfold ref_step, var_rec at 1. rewrite <- !app_assoc.
  rewrite rd_u16_le16. cbn [obind]. unfold start_nameless.
  change (is_ref_record 22) with false. rewrite andb_false_r. eqb_closed.
  rewrite read_variable_record_flat by exact H1. cbn [obind].
  rewrite check_variable_record_var_rec by exact H2. reflexivity.
Qed.

(* the state in which a reference record finds the loop: after a complete reference a new,
   nameless one is started *)
Definition begin_ref (refs : list reference) (cur : reference) (complete : bool)
  : list reference * reference :=
  if complete then (refs ++ [cur], empty_ref) else (refs, cur).

Lemma start_nameless_ref_record : forall check refs cur complete,
  is_ref_record check = true ->
  start_nameless check (refs, cur, complete)
  = (fst (begin_ref refs cur complete), snd (begin_ref refs cur complete), false).
Proof.
  intros check refs cur complete H. unfold start_nameless, begin_ref. rewrite H, andb_true_r.
  destruct complete; reflexivity.
Qed.

Lemma ref_step_original : forall cp refs cur complete o rest cur',
  lenb o = true -> libid_effect decode cp (snd (begin_ref refs cur complete)) o = Some cur' ->
  ref_step decode cp (refs, cur, complete, le16 0x0033 ++ sized o ++ rest)
  = Ok (Continue (fst (begin_ref refs cur complete), cur', false, rest)).
Proof.
  intros cp refs cur complete o rest cur' H E. unfold ref_step. rewrite rd_u16_le16. cbn [obind].
  rewrite start_nameless_ref_record by reflexivity. eqb_closed.
  rewrite set_libid_sized by exact H. rewrite E. reflexivity.
Qed.

Lemma ref_step_registered : forall cp refs cur complete libid rest cur',
  lenb libid = true -> libid_effect decode cp (snd (begin_ref refs cur complete)) libid = Some cur' ->
  ref_step decode cp (refs, cur, complete, enc_ref_kind (RRegistered libid) ++ rest)
  = Ok (Continue (fst (begin_ref refs cur complete), cur', true, rest)).
Proof.
  intros cp refs cur complete libid rest cur' H E. unfold ref_step, enc_ref_kind. rewrite <- !app_assoc.
  rewrite rd_u16_le16. cbn [obind]. rewrite start_nameless_ref_record by reflexivity. eqb_closed.
  adv. cbn [obind].
  rewrite set_libid_sized by exact H. rewrite E. cbn [obind]. adv. reflexivity.
Qed.

Lemma ref_step_project : forall cp refs cur complete la lr major minor rest,
  lenb la = true -> lenb lr = true ->
  ref_step decode cp (refs, cur, complete, enc_ref_kind (RProject la lr major minor) ++ rest)
  = Ok (Continue (fst (begin_ref refs cur complete),
                  mkref (r_name (snd (begin_ref refs cur complete)))
                        (r_desc (snd (begin_ref refs cur complete))) (strip_c (decode cp la)),
                  true, rest)).
Proof.
  intros cp refs cur complete la lr major minor rest H1 H2. unfold ref_step, enc_ref_kind.
  rewrite <- !app_assoc.
  rewrite rd_u16_le16. cbn [obind]. rewrite start_nameless_ref_record by reflexivity. eqb_closed.
  adv. cbn [obind].
  unfold sized. rewrite <- !app_assoc.
  rewrite read_variable_record_flat by exact H1. cbn [obind].
  rewrite read_variable_record_flat by exact H2. cbn [obind]. adv. reflexivity.
Qed.

Lemma ref_step_control : forall cp refs cur complete tw next lext guid cookie rest cur1 cur2,
  lenb tw = true ->
  match next with Some (n, nu) => lenb n && lenb nu | None => true end = true ->
  lenb lext = true -> N.of_nat (length guid) = 16 ->
  libid_effect decode cp (snd (begin_ref refs cur complete)) tw = Some cur1 ->
  libid_effect decode cp cur1 lext = Some cur2 ->
  ref_step decode cp (refs, cur, complete,
     le16 0x002F ++ le32 (N.of_nat (length tw) + 10) ++ sized tw ++ le32 0 ++ le16 0 ++
     (match next with
      | Some (n, nu) => var_rec 0x0016 n ++ var_rec 0x003E nu
      | None => []
      end) ++
     le16 0x0030 ++ le32 (N.of_nat (length lext) + 30) ++ sized lext ++ le32 0 ++ le16 0 ++
     guid ++ le32 cookie ++ rest)
  = Ok (Continue (fst (begin_ref refs cur complete), cur2, true, rest)).
Proof.
  intros cp refs cur complete tw next lext guid cookie rest cur1 cur2 H1 H2 H3 H4 E1 E2.
  unfold ref_step. rewrite rd_u16_le16. cbn [obind].
  rewrite start_nameless_ref_record by reflexivity. eqb_closed. adv. cbn [obind].
  rewrite set_libid_sized by exact H1. rewrite E1. cbn [obind]. adv. cbn [obind].
  assert (Htail : forall s, advance 26 (le32 0 ++ le16 0 ++ guid ++ le32 cookie ++ s) = Ok s).
  { intro s. adv. rewrite (app_assoc guid). apply advance_bytes.
    rewrite app_length, le32_length. lia. }
  destruct next as [[n nu]|].
  - apply andb_true_iff in H2. destruct H2 as [Hn Hnu].
    unfold var_rec at 1. rewrite <- !app_assoc. rewrite rd_u16_le16. cbn [obind]. eqb_closed.
    rewrite read_variable_record_flat by exact Hn. cbn [obind].
    rewrite check_variable_record_var_rec by exact Hnu. cbn [obind].
    rewrite check_record_le16. cbn [obind]. adv. cbn [obind].
    rewrite set_libid_sized by exact H3. rewrite E2. cbn [obind]. rewrite Htail. reflexivity.
  - cbn [app]. rewrite rd_u16_le16. cbn [obind]. eqb_closed. cbn [obind]. adv. cbn [obind].
    rewrite set_libid_sized by exact H3. rewrite E2. cbn [obind]. rewrite Htail. reflexivity.
Qed.

Ltac and_split H H1 H2 := apply andb_true_iff in H; destruct H as [H1 H2].

(* the reference record(s) of one REFERENCE, met in a state whose current reference is [r0]
   once a pending complete reference has been pushed: at most two iterations *)
Lemma refs_loop_kind : forall cp kind refs cur complete rest r0 r',
  snd (begin_ref refs cur complete) = r0 ->
  valid_ref_kindb kind = true ->
  match kind with
  | RRegistered libid => libid_effect decode cp r0 libid
  | RProject la _ _ _ => Some (mkref (r_name r0) (r_desc r0) (strip_c (decode cp la)))
  | RControl orig tw _ lext _ _ =>
    opt_bind (match orig with Some o => libid_effect decode cp r0 o | None => Some r0 end) (fun r1 =>
    opt_bind (libid_effect decode cp r1 tw) (fun r2 => libid_effect decode cp r2 lext))
  end = Some r' ->
  exists k, (k <= 2)%nat /\ forall f,
    refs_loop decode (k + f) cp (refs, cur, complete, enc_ref_kind kind ++ rest)
    = refs_loop decode f cp (fst (begin_ref refs cur complete), r', true, rest).
Proof.
  intros cp kind refs cur complete rest r0 r' H0 Hk He.
  destruct kind as [libid | la lr major minor | orig tw next lext guid cookie];
    cbn [valid_ref_kindb] in Hk.
  - exists 1%nat. split; [lia|]. intro f. cbn [Nat.add]. subst r0.
    rewrite (refs_loop_continue _ _ _ _ (ref_step_registered cp refs cur complete libid rest r' Hk He)).
    reflexivity.
  - and_split Hk Hk Hmin. and_split Hk Hk Hmaj. and_split Hk Hla Hlr.
    exists 1%nat. split; [lia|]. intro f. cbn [Nat.add]. subst r0.
    rewrite (refs_loop_continue _ _ _ _ (ref_step_project cp refs cur complete la lr major minor rest Hla Hlr)).
    injection He as <-. reflexivity.
  - and_split Hk Hk Hcookie. and_split Hk Hk Hguid. and_split Hk Hk Hlext. and_split Hk Hk Hnext.
    and_split Hk Horig Htw. apply N.eqb_eq in Hguid.
    cbn [enc_ref_kind]. rewrite <- !app_assoc.
    destruct orig as [o|].
    + destruct (libid_effect decode cp r0 o) as [r1|] eqn:E0; cbn [opt_bind] in He; [|discriminate].
      destruct (libid_effect decode cp r1 tw) as [r2|] eqn:E1; cbn [opt_bind] in He; [|discriminate].
      exists 2%nat. split; [lia|]. intro f. cbn [Nat.add]. subst r0.
      rewrite <- !app_assoc.
      rewrite (refs_loop_continue _ _ _ _ (ref_step_original cp refs cur complete o _ r1 Horig E0)).
      rewrite (refs_loop_continue _ _ _ _
                 (ref_step_control cp _ r1 false tw next lext guid cookie rest r2 r' Htw Hnext Hlext Hguid E1 He)).
      reflexivity.
    + cbn [opt_bind] in He.
      destruct (libid_effect decode cp r0 tw) as [r2|] eqn:E1; cbn [opt_bind] in He; [|discriminate].
      exists 1%nat. split; [lia|]. intro f. cbn [Nat.add app]. subst r0.
      rewrite (refs_loop_continue _ _ _ _
                 (ref_step_control cp refs cur complete tw next lext guid cookie rest r2 r' Htw Hnext Hlext Hguid E1 He)).
      reflexivity.
Qed.

(* the loop state between two REFERENCEs: the current reference is complete, or nothing has
   been read yet *)
Definition between_refs (cur : reference) (complete : bool) : Prop :=
  complete = true \/ cur = empty_ref.

(* one whole reference, with or without its NameRecord: at most three iterations *)
Lemma refs_loop_ref : forall cp r refs cur complete rest r',
  between_refs cur complete ->
  valid_refb r = true -> expected_ref decode cp r = Some r' ->
  exists k, (k <= 3)%nat /\ forall f,
    refs_loop decode (k + f) cp (refs, cur, complete, enc_ref r ++ rest)
    = refs_loop decode f cp (push_ref refs cur complete, r', true, rest).
Proof.
  intros cp [named name nameu kind] refs cur complete rest r' Hst Hv He.
  unfold valid_refb in Hv. cbn [rs_named rs_name rs_name_u rs_kind] in Hv.
  and_split Hv Hv Hk.
  unfold expected_ref in He. cbn [rs_named rs_name rs_kind] in He.
  unfold enc_ref. cbn [rs_named rs_name rs_name_u rs_kind].
  destruct named.
  - (* NameRecord, then the reference record(s) in a state that is not complete *)
    and_split Hv Hn Hnu. rewrite <- !app_assoc.
    set (r0 := mkref (decode cp name) (decode cp name) []) in *.
    destruct (refs_loop_kind cp kind (push_ref refs cur complete) r0 false rest r0 r' eq_refl Hk)
      as (k & Hk2 & Hrun).
    { destruct kind; exact He. }
    exists (S k). split; [lia|]. intro f. cbn [Nat.add].
    rewrite (refs_loop_continue _ _ _ _ (ref_step_name cp refs cur complete name nameu _ Hn Hnu)).
    fold r0. rewrite Hrun. reflexivity.
  - (* no NameRecord: the reference record itself starts the reference *)
    cbn [app].
    assert (Hb : begin_ref refs cur complete = (push_ref refs cur complete, empty_ref)).
    { unfold begin_ref, push_ref. destruct Hst as [->| ->]; [reflexivity|].
      destruct complete; reflexivity. }
    destruct (refs_loop_kind cp kind refs cur complete rest empty_ref r') as (k & Hk2 & Hrun).
    { rewrite Hb. reflexivity. }
    { exact Hk. }
    { destruct kind; exact He. }
    exists k. split; [lia|]. intro f. rewrite Hrun, Hb. reflexivity.
Qed.

Lemma refs_loop_all : forall cp rs acc cur complete rest expected,
  between_refs cur complete ->
  forallb valid_refb rs = true -> expected_refs decode cp rs = Some expected ->
  exists f, (f <= 3 * length rs + 1)%nat /\
    refs_loop decode f cp (acc, cur, complete, concat (map enc_ref rs) ++ le16 0x000F ++ rest)
    = Ok (push_ref acc cur complete ++ expected, rest).
Proof.
  intros cp rs. induction rs as [|r rs IH]; intros acc cur complete rest expected Hst Hv He.
  - exists 1%nat. split; [cbn; lia|]. cbn [map concat app refs_loop ref_step] .
    rewrite rd_u16_le16. cbn [obind]. unfold start_nameless.
    change (is_ref_record 15) with false. rewrite andb_false_r. eqb_closed.
    cbn [expected_refs] in He. injection He as <-.
    rewrite app_nil_r. reflexivity.
  - cbn [forallb] in Hv. and_split Hv Hr Hrs. cbn [expected_refs] in He.
    destruct (expected_ref decode cp r) as [r'|] eqn:Er; cbn [opt_bind] in He; [|discriminate].
    destruct (expected_refs decode cp rs) as [tl|] eqn:Etl; cbn [opt_bind] in He; [|discriminate].
    injection He as <-.
    destruct (refs_loop_ref cp r acc cur complete (concat (map enc_ref rs) ++ le16 15 ++ rest) r' Hst Hr Er)
      as (k & Hk & Hstep).
    destruct (IH (push_ref acc cur complete) r' true rest tl (or_introl eq_refl) Hrs eq_refl)
      as (f & Hf & Hrun).
    exists (k + f)%nat. split; [cbn [length]; lia|].
    cbn [map concat]. rewrite <- app_assoc. rewrite Hstep, Hrun. do 2 f_equal.
    unfold push_ref at 1. cbn [orb]. rewrite <- app_assoc. reflexivity.
Qed.

Lemma var_rec_length : forall id b, length (var_rec id b) = (6 + length b)%nat.
Proof. intros id b. unfold var_rec. rewrite !app_length, le16_length, le32_length. lia. Qed.

Lemma enc_ref_kind_length : forall k, (6 <= length (enc_ref_kind k))%nat.
Proof.
  intros [libid | la lr major minor | orig tw next lext guid cookie]; cbn [enc_ref_kind];
    rewrite ?app_length, ?le16_length, ?le32_length; lia.
Qed.

Lemma enc_refs_length : forall rs, (3 * length rs <= length (concat (map enc_ref rs)))%nat.
Proof.
  induction rs as [|r rs IH]; [cbn; lia|]. cbn [map concat length]. rewrite app_length.
  unfold enc_ref at 1. rewrite app_length. pose proof (enc_ref_kind_length (rs_kind r)). lia.
Qed.

Lemma references_enc : forall cp rs rest expected,
  forallb valid_refb rs = true -> expected_refs decode cp rs = Some expected ->
  references_from_stream decode cp (concat (map enc_ref rs) ++ le16 0x000F ++ rest)
  = Ok (expected, rest).
Proof.
  intros cp rs rest expected Hv He. unfold references_from_stream.
  destruct (refs_loop_all cp rs [] empty_ref false rest expected (or_intror eq_refl) Hv He)
    as (f & Hf & Hrun).
  change (push_ref [] empty_ref false) with (@nil reference) in Hrun. cbn [app] in Hrun.
  apply (refs_loop_mono f); [|exact Hrun].
  rewrite !app_length, le16_length. pose proof (enc_refs_length rs). lia.
Qed.

(* ---------- modules ---------- *)
Lemma module_flags_enc : forall (ro pv : bool) rest f, (3 <= f)%nat ->
  module_flags_loop f (le32 0 ++ (if ro then le16 0x0025 ++ le32 0 else []) ++
                       (if pv then le16 0x0028 ++ le32 0 else []) ++ le16 0x002B ++ rest) = Ok rest.
Proof.
  intros ro pv rest f Hf. destruct f as [|[|[|f]]]; try lia.
  destruct ro, pv; cbn [app]; rewrite <- ?app_assoc;
    repeat (cbn [module_flags_loop]; adv; cbn [obind]; rewrite rd_u16_le16; cbn [obind]; eqb_closed;
            cbn [orb]); reflexivity.
Qed.

(* the test [stream.starts_with(&[0x47, 0x00])] of read_modules on a record id *)
Lemma starts_with2_le16 : forall a b id rest, a < 256 -> b < 256 -> id < 65536 ->
  starts_with2 a b (le16 id ++ rest) = (id =? a + 256 * b).
Proof.
  intros a b id rest Ha Hb Hid. unfold le16, starts_with2. cbn [app].
  destruct (N.eqb_spec (id mod 256) a) as [E1|E1], (N.eqb_spec (id / 256) b) as [E2|E2],
           (N.eqb_spec id (a + 256 * b)) as [E3|E3];
    cbn [andb]; try reflexivity; exfalso; lia.
Qed.

Lemma starts_with2_record : forall id id' b rest, id < 256 -> id' < 65536 ->
  starts_with2 id 0 (var_rec id' b ++ rest) = (id' =? id).
Proof.
  intros id id' b rest Hid Hid'. unfold var_rec. rewrite <- app_assoc.
  rewrite starts_with2_le16 by lia. f_equal. lia.
Qed.

(* one MODULE record, with or without its optional MODULENAMEUNICODE record *)
Lemma read_module_enc : forall cp m rest, valid_modb m = true ->
  read_module decode cp (enc_mod m ++ rest) = Ok (expected_mod decode cp m, rest).
Proof.
  intros cp m rest Hv. unfold valid_modb in Hv.
  and_split Hv Hv Hcookie. and_split Hv Hv Hhelp. and_split Hv Hv Hoff. and_split Hv Hv H6.
  and_split Hv Hv H5. and_split Hv Hv H4. and_split Hv Hv H3. and_split Hv H1 H2.
  unfold read_module, enc_mod. rewrite <- !app_assoc.
  rewrite check_variable_record_var_rec by assumption. cbn [obind].
  assert (Hopt : forall tl,
    (if starts_with2 71 0 ((match ms_name_u m with Some nu => var_rec 71 nu | None => [] end) ++
                           var_rec 26 (ms_stream m) ++ tl)
     then do (_, s) <- check_variable_record 71
                         ((match ms_name_u m with Some nu => var_rec 71 nu | None => [] end) ++
                          var_rec 26 (ms_stream m) ++ tl); Ok s
     else Ok ((match ms_name_u m with Some nu => var_rec 71 nu | None => [] end) ++
              var_rec 26 (ms_stream m) ++ tl))
    = Ok (var_rec 26 (ms_stream m) ++ tl)).
  { intro tl. destruct (ms_name_u m) as [nu|].
    - (* the record is there: its id bytes are 47 00, it is consumed *)
      rewrite starts_with2_record by lia. eqb_closed.
      rewrite check_variable_record_var_rec by exact H2. reflexivity.
    - (* the record is absent: the next id bytes are 1A 00, nothing is consumed *)
      cbn [app]. rewrite starts_with2_record by lia. eqb_closed. reflexivity. }
  change 0x47 with 71. change 0x00 with 0. change 0x0047 with 71. change 0x001A with 26.
  rewrite Hopt. cbn [obind].
  repeat (rewrite check_variable_record_var_rec by assumption; cbn [obind]).
  rewrite check_record_le16. cbn [obind]. adv. cbn [obind].
  rewrite rd_u32_le32 by (apply N.ltb_lt, Hoff). cbn [obind].
  rewrite check_record_le16. cbn [obind]. adv. cbn [obind].
  rewrite check_record_le16. cbn [obind]. adv. cbn [obind].
  rewrite rd_u16_le16. cbn [obind].
  assert (Ht : negb (((if ms_document m then 34 else 33) =? 33) || ((if ms_document m then 34 else 33) =? 34)) = false).
  { destruct (ms_document m); reflexivity. }
  change 0x0022 with 34. change 0x0021 with 33. rewrite Ht.
  rewrite module_flags_enc.
  2:{ rewrite app_length, le32_length. lia. }
  cbn [obind]. adv. cbn [obind]. reflexivity.
Qed.

Lemma modules_loop_enc : forall cp ms acc rest, forallb valid_modb ms = true ->
  modules_loop decode (length ms) cp acc (concat (map enc_mod ms) ++ rest)
  = Ok (acc ++ map (expected_mod decode cp) ms, rest).
Proof.
  intros cp ms. induction ms as [|m ms IH]; intros acc rest Hv.
  - cbn [length modules_loop map concat app]. rewrite app_nil_r. reflexivity.
  - cbn [forallb] in Hv. and_split Hv Hm Hms.
    cbn [length modules_loop map concat]. rewrite <- app_assoc.
    rewrite read_module_enc by exact Hm. cbn [obind]. rewrite IH by exact Hms.
    rewrite <- app_assoc. reflexivity.
Qed.

Lemma read_modules_enc : forall cp ms cookie rest,
  forallb valid_modb ms = true -> N.of_nat (length ms) < 65536 ->
  read_modules decode cp (le32 2 ++ le16 (N.of_nat (length ms)) ++ le16 0x0013 ++ le32 2 ++
                          le16 cookie ++ concat (map enc_mod ms) ++ rest)
  = Ok (map (expected_mod decode cp) ms, rest).
Proof.
  intros cp ms cookie rest Hv Hn. unfold read_modules. adv. cbn [obind].
  rewrite rd_u16_le16. cbn [obind]. adv. cbn [obind].
  rewrite Nat2N.id. apply (modules_loop_enc cp ms [] rest Hv).
Qed.

(* ---------- the dir stream ---------- *)
Theorem dir_roundtrip : forall p refs,
  valid_projb p = true ->
  expected_refs decode (p_codepage p) (p_refs p) = Some refs ->
  parse_dir decode (encode_dir p)
  = Ok (p_codepage p, refs, map (expected_mod decode (p_codepage p)) (p_mods p)).
Proof.
  intros p refs Hv He. unfold parse_dir, encode_dir.
  rewrite read_dir_information_enc by exact Hv. cbn [obind].
  unfold valid_projb in Hv.
  and_split Hv Hv Hcookie. and_split Hv Hv Hcount. and_split Hv Hv Hmods. and_split Hv Hv Hrefs.
  rewrite (references_enc _ _ _ refs Hrefs He). cbn [obind].
  rewrite read_modules_enc; [reflexivity|exact Hmods|apply N.ltb_lt, Hcount].
Qed.

(* ---------- the whole project ---------- *)
Lemma list_eqb_eq : forall a b, list_eqb a b = true <-> a = b.
Proof.
  induction a as [|x a IH]; intros [|y b]; cbn [list_eqb]; split; intro H; try discriminate; auto.
  - and_split H H1 H2. apply N.eqb_eq in H1. apply IH in H2. congruence.
  - injection H as -> ->. rewrite N.eqb_refl. cbn [andb]. apply IH. reflexivity.
Qed.

(* stream names distinct up to case (the uniqueness rule of [MS-CFB] 2.6.4 for one storage) *)
Definition stream_keys (l : list (list N * list N)) : list (list N) := map (fun x => sn_key (fst x)) l.

Lemma sn_eqb_keys : forall a b, sn_eqb a b = true <-> sn_key a = sn_key b.
Proof. intros a b. unfold sn_eqb. apply list_eqb_eq. Qed.

(* a stream is found under every case spelling of its name *)
Lemma get_stream_in_key : forall l n n' b, NoDup (stream_keys l) -> In (n, b) l -> sn_key n' = sn_key n ->
  get_stream l n' = Ok b.
Proof.
  induction l as [|[m b'] l IH]; intros n n' b Hnd Hin Hk; [contradiction|].
  cbn [get_stream]. unfold stream_keys in Hnd. cbn [map fst] in Hnd. inversion Hnd as [|? ? Hnotin Hnd']; subst.
  destruct (sn_eqb m n') eqn:E.
  - apply sn_eqb_keys in E. destruct Hin as [Hin|Hin]; [congruence|].
    exfalso. apply Hnotin. apply (in_map (fun x => sn_key (fst x))) in Hin. cbn [fst] in Hin. congruence.
  - destruct Hin as [Hin|Hin].
    + injection Hin as -> ->. assert (sn_eqb n n' = true) by (apply sn_eqb_keys; congruence). congruence.
    + apply (IH n n' b); assumption.
Qed.

Lemma get_stream_in : forall l n b, NoDup (stream_keys l) -> In (n, b) l -> get_stream l n = Ok b.
Proof. intros l n b Hnd Hin. apply (get_stream_in_key l n n b Hnd Hin eq_refl). Qed.

Definition body_ok (mb : mod_spec * mod_body) : Prop :=
  Forall valid_chunk (mb_chunks (snd mb)) /\
  ms_offset (fst mb) = N.of_nat (length (mb_pcode (snd mb))).

Lemma read_all_modules_enc : forall cp streams mbs,
  NoDup (stream_keys streams) ->
  (forall mb, In mb mbs ->
     In (decode cp (ms_stream (fst mb)), module_stream (snd mb)) streams /\ body_ok mb) ->
  read_all_modules streams (map (fun mb => expected_mod decode cp (fst mb)) mbs)
  = Ok (map (fun mb => (decode cp (ms_name (fst mb)), sem (mb_chunks (snd mb)))) mbs).
Proof.
  intros cp streams mbs Hnd. induction mbs as [|mb mbs IH]; intro H; [reflexivity|].
  cbn [map read_all_modules]. destruct (H mb (or_introl eq_refl)) as [Hin [Hchunks Hoff]].
  unfold expected_mod at 1 2. cbn [m_stream m_offset m_name].
  rewrite (get_stream_in _ _ _ Hnd Hin). cbn [obind].
  unfold module_stream. rewrite Hoff.
  rewrite module_content_roundtrip by (auto; reflexivity). cbn [obind].
  rewrite IH by (intros mb' Hin'; apply H; right; exact Hin'). reflexivity.
Qed.

Theorem vba_project_roundtrip : forall p dir_chunks mbs refs,
  valid_projb p = true ->
  expected_refs decode (p_codepage p) (p_refs p) = Some refs ->
  Forall valid_chunk dir_chunks -> known_C18 dir_chunks = None ->
  sem dir_chunks = encode_dir p ->
  p_mods p = map fst mbs ->
  Forall body_ok mbs ->
  NoDup (stream_keys (project_streams decode p dir_chunks mbs)) ->
  vba_project decode (project_streams decode p dir_chunks mbs)
  = Ok (mkproject (p_codepage p) refs
          (map (fun mb => (decode (p_codepage p) (ms_name (fst mb)), sem (mb_chunks (snd mb)))) mbs)).
Proof.
  intros p dir_chunks mbs refs Hv He Hdc Hk Hsem Hmods Hbodies Hnd.
  unfold vba_project. unfold project_streams at 1. cbn [get_stream].
  assert (Hd : sn_eqb DIR_NAME DIR_NAME = true) by reflexivity. rewrite Hd. cbn [obind].
  rewrite decompress_encode by assumption. cbn [obind]. fold (sem dir_chunks). rewrite Hsem.
  rewrite (dir_roundtrip p refs Hv He). cbn [obind].
  rewrite Hmods, map_map.
  rewrite (read_all_modules_enc (p_codepage p) _ mbs Hnd).
  - reflexivity.
  - intros mb Hin. split.
    + unfold project_streams. right.
      apply (in_map (fun mb => (decode (p_codepage p) (ms_stream (fst mb)), module_stream (snd mb)))) in Hin.
      exact Hin.
    + rewrite Forall_forall in Hbodies. apply Hbodies, Hin.
Qed.

(* BTreeMap lookup: with distinct module names every module is found under its name *)
Lemma get_module_raw_some_in : forall ms n c, get_module_raw ms n = Some c -> In n (map fst ms).
Proof.
  induction ms as [|[a b] ms IH]; intros n c E; [discriminate|].
  cbn [get_module_raw] in E. cbn [map fst].
  destruct (get_module_raw ms n) as [c'|] eqn:E'; [right; apply (IH n c'), E'|].
  destruct (list_eqb a n) eqn:Ea; [|discriminate]. apply list_eqb_eq in Ea. left. exact Ea.
Qed.

Lemma get_module_raw_in : forall ms n c, NoDup (map fst ms) -> In (n, c) ms ->
  get_module_raw ms n = Some c.
Proof.
  induction ms as [|[n' c'] ms IH]; intros n c Hnd Hin; [contradiction|].
  cbn [get_module_raw]. cbn [map fst] in Hnd. inversion Hnd as [|? ? Hnotin Hnd']; subst.
  destruct Hin as [Hin|Hin].
  - injection Hin as -> ->.
    destruct (get_module_raw ms n) as [c''|] eqn:E.
    + exfalso. apply Hnotin. apply (get_module_raw_some_in ms n c''), E.
    + assert (list_eqb n n = true) as -> by (apply list_eqb_eq; reflexivity). reflexivity.
  - rewrite (IH n c Hnd' Hin). reflexivity.
Qed.

(* ---------- get_module: the text of a module ---------- *)
Lemma get_module_raw_some_entry : forall ms n c, get_module_raw ms n = Some c -> In (n, c) ms.
Proof.
  induction ms as [|[a b] ms IH]; intros n c E; [discriminate|].
  cbn [get_module_raw] in E.
  destruct (get_module_raw ms n) as [c'|] eqn:E'.
  - injection E as <-. right. apply IH, E'.
  - destruct (list_eqb a n) eqn:Ea; [|discriminate]. apply list_eqb_eq in Ea.
    injection E as <-. left. congruence.
Qed.

Lemma read_all_modules_sound : forall streams mods ms,
  read_all_modules streams mods = Ok ms ->
  forall n c, In (n, c) ms ->
  exists m s, In m mods /\ m_name m = n /\ get_stream streams (m_stream m) = Ok s /\
              module_content s (m_offset m) = Ok c.
Proof.
  intros streams. induction mods as [|m mods IH]; intros ms H n c Hin.
  - cbn [read_all_modules] in H. injection H as <-. contradiction.
  - cbn [read_all_modules] in H.
    destruct (get_stream streams (m_stream m)) as [s|e| |] eqn:Es; cbn [obind] in H; try discriminate.
    destruct (module_content s (m_offset m)) as [c0|e| |] eqn:Ec; cbn [obind] in H; try discriminate.
    destruct (read_all_modules streams mods) as [tl|e| |] eqn:Et; cbn [obind] in H; try discriminate.
    injection H as <-. destruct Hin as [Hin|Hin].
    + injection Hin as <- <-. exists m, s. repeat split; auto. left; reflexivity.
    + destruct (IH tl eq_refl n c Hin) as (m' & s' & Hm & Hn & Hs & Hc).
      exists m', s'. repeat split; auto. right; exact Hm.
Qed.

Lemma parse_dir_codepage : forall d cp refs mods,
  parse_dir decode d = Ok (cp, refs, mods) ->
  exists rest, read_dir_information d = Ok (cp, rest).
Proof.
  intros d cp refs mods H. unfold parse_dir in H.
  destruct (read_dir_information d) as [[cp' s1]|e| |]; cbn [obind] in H; try discriminate.
  destruct (references_from_stream decode cp' s1) as [[refs' s2]|e| |]; cbn [obind] in H; try discriminate.
  destruct (read_modules decode cp' s2) as [[mods' s3]|e| |]; cbn [obind] in H; try discriminate.
  injection H as -> _ _. exists s1. reflexivity.
Qed.

Lemma module_content_inv : forall s off raw, module_content s off = Ok raw ->
  off <= N.of_nat (length s) /\ decompress (skipn (N.to_nat off) s) = Ok raw.
Proof.
  intros s off raw H. unfold module_content in H.
  destruct (N.ltb_spec (N.of_nat (length s)) off) as [Hlt|Hge]; [discriminate|]. split; [lia|exact H].
Qed.

(* On EVERY container the project reader accepts, whatever text get_module returns for a name
   is the project's code-page decoder — the decoder of the code page read from the
   PROJECTCODEPAGE record of the dir stream — applied to exactly the bytes obtained by
   decompressing the stream that the dir stream records for a module of that name, from the
   text offset recorded there (the offset is applied to the compressed stream, before
   decompression); these bytes are what get_module_raw returns.  No shortcut on the bytes
   (e.g. "already valid UTF-8") is possible: [decode] is arbitrary. *)
Theorem module_text_is_codepage_decoding : forall streams pj name text,
  vba_project decode streams = Ok pj ->
  get_module decode pj name = Some text ->
  exists dir d rest refs mods stream_name off s raw,
    get_stream streams DIR_NAME = Ok dir /\ decompress dir = Ok d /\
    read_dir_information d = Ok (pj_codepage pj, rest) /\
    parse_dir decode d = Ok (pj_codepage pj, refs, mods) /\
    In (mkmod name stream_name off) mods /\
    get_stream streams stream_name = Ok s /\ off <= N.of_nat (length s) /\
    decompress (skipn (N.to_nat off) s) = Ok raw /\
    get_module_raw (pj_modules pj) name = Some raw /\
    text = decode (pj_codepage pj) raw.
Proof.
  intros streams pj name text Hp Hg. unfold vba_project in Hp.
  destruct (get_stream streams DIR_NAME) as [dir|e| |] eqn:Edir; cbn [obind] in Hp; try discriminate.
  destruct (decompress dir) as [d|e| |] eqn:Ed; cbn [obind] in Hp; try discriminate.
  destruct (parse_dir decode d) as [[[cp refs] mods]|e| |] eqn:Epd; cbn [obind] in Hp; try discriminate.
  destruct (read_all_modules streams mods) as [ms|e| |] eqn:Ems; cbn [obind] in Hp; try discriminate.
  injection Hp as <-. cbn [pj_codepage pj_modules] in *.
  unfold get_module in Hg. cbn [pj_codepage pj_modules] in Hg.
  destruct (get_module_raw ms name) as [raw|] eqn:Eraw; cbn [option_map] in Hg; [|discriminate].
  injection Hg as <-.
  destruct (read_all_modules_sound _ _ _ Ems name raw (get_module_raw_some_entry _ _ _ Eraw))
    as (m & s & Hin & Hname & Hs & Hc).
  destruct (parse_dir_codepage _ _ _ _ Epd) as (rest & Hinfo).
  destruct (module_content_inv _ _ _ Hc) as (Hoff & Hdec).
  exists dir, d, rest, refs, mods, (m_stream m), (m_offset m), s, raw.
  repeat split; auto. destruct m as [n sn off]. cbn [m_name] in Hname. subst n. exact Hin.
Qed.

(* … and on the containers of [vba_project_roundtrip] every module is found under its decoded
   name and its text is the decoding of exactly the bytes its tokens mean *)
Theorem module_text_roundtrip : forall p dir_chunks mbs refs mb,
  valid_projb p = true ->
  expected_refs decode (p_codepage p) (p_refs p) = Some refs ->
  Forall valid_chunk dir_chunks -> known_C18 dir_chunks = None ->
  sem dir_chunks = encode_dir p ->
  p_mods p = map fst mbs ->
  Forall body_ok mbs ->
  NoDup (stream_keys (project_streams decode p dir_chunks mbs)) ->
  NoDup (map (fun mb => decode (p_codepage p) (ms_name (fst mb))) mbs) ->
  In mb mbs ->
  exists pj,
    vba_project decode (project_streams decode p dir_chunks mbs) = Ok pj /\
    get_module_raw (pj_modules pj) (decode (p_codepage p) (ms_name (fst mb)))
    = Some (sem (mb_chunks (snd mb))) /\
    get_module decode pj (decode (p_codepage p) (ms_name (fst mb)))
    = Some (decode (p_codepage p) (sem (mb_chunks (snd mb)))).
Proof.
  intros p dir_chunks mbs refs mb Hv He Hdc Hk Hsem Hmods Hbodies Hnd Hnames Hin.
  eexists. split; [apply (vba_project_roundtrip p dir_chunks mbs refs); assumption|].
  assert (Hraw : get_module_raw
            (map (fun mb => (decode (p_codepage p) (ms_name (fst mb)), sem (mb_chunks (snd mb)))) mbs)
            (decode (p_codepage p) (ms_name (fst mb))) = Some (sem (mb_chunks (snd mb)))).
  { apply get_module_raw_in.
    - rewrite map_map. cbn [fst]. exact Hnames.
    - apply (in_map (fun mb => (decode (p_codepage p) (ms_name (fst mb)), sem (mb_chunks (snd mb))))) in Hin.
      exact Hin. }
  split; [exact Hraw|]. unfold get_module. cbn [pj_codepage pj_modules]. rewrite Hraw. reflexivity.
Qed.
(* ---------- CFB-1: the container may spell its stream names in any case ----------
   [respelled l l']: the same streams in the same order, every name up to the case of its ASCII
   letters (VBA / dir / MODULE1 for the names the dir stream records as Module1 …) *)
Definition respelled (l l' : list (list N * list N)) : Prop :=
  Forall2 (fun a b => sn_key (fst a) = sn_key (fst b) /\ snd a = snd b) l l'.

Lemma get_stream_respelled : forall l l' n, respelled l l' -> get_stream l n = get_stream l' n.
Proof.
  intros l l' n H. induction H as [|[a x] [b y] l l' [Hk Hb] _ IH]; [reflexivity|].
  cbn [fst snd] in Hk, Hb. subst y. cbn [get_stream]. unfold sn_eqb. rewrite Hk, IH. reflexivity.
Qed.

Lemma read_all_modules_respelled : forall l l' mods, respelled l l' ->
  read_all_modules l mods = read_all_modules l' mods.
Proof.
  intros l l' mods H. induction mods as [|m mods IH]; [reflexivity|].
  cbn [read_all_modules]. rewrite (get_stream_respelled l l' (m_stream m) H), IH. reflexivity.
Qed.

Theorem vba_project_respelled : forall l l', respelled l l' ->
  vba_project decode l = vba_project decode l'.
Proof.
  intros l l' H. unfold vba_project. rewrite (get_stream_respelled l l' DIR_NAME H).
  destruct (get_stream l' DIR_NAME) as [s|e| |]; cbn [obind]; try reflexivity.
  destruct (decompress s) as [d|e| |]; cbn [obind]; try reflexivity.
  destruct (parse_dir decode d) as [[[cp refs] mods]|e| |]; cbn [obind]; try reflexivity.
  rewrite (read_all_modules_respelled l l' mods H). reflexivity.
Qed.

(* the round trip of a project through a container that stores its streams under ANY case spelling *)
Theorem vba_project_roundtrip_any_case : forall p dir_chunks mbs refs streams,
  valid_projb p = true ->
  expected_refs decode (p_codepage p) (p_refs p) = Some refs ->
  Forall valid_chunk dir_chunks -> known_C18 dir_chunks = None ->
  sem dir_chunks = encode_dir p ->
  p_mods p = map fst mbs ->
  Forall body_ok mbs ->
  NoDup (stream_keys (project_streams decode p dir_chunks mbs)) ->
  respelled (project_streams decode p dir_chunks mbs) streams ->
  vba_project decode streams
  = Ok (mkproject (p_codepage p) refs
          (map (fun mb => (decode (p_codepage p) (ms_name (fst mb)), sem (mb_chunks (snd mb)))) mbs)).
Proof.
  intros p dir_chunks mbs refs streams Hv He Hdc Hk Hsem Hmods Hbodies Hnd Hr.
  rewrite <- (vba_project_respelled _ _ Hr). apply vba_project_roundtrip; assumption.
Qed.
End DirProofs.

(* ---------- the libid text: "…#path#description" ---------- *)
Lemma split_last_none : forall sep l, ~ In sep l -> split_last sep l = None.
Proof.
  induction l as [|x l IH]; intro H; [reflexivity|]. cbn [split_last].
  rewrite IH by (intro; apply H; right; assumption).
  destruct (N.eqb_spec x sep) as [->|_]; [exfalso; apply H; left; reflexivity|reflexivity].
Qed.

Lemma split_last_spec : forall sep a b, ~ In sep b ->
  split_last sep (a ++ sep :: b) = Some (a, b).
Proof.
  induction a as [|x a IH]; intros b H.
  - cbn [app split_last]. rewrite split_last_none by exact H. rewrite N.eqb_refl. reflexivity.
  - cbn [app split_last]. rewrite IH by exact H. reflexivity.
Qed.

Theorem rsplit2_spec : forall a path desc, ~ In 35 path -> ~ In 35 desc ->
  rsplit2 (a ++ 35 :: path ++ 35 :: desc) = Some (desc, path).
Proof.
  intros a path desc Hp Hd. unfold rsplit2.
  replace (a ++ 35 :: path ++ 35 :: desc) with ((a ++ 35 :: path) ++ 35 :: desc)
    by (rewrite <- app_assoc; reflexivity).
  rewrite split_last_spec by exact Hd. rewrite split_last_spec by exact Hp. reflexivity.
Qed.

Theorem rsplit2_one_hash : forall path desc, ~ In 35 path -> ~ In 35 desc ->
  rsplit2 (path ++ 35 :: desc) = Some (desc, path).
Proof.
  intros path desc Hp Hd. unfold rsplit2. rewrite split_last_spec by exact Hd.
  rewrite split_last_none by exact Hp. reflexivity.
Qed.

Theorem rsplit2_no_hash : forall l, ~ In 35 l -> rsplit2 l = None.
Proof. intros l H. unfold rsplit2. rewrite split_last_none by exact H. reflexivity. Qed.

(* ---------- non-vacuity: a concrete project ---------- *)
Definition ex_libid : list N :=   (* *\G{0}#2.0#0#C:\s.tlb#OLE *)
  [42; 92; 71; 123; 48; 125; 35; 50; 46; 48; 35; 48; 35; 67; 58; 92; 115; 46; 116; 108; 98; 35; 79; 76; 69].
Definition ex_libid2 : list N :=   (* *\G{1}#1.0#0#D:\t.tlb#Foo *)
  [42; 92; 71; 123; 49; 125; 35; 49; 46; 48; 35; 48; 35; 68; 58; 92; 116; 46; 116; 108; 98; 35; 70; 111; 111].
Definition ex_proj : proj :=
  mkproj 1 (Some 3) 1033 1033 1252 [86; 66; 65] [100] [100; 0] [] [] 0 0 1 2 [99; 61; 49] [99; 0]
    [ mkrs false [] [] (RProject [42; 92; 67; 90; 58; 92; 113] [] 0 0);      (* nameless, first *)
      mkrs true [115; 116; 100] [115; 0; 116; 0; 100; 0] (RRegistered ex_libid);
      mkrs false [] [] (RRegistered ex_libid2);                            (* nameless, middle *)
      mkrs false [] [] (RControl (Some ex_libid2) ex_libid None ex_libid (repeat 1 16) 0);
      mkrs true [80; 114; 106] [] (RProject [42; 92; 67; 67; 58; 92; 112] [42; 92; 67; 112] 1 2);
      mkrs true [70; 77] [] (RControl (Some ex_libid) ex_libid (Some ([88], [88; 0])) ex_libid2
                          (repeat 0 16) 7);
      mkrs true [] [] (RRegistered ex_libid);                              (* named, empty name *)
      mkrs false [] [] (RControl None ex_libid2 (Some ([89], [89; 0])) ex_libid (repeat 2 16) 1) ]
    [ mkms [77; 49] (Some [77; 0; 49; 0]) [83; 49] [83; 0; 49; 0] [] [] 3 0 1 false true false;
      mkms [84; 104] None [83; 50] [] [100] [] 0 0 2 true false true ]   (* no MODULENAMEUNICODE *)
    65535.
Definition ex_bodies : list (mod_spec * mod_body) :=
  combine (p_mods ex_proj)
    [ mkbody [9; 9; 9] [Toks [Lit 83; Lit 117; Lit 98; Copy 3 6; Lit 10]];
      mkbody [] [Toks [Lit 1; Lit 2; Lit 3; Lit 4; Lit 5; Lit 6; Lit 7; Lit 8]; Toks [Lit 9]] ].
Definition ex_dir_chunks : list chunk := [Toks (map Lit (encode_dir ex_proj))].
Definition dec_id (cp : N) (l : list N) : list N := l.

Example ex_project_valid :
  valid_projb ex_proj = true /\
  (exists refs, expected_refs dec_id 1252 (p_refs ex_proj) = Some refs /\ length refs = 8%nat) /\
  Forall valid_chunk ex_dir_chunks /\ sem ex_dir_chunks = encode_dir ex_proj /\
  p_mods ex_proj = map fst ex_bodies /\ Forall body_ok ex_bodies /\
  NoDup (stream_keys (project_streams dec_id ex_proj ex_dir_chunks ex_bodies)).
Proof.
  split; [vm_compute; reflexivity|].
  split; [eexists; split; vm_compute; reflexivity|].
  split.
  { apply Forall_forall. intros c Hc.
    assert (H : forallb valid_chunkb ex_dir_chunks = true) by (vm_compute; reflexivity).
    rewrite forallb_forall in H. apply H, Hc. }
  split; [vm_compute; reflexivity|]. split; [reflexivity|]. split.
  { repeat constructor; vm_compute; reflexivity. }
  cbn. repeat constructor; cbn; intuition discriminate.
Qed.

(* the example project in a container whose writer upper-cased the stream names: DIR, M1 … *)
Example ex_project_upper_case :
  let up := map (fun x => (sn_key (fst x), snd x)) (project_streams dec_id ex_proj ex_dir_chunks ex_bodies) in
  respelled (project_streams dec_id ex_proj ex_dir_chunks ex_bodies) up /\
  map fst up <> map fst (project_streams dec_id ex_proj ex_dir_chunks ex_bodies) /\
  hd [] (map fst up) = [68; 73; 82] /\
  vba_project dec_id up = vba_project dec_id (project_streams dec_id ex_proj ex_dir_chunks ex_bodies).
Proof.
  cbv zeta. split; [|split; [|split]].
  - unfold respelled. induction (project_streams dec_id ex_proj ex_dir_chunks ex_bodies) as [|x l IH]; constructor.
    + cbn [fst snd]. split; [|reflexivity]. unfold sn_key. rewrite map_map.
      induction (fst x) as [|c n IHn]; [reflexivity|]. cbn [map]. rewrite <- IHn. f_equal.
      unfold sn_upper. destruct ((97 <=? c) && (c <=? 122)) eqn:E; [|rewrite E; reflexivity].
      assert (E2 : (97 <=? c - 32) && (c - 32 <=? 122) = false) by lia. rewrite E2. reflexivity.
    + exact IH.
  - vm_compute. discriminate.
  - vm_compute. reflexivity.
  - vm_compute. reflexivity.
Qed.

Example ex_project_reads :
  vba_project dec_id (project_streams dec_id ex_proj ex_dir_chunks ex_bodies)
  = Ok (mkproject 1252
          [ mkref [] [] [90; 58; 92; 113];
            mkref [115; 116; 100] [79; 76; 69] [67; 58; 92; 115; 46; 116; 108; 98];
            mkref [] [70; 111; 111] [68; 58; 92; 116; 46; 116; 108; 98];
            mkref [] [79; 76; 69] [68; 58; 92; 116; 46; 116; 108; 98];
            mkref [80; 114; 106] [80; 114; 106] [67; 58; 92; 112];
            mkref [70; 77] [70; 111; 111] [67; 58; 92; 115; 46; 116; 108; 98];
            mkref [] [79; 76; 69] [67; 58; 92; 115; 46; 116; 108; 98];
            mkref [] [79; 76; 69] [68; 58; 92; 116; 46; 116; 108; 98] ]
          [ ([77; 49], [83; 117; 98; 83; 117; 98; 83; 117; 98; 10]);
            ([84; 104], [1; 2; 3; 4; 5; 6; 7; 8; 9]) ]).
Proof. vm_compute. reflexivity. Qed.

(* non-vacuity of [module_text_roundtrip] / [module_text_is_codepage_decoding]: a decoder that is
   not the identity (every byte b other than '#' reads as scalar b + 256), distinct module names *)
Definition dec_shift (cp : N) (l : list N) : list N :=
  map (fun b => if b =? 35 then 35 else b + 256) l.
Example ex_project_module_text :
  NoDup (map (fun mb => dec_shift 1252 (ms_name (fst mb))) ex_bodies) /\
  NoDup (stream_keys (project_streams dec_shift ex_proj ex_dir_chunks ex_bodies)) /\
  exists pj, vba_project dec_shift (project_streams dec_shift ex_proj ex_dir_chunks ex_bodies) = Ok pj /\
    get_module dec_shift pj [333; 305]
    = Some [339; 373; 354; 339; 373; 354; 339; 373; 354; 266].
Proof.
  split; [cbn; repeat constructor; cbn; intuition discriminate|].
  split; [cbn; repeat constructor; cbn; intuition discriminate|].
  eexists. split; vm_compute; reflexivity.
Qed.

(* ---------- a MODULE record without its optional MODULENAMEUNICODE record (MS-OVBA 2.3.4.2.3.2)
   Before the fix: commit 4d45fd5 read_modules demanded the record and answered InvalidRecordId
   (0x001A where 0x0047 was expected) on this stream.  [ex_mod_plain]: MODULENAME "M" directly
   followed by MODULESTREAMNAME "S"; [ex_mod_uni]: the same module with the record. *)
Definition ex_mod_plain : mod_spec := mkms [77] None [83] [83; 0] [] [] 5 0 1 false false false.
Definition ex_mod_uni : mod_spec := mkms [77] (Some [77; 0]) [83] [83; 0] [] [] 5 0 1 false false false.

Example module_without_name_unicode_reads :
  valid_modb ex_mod_plain = true /\ valid_modb ex_mod_uni = true /\
  (* the two layouts differ exactly by the 8 bytes of the 0x0047 record *)
  firstn 14 (enc_mod ex_mod_plain) = [25; 0; 1; 0; 0; 0; 77; 26; 0; 1; 0; 0; 0; 83] /\
  firstn 22 (enc_mod ex_mod_uni)
  = [25; 0; 1; 0; 0; 0; 77; 71; 0; 2; 0; 0; 0; 77; 0; 26; 0; 1; 0; 0; 0; 83] /\
  skipn 7 (enc_mod ex_mod_plain) = skipn 15 (enc_mod ex_mod_uni) /\
  (* both are read as the same module: name "M", stream "S", text offset 5 *)
  read_module dec_id 1252 (enc_mod ex_mod_plain ++ [9]) = Ok (mkmod [77] [83] 5, [9]) /\
  read_module dec_id 1252 (enc_mod ex_mod_uni ++ [9]) = Ok (mkmod [77] [83] 5, [9]) /\
  (* fewer than two bytes left after MODULENAME: starts_with is false, the next read errs *)
  read_module dec_id 1252 [25; 0; 1; 0; 0; 0; 77; 71] = Err E_IO /\
  (* 47 01 is not the record id 0x0047: nothing is skipped, 0x0147 is not MODULESTREAMNAME *)
  read_module dec_id 1252 [25; 0; 1; 0; 0; 0; 77; 71; 1; 0; 0; 0; 0] = Err E_RECORD_ID /\
  (* a whole dir stream whose only module has no MODULENAMEUNICODE record *)
  parse_dir dec_id (encode_dir (mkproj 1 None 1033 1033 1252 [86] [] [] [] [] 0 0 1 2 [] [] []
                                  [ex_mod_plain] 0))
  = Ok (1252, [], [mkmod [77] [83] 5]).
Proof. repeat split; vm_compute; reflexivity. Qed.

(* ---------- the dir-stream reader is total: on every input no panic, and the fuel of its
   loops suffices ---------- *)
Definition wf {A} (P : A -> Prop) (o : outcome A) : Prop :=
  match o with
  | Ok a => P a
  | Err _ => True
  | Panic => False
  | OutOfFuel => False
  end.

Lemma wf_total : forall A (P : A -> Prop) (o : outcome A), wf P o -> o <> Panic /\ o <> OutOfFuel.
Proof. intros A P [a|e| |] H; cbn in H; try contradiction; split; discriminate. Qed.

Lemma wf_bind : forall A B (P : A -> Prop) (Q : B -> Prop) (o : outcome A) (f : A -> outcome B),
  wf P o -> (forall a, P a -> wf Q (f a)) -> wf Q (obind o f).
Proof. intros A B P Q [a|e| |] f Ho Hf; cbn in *; auto. Qed.

Lemma wf_weaken : forall A (P Q : A -> Prop) (o : outcome A),
  wf P o -> (forall a, P a -> Q a) -> wf Q o.
Proof. intros A P Q [a|e| |] Ho H; cbn in *; auto. Qed.

Lemma advance_wf : forall n s, wf (fun s' => (length s' <= length s)%nat) (advance n s).
Proof.
  intros n s. unfold advance. destruct (_ <? n); cbn [wf]; [exact I|]. rewrite skipn_length. lia.
Qed.

Lemma rd_u16_wf : forall s, wf (fun r => (length (snd r) + 2 = length s)%nat) (rd_u16 s).
Proof. intros [|a [|b s]]; cbn; auto. lia. Qed.

Lemma rd_u32_wf : forall s, wf (fun r => (length (snd r) + 4 = length s)%nat) (rd_u32 s).
Proof. intros [|a [|b [|c [|d s]]]]; cbn; auto. lia. Qed.

Lemma read_variable_record_wf : forall s,
  wf (fun r => (length (snd r) + 4 <= length s)%nat) (read_variable_record s).
Proof.
  intro s. unfold read_variable_record. eapply wf_bind; [apply rd_u32_wf|].
  intros [len s1] H. cbn [snd] in *. destruct (_ <? len); cbn [wf snd]; [exact I|].
  rewrite skipn_length. lia.
Qed.

Lemma check_record_wf : forall id s, wf (fun s' => (length s' + 2 = length s)%nat) (check_record id s).
Proof.
  intros id s. unfold check_record. eapply wf_bind; [apply rd_u16_wf|].
  intros [rid s1] H. cbn [snd] in *. destruct (rid =? id); cbn [wf]; auto.
Qed.

Lemma check_variable_record_wf : forall id s,
  wf (fun r => (length (snd r) + 6 <= length s)%nat) (check_variable_record id s).
Proof.
  intros id s. unfold check_variable_record. eapply wf_bind; [apply check_record_wf|].
  intros s1 H. eapply wf_weaken; [apply read_variable_record_wf|]. intros r Hr. cbn beta in *. lia.
Qed.

Section FuelDir.
Variable decode : N -> list N -> list N.

Lemma set_libid_wf : forall cp r s,
  wf (fun x => (length (snd x) + 4 <= length s)%nat) (set_libid decode cp r s).
Proof.
  intros cp r s. unfold set_libid. eapply wf_bind; [apply read_variable_record_wf|].
  intros [libid s1] H. cbn [snd] in *. destruct (_ || _); cbn [wf snd]; [exact H|].
  destruct (rsplit2 _) as [[desc path]|]; cbn [wf snd]; auto.
Qed.

Ltac wf_step lem x H := eapply wf_bind; [apply lem|]; intros x H; cbn beta in *; cbn [snd] in *.

Lemma ref_step_wf : forall cp refs cur complete s,
  wf (fun c => match c with
               | Continue (_, _, _, s') => (length s' < length s)%nat
               | Break _ => True
               end) (ref_step decode cp (refs, cur, complete, s)).
Proof.
  intros cp refs0 cur0 complete0 s. unfold ref_step.
  wf_step rd_u16_wf x1 H1. destruct x1 as [check s1]. cbn [snd] in *.
  destruct (start_nameless check (refs0, cur0, complete0)) as [[refs cur] complete].
  destruct (check =? 15); [exact I|].
  destruct (check =? 22).
  { wf_step read_variable_record_wf x2 H2. destruct x2 as [name s2]. cbn [snd] in *.
    wf_step check_variable_record_wf x3 H3. destruct x3 as [x s3]. cbn [snd wf] in *. lia. }
  destruct (check =? 51).
  { wf_step set_libid_wf x2 H2. destruct x2 as [c2 s2]. cbn [snd wf] in *. lia. }
  destruct (check =? 47).
  { wf_step advance_wf s2 H2. wf_step set_libid_wf x3 H3. destruct x3 as [c2 s3]. cbn [snd] in *.
    wf_step advance_wf s4 H4. wf_step rd_u16_wf x5 H5. destruct x5 as [t s5]. cbn [snd] in *.
    eapply (@wf_bind _ _ (fun s6 => (length s6 <= length s5)%nat) _ _ _).
    { destruct (t =? 22).
      - wf_step read_variable_record_wf y1 G1. destruct y1 as [x s6]. cbn [snd] in *.
        wf_step check_variable_record_wf y2 G2. destruct y2 as [y s7]. cbn [snd] in *.
        eapply wf_weaken; [apply check_record_wf|]. intros; cbn beta in *; lia.
      - destruct (t =? 48); cbn [wf]; auto. }
    intros s6 H6. cbn beta in H6.
    wf_step advance_wf s7 H7. wf_step set_libid_wf x8 H8. destruct x8 as [c3 s8]. cbn [snd] in *.
    wf_step advance_wf s9 H9. cbn [wf]. lia. }
  destruct (check =? 13).
  { wf_step advance_wf s2 H2. wf_step set_libid_wf x3 H3. destruct x3 as [c2 s3]. cbn [snd] in *.
    wf_step advance_wf s4 H4. cbn [wf]. lia. }
  destruct (check =? 14).
  { wf_step advance_wf s2 H2. wf_step read_variable_record_wf x3 H3. destruct x3 as [ab s3]. cbn [snd] in *.
    wf_step read_variable_record_wf x4 H4. destruct x4 as [rl s4]. cbn [snd] in *.
    wf_step advance_wf s5 H5. cbn [wf]. lia. }
  exact I.
Qed.

Lemma refs_loop_no_fuel : forall f cp refs cur complete s, (length s < f)%nat ->
  refs_loop decode f cp (refs, cur, complete, s) <> OutOfFuel.
Proof.
  induction f as [|f IH]; intros cp refs cur complete s Hf; [lia|]. cbn [refs_loop].
  pose proof (ref_step_wf cp refs cur complete s) as Hs.
  destruct (ref_step decode cp (refs, cur, complete, s)) as [[[[[refs' cur'] complete'] s']|r]|e| |];
    cbn [obind wf] in *;
    try discriminate; [|contradiction].
  apply IH. lia.
Qed.

Lemma module_flags_loop_wf : forall f s, (length s < f)%nat ->
  wf (fun s' => (length s' <= length s)%nat) (module_flags_loop f s).
Proof.
  induction f as [|f IH]; intros s Hf; [lia|]. cbn [module_flags_loop].
  wf_step advance_wf s1 H1. wf_step rd_u16_wf x2 H2. destruct x2 as [id s2]. cbn [snd] in *.
  destruct (_ || _).
  - eapply wf_weaken; [apply IH; lia|]. intros; cbn beta in *; lia.
  - destruct (id =? 43); cbn [wf]; auto. lia.
Qed.

Lemma read_module_wf : forall cp s,
  wf (fun r => (length (snd r) <= length s)%nat) (read_module decode cp s).
Proof.
  intros cp s. unfold read_module.
  wf_step check_variable_record_wf x1 H1. destruct x1 as [b1 s1]. cbn [snd] in *.
  (* the optional MODULENAMEUNICODE record: consumed or not, the stream does not grow *)
  eapply (@wf_bind _ _ (fun s2 => (length s2 <= length s1)%nat) _ _ _).
  { destruct (starts_with2 _ _ s1); [|cbn [wf]; lia].
    wf_step check_variable_record_wf x2 H2. destruct x2 as [b2 s2]. cbn [snd wf] in *. lia. }
  intros s2 H2. cbn beta in H2.
  wf_step check_variable_record_wf x3 H3. destruct x3 as [b3 s3]. cbn [snd] in *.
  wf_step check_variable_record_wf x4 H4. destruct x4 as [b4 s4]. cbn [snd] in *.
  wf_step check_variable_record_wf x5 H5. destruct x5 as [b5 s5]. cbn [snd] in *.
  wf_step check_variable_record_wf x6 H6. destruct x6 as [b6 s6]. cbn [snd] in *.
  wf_step check_record_wf s7 H7. wf_step advance_wf s8 H8.
  wf_step rd_u32_wf x9 H9. destruct x9 as [off s9]. cbn [snd] in *.
  wf_step check_record_wf s10 H10. wf_step advance_wf s11 H11.
  wf_step check_record_wf s12 H12. wf_step advance_wf s13 H13.
  wf_step rd_u16_wf x14 H14. destruct x14 as [typ s14]. cbn [snd] in *.
  destruct (negb _); [exact I|].
  eapply wf_bind; [apply module_flags_loop_wf; lia|]. intros s15 H15. cbn beta in H15.
  wf_step advance_wf s16 H16. cbn [wf snd]. lia.
Qed.

Lemma modules_loop_no_fuel : forall n cp acc s, modules_loop decode n cp acc s <> OutOfFuel.
Proof.
  induction n as [|n IH]; intros cp acc s; cbn [modules_loop]; [discriminate|].
  pose proof (read_module_wf cp s) as H.
  destruct (read_module decode cp s) as [[m s']|e| |]; cbn [obind wf] in *; try discriminate; auto.
Qed.

Theorem parse_dir_no_fuel : forall s, parse_dir decode s <> OutOfFuel.
Proof.
  intro s. unfold parse_dir.
  assert (Hinfo : read_dir_information s <> OutOfFuel).
  { assert (W : wf (fun _ => True) (read_dir_information s)).
    { unfold read_dir_information.
      wf_step advance_wf s1 H1.
      eapply (@wf_bind _ _ (fun _ => True) _ _ _).
      { destruct s1 as [|x [|y l]]; try exact I.
        destruct (_ =? 74); [eapply wf_weaken; [apply advance_wf|auto]|exact I]. }
      intros s2 _. wf_step advance_wf s3 H3.
      eapply (@wf_bind _ _ (fun _ => True) _ _ _).
      { destruct (_ <? 8); [exact I|]. destruct (skipn 6 s3) as [|x [|y l]]; cbn; auto. }
      intros cp _. destruct (negb _); [exact I|].
      wf_step advance_wf s4 H4.
      wf_step check_variable_record_wf x5 H5. destruct x5 as [? s5].
      wf_step check_variable_record_wf x6 H6. destruct x6 as [? s6].
      wf_step check_variable_record_wf x7 H7. destruct x7 as [? s7].
      wf_step check_variable_record_wf x8 H8. destruct x8 as [? s8].
      wf_step check_variable_record_wf x9 H9. destruct x9 as [? s9].
      wf_step advance_wf s10 H10.
      wf_step check_variable_record_wf x11 H11. destruct x11 as [? s11].
      wf_step check_variable_record_wf x12 H12. destruct x12 as [? s12]. exact I. }
    destruct (read_dir_information s); cbn in W; try discriminate. contradiction. }
  destruct (read_dir_information s) as [[cp s1]|e| |]; cbn [obind]; try discriminate; [|congruence].
  pose proof (refs_loop_no_fuel (S (length s1)) cp [] empty_ref false s1 ltac:(lia)) as Hrefs.
  unfold references_from_stream.
  destruct (refs_loop decode (S (length s1)) cp ([], empty_ref, false, s1)) as [[refs s2]|e| |]; cbn [obind];
    try discriminate; [|congruence].
  assert (Hmods : read_modules decode cp s2 <> OutOfFuel).
  { unfold read_modules.
    destruct (advance 4 s2) as [s3|e| |] eqn:E3; cbn [obind]; try discriminate.
    2:{ pose proof (advance_wf 4 s2) as W. rewrite E3 in W. contradiction. }
    destruct (rd_u16 s3) as [[n s4]|e| |] eqn:E4; cbn [obind]; try discriminate.
    2:{ pose proof (rd_u16_wf s3) as W. rewrite E4 in W. contradiction. }
    destruct (advance 8 s4) as [s5|e| |] eqn:E5; cbn [obind]; try discriminate.
    2:{ pose proof (advance_wf 8 s4) as W. rewrite E5 in W. contradiction. }
    apply modules_loop_no_fuel. }
  destruct (read_modules decode cp s2) as [[mods s3]|e| |]; cbn [obind]; try discriminate. congruence.
Qed.

Lemma get_stream_no_fuel : forall streams n, get_stream streams n <> OutOfFuel.
Proof.
  intros streams n. induction streams as [|[a b] l IHl]; cbn [get_stream]; [discriminate|].
  destruct (sn_eqb a n); [discriminate|exact IHl].
Qed.

Lemma read_all_modules_no_fuel : forall streams mods, read_all_modules streams mods <> OutOfFuel.
Proof.
  intros streams. induction mods as [|m mods IH]; cbn [read_all_modules]; [discriminate|].
  pose proof (get_stream_no_fuel streams (m_stream m)) as Hg.
  destruct (get_stream streams (m_stream m)) as [s|e| |]; cbn [obind]; try discriminate; [|congruence].
  assert (Hc : module_content s (m_offset m) <> OutOfFuel).
  { unfold module_content. destruct (_ <? _); [discriminate|apply decompress_no_fuel]. }
  destruct (module_content s (m_offset m)) as [c|e| |]; cbn [obind]; try discriminate; [|congruence].
  destruct (read_all_modules streams mods) as [tl|e| |]; cbn [obind]; try discriminate. congruence.
Qed.

(* --- totality: no panic either --- *)
Lemma refs_loop_wf : forall f cp refs cur complete s, (length s < f)%nat ->
  wf (fun _ => True) (refs_loop decode f cp (refs, cur, complete, s)).
Proof.
  induction f as [|f IH]; intros cp refs cur complete s Hf; [lia|]. cbn [refs_loop].
  pose proof (ref_step_wf cp refs cur complete s) as Hs.
  destruct (ref_step decode cp (refs, cur, complete, s)) as [[[[[refs' cur'] complete'] s']|r]|e| |];
    cbn [obind wf] in *; auto.
  apply IH. lia.
Qed.

Lemma modules_loop_wf : forall n cp acc s, wf (fun _ => True) (modules_loop decode n cp acc s).
Proof.
  induction n as [|n IH]; intros cp acc s; cbn [modules_loop]; [exact I|].
  pose proof (read_module_wf cp s) as H.
  destruct (read_module decode cp s) as [[m s']|e| |]; cbn [obind wf] in *; auto.
Qed.

Lemma read_dir_information_wf : forall s, wf (fun _ => True) (read_dir_information s).
Proof.
  intro s. unfold read_dir_information.
  wf_step advance_wf s1 H1.
  eapply (@wf_bind _ _ (fun _ => True) _ _ _).
  { destruct s1 as [|x [|y l]]; try exact I.
    destruct (_ =? 74); [eapply wf_weaken; [apply advance_wf|auto]|exact I]. }
  intros s2 _. wf_step advance_wf s3 H3.
  eapply (@wf_bind _ _ (fun _ => True) _ _ _).
  { destruct (_ <? 8); [exact I|]. destruct (skipn 6 s3) as [|x [|y l]]; cbn; auto. }
  intros cp _. destruct (negb _); [exact I|].
  wf_step advance_wf s4 H4.
  wf_step check_variable_record_wf x5 H5. destruct x5 as [? s5].
  wf_step check_variable_record_wf x6 H6. destruct x6 as [? s6].
  wf_step check_variable_record_wf x7 H7. destruct x7 as [? s7].
  wf_step check_variable_record_wf x8 H8. destruct x8 as [? s8].
  wf_step check_variable_record_wf x9 H9. destruct x9 as [? s9].
  wf_step advance_wf s10 H10.
  wf_step check_variable_record_wf x11 H11. destruct x11 as [? s11].
  wf_step check_variable_record_wf x12 H12. destruct x12 as [? s12]. exact I.
Qed.

Lemma parse_dir_wf : forall s, wf (fun _ => True) (parse_dir decode s).
Proof.
  intro s. unfold parse_dir.
  eapply wf_bind; [apply read_dir_information_wf|]. intros [cp s1] _.
  eapply wf_bind; [apply (refs_loop_wf (S (length s1)) cp [] empty_ref false s1); lia|].
  intros [refs s2] _.
  eapply (@wf_bind _ _ (fun _ => True) _ _ _).
  { unfold read_modules. wf_step advance_wf s3 H3. wf_step rd_u16_wf x4 H4. destruct x4 as [n s4].
    wf_step advance_wf s5 H5. apply modules_loop_wf. }
  intros [mods s3] _. exact I.
Qed.

Lemma get_stream_wf : forall streams n, wf (fun _ => True) (get_stream streams n).
Proof.
  intros streams n. induction streams as [|[a b] l IHl]; cbn [get_stream]; [exact I|].
  destruct (sn_eqb a n); [exact I|exact IHl].
Qed.

Lemma decompress_wf : forall s, wf (fun _ => True) (decompress s).
Proof.
  intro s. destruct (decompress_total s) as (H1 & H2 & _).
  destruct (decompress s); cbn; auto.
Qed.

Lemma read_all_modules_wf : forall streams mods, wf (fun _ => True) (read_all_modules streams mods).
Proof.
  intros streams. induction mods as [|m mods IH]; cbn [read_all_modules]; [exact I|].
  eapply wf_bind; [apply get_stream_wf|]. intros s _.
  eapply (@wf_bind _ _ (fun _ => True) _ _ _).
  { destruct (module_content_total s (m_offset m)) as [H1 H2].
    destruct (module_content s (m_offset m)); cbn; auto. }
  intros c _. eapply wf_bind; [exact IH|]. intros tl _. exact I.
Qed.

Lemma vba_project_wf : forall streams, wf (fun _ => True) (vba_project decode streams).
Proof.
  intro streams. unfold vba_project.
  eapply wf_bind; [apply get_stream_wf|]. intros s _.
  eapply wf_bind; [apply decompress_wf|]. intros d _.
  eapply wf_bind; [apply parse_dir_wf|]. intros [[cp refs] mods] _.
  eapply wf_bind; [apply read_all_modules_wf|]. intros ms _. exact I.
Qed.

(* EVERY dir stream (truncated, corrupt lengths, unknown records, …): the three passes of
   vba.rs answer Ok or an error — no panic, and the fuel of the model's loops is enough *)
Theorem parse_dir_total : forall s, parse_dir decode s <> Panic /\ parse_dir decode s <> OutOfFuel.
Proof. intro s. apply (wf_total _ _ _ (parse_dir_wf s)). Qed.

(* EVERY container (any streams: missing dir, malformed compression, corrupt dir records, text
   offsets beyond their stream, malformed module containers): VbaProject::from_cfb answers Ok or
   an error *)
Theorem vba_project_total : forall streams,
  vba_project decode streams <> Panic /\ vba_project decode streams <> OutOfFuel.
Proof. intro streams. apply (wf_total _ _ _ (vba_project_wf streams)). Qed.

Theorem vba_project_no_fuel : forall streams, vba_project decode streams <> OutOfFuel.
Proof.
  intro streams. unfold vba_project.
  pose proof (get_stream_no_fuel streams DIR_NAME) as Hg.
  destruct (get_stream streams DIR_NAME) as [s|e| |]; cbn [obind]; try discriminate; [|congruence].
  pose proof (decompress_no_fuel s) as Hd.
  destruct (decompress s) as [d|e| |]; cbn [obind]; try discriminate; [|congruence].
  pose proof (parse_dir_no_fuel d) as Hp.
  destruct (parse_dir decode d) as [[[cp refs] mods]|e| |]; cbn [obind]; try discriminate; [|congruence].
  pose proof (read_all_modules_no_fuel streams mods) as Hm.
  destruct (read_all_modules streams mods) as [ms|e| |]; cbn [obind]; try discriminate. congruence.
Qed.
End FuelDir.

(* the three totality statements of the project reader together *)
Theorem dir_total : forall (decode : N -> list N -> list N),
  (forall s : list N, parse_dir decode s <> Panic /\ parse_dir decode s <> OutOfFuel) /\
  (forall streams : list (list N * list N),
     vba_project decode streams <> Panic /\ vba_project decode streams <> OutOfFuel) /\
  (forall (s : list N) (off : N),
     module_content s off <> Panic /\ module_content s off <> OutOfFuel).
Proof.
  intro decode. split; [exact (parse_dir_total decode)|]. split; [exact (vba_project_total decode)|].
  exact module_content_total.
Qed.

(* inputs that made the code panic before the hardening: now errors (classes of Ovba.v / E_IO) *)
Example ex_malformed_outcomes :
  decompress [] = Err E_TRUNCATED /\                          (* was s[0] *)
  decompress [1; 5] = Err E_TRUNCATED /\                      (* was read_u16 on one byte *)
  decompress [1; 0; 0] = Err E_CHUNK_SIGNATURE /\             (* was assert_eq! *)
  decompress [1; 255; 63; 1; 2] = Err E_TRUNCATED /\          (* raw chunk shorter than 4096 *)
  decompress [1; 2; 176; 1; 0; 0] = Err E_COPY_OFFSET /\      (* copy token at position 0 *)
  decompress [1; 3; 176; 2; 65; 255; 15] = Err E_CHUNK_OUTPUT /\   (* 1 + 4098 bytes in one chunk *)
  n_chunks (ovba_encode example_chunks) = 5%nat /\
  parse_dir dec_id [1; 2; 3] = Err E_IO /\                    (* was &stream[10..] *)
  module_content [1; 2] 5 = Err E_TRUNCATED /\                (* was &s[text_offset..] *)
  vba_project dec_id [(DIR_NAME, [1; 2; 176; 0; 7; 8])] = Err E_IO.
Proof. repeat split; vm_compute; reflexivity. Qed.

(* ---------- the former known class 1: a REFERENCE without its (optional) NameRecord ----------
   Before the fix: commit the loop of Reference::from_stream listed ONE reference for this dir
   stream (name std, description Foo, path C:\s.tlb).  Kept as a regression example. *)
Definition ex_proj_nameless : proj :=
  mkproj 1 None 1033 1033 1252 [86; 66; 65] [] [] [] [] 0 0 1 2 [] []
    [ mkrs true [115; 116; 100] [115; 0; 116; 0; 100; 0] (RRegistered ex_libid);
      mkrs false [] [] (RRegistered ex_libid2) ]
    [] 0.

Example nameless_reference_reads :
  valid_projb ex_proj_nameless = true /\
  expected_refs dec_id 1252 (p_refs ex_proj_nameless)
  = Some [ mkref [115; 116; 100] [79; 76; 69] [67; 58; 92; 115; 46; 116; 108; 98];
           mkref [] [70; 111; 111] [68; 58; 92; 116; 46; 116; 108; 98] ] /\
  parse_dir dec_id (encode_dir ex_proj_nameless)
  = Ok (1252, [ mkref [115; 116; 100] [79; 76; 69] [67; 58; 92; 115; 46; 116; 108; 98];
                mkref [] [70; 111; 111] [68; 58; 92; 116; 46; 116; 108; 98] ], []).
Proof. repeat split; vm_compute; reflexivity. Qed.
