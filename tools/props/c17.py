"""C17 — merged regions and tables are reported with the geometry the file declares.

Structured cases: a logical workbook + encoding choices is drawn here (tools/mergegen.py), the
extracted Coq encoder (vm `merge xlsx` / `merge xls`) turns it into XML parts / BIFF records and
answers with M (the model of calamine's functions on those parts), S (what the file declares) and
the extracted known_C17 / legal / dom.  The parts are packed into a real .xlsx / .xls and read
back through the public API (vh `open …`, `merge tableref`).  i vs m is the tie, i vs s on legal
in-domain cases is the search for a failing input.  No known class is left: every legal in-domain
case — both relationship type URIs, "../" and absolute targets, names spelled with entities and
character references, insertRow in every xsd:boolean spelling, tables without data rows, tables
in row 1 — is compared with S; the witnesses of the five retired classes are corpus regressions.
Hook cases: get_dimension and xls parse_merge_cells on raw bytes (valid, boundary, malformed)."""
import json, os, random
import vlib, mergegen
from mergegen import hx, xs, a1, KNOWN, NS_MAIN, NS_REL, NS_PKG_REL, DECL

SHARDS = 8
ASSUMPTIONS = [
    "XML parts enter the model as the event list quick-xml produces for the serialised text (expand_empty_elements on); attribute values are the raw bytes between the quotes",
    "zip returns the bytes stored under a name; name lookup is eq_ignore_ascii_case over the central directory order",
    "self.sheets (sheet name, part path) is given (workbook.xml and its rels: property C16); worksheet_range of a sheet is Range::from_sparse of its non-empty cells in document order (C01)",
    "xls: the model starts at the (type, data) records of a sheet substream; cell records in it parse without error (C02)",
    "tables with 2^32 or more cells are excluded (Range::new computes the size in u32: C05 precondition)",
]
MERGE_CALLS = ("merges", "mergesat", "mergesby", "allmerges")


def run_exe(exe, lines, timeout=900):
    return vlib.run_exe(exe, lines, timeout=timeout, shards=SHARDS)


def split_calls(calls, answer):
    """pairs (call, answer) — the answer list may be shorter (a panic ends the sequence)"""
    cs = calls.split(";")
    an = answer.split(";;") if answer is not None else []
    return cs, an


def classify(ctx, case, impl, m, s, known, legal, dom, kind):
    """three-way comparison of one structured case"""
    label = json.dumps(case, sort_keys=True)
    if impl != m:
        ctx.disagreements.append({"function": kind, "case": case, "impl": impl, "model": m})
    if not (legal and dom) or not case.get("structured", True):
        ctx.count("outside-domain")
        return
    ctx.count("compared-with-spec:" + ("known-class" if known is not None else "clean"))
    cs, ia = split_calls(case["calls"], impl)
    _, sa = split_calls(case["calls"], s)
    diffs = []
    for k, c in enumerate(cs):
        got = ia[k] if k < len(ia) else "(missing)"
        want = sa[k] if k < len(sa) else "(missing)"
        if got != want:
            diffs.append((c.split(" ")[0] in MERGE_CALLS, c, want, got))
    # the merged-region theorems carry no known-class hypothesis: those calls must always agree,
    # unless a panic in an earlier table call of a known class cut the sequence short
    cut = known is not None and ia and ia[-1] == "panic"
    for is_merge, c, want, got in diffs:
        if is_merge and not (cut and got == "(missing)"):
            ctx.violations.append({"case": case, "expected": s, "actual": impl, "model": m,
                                   "what": "call '%s': expected %s, got %s" % (c, want, got)})
            return
    for is_merge, c, want, got in diffs:
        fid = KNOWN.get(known, "class%s" % known) if known is not None else None
        if fid is not None and ctx.known_finding(fid) is not None:
            ctx.known_hits.setdefault(fid, {"case": case, "call": c, "expected": want, "actual": got})
            ctx.count("known:" + fid)
            return
        ctx.violations.append({"case": case, "expected": s, "actual": impl, "model": m,
                               "what": "call '%s': expected %s, got %s" % (c, want, got)})
        return


# ------------------------------------------------------------------ xlsx
def run_xlsx_cases(ctx, cases, tag):
    lines = ["%s%d\tmerge\txlsx\t%s\t%s" % (tag, k, c["desc"], c["calls"]) for k, c in enumerate(cases)]
    model = run_exe(vlib.VM, lines)
    d = vlib.tmpdir(ctx)
    ilines, refl, parsed = [], [], {}
    for k, c in enumerate(cases):
        lid = "%s%d" % (tag, k)
        ans = model.get(lid, "")
        f = ans.split("##")
        if len(f) != 7:
            ctx.disagreements.append({"function": "vm", "case": c.get("wire"), "impl": None, "model": ans[:300]})
            continue
        parts, sheets, m, s, known, legal, dom = f
        data = mergegen.pack_xlsx(mergegen.parse_parts(parts), mergegen.parse_sheets(sheets),
                                  random.Random(c["pack_seed"]) if c.get("pack_seed") is not None else None)
        path = os.path.join(d, lid + ".xlsx")
        with open(path, "wb") as fh:
            fh.write(data)
        parsed[lid] = (m, s, None if known == "-" else int(known), legal == "1", dom == "1", path)
        ilines.append("%s\topen\txlsx\t%s\t%s" % (lid, path, c["calls"]))
        if c.get("tableref"):
            for j, tn in enumerate(c["info"].get("tnames", [])[:2]):
                refl.append(("%s_r%d" % (lid, j), lid, tn, path))
    impl = run_exe(vlib.VH, ilines)
    ctx.evaluations += len(ilines)
    rimpl = run_exe(vlib.VH, ["%s\tmerge\ttableref\t%s\t%s" % (rid, p, hx(tn)) for rid, _, tn, p in refl])
    ctx.evaluations += len(refl)
    for k, c in enumerate(cases):
        lid = "%s%d" % (tag, k)
        if lid not in parsed:
            continue
        m, s, known, legal, dom, path = parsed[lid]
        case = {"kind": "xlsx", "desc": c["desc"], "calls": c["calls"], "pack_seed": c.get("pack_seed"),
                "structured": c.get("structured", True)}
        classify(ctx, case, impl.get(lid), m, s, known, legal, dom, "xlsx:" + c.get("profile", ""))
        ctx.traces += 1
        info = c.get("info", {})
        if info.get("regions", 0) + info.get("tables", 0) > 0:
            ctx.nontrivial(c["desc"])
        ctx.count("xlsx:" + c.get("profile", "corpus"))
        ctx.count("xlsx-sheets:%d" % info.get("sheets", 0))
        ctx.count("xlsx-regions:%s" % bucket(info.get("regions", 0)))
        ctx.count("xlsx-tables:%s" % bucket(info.get("tables", 0)))
        if known is not None and legal and dom:
            ctx.count("class:" + KNOWN.get(known, str(known)))
        for tp in info.get("tpos", []):
            ctx.count("table-vs-used-range:" + tp)
        for th in info.get("thdr", []):
            ctx.count("table-rows:" + th)
        for tf in info.get("tforms", []):
            for w in tf.split(" "):
                ctx.count("table-form:" + w)
        for pc in info.get("pieces", []):
            ctx.count("name-piece:" + {"L": "literal", "N": "named-entity", "D": "decimal-ref", "H": "hex-ref",
                                        "U": "HEX-ref"}.get(pc, pc))
        # the generator's idea of the table names must be the model's (S lists them in `tables`)
        if legal and dom and c.get("structured", True) and info.get("tnames") is not None:
            cs, sa = split_calls(c["calls"], s)
            for k2, cl in enumerate(cs):
                if cl == "tables" and k2 < len(sa):
                    want = ",".join(hx(tn) for tn in info["tnames"])
                    if sa[k2] != want:
                        ctx.disagreements.append({"function": "generator-names", "case": case,
                                                  "impl": want, "model": sa[k2]})
        # ... and of the column names (the texts of the header cells: the generator escaped them as
        # ST_Xstrings with its own reading of ECMA-376 22.9.2.19, mergegen.xs_escape / xs_decode)
        if legal and dom and c.get("structured", True) and info.get("tcols") is not None:
            cs, sa = split_calls(c["calls"], s)
            for k2, cl in enumerate(cs):
                if cl.startswith("table ") and k2 < len(sa) and sa[k2].count("|") == 3:
                    tn = bytes.fromhex(cl[6:]).decode("utf-8", "replace")
                    if tn in info["tcols"]:
                        want = ",".join(hx(cn) for cn in info["tcols"][tn])
                        if sa[k2].split("|")[2] != want:
                            ctx.disagreements.append({"function": "generator-columns", "case": case,
                                                      "impl": want, "model": sa[k2].split("|")[2]})
                        ctx.count("columns-checked")
                        for cn in info["tcols"][tn]:
                            if "_" in cn or any(ord(ch) < 32 for ch in cn):
                                ctx.count("column-name:xstring-relevant")
        if impl.get(lid, "").endswith("panic"):
            ctx.count("xlsx-panic")
        ctx.sample({"case": c["desc"][:160] + "…", "calls": c["calls"][:80] + "…", "impl_equals_model": impl.get(lid) == m,
                    "impl": (impl.get(lid) or "")[:160]}, limit=4)
        os.remove(path)
    # table_by_name_ref must agree with the model's answer to the same `table` call
    calls_of = {"%s%d" % (tag, k): c["calls"] for k, c in enumerate(cases)}
    for rid, lid, tn, _ in refl:
        cs, ma = split_calls(calls_of[lid], parsed[lid][0])
        want = None
        for k, c in enumerate(cs):
            if c == "table " + hx(tn) and k < len(ma):
                want = ma[k]
        got = rimpl.get(rid)
        if want is not None and got != want:
            ctx.disagreements.append({"function": "table_by_name_ref", "case": {"kind": "tableref", "table": tn, "lid": lid},
                                      "impl": got, "model": want})
        ctx.count("tableref")


def bucket(n):
    return str(n) if n < 4 else ("4-9" if n < 10 else "10+")


def one_table_case(name="T1", ref=(1, 1, 4, 2), header=1, totals=1, ins=0, cols=("a", "b"), target="D", typ="T",
                   insert="-", cells=None, refstyle="P", regions=(), sheet="S1", name_sp=None, cols_sp=None):
    """a one-sheet workbook with one table, every other choice at its default; names are escaped
    the usual way unless a spelling (cmd_merge.ml parse_spelling) is given"""
    cells = cells if cells is not None else {(0, 0): 7, (2, 1): 5, (3, 2): 6}
    pre = [("R", DECL), ("S", "worksheet", [("xmlns", NS_MAIN), ("xmlns:r", NS_REL)]), ("S", "sheetData", [])]
    for r in sorted({r for r, _ in cells}):
        pre.append(("S", "row", [("r", str(r + 1))]))
        for c in sorted(cc for rr, cc in cells if rr == r):
            pre += mergegen.el(None, "c", [("r", a1(r, c))], mergegen.el(None, "v", [], [("T", str(cells[(r, c)]))]))
        pre.append(("E", "row"))
    pre.append(("E", "sheetData"))
    post = [("E", "worksheet")]
    toks = ["SC", "1", "SH", xs(sheet), xs("sheet1.xml"), "-", "-", "0", "0",
            mergegen.attrs_wire([("xmlns", NS_PKG_REL)]),
            "PRE", mergegen.events_wire(pre), "POST", mergegen.events_wire(post)]
    for b in regions:
        toks += ["RG", str(b[0]), str(b[1]), str(b[2]), str(b[3]), "P", "0", "-", "-", "-"]
    csp = cols_sp if cols_sp is not None else [xs(c) for c in cols]
    toks += ["TB", name_sp or xs(name), str(ref[0]), str(ref[1]), str(ref[2]), str(ref[3]), str(header), str(totals),
             str(ins), xs("table1.xml"), xs("rId1"), target, typ, "0", refstyle, "0", "0", "0", insert,
             mergegen.attrs_wire([("xmlns", NS_MAIN), ("id", "1")]), "-", "-", mergegen.events_wire([("R", DECL)]),
             ",".join(csp) if csp else "-"]
    for (r, c) in sorted(cells):
        toks += ["CL", str(r), str(c), str(cells[(r, c)])]
    calls = ["merges " + hx(sheet), "mergesat 0", "mergesby " + hx(sheet), "allmerges", "tables",
             "tablesin " + hx(sheet), "table " + hx(name)]
    return {"desc": " ".join(toks), "calls": ";".join(calls), "info": {"regions": len(regions), "tables": 1, "sheets": 1,
                                                                      "tnames": [name], "tcols": {name: list(cols)}},
            "pack_seed": None, "tableref": True, "profile": "corpus"}


# the witnesses of the five classes of the first round (EscapedText, AbsoluteTarget, StrictType,
# InsertRowFalse, EmptyData).  The defects were repaired (branch c17-fixes); the witnesses stay as
# regressions and are compared with the SPEC like every other case.
WITNESSES = {
    "EscapedText": one_table_case(cols=("P&L", "b")),
    "AbsoluteTarget": one_table_case(target="A"),
    "StrictType": one_table_case(typ="S"),
    "InsertRowFalse": one_table_case(insert="f"),
    "EmptyData": one_table_case(ref=(1, 1, 1, 2), header=1, totals=0),
    "EmptyData-totals-row1": one_table_case(header=0, totals=1, ref=(0, 0, 0, 1)),
    # audit 2, XLSX-1 (repaired by "fix: xlsx table column names were returned with their _xHHHH_
    # escapes"): the header typed with Alt+Enter, as Excel and openpyxl store it
    "XstringColumn": one_table_case(cols=("a\nb", "value"), cols_sp=["pL" + hx("a_x000a_b"), xs("value")]),
}
CORPUS = [
    one_table_case(regions=((0, 0, 1, 1), (1048575, 16383, 1048575, 16383), (2, 26, 3, 702))),
    one_table_case(header=0, totals=0, ref=(0, 0, 2, 1)),                       # headerRowCount="0"
    one_table_case(header=0, totals=1, ref=(0, 0, 2, 1)),                       # the totals-row fix ff3c85e
    one_table_case(header=1, totals=1, ref=(10, 3, 14, 4)),                     # fully outside the used range
    one_table_case(header=1, totals=0, ref=(1, 1, 5, 4)),                       # partly outside
    one_table_case(cells={}, ref=(0, 0, 3, 1)),                                 # sheet without cells
    one_table_case(ref=(1048570, 16380, 1048575, 16383), cells={(1048573, 16381): 9}),   # the far corner
    one_table_case(header=0, totals=0, ref=(5, 5, 5, 5), cols=("x",), refstyle="S"),     # one-cell table, ref="F6"
    one_table_case(name="Tä", cols=("Größe", "列", "")),
    one_table_case(insert="0"),
    # every xsd:boolean spelling of insertRow; true = the insert row of an empty table is showing
    one_table_case(insert="1", ins=1, header=1, totals=0, ref=(1, 1, 2, 2)),
    one_table_case(insert="t", ins=1, header=1, totals=0, ref=(1, 1, 2, 2)),
    one_table_case(insert="t", ins=1, header=0, totals=0, ref=(0, 0, 0, 1)),    # only the insert row, in row 1
    one_table_case(insert="1", ins=1, header=0, totals=1, ref=(0, 0, 1, 1)),    # totals + insert row from row 1
    one_table_case(insert="t", ins=1, header=1, totals=1, ref=(0, 0, 3, 1)),    # header, one data row, insert, totals
    one_table_case(header=1, totals=1, ref=(0, 0, 1, 1)),                       # header + totals, no data, row 1
    one_table_case(header=1, totals=0, ref=(0, 2, 0, 3)),                       # header only, row 1
    one_table_case(header=1, totals=1, ref=(1048574, 0, 1048575, 1)),           # no data rows at the bottom edge
    # names with every XML-special character, in every legal spelling
    one_table_case(name="P&L", cols=('<&>"\'', "a;b&c;", "&amp;", "x\ny")),
    one_table_case(name="P&L", name_sp="pL50+D38.2+L4c", cols=("<", ">", "ä😀"),
                   cols_sp=["pH60.2", "pN62", "pU228.4+H128512.8"]),
    one_table_case(name="T&1", name_sp="pL54+N38+D49.5", cols=("'\"", "\t"), cols_sp=["pN39+N34", "pD9.1"]),
    one_table_case(target="A", typ="S", insert="f", cols=("P&L", "b")),         # all formerly-known forms at once
    # column names are ST_Xstrings: upper / lower / mixed-case digits, an escaped underscore, text that
    # only looks like an escape, a surrogate escape (stays), escapes of non-ASCII characters, an escape
    # spelled partly by a character reference, CR, an escape right after a would-be escape
    one_table_case(cols=("a\nb", "a\rb", "_x000a_", "é", "\ufffe"),
                   cols_sp=["pL" + hx("a_x000A_b"), "pL" + hx("a_x000d_b"), "pL" + hx("_x005F_x000a_"),
                            "pL" + hx("_x00e9_"), "pL" + hx("_xFfFe_")]),
    one_table_case(cols=("_xD800_", "_x41_", "_X0041_", "a\rb", "_x0041\n", "A_"),
                   cols_sp=["pL" + hx("_xD800_"), "pL" + hx("_x41_"), "pL" + hx("_X0041_"),
                            "pL" + hx("a_x00") + "+D48.2+L" + hx("D_b"), "pL" + hx("_x005f_x0041_x000a_"),
                            "pL" + hx("_x0041__x005F_")]),
    one_table_case(name="_x0041_", cols=("列", "a_b", "__")),                  # a table name is NOT decoded (see notes)
]


def run_witnesses(ctx):
    names = list(WITNESSES)
    for n in names:
        WITNESSES[n].setdefault("structured", True)
    run_xlsx_cases(ctx, [WITNESSES[n] for n in names], "w")


# ------------------------------------------------------------------ xls
def run_xls_cases(ctx, cases, tag):
    lines = ["%s%d\tmerge\txls\t%s\t%s" % (tag, k, c["desc"], c["calls"]) for k, c in enumerate(cases)]
    model = run_exe(vlib.VM, lines)
    d = vlib.tmpdir(ctx)
    ilines, parsed = [], {}
    for k, c in enumerate(cases):
        lid = "%s%d" % (tag, k)
        f = model.get(lid, "").split("##")
        if len(f) != 5:
            ctx.disagreements.append({"function": "vm", "case": c["desc"][:200], "impl": None, "model": model.get(lid, "")[:300]})
            continue
        recs, m, s, legal, dom = f
        sheet_records = mergegen.parse_xls_records(recs)
        if c.get("truncate"):
            # cut the data of the last MergeCells record: count announces more than there is
            for recs_ in sheet_records:
                for j, (t, dta) in enumerate(recs_):
                    if t == 0xE5 and len(dta) > 2:
                        recs_[j] = (t, dta[:max(2, len(dta) - c["truncate"])])
        data = mergegen.pack_xls(c["info"]["names"], sheet_records,
                                 random.Random(c["pack_seed"]) if c.get("pack_seed") is not None else None)
        path = os.path.join(d, lid + ".xls")
        with open(path, "wb") as fh:
            fh.write(data)
        parsed[lid] = (m, s, legal == "1", dom == "1", path)
        ilines.append("%s\topen\txls\t%s\t%s" % (lid, path, c["calls"]))
    impl = run_exe(vlib.VH, ilines)
    ctx.evaluations += len(ilines)
    for k, c in enumerate(cases):
        lid = "%s%d" % (tag, k)
        if lid not in parsed:
            continue
        m, s, legal, dom, path = parsed[lid]
        case = {"kind": "xls", "desc": c["desc"], "calls": c["calls"], "pack_seed": c.get("pack_seed"),
                "truncate": c.get("truncate", 0)}
        i = impl.get(lid)
        if c.get("truncate"):
            # raw case: the model of the truncated record is evaluated through the hook cases; here
            # only robustness is observed (C06 material): an error or a panic, never a wrong answer
            ctx.count("xls-truncated:" + ("panic" if i == "panic" else "other"))
            if i not in ("panic",) and not (i or "").startswith("openerr"):
                ctx.disagreements.append({"function": "xls-truncated", "case": case, "impl": i, "model": "panic|openerr"})
        else:
            names = c["info"]["names"]
            distinct = len(set(names)) == len(names)
            case["structured"] = distinct
            classify(ctx, case, i, m, s, None, legal, dom and distinct, "xls:" + c.get("profile", ""))
        ctx.traces += 1
        if c["info"]["regions"] > 0:
            ctx.nontrivial(c["desc"])
        ctx.count("xls:" + c.get("profile", "corpus"))
        ctx.count("xls-regions:%s" % bucket(c["info"]["regions"]))
        ctx.count("xls-mergecells-records:%s" % bucket(c["info"]["records"]))
        ctx.count("xls-nested-substreams:%s" % bucket(c["info"].get("subs", 0)))
        if c["info"].get("subs_with_mergecells"):
            ctx.count("xls-nested-substream-with-mergecells-record")
        ctx.sample({"case": c["desc"][:120] + "…", "impl_equals_model": i == m, "impl": (i or "")[:120]}, limit=6)
        os.remove(path)


# ------------------------------------------------------------------ hooks: get_dimension, parse_merge_cells
def gen_ref(rng):
    """(text, expected or None)"""
    k = rng.random()
    r0 = rng.choice(mergegen.EDGE_ROWS + [rng.randrange(mergegen.XLSX_ROWS)])
    c0 = rng.choice(mergegen.EDGE_COLS + [rng.randrange(mergegen.XLSX_COLS)])
    r1 = min(mergegen.XLSX_ROWS - 1, r0 + rng.choice([0, 0, 1, 5, rng.randrange(2000)]))
    c1 = min(mergegen.XLSX_COLS - 1, c0 + rng.choice([0, 0, 1, 3, rng.randrange(300)]))
    if k < 0.7:
        if (r0, c0) == (r1, c1) and rng.random() < 0.5:
            t = a1(r0, c0)
        else:
            t = a1(r0, c0) + ":" + a1(r1, c1)
        if rng.random() < 0.2:
            t = t.lower()
        return t, "ok %d,%d,%d,%d" % (r0, c0, r1, c1)
    alphabet = "A1:$Za9 0b"
    if k < 0.85:
        return "".join(rng.choice(alphabet) for _ in range(rng.randrange(0, 12))), None
    base = a1(r0, c0) + ":" + a1(r1, c1)
    pos = rng.randrange(len(base) + 1)
    return base[:pos] + rng.choice(["$", ":", " ", "0", "A", "", "é", "!"]) + base[pos + rng.randrange(2):], None


def run_dim(ctx, n, sweep=False):
    cases = [gen_ref(ctx.rng) for _ in range(n)]
    cases += [(t, None) for t in ["", "A1", "A1:B2", "B2:A1", "A2:B1", "$A$1", "a1", "A0", "A1:B2:C3", "AAAAAAA1", "ZZZZZZ1",
                                  "A4294967295", "A4294967296", "A9999999999", "A999999999", "A1000000000", "XFD1048576",
                                  "FXSHRXW1", "FXSHRXX1", "A01", "A1:A1", ":", "A1:", "1", "A"]]
    if sweep:
        cases += [(a1(r, c), "ok %d,%d,%d,%d" % (r, c, r, c)) for c in range(mergegen.XLSX_COLS)
                  for r in (0, 1048575)]
        cases += [("A%d:XFD%d" % (r + 1, r + 1), "ok %d,0,%d,16383" % (r, r)) for r in range(0, mergegen.XLSX_ROWS, 997)]
    lines = ["d%d\tmerge\tdim\t%s" % (k, hx(t)) for k, (t, _) in enumerate(cases)]
    impl = run_exe(vlib.VH, lines)
    model = run_exe(vlib.VM, lines)
    ctx.evaluations += len(lines)
    for k, (t, want) in enumerate(cases):
        lid = "d%d" % k
        i, m = impl.get(lid), model.get(lid)
        case = {"kind": "dim", "text": t, "line": lines[k]}
        if want is not None and i != want:
            ctx.violations.append({"case": case, "expected": want, "actual": i, "model": m,
                                   "what": "get_dimension(%r)" % t})
        elif i != m:
            ctx.disagreements.append({"function": "get_dimension", "case": case, "impl": i, "model": m})
        ctx.traces += 1
        ctx.count("dim:" + ("valid" if want is not None else (i or "?").split(" ")[0]))
        if want is not None:
            ctx.nontrivial("dim:" + t)


def gen_mc(rng):
    n = rng.choice([0, 1, 1, 2, 3, 10, 200, 1026, 1027])
    regs = []
    wide = rng.random() < 0.3          # the fields are u16: columns beyond IV are representable
    for _ in range(n):
        b = mergegen.draw_box(rng, mergegen.XLS_ROWS, 65536 if wide else mergegen.XLS_COLS, None, 9, 9)
        if wide and rng.random() < 0.3:
            b = tuple(rng.choice([0, 1, 255, 256, 257, 65534, 65535]) for _ in range(4))   # any u16, unordered
        regs.append(b)
    data = bytearray()
    data += (n & 0xFFFF).to_bytes(2, "little")
    for (r0, c0, r1, c1) in regs:
        for v in (r0, r1, c0, c1):
            data += v.to_bytes(2, "little")
    want = "ok " + "/".join("%d,%d,%d,%d" % b for b in regs)
    k = rng.random()
    if k < 0.6:
        return bytes(data), want
    if k < 0.75:       # truncated
        return bytes(data[:rng.randrange(0, len(data) + 1)]), None
    if k < 0.9:        # count replaced by a boundary value
        c = rng.choice([0, 1, n + 1, 8191, 8192, 8193, 65535, max(n - 1, 0)])
        return c.to_bytes(2, "little") + bytes(data[2:]), None
    return bytes(data) + bytes(rng.randrange(256) for _ in range(rng.randrange(1, 9))), want   # trailing bytes are ignored


def run_mc(ctx, n):
    cases = [gen_mc(ctx.rng) for _ in range(n)]
    cases += [(b"", None), (b"\x01", None), (b"\x00\x00", "ok "), (b"\x01\x00" + b"\x00" * 7, None),
              (b"\x01\x00" + bytes([1, 0, 2, 0, 3, 0, 4, 0]), "ok 1,3,2,4"),
              (b"\xff\xff" + b"\x00" * 65533, None), (b"\x00\x20" + b"\x00" * 70000, None),
              (b"\xff\xff" + b"\x00" * 70000, None)]
    lines = ["x%d\tmerge\txlsmc\t%s" % (k, d.hex()) for k, (d, _) in enumerate(cases)]
    impl = run_exe(vlib.VH, lines)
    model = run_exe(vlib.VM, lines)
    ctx.evaluations += len(lines)
    for k, (d, want) in enumerate(cases):
        lid = "x%d" % k
        i, m = impl.get(lid), model.get(lid)
        case = {"kind": "xlsmc", "line": lines[k][:400]}
        if want is not None and i != want:
            ctx.violations.append({"case": case, "expected": want, "actual": i, "model": m, "what": "parse_merge_cells"})
        elif i != m:
            ctx.disagreements.append({"function": "parse_merge_cells", "case": case, "impl": i, "model": m})
        ctx.traces += 1
        ctx.count("xlsmc:" + ("valid" if want is not None else (i or "?").split(" ")[0]))
        if want is not None and len(d) > 2:
            ctx.nontrivial("mc:" + d.hex()[:64])


# ------------------------------------------------------------------ batches
CHUNK = 2000      # cases per round trip: keeps the driver's memory small


def xlsx_batch(ctx, n, profile, tag):
    done = 0
    while done < n:
        cases = []
        for _ in range(min(CHUNK, n - done)):
            c = mergegen.gen_xlsx(ctx.rng, profile)
            c["pack_seed"] = ctx.rng.randrange(1 << 30)
            c["profile"] = profile
            c["tableref"] = ctx.rng.random() < 0.3
            c["structured"] = profile != "malformed"
            cases.append(c)
        run_xlsx_cases(ctx, cases, "%s%d_" % (tag, done))
        done += len(cases)


def xls_batch(ctx, n, profile, tag):
    done = 0
    while done < n:
        cases = []
        for _ in range(min(CHUNK, n - done)):
            c = mergegen.gen_xls(ctx.rng, profile)
            c["pack_seed"] = ctx.rng.randrange(1 << 30)
            c["profile"] = profile
            if profile == "malformed" and c["info"]["regions"] > 0 and ctx.rng.random() < 0.5:
                c["truncate"] = ctx.rng.randrange(1, 9)
            cases.append(c)
        run_xls_cases(ctx, cases, "%s%d_" % (tag, done))
        done += len(cases)


def xls_corpus():
    """the former defect XLS-2 (notes/AUDIT2.md 3.2): a worksheet with an embedded chart — MsoDrawing, OBJ, the
    chart substream BOF ... EOF with its series cache — and the sheet's MergeCells records BEHIND it (that is the
    order of [MS-XLS] 2.1.7.20.5).  The regions were lost because the sheet ended at the chart's EOF; a
    MERGECELLS record inside the chart substream must not be taken."""
    import struct
    def sub(recs):
        return ["OT", str(0x00EC), xs(bytes(8)), "OT", str(0x005D), xs(bytes(26)),
                "SB", xs(struct.pack("<HHHHII", 0x0600, 0x0020, 0x0DBB, 0x07CC, 0, 0x0306)),
                ",".join("%d:%s" % (t, xs(b)) for t, b in recs) or "-"]
    cache = [(0x1001, struct.pack("<H", 0)), (0x0200, struct.pack("<IIHHH", 0, 2, 0, 2, 0)), (0x1065, struct.pack("<H", 1)),
             (0x0203, struct.pack("<HHHd", 0, 0, 0, 10.0)), (0x0203, struct.pack("<HHHd", 1, 0, 0, 20.0)),
             (0x1065, struct.pack("<H", 2)), (0x0204, struct.pack("<HHHHB", 0, 0, 0, 1, 0) + b"a")]
    cases = []
    def case(toks, names, regions, records, subs):
        calls = []
        for i, n in enumerate(names):
            calls += ["merges " + hx(n), "mergesat %d" % i]
        cases.append({"desc": " ".join(toks), "calls": ";".join(calls), "pack_seed": None, "profile": "corpus",
                      "info": {"names": names, "regions": regions, "records": records, "sheets": len(names), "subs": subs}})
    num = ["OT", str(0x0203), xs(struct.pack("<HHHd", 0, 0, 0, 1.0))]
    case(["SH", xs("S1")] + num + sub(cache) + ["OT", str(0x023E), xs(bytes(18)), "MC", "4,0,5,1"], ["S1"], 1, 1, 1)
    case(["SH", xs("S1")] + num + sub(cache + [(0x00E5, struct.pack("<HHHHH", 1, 7, 8, 1, 2)), (0x00E5, b"\x09")]) +
         ["MC", "4,0,5,1/0,0,0,1", "SB", "x", "-", "MC", "9,9,9,9"] + sub([(0x0809, b""), (0x00E5, struct.pack("<H", 3)), (0x000A, b"")]) +
         ["SH", xs("S2"), "MC", "1,1,2,2"] + sub(cache), ["S1", "S2"], 4, 3, 4)
    return cases


def run(ctx):
    for k, c in enumerate(CORPUS):
        c.setdefault("structured", True)
    run_witnesses(ctx)
    run_xlsx_cases(ctx, CORPUS, "k")
    run_xls_cases(ctx, xls_corpus(), "kx")
    xlsx_batch(ctx, ctx.scale(4000, 60000), "structured", "s")
    xlsx_batch(ctx, ctx.scale(800, 10000), "malformed", "m")
    xls_batch(ctx, ctx.scale(1500, 20000), "structured", "b")
    xls_batch(ctx, ctx.scale(300, 3000), "malformed", "c")
    run_dim(ctx, ctx.scale(20000, 200000), sweep=ctx.tier == "thorough")
    run_mc(ctx, ctx.scale(3000, 30000))


def search(ctx):
    xlsx_batch(ctx, ctx.scale(20000, 100000), "structured", "S")
    xls_batch(ctx, ctx.scale(8000, 40000), "structured", "B")
    run_dim(ctx, ctx.scale(50000, 200000), sweep=True)


def replay(ctx, rep):
    case = rep.get("case")
    if isinstance(case, str):
        case = json.loads(case)
    print("replaying:", json.dumps(case)[:400])
    kind = case.get("kind")
    before = (len(ctx.violations), len(ctx.disagreements))
    if kind == "xlsx":
        c = {"desc": case["desc"], "calls": case["calls"], "pack_seed": case.get("pack_seed"), "info": {},
             "structured": case.get("structured", True)}
        run_xlsx_cases(ctx, [c], "r")
    elif kind == "xls":
        names = [bytes.fromhex(t[1:]).decode("utf-8") for a, t in zip(case["desc"].split(" "), case["desc"].split(" ")[1:]) if a == "SH"]
        c = {"desc": case["desc"], "calls": case["calls"], "pack_seed": case.get("pack_seed"),
             "truncate": case.get("truncate", 0), "info": {"names": names, "regions": 1, "records": 1}}
        run_xls_cases(ctx, [c], "r")
    elif kind in ("dim", "xlsmc"):
        line = case["line"]
        i = run_exe(vlib.VH, [line]); m = run_exe(vlib.VM, [line])
        lid = line.split("\t", 1)[0]
        print("impl :", i.get(lid)); print("model:", m.get(lid)); print("expected:", rep.get("expected"))
        return 0 if i.get(lid) == rep.get("expected") else 1
    for v in ctx.violations[before[0]:]:
        print("VIOLATION:", v["what"])
    for dg in ctx.disagreements[before[1]:]:
        print("DISAGREEMENT:", dg["function"], "impl:", str(dg["impl"])[:300], "model:", str(dg["model"])[:300])
    return 1 if (len(ctx.violations), len(ctx.disagreements)) != before else 0
