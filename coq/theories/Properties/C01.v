(* Property C01 — XLSX: every cell reads back at its position, with its value and type, whatever
   the legal physical encoding.  Only the property theorems (closed by [exact]), [Check] pins of
   the main statements, non-vacuity examples and [Print Assumptions].
   Model / encoder / spec: XlsxSheet.v (and Col26.v, Range.v, HeaderRow.v); proofs:
   XlsxSheet_proofs.v (and Col26_proofs.v, Range_proofs.v).
   [parse_f64] is the oracle for str::parse::<f64>: every theorem holds for every oracle. *)
From Calamine Require Import Prelude Col26 Range Range_spec HeaderRow XlsxSheet XlsxSheet_proofs.
From Calamine Require XmlText NumFmt.
From Coq Require Import Strings.String.
Open Scope N_scope.

(* (1) A1 names: every row with r + 1 < 10^9 and every column below 26^6 (the bounds of
   Col26_proofs.get_row_and_optional_column_a1_name, through which the proof goes; A1..XFD1048576
   is row < 2^20, col < 2^14; the hardened u64 scanner, Col26.v, accepts even more) reads back, in
   upper and in lower case, and the name contains no '$' *)
Theorem C01_a1_roundtrip : forall row col,
  row + 1 < ROW_LIMIT -> col < COL_LIMIT ->
  get_row_and_optional_column (a1_name row col) = Ok (row, Some col) /\
  get_row_and_optional_column (map to_lower (a1_name row col)) = Ok (row, Some col) /\
  ~ In ch_dollar (a1_name row col).
Proof. exact a1_roundtrip_full. Qed.

(* after the hardening the scanner is total: no input whatsoever makes it panic (listed for C06) *)
Theorem C01_no_panic_get_row_and_optional_column : forall range,
  get_row_and_optional_column range <> Panic /\ get_row_and_optional_column range <> OutOfFuel.
Proof. exact scanner_no_panic. Qed.

Example C01_a1_grid_inside_limits : 1048575 + 1 < ROW_LIMIT /\ 16383 < COL_LIMIT.
Proof. unfold ROW_LIMIT, COL_LIMIT. lia. Qed.

(* … and so are worksheet_range_ref / worksheet_range at the event level: no event list, string
   table, format table or header row makes the model panic or run out of fuel (listed for C06) *)
Theorem C01_no_panic_worksheet_range : forall parse_f64 en h evs,
  total (xlsx_range_ref parse_f64 en h evs) /\ total (xlsx_range parse_f64 en h evs).
Proof. exact sheet_no_panic. Qed.

(* (2) the reader's cell list for a legal encoding: one cell per encoded cell at the logical
   position; writing every reference out changes neither the cells nor the range *)
Theorem C01_cursor_equiv : forall parse_f64 en sh,
  legal_sheet parse_f64 en sh = true ->
  legal_sheet parse_f64 en (all_explicit sh) = true /\
  (exists cs, sheet_cells parse_f64 en (encode sh) = Ok (Some cs) /\
              sheet_cells parse_f64 en (encode (all_explicit sh)) = Ok (Some cs) /\
              map fst cs = map fst (logical sh)) /\
  xlsx_sheet_model parse_f64 en (encode sh) = xlsx_sheet_model parse_f64 en (encode (all_explicit sh)).
Proof. exact cursor_equiv. Qed.

(* (3) the typing table of read_v, total in (t, v) *)
Theorem C01_typing_table : forall parse_f64 en v a,
  let fmt := cell_format_of en a in
  let num := fun bits => format_excel_f64_ref bits fmt (e_1904 en) in
  let idx := match parse_usize v with Some i => i | None => 0 end in
  match XmlText.get_attribute a a_t with
  | None =>
      read_v parse_f64 en v a =
      match v with
      | [] => Cont REmpty
      | _ => match parse_f64 v with Some bits => Cont (num bits) | None => Cont (RString v) end
      end
  | Some t =>
      (t = v_n -> read_v parse_f64 en v a =
         match v with
         | [] => Cont REmpty
         | _ => match parse_f64 v with Some bits => Cont (num bits) | None => Fail E_PARSEFLOAT end
         end) /\
      (t = v_s -> read_v parse_f64 en v a =
         match nth_N (e_strings en) idx with Some s => Cont (RShared s) | None => Fail E_OUT_OF_RANGE end) /\
      (t = v_str -> read_v parse_f64 en v a = Cont (RString (unescape_xstring v))) /\
      (t = v_b -> read_v parse_f64 en v a =
         Cont (RBool (negb (XmlText.str_eqb v v_0) && negb (XmlText.str_eqb v v_false)))) /\
      (t = v_e -> read_v parse_f64 en v a =
         match parse_cell_error v with Some c => Cont (RError c) | None => Fail E_CELLERROR end) /\
      (t = v_d -> read_v parse_f64 en v a = Cont (RDateTimeIso v)) /\
      (t <> v_n -> t <> v_s -> t <> v_str -> t <> v_b -> t <> v_e -> t <> v_d ->
         read_v parse_f64 en v a = Fail E_TATTR)
  end /\
  (forall bits, num bits =
     match fmt with
     | Some NumFmt.DateTime => RDateTime bits false (e_1904 en)
     | Some NumFmt.TimeDelta => RDateTime bits true (e_1904 en)
     | _ => RFloat bits
     end).
Proof. exact typing_table. Qed.

(* an <is> child yields the text of its <t> (Empty without one), whatever the t attribute says *)
Theorem C01_typing_inline : forall parse_f64 en pfx row col p a v0 s racc rest,
  XmlText.no_colon pfx = true ->
  cells_run parse_f64 en (ShCell row col p a (CcOuter v0)) racc
            (elem pfx n_is [] (elem pfx n_t [] (text_ev s)) ++ rest) =
  cells_run parse_f64 en (ShCell row col p a (CcOuter (RString (unescape_xstring s)))) racc rest /\
  cells_run parse_f64 en (ShCell row col p a (CcOuter v0)) racc (elem pfx n_is [] [] ++ rest) =
  cells_run parse_f64 en (ShCell row col p a (CcOuter REmpty)) racc rest.
Proof. exact typing_inline. Qed.

(* (4) the sheet-level theorem: on every legal encoding of a logical sheet the model returns the
   range the logical sheet denotes — the tight bounding rectangle of its non-empty cells, the
   stored value at every absolute position, Empty elsewhere inside, nothing outside *)
Theorem C01_xlsx_sheet_main : forall parse_f64 en sh,
  legal_sheet parse_f64 en sh = true ->
  let r := range_of parse_f64 en (logical sh) in
  xlsx_sheet_model parse_f64 en (encode sh) = Ok r /\ Wf r /\
    rect r = tight_bbox (map fst (used_cells_spec parse_f64 en (logical sh))) /\
    (forall q, get_value r q =
       if in_rect r q then Some (value_at parse_f64 en (logical sh) q) else None).
Proof. exact xlsx_sheet_main. Qed.

Theorem C01_encoding_independent : forall parse_f64 en sh1 sh2,
  legal_sheet parse_f64 en sh1 = true -> legal_sheet parse_f64 en sh2 = true ->
  logical sh1 = logical sh2 ->
  xlsx_sheet_model parse_f64 en (encode sh1) = xlsx_sheet_model parse_f64 en (encode sh2).
Proof. exact encoding_independent. Qed.

(* non-vacuity: a concrete sheet with explicit / implicit / mixed references, a prefix, a wrong
   dimension, ignorable content, a style-only cell, an empty row and every value kind is legal *)
Example C01_sheet_nonvacuous :
  legal_sheet toy_parse wit_env wit_sheet = true /\
  map fst (logical wit_sheet) =
    [(2, 25); (2, 26); (2, 27); (2, 701); (2, 702); (3, 0); (3, 1); (3, 2); (8, 730); (8, 731)] /\
  (exists r, xlsx_sheet_model toy_parse wit_env (encode wit_sheet) = Ok r /\
             start r = Some (2, 0) /\ end_ r = Some (8, 731) /\
             get_value r (2, 25) = Some (DFloat 42) /\
             get_value r (2, 26) = Some (DString (ascii "one")) /\
             get_value r (2, 27) = Some (DDateTime 7 false false) /\
             get_value r (2, 702) = Some (DBool true) /\
             get_value r (3, 0) = Some (DError 1) /\
             get_value r (3, 1) = Some DEmpty /\
             get_value r (8, 730) = Some (DDateTimeIso (ascii "2021-01-01")) /\
             get_value r (8, 731) = Some (DError 7)).
Proof. exact wit_sheet_legal. Qed.

(* (5) relationship targets and part lookup *)
Theorem C01_target_normal_form : forall part sp,
  starts_with p_xl part = false -> starts_with p_slash_xl part = false ->
  normalize_target (spell sp part) = p_xl ++ part.
Proof. exact target_normal_form. Qed.

(* the kind of a sheet is the one the Type of its workbook relationship names (OPC part names are
   free: [legal_workbook] lets [sr_part] be ANY name, and [C01_xlsx_workbook_main] below holds for
   all of them); replaces the former C01_sheet_type_of_folder *)
Theorem C01_sheet_type_of_relationship :
  sheet_type_of_rel t_ws = Some 0 /\ sheet_type_of_rel t_ws_strict = Some 0 /\
  sheet_type_of_rel t_cs = Some 1 /\ sheet_type_of_rel t_cs_strict = Some 1 /\
  sheet_type_of_rel t_ds = Some 2 /\ sheet_type_of_rel t_ds_strict = Some 2 /\
  sheet_type_of_rel t_xlm = Some 3 /\ sheet_type_of_rel t_xlim = Some 3 /\
  (forall t, existsb (str_eqb t) sheet_rel_types = true -> exists k, sheet_type_of_rel t = Some k) /\
  (forall k path, sheet_type (Some k) path = Some k).
Proof. exact sheet_type_of_relationship. Qed.

(* the folder of the part is consulted only when the Type names no sheet kind *)
Theorem C01_sheet_type_folder_fallback : forall rest,
  sheet_type None (p_xl ++ p_worksheets ++ SLASH :: rest) = Some 0 /\
  sheet_type None (p_xl ++ p_chartsheets ++ SLASH :: rest) = Some 1 /\
  sheet_type None (p_xl ++ p_dialogsheets ++ SLASH :: rest) = Some 2 /\
  sheet_type None (p_xl ++ p_macrosheets ++ SLASH :: rest) = Some 3.
Proof. exact sheet_type_of_folder. Qed.

Theorem C01_part_lookup_case_insensitive : forall A (parts : list (XmlText.str * A)) p p',
  eq_ignore_ascii_case p p' = true -> find_part parts p = find_part parts p'.
Proof. exact part_lookup_case_insensitive. Qed.

Theorem C01_part_lookup_recased : forall A (parts : list (XmlText.str * A)) n x p,
  In (n, x) parts -> eq_ignore_ascii_case n p = true ->
  (forall m y, In (m, y) parts -> eq_ignore_ascii_case m p = true -> (m, y) = (n, x)) ->
  find_part parts p = Some (n, x).
Proof. exact part_lookup_recased. Qed.

Example C01_paths_nonvacuous :
  starts_with p_xl (ascii "worksheets/sheet1.xml") = false /\
  starts_with p_slash_xl (ascii "worksheets/sheet1.xml") = false /\
  eq_ignore_ascii_case (ascii "XL/Worksheets/SHEET1.xml") (ascii "xl/worksheets/sheet1.xml") = true /\
  find_part [(ascii "xl/workbook.xml", 1); (ascii "XL/Worksheets/SHEET1.xml", 2)]
            (ascii "xl/worksheets/sheet1.xml") = Some (ascii "XL/Worksheets/SHEET1.xml", 2).
Proof. vm_compute. repeat split. Qed.

(* (6) the workbook level: for every legal workbook description (1..n sheets of any kind, any
   accepted target spelling, any prefixes) and every package that holds its parts under any ASCII
   casing, in any order, among any other entries: Xlsx::new finds the sheets in workbook order with
   their normalised paths and the date system; worksheet_range of every sheet is the range its
   part denotes (range_of of the logical sheet for a worksheet, the empty range for the other
   kinds); worksheets() lists every sheet in workbook order with exactly those ranges *)
Theorem C01_xlsx_workbook_main : forall parse_f64 strings formats wb pk,
  legal_workbook wb = true -> known_C01_wb wb = None ->
  package_holds parse_f64 strings formats wb pk ->
  let en := mkEnv strings formats (date_flag wb) in
  let sheets := map name_path (wb_sheets wb) in
  open_sheets pk = Ok (sheets, date_flag wb) /\
  (forall s, In s (wb_sheets wb) ->
     workbook_range parse_f64 strings formats pk sheets (date_flag wb) (sr_name s) =
     sheet_spec parse_f64 en (sr_content s)) /\
  workbook_ranges parse_f64 strings formats pk =
    Ok (map (fun s => (sr_name s, sheet_spec parse_f64 en (sr_content s))) (wb_sheets wb)).
Proof. exact xlsx_workbook_main. Qed.

Theorem C01_xlsx_worksheets_main : forall parse_f64 strings formats wb pk,
  legal_workbook wb = true -> known_C01_wb wb = None ->
  package_holds parse_f64 strings formats wb pk ->
  let en := mkEnv strings formats (date_flag wb) in
  exists l, worksheets_model parse_f64 strings formats pk = Ok l /\
    map fst l = map sr_name (wb_sheets wb) /\
    Forall2 (fun nr s => sheet_spec parse_f64 en (sr_content s) = Ok (snd nr)) l (wb_sheets wb).
Proof. exact xlsx_worksheets_main. Qed.

Example C01_workbook_nonvacuous :
  legal_workbook wit_wb_r = true /\ known_C01_wb wit_wb_r = None /\
  package_holds toy_parse (e_strings wit_env) (e_formats wit_env) wit_wb_r (wit_package_full wit_wb_r).
Proof. exact wit_workbook_legal. Qed.

(* the remaining known class (F30), refuted by the faithful model as long as it describes the
   unfixed tree (rid_fix_applied = false) *)
Theorem C01_refuted_rel_prefix : rid_fix_applied = false ->
  known_C01_wb (wit_wb (ascii "r")) = None /\
  open_sheets (wit_package (wit_wb (ascii "r"))) =
    Ok ([(ascii "First", ascii "xl/worksheets/sheet1.xml");
         (ascii "Second", ascii "xl/chartsheets/sheet2.xml");
         (ascii "Third", ascii "xl/worksheets/sheet3.xml")], true) /\
  known_C01_wb (wit_wb (ascii "rel")) = Some 2 /\
  open_sheets (wit_package (wit_wb (ascii "rel"))) = Err E_UNRECOGNIZED.
Proof. exact refuted_rel_prefix. Qed.

Check C01_a1_roundtrip : forall row col,
  row + 1 < ROW_LIMIT -> col < COL_LIMIT ->
  get_row_and_optional_column (a1_name row col) = Ok (row, Some col) /\
  get_row_and_optional_column (map to_lower (a1_name row col)) = Ok (row, Some col) /\
  ~ In ch_dollar (a1_name row col).
Check C01_xlsx_sheet_main : forall parse_f64 en sh,
  legal_sheet parse_f64 en sh = true ->
  let r := range_of parse_f64 en (logical sh) in
  xlsx_sheet_model parse_f64 en (encode sh) = Ok r /\ Wf r /\
    rect r = tight_bbox (map fst (used_cells_spec parse_f64 en (logical sh))) /\
    (forall q, get_value r q =
       if in_rect r q then Some (value_at parse_f64 en (logical sh) q) else None).
Check C01_encoding_independent : forall parse_f64 en sh1 sh2,
  legal_sheet parse_f64 en sh1 = true -> legal_sheet parse_f64 en sh2 = true ->
  logical sh1 = logical sh2 ->
  xlsx_sheet_model parse_f64 en (encode sh1) = xlsx_sheet_model parse_f64 en (encode sh2).

Print Assumptions C01_a1_roundtrip.
Print Assumptions C01_no_panic_get_row_and_optional_column.
Print Assumptions C01_no_panic_worksheet_range.
Print Assumptions C01_a1_grid_inside_limits.
Print Assumptions C01_cursor_equiv.
Print Assumptions C01_typing_table.
Print Assumptions C01_typing_inline.
Print Assumptions C01_xlsx_sheet_main.
Print Assumptions C01_encoding_independent.
Check C01_xlsx_workbook_main.
Print Assumptions C01_sheet_nonvacuous.
Print Assumptions C01_target_normal_form.
Print Assumptions C01_sheet_type_of_relationship.
Print Assumptions C01_sheet_type_folder_fallback.
Print Assumptions C01_part_lookup_case_insensitive.
Print Assumptions C01_part_lookup_recased.
Print Assumptions C01_paths_nonvacuous.
Print Assumptions C01_xlsx_workbook_main.
Print Assumptions C01_xlsx_worksheets_main.
Print Assumptions C01_workbook_nonvacuous.
Print Assumptions C01_refuted_rel_prefix.
