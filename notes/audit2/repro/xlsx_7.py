# P7: shared formulas: master texts a real Excel writes; member one row down (B3) must be the master translated by (1,0)
from xlsx_base import *
import html
cases = [
 "'[1]My Sheet'!A1+A1",
 "'Sheet 1:Sheet 3'!A1+A1",
 "[1]Sheet1!A1+A1",
 "Table1[[#This Row],[Price '[USD']]]*A1",
 "Table1[[#This Row],[a'[b]]*A1",
 "Table1[@[it''s]]*A1",
 "SUM(A1#)+LOG10(A1)+ATAN2(A1,B1)+DEC2BIN(A1)",
 "IF(A1=\"A1\"\"B2\",#REF!A1,#N/A)",
 "A1:INDEX(B:B,5)",
 "SUM(Sheet2!A:A,2:2,$3:3)",
 "_xlfn.LET(_xlpm.x,A1,_xlpm.x+1)",
 "A1048576+A1",
 "1E5+1.5E-3*A1",
 "Sheet1!A1:B2 Sheet1!B2:C3",
 "{1,2;3,4}*A1",
 "Q1:Q3!A1+Q1",
]
for i, f in enumerate(cases):
    fx = html.escape(f, quote=False)
    sh = sheet('<row r="2"><c r="B2"><f t="shared" ref="B2:B3" si="0">%s</f><v>0</v></c></row><row r="3"><c r="B3"><f t="shared" si="0"/><v>0</v></c></row>' % fx)
    p = build('xlsx_7_sf%d.xlsx' % i, sh)
    out = vh('xlsx', p, ['formula ' + hx('Sheet1')])
    # decode
    import re
    cells = re.findall(r'[0-9a-f]{2,}', out.split('|')[-1]) if '|' in out else []
    dec = [bytes.fromhex(c).decode() for c in cells if len(c) % 2 == 0]
    print(repr(f), '->', dec if dec else out)
