(* De_proofs.v — proofs about the serde-deserialisation model (De.v).
   Main result: on every well-formed range, for every header configuration and target shape, the
   faithful model of RangeDeserializer (construction, next, size_hint, RowDeserializer as
   SeqAccess/MapAccess, the serde visitors) computes exactly the specification
   (de_run = Ok spec_run).  The facets of property C09 are derived from it.
   All theorems are parametric in the external conversions X : ext. *)
From Calamine Require Import Prelude Range Range_spec Range_proofs DeNum De.
From Coq Require Import Permutation.
Open Scope N_scope.
Set Implicit Arguments.

(* ---------------------------------------------------------------------------------------- *)
(* Generic facts                                                                            *)
(* ---------------------------------------------------------------------------------------- *)
Lemma dsequence_length : forall (A : Type) (l : list (dres A)) (r : list A),
  dsequence l = DOk r -> length r = length l.
Proof.
  induction l as [|x l IH]; intros r H; cbn in H.
  - inversion H. reflexivity.
  - destruct x as [a|e]; cbn in H; [|discriminate].
    destruct (dsequence l) as [r'|e] eqn:E; cbn in H; [|discriminate].
    inversion H. cbn. f_equal. apply IH. reflexivity.
Qed.

Lemma dsequence_map_map : forall (A B C : Type) (f : A -> dres B) (g : B -> C) (l : list A),
  dsequence (map (fun x => dres_map g (f x)) l) = dres_map (map g) (dsequence (map f l)).
Proof.
  induction l as [|x l IH]; [reflexivity|]. cbn [map dsequence]. rewrite IH.
  destruct (f x) as [b|e]; cbn; [|reflexivity].
  destruct (dsequence (map f l)); reflexivity.
Qed.

Lemma dsequence_nth : forall (A : Type) (l : list (dres A)) (r : list A) i,
  dsequence l = DOk r -> nth_error l i = option_map DOk (nth_error r i).
Proof.
  induction l as [|x l IH]; intros r i H; cbn in H.
  - inversion H. destruct i; reflexivity.
  - destruct x as [a|e]; cbn in H; [|discriminate].
    destruct (dsequence l) as [r'|e] eqn:E; cbn in H; [|discriminate].
    inversion H; subst. destruct i as [|i]; [reflexivity|]. cbn. apply IH. reflexivity.
Qed.

Lemma mapi_from_length : forall (A B : Type) (f : nat -> A -> B) l n,
  length (mapi_from n f l) = length l.
Proof. induction l as [|x l IH]; intros n; cbn; [reflexivity|]. f_equal. apply IH. Qed.

Lemma mapi_from_ext : forall (A B : Type) (f g : nat -> A -> B) l n,
  (forall k x, (n <= k)%nat -> f k x = g k x) -> mapi_from n f l = mapi_from n g l.
Proof.
  induction l as [|x l IH]; intros n H; cbn; [reflexivity|]. f_equal.
  - apply H. lia.
  - apply IH. intros k y Hk. apply H. lia.
Qed.

Lemma mapi_from_shift : forall (A B : Type) (f : nat -> A -> B) l n,
  mapi_from (S n) f l = mapi_from n (fun k => f (S k)) l.
Proof. induction l as [|x l IH]; intros n; cbn; [reflexivity|]. f_equal. apply IH. Qed.

Lemma mapi_from_nth : forall (A B : Type) (f : nat -> A -> B) l n i,
  nth_error (mapi_from n f l) i = option_map (f (n + i)%nat) (nth_error l i).
Proof.
  induction l as [|x l IH]; intros n i; cbn.
  - destruct i; reflexivity.
  - destruct i as [|i]; cbn.
    + replace (n + 0)%nat with n by lia. reflexivity.
    + rewrite IH. replace (S n + i)%nat with (n + S i)%nat by lia. reflexivity.
Qed.

(* ---------------------------------------------------------------------------------------- *)
(* Rows: the Chunks iterator yields the rows of the range, its size_hint is exact           *)
(* ---------------------------------------------------------------------------------------- *)
Fixpoint grid_rows (k w : nat) (v : list data) : list (list data) :=
  match k with
  | O => []
  | S k' => firstn w v :: grid_rows k' w (skipn w v)
  end.

Lemma chunks_aux_grid : forall k fuel w (v : list data),
  (0 < w)%nat -> length v = (k * w)%nat -> (k <= fuel)%nat ->
  chunks_aux fuel w v = grid_rows k w v.
Proof.
  induction k as [|k IH]; intros fuel w v Hw Hl Hf.
  - destruct v; [|cbn in Hl; lia]. apply chunks_aux_nil.
  - rewrite (@chunks_aux_cons _ k fuel w v Hw Hl Hf). cbn [grid_rows]. f_equal.
    apply IH; try lia. rewrite skipn_length. nia.
Qed.

Lemma chunks_grid : forall k w (v : list data),
  (0 < w)%nat -> length v = (k * w)%nat -> chunks w v = grid_rows k w v.
Proof. intros. unfold chunks. apply chunks_aux_grid; nia. Qed.

Lemma grid_rows_length : forall k w v, length (grid_rows k w v) = k.
Proof. induction k; intros; cbn; [reflexivity|]. f_equal. auto. Qed.

Lemma grid_rows_Forall : forall k w v, length v = (k * w)%nat ->
  Forall (fun row => length row = w) (grid_rows k w v).
Proof.
  induction k as [|k IH]; intros w v Hl; cbn; constructor.
  - rewrite firstn_length. nia.
  - apply IH. rewrite skipn_length. nia.
Qed.

(* the iterator holds k more rows *)
Definition it_ok (it : rows_it) (k : nat) : Prop :=
  (ri_some it = false /\ k = O) \/
  (ri_some it = true /\ (0 < ri_w it)%nat /\ length (ri_v it) = (k * ri_w it)%nat).
Definition it_list (it : rows_it) (k : nat) : list (list data) := grid_rows k (ri_w it) (ri_v it).

Lemma rows_next_zero : forall it, it_ok it 0 -> rows_next it = (None, it).
Proof.
  intros it [[Hs _]|[Hs [Hw Hl]]]; unfold rows_next; rewrite Hs; cbn; [reflexivity|].
  destruct (ri_v it); [reflexivity|cbn in Hl; lia].
Qed.

Lemma rows_next_succ : forall it k, it_ok it (S k) ->
  exists row it', rows_next it = (Some row, it') /\ it_ok it' k /\
    it_list it (S k) = row :: it_list it' k /\ length row = ri_w it /\ ri_w it' = ri_w it.
Proof.
  intros it k [[_ H]|[Hs [Hw Hl]]]; [discriminate|].
  exists (firstn (ri_w it) (ri_v it)), (mkRows true (skipn (ri_w it) (ri_v it)) (ri_w it)).
  unfold rows_next. rewrite Hs. cbn [negb].
  destruct (ri_v it) as [|x v'] eqn:Ev; [cbn in Hl; nia|]. rewrite <- Ev in *.
  repeat split.
  - right. cbn. repeat split; try assumption. rewrite skipn_length. nia.
  - rewrite firstn_length. nia.
Qed.

Lemma rows_size_hint_exact : forall it k, it_ok it k ->
  rows_size_hint it = (N.of_nat k, Some (N.of_nat k)).
Proof.
  intros it k [[Hs Hk]|[Hs [Hw Hl]]]; unfold rows_size_hint; rewrite Hs; cbn [negb].
  - subst. reflexivity.
  - destruct (ri_v it) as [|x v'] eqn:Ev.
    + cbn in Hl. assert (k = O) by nia. subst. reflexivity.
    + rewrite <- Ev in *. rewrite Hl.
      assert (Hw' : N.of_nat (ri_w it) <> 0) by lia.
      rewrite Nat2N.inj_mul, N.div_mul, N.mod_mul by assumption. reflexivity.
Qed.

(* ---------------------------------------------------------------------------------------- *)
(* One row: RowDeserializer + visitors = row_to_record                                       *)
(* ---------------------------------------------------------------------------------------- *)
Section Row.
Variable X : ext.
Variable cells : list data.
Variable p : pos.

(* a column index that addresses a cell of the row and whose absolute column fits u32 *)
Definition col_ok (i : nat) : Prop := (i < length cells)%nat /\ snd p + N.of_nat i <= U32MAX.

Lemma cell_pos_abs : forall i, snd p + N.of_nat i <= U32MAX -> cell_pos p i = abs_pos p i.
Proof.
  intros i H. unfold cell_pos, abs_pos, sat_add32, U32MAX in *. f_equal.
  rewrite N.mod_small by lia. lia.
Qed.

Lemma nth_error_cell : forall i, (i < length cells)%nat ->
  nth_error cells i = Some (cell_at cells i).
Proof. intros. unfold cell_at. apply nth_error_nth'. assumption. Qed.

Lemma next_element_cons : forall k hs i rest pk, col_ok i ->
  next_element X k (mkRowde cells hs (i :: rest) pk p) =
  Ok (dres_map Some (spec_cell X k p cells i), mkRowde cells hs rest pk p).
Proof.
  intros k hs i rest pk [Hi Hp]. unfold next_element. cbn [rd_iter rd_cells rd_headers rd_peek rd_pos].
  rewrite nth_error_cell by assumption. rewrite cell_pos_abs by assumption. reflexivity.
Qed.

Lemma next_element_nil : forall k hs pk,
  next_element X k (mkRowde cells hs [] pk p) = Ok (DOk None, mkRowde cells hs [] pk p).
Proof. reflexivity. Qed.

Lemma seq_tuple_spec : forall ks iter hs pk, Forall col_ok iter ->
  seq_tuple X ks (mkRowde cells hs iter pk p) = Ok (spec_tuple X ks iter p cells).
Proof.
  induction ks as [|k ks IH]; intros iter hs pk Hc; [reflexivity|].
  cbn [seq_tuple spec_tuple]. destruct iter as [|i rest].
  - rewrite next_element_nil. reflexivity.
  - inversion Hc as [|? ? Hi Hrest]; subst. rewrite next_element_cons by assumption.
    cbn [obind fst snd]. destruct (spec_cell X k p cells i) as [v|e]; cbn [dres_map dbind]; [|reflexivity].
    rewrite IH by assumption. reflexivity.
Qed.

Lemma seq_vec_spec : forall k iter fuel hs pk, Forall col_ok iter -> (length iter < fuel)%nat ->
  seq_vec X fuel k (mkRowde cells hs iter pk p) = Ok (spec_vec X k iter p cells).
Proof.
  induction iter as [|i rest IH]; intros fuel hs pk Hc Hf; (destruct fuel as [|f]; [cbn in Hf; lia|]).
  - reflexivity.
  - inversion Hc as [|? ? Hi Hrest]; subst. cbn [seq_vec]. rewrite next_element_cons by assumption.
    cbn [obind fst snd]. unfold spec_vec. cbn [map dsequence].
    destruct (spec_cell X k p cells i) as [v|e]; cbn [dres_map dbind]; [|reflexivity].
    rewrite IH by (try assumption; cbn in Hf; lia). reflexivity.
Qed.

Lemma seq_struct_spec : forall fs iter hs pk, Forall col_ok iter ->
  seq_struct X fs (mkRowde cells hs iter pk p) = Ok (spec_struct_seq X fs iter p cells).
Proof.
  induction fs as [|f fs IH]; intros iter hs pk Hc; [reflexivity|].
  cbn [seq_struct spec_struct_seq]. destruct iter as [|i rest].
  - rewrite next_element_nil. cbn [obind fst snd]. destruct (f_default f); [|reflexivity].
    rewrite IH by constructor. reflexivity.
  - inversion Hc as [|? ? Hi Hrest]; subst. rewrite next_element_cons by assumption.
    cbn [obind fst snd].
    destruct (spec_cell X (f_kind f) p cells i) as [v|e]; cbn [dres_map dbind]; [|reflexivity].
    rewrite IH by assumption. reflexivity.
Qed.

(* ---- map access ---- *)
Variable hs : list str.
Definition hcol_ok (i : nat) : Prop := col_ok i /\ (i < length hs)%nat.

Lemma bound_cells_cons_empty : forall i rest, is_empty_cell (cell_at cells i) = true ->
  bound_cells (i :: rest) hs cells = bound_cells rest hs cells.
Proof. intros i rest H. unfold bound_cells. cbn [map filter bc_data snd]. rewrite H. reflexivity. Qed.

Lemma bound_cells_cons_full : forall i rest, is_empty_cell (cell_at cells i) = false ->
  bound_cells (i :: rest) hs cells = (i, nth i hs [], cell_at cells i) :: bound_cells rest hs cells.
Proof. intros i rest H. unfold bound_cells. cbn [map filter bc_data snd]. rewrite H. reflexivity. Qed.

Lemma next_key_skip : forall i rest pk, hcol_ok i -> is_empty_cell (cell_at cells i) = true ->
  next_key (mkRowde cells (Some hs) (i :: rest) pk p) = next_key (mkRowde cells (Some hs) rest pk p).
Proof.
  intros i rest pk [[Hi _] _] He. unfold next_key. cbn [rd_headers rd_cells rd_iter rd_peek rd_pos].
  cbn [next_key_loop]. rewrite nth_error_cell by assumption. rewrite He. reflexivity.
Qed.

Lemma next_key_hit : forall i rest pk, hcol_ok i -> is_empty_cell (cell_at cells i) = false ->
  next_key (mkRowde cells (Some hs) (i :: rest) pk p) =
  Ok (Some (nth i hs []), mkRowde cells (Some hs) rest (Some i) p).
Proof.
  intros i rest pk [[Hi _] Hh] He. unfold next_key. cbn [rd_headers rd_cells rd_iter rd_peek rd_pos].
  cbn [next_key_loop]. rewrite nth_error_cell by assumption. rewrite He.
  rewrite (nth_error_nth' hs [] Hh). reflexivity.
Qed.

Lemma next_key_nil : forall pk,
  next_key (mkRowde cells (Some hs) [] pk p) = Ok (None, mkRowde cells (Some hs) [] pk p).
Proof. reflexivity. Qed.

Lemma next_value_peek : forall k iter i, hcol_ok i ->
  next_value X k (mkRowde cells (Some hs) iter (Some i) p) =
  Ok (spec_cell X k p cells i, mkRowde cells (Some hs) iter None p).
Proof.
  intros k iter i [[Hi Hp] _]. unfold next_value. cbn [rd_headers rd_cells rd_iter rd_peek rd_pos].
  rewrite nth_error_cell by assumption. rewrite cell_pos_abs by assumption. reflexivity.
Qed.

Lemma map_map_loop_spec : forall k iter fuel, Forall hcol_ok iter -> (length iter < fuel)%nat ->
  map_map_loop X fuel k (mkRowde cells (Some hs) iter None p) =
  Ok (spec_hashmap X k p (bound_cells iter hs cells)).
Proof.
  induction iter as [|i rest IH]; intros fuel Hc Hf; (destruct fuel as [|f]; [cbn in Hf; lia|]).
  - reflexivity.
  - inversion Hc as [|? ? Hi Hrest]; subst. cbn [map_map_loop].
    destruct (is_empty_cell (cell_at cells i)) eqn:He.
    + rewrite next_key_skip, bound_cells_cons_empty by assumption.
      specialize (IH (S f) Hrest ltac:(cbn in Hf; lia)). cbn [map_map_loop] in IH. exact IH.
    + rewrite next_key_hit, bound_cells_cons_full by assumption. cbn [obind fst snd].
      rewrite next_value_peek by assumption. cbn [obind fst snd].
      unfold spec_hashmap. cbn [map dsequence bc_hdr bc_col bc_data fst snd].
      fold (spec_cell X k p cells i).
      destruct (spec_cell X k p cells i) as [v|e]; cbn [dres_map dbind]; [|reflexivity].
      rewrite IH by (try assumption; cbn in Hf; lia). reflexivity.
Qed.

(* ---- derived struct through MapAccess ---- *)
Variable fs : list field.

(* slots filled by the bound cells (no error case) *)
Fixpoint fill (slots : list (option value)) (bcs : list bcell) : list (option value) :=
  match bcs with
  | [] => slots
  | b :: rest =>
    match field_index (bc_hdr b) fs with
    | Some j =>
      match convert X (field_kind fs j) (abs_pos p (bc_col b)) (bc_data b) with
      | DOk v => fill (list_set slots j (Some v)) rest
      | DErr _ => fill slots rest
      end
    | None => fill slots rest
    end
  end.

(* slot j is taken exactly when j was seen *)
Definition slots_inv (slots : list (option value)) (seen : list nat) : Prop :=
  length slots = length fs /\
  forall j, (exists v, nth_error slots j = Some (Some v)) <-> In j seen.

Lemma existsb_eqb_In : forall j seen, existsb (Nat.eqb j) seen = true <-> In j seen.
Proof.
  intros j seen. rewrite existsb_exists. split.
  - intros [x [Hin Heq]]. apply Nat.eqb_eq in Heq. subst. assumption.
  - intros H. exists j. split; [assumption|apply Nat.eqb_refl].
Qed.

Lemma index_of_lt : forall s l j, index_of s l = Some j -> (j < length l)%nat.
Proof.
  induction l as [|x l IH]; intros j H; cbn in H; [discriminate|].
  destruct (str_eqb x s); [inversion H; cbn; lia|].
  destruct (index_of s l) as [i|]; [|discriminate]. inversion H. cbn. specialize (IH i eq_refl). lia.
Qed.

Lemma field_index_lt : forall h j, field_index h fs = Some j -> (j < length fs)%nat.
Proof. intros h j H. unfold field_index in H. apply index_of_lt in H. rewrite map_length in H. exact H. Qed.

Lemma slots_inv_set : forall slots seen j v, slots_inv slots seen -> (j < length fs)%nat ->
  slots_inv (list_set slots j (Some v)) (j :: seen).
Proof.
  intros slots seen j v [Hl Hi] Hj. split; [rewrite list_set_length; exact Hl|].
  intros j'. destruct (Nat.eq_dec j j') as [->|Hne].
  - split; [intros _; left; reflexivity|]. intros _. exists v.
    apply nth_error_list_set_eq. lia.
  - rewrite nth_error_list_set_neq by assumption. rewrite Hi. cbn. intuition.
Qed.

Lemma map_struct_loop_spec : forall iter fuel slots seen,
  Forall hcol_ok iter -> (length iter < fuel)%nat -> slots_inv slots seen ->
  map_struct_loop X fuel fs (mkRowde cells (Some hs) iter None p) slots =
  Ok (match struct_first_error X fs p seen (bound_cells iter hs cells) with
      | Some e => DErr e
      | None => DOk (fill slots (bound_cells iter hs cells))
      end).
Proof.
  induction iter as [|i rest IH]; intros fuel slots seen Hc Hf Hinv;
    (destruct fuel as [|f]; [cbn in Hf; lia|]).
  - reflexivity.
  - inversion Hc as [|? ? Hi Hrest]; subst. cbn [map_struct_loop].
    destruct (is_empty_cell (cell_at cells i)) eqn:He.
    + rewrite next_key_skip, bound_cells_cons_empty by assumption.
      specialize (IH (S f) slots seen Hrest ltac:(cbn in Hf; lia) Hinv).
      cbn [map_struct_loop] in IH. exact IH.
    + rewrite next_key_hit, bound_cells_cons_full by assumption. cbn [obind fst snd].
      cbn [struct_first_error fill bc_hdr bc_col bc_data fst snd].
      destruct (field_index (nth i hs []) fs) as [j|] eqn:Ef.
      * pose proof (field_index_lt _ Ef) as Hj.
        destruct (existsb (Nat.eqb j) seen) eqn:Es.
        -- apply existsb_eqb_In in Es. apply (proj2 Hinv) in Es. destruct Es as [v Hv].
           rewrite Hv. reflexivity.
        -- assert (Hns : ~ In j seen).
           { intros Hin. apply existsb_eqb_In in Hin. congruence. }
           assert (Hslot : nth_error slots j = Some None).
           { destruct (nth_error slots j) as [[v|]|] eqn:En.
             - exfalso. apply Hns. apply (proj2 Hinv). exists v. exact En.
             - reflexivity.
             - apply nth_error_None in En. destruct Hinv as [Hl _]. lia. }
           rewrite Hslot.
           replace (match nth_error fs j with Some fj => f_kind fj | None => KIgnored end)
             with (field_kind fs j) by reflexivity.
           rewrite next_value_peek by assumption. cbn [obind fst snd].
           unfold spec_cell.
           destruct (convert X (field_kind fs j) (abs_pos p i) (cell_at cells i)) as [v|e];
             [|reflexivity].
           apply IH; try assumption; [cbn in Hf; lia|]. apply slots_inv_set; assumption.
      * rewrite next_value_peek by assumption. cbn [obind fst snd]. unfold spec_cell.
        destruct (convert X KIgnored (abs_pos p i) (cell_at cells i)) as [v|e]; [|reflexivity].
        apply IH; try assumption. cbn in Hf; lia.
Qed.

(* when no error is met, a seen field is not bound again *)
Definition bound_to (j : nat) (b : bcell) : bool :=
  match field_index (bc_hdr b) fs with Some j' => Nat.eqb j' j | None => false end.

Lemma no_error_seen_unbound : forall bcs seen j,
  struct_first_error X fs p seen bcs = None -> In j seen -> find (bound_to j) bcs = None.
Proof.
  induction bcs as [|b rest IH]; intros seen j Hne Hin; [reflexivity|].
  cbn [struct_first_error] in Hne. cbn [find]. unfold bound_to at 1.
  destruct (field_index (bc_hdr b) fs) as [j'|] eqn:Ef.
  - destruct (existsb (Nat.eqb j') seen) eqn:Es; [discriminate|].
    destruct (convert X (field_kind fs j') (abs_pos p (bc_col b)) (bc_data b)); [|discriminate].
    destruct (Nat.eqb_spec j' j) as [->|Hne'].
    + exfalso. apply existsb_eqb_In in Hin. congruence.
    + apply IH with (seen := j' :: seen); [assumption|right; assumption].
  - destruct (convert X KIgnored (abs_pos p (bc_col b)) (bc_data b)); [|discriminate].
    apply IH with (seen := seen); assumption.
Qed.

Lemma fill_spec : forall bcs slots seen j,
  slots_inv slots seen -> struct_first_error X fs p seen bcs = None ->
  nth_error (fill slots bcs) j =
  match find (bound_to j) bcs with
  | Some b => match convert X (field_kind fs j) (abs_pos p (bc_col b)) (bc_data b) with
              | DOk v => Some (Some v)
              | DErr _ => None
              end
  | None => nth_error slots j
  end.
Proof.
  induction bcs as [|b rest IH]; intros slots seen j Hinv Hne; [reflexivity|].
  cbn [struct_first_error] in Hne. cbn [fill find]. unfold bound_to at 1.
  destruct (field_index (bc_hdr b) fs) as [j'|] eqn:Ef.
  - pose proof (field_index_lt _ Ef) as Hj'.
    destruct (existsb (Nat.eqb j') seen) eqn:Es; [discriminate|].
    destruct (convert X (field_kind fs j') (abs_pos p (bc_col b)) (bc_data b)) as [v|e] eqn:Ec;
      [|discriminate].
    assert (Hinv' := slots_inv_set v Hinv Hj').
    rewrite (@IH _ (j' :: seen) j Hinv' Hne).
    destruct (Nat.eqb_spec j' j) as [->|Hne'].
    + rewrite (@no_error_seen_unbound rest (j :: seen) j Hne (or_introl eq_refl)). rewrite Ec.
      apply nth_error_list_set_eq. destruct Hinv as [Hl _]. lia.
    + rewrite nth_error_list_set_neq by assumption. reflexivity.
  - destruct (convert X KIgnored (abs_pos p (bc_col b)) (bc_data b)); [|discriminate].
    apply IH with (seen := seen); assumption.
Qed.

Lemma fill_length : forall bcs slots, length (fill slots bcs) = length slots.
Proof.
  induction bcs as [|b rest IH]; intros slots; [reflexivity|]. cbn [fill].
  destruct (field_index (bc_hdr b) fs) as [j|]; [|apply IH].
  destruct (convert X (field_kind fs j) (abs_pos p (bc_col b)) (bc_data b)); rewrite IH;
    [apply list_set_length|reflexivity].
Qed.

Lemma no_error_bound_converts : forall bcs seen j b,
  struct_first_error X fs p seen bcs = None -> find (bound_to j) bcs = Some b ->
  exists v, convert X (field_kind fs j) (abs_pos p (bc_col b)) (bc_data b) = DOk v.
Proof.
  induction bcs as [|b0 rest IH]; intros seen j b Hne Hf; [discriminate|].
  cbn [struct_first_error] in Hne. cbn [find] in Hf. unfold bound_to at 1 in Hf.
  destruct (field_index (bc_hdr b0) fs) as [j'|] eqn:Ef.
  - destruct (existsb (Nat.eqb j') seen); [discriminate|].
    destruct (convert X (field_kind fs j') (abs_pos p (bc_col b0)) (bc_data b0)) as [v|e] eqn:Ec;
      [|discriminate].
    destruct (Nat.eqb_spec j' j) as [->|Hne'].
    + inversion Hf; subst. exists v. exact Ec.
    + apply IH with (seen := j' :: seen); assumption.
  - destruct (convert X KIgnored (abs_pos p (bc_col b0)) (bc_data b0)); [|discriminate].
    apply IH with (seen := seen); assumption.
Qed.

Lemma mapi_from_ext_nth : forall (A B : Type) (f g : nat -> A -> B) l n,
  (forall i x, nth_error l i = Some x -> f (n + i)%nat x = g (n + i)%nat x) ->
  mapi_from n f l = mapi_from n g l.
Proof.
  induction l as [|x l IH]; intros n H; cbn; [reflexivity|]. f_equal.
  - specialize (H O x eq_refl). replace (n + 0)%nat with n in H by lia. exact H.
  - apply IH. intros i y Hy. specialize (H (S i) y Hy).
    replace (n + S i)%nat with (S n + i)%nat in H by lia. exact H.
Qed.

Lemma finish_struct_mapi : forall (fs' : list field) slots,
  length slots = length fs' ->
  finish_struct fs' slots =
  dsequence (mapi_from 0 (fun j f => match nth_error slots j with
                                     | Some (Some v) => DOk v
                                     | _ => missing f
                                     end) fs').
Proof.
  induction fs' as [|f fs' IH]; intros slots Hl; destruct slots as [|s slots]; try discriminate;
    [reflexivity|].
  cbn [finish_struct mapi_from dsequence nth_error]. rewrite mapi_from_shift.
  cbn [nth_error]. rewrite <- IH by (cbn in Hl; lia).
  destruct s; reflexivity.
Qed.

Lemma map_struct_spec : forall iter, Forall hcol_ok iter ->
  map_struct X fs (mkRowde cells (Some hs) iter None p) =
  Ok (spec_struct_map X fs p (bound_cells iter hs cells)).
Proof.
  intros iter Hc. unfold map_struct. cbn [rd_iter].
  assert (Hinv : slots_inv (repeat None (length fs)) []).
  { split; [apply repeat_length|]. intros j. split; [|intros []].
    intros [v Hv]. destruct (Nat.lt_ge_cases j (length fs)) as [Hlt|Hge].
    - rewrite nth_error_repeat in Hv by assumption. discriminate.
    - assert (nth_error (repeat (@None value) (length fs)) j = None)
        by (apply nth_error_None; rewrite repeat_length; lia). congruence. }
  rewrite (@map_struct_loop_spec iter (S (length iter)) _ [] Hc ltac:(lia) Hinv).
  cbn [obind]. unfold spec_struct_map.
  destruct (struct_first_error X fs p [] (bound_cells iter hs cells)) as [e|] eqn:Ee; [reflexivity|].
  cbn [dbind]. f_equal.
  set (bcs := bound_cells iter hs cells) in *.
  rewrite finish_struct_mapi by (rewrite fill_length; apply repeat_length).
  f_equal. apply mapi_from_ext_nth. intros j f Hf. cbn [Nat.add].
  assert (Hj : (j < length fs)%nat) by (apply nth_error_Some; congruence).
  assert (Hk : field_kind fs j = f_kind f) by (unfold field_kind; rewrite Hf; reflexivity).
  rewrite (@fill_spec bcs _ [] j Hinv Ee). unfold field_value.
  change (fun b : bcell => match field_index (bc_hdr b) fs with
                           | Some j' => Nat.eqb j' j | None => false end) with (bound_to j).
  destruct (find (bound_to j) bcs) as [b|] eqn:Efind.
  - destruct (@no_error_bound_converts bcs [] j b Ee Efind) as [v Hv]. rewrite <- Hk, Hv. reflexivity.
  - rewrite nth_error_repeat by assumption. reflexivity.
Qed.

End Row.

(* ---------------------------------------------------------------------------------------- *)
(* The whole run                                                                            *)
(* ---------------------------------------------------------------------------------------- *)
Section Run.
Variable X : ext.

Lemma row_deserialize_spec : forall sh cols headers row p,
  Forall (fun i => (i < length row)%nat) cols ->
  snd p + N.of_nat (length row) <= U32MAX + 1 ->
  match headers with Some hs => length hs = length row | None => True end ->
  row_deserialize X sh cols headers row p = Ok (row_to_record X sh cols headers p row).
Proof.
  intros sh cols headers row p Hc Hp Hh.
  assert (Hco : Forall (col_ok row p) cols).
  { eapply Forall_impl; [|exact Hc]. intros i Hi. split; [exact Hi|]. cbn beta in Hi. lia. }
  unfold row_deserialize, row_to_record. destruct sh as [ks|k|fs|k|].
  - rewrite seq_tuple_spec by assumption. reflexivity.
  - rewrite seq_vec_spec by (try assumption; lia). reflexivity.
  - destruct headers as [hs|].
    + rewrite map_struct_spec; [reflexivity|].
      eapply Forall_impl; [|exact Hco]. intros i Hi. split; [exact Hi|]. destruct Hi. lia.
    + rewrite seq_struct_spec by assumption. reflexivity.
  - destruct headers as [hs|]; [|reflexivity].
    rewrite map_map_loop_spec; [reflexivity| |lia].
    eapply Forall_impl; [|exact Hco]. intros i Hi. split; [exact Hi|]. destruct Hi. lia.
  - reflexivity.
Qed.

(* a state that has k more rows of width w to deliver, the next one at absolute row fst pos *)
Record st_ok (st : de_state) (k : nat) : Prop := mkStOk {
  so_rows : it_ok (ds_rows st) k;
  so_cols : k <> O -> Forall (fun i => (i < ri_w (ds_rows st))%nat) (ds_cols st);
  so_hdrs : k <> O -> match ds_headers st with
                      | Some hs => length hs = ri_w (ds_rows st) | None => True end;
  so_row : fst (ds_pos st) + N.of_nat k <= U32MAX + 1;
  so_col : k <> O -> snd (ds_pos st) + N.of_nat (ri_w (ds_rows st)) <= U32MAX + 1
}.

(* the records of the rows still to come from a state *)
Definition st_records (sh : shape) (st : de_state) (k : nat) : list (dres record) :=
  mapi_from 0 (fun j row => row_to_record X sh (ds_cols st) (ds_headers st)
                                          (fst (ds_pos st) + N.of_nat j, snd (ds_pos st)) row)
            (it_list (ds_rows st) k).

Lemma de_next_zero : forall sh st, st_ok st 0 -> de_next X sh st = Ok (None, st).
Proof.
  intros sh st H. unfold de_next. rewrite (rows_next_zero (so_rows H)). destruct st; reflexivity.
Qed.

Lemma de_next_succ : forall sh st k, st_ok st (S k) ->
  exists st', de_next X sh st = Ok (Some (hd (DErr ECustom) (st_records sh st (S k))), st') /\
    st_ok st' k /\ st_records sh st (S k) = hd (DErr ECustom) (st_records sh st (S k)) :: st_records sh st' k /\
    ds_cols st' = ds_cols st /\ ds_headers st' = ds_headers st.
Proof.
  intros sh st k H.
  destruct (rows_next_succ (so_rows H)) as [row [it' [Hn [Hok [Hl [Hlen Hw]]]]]].
  exists (mkDe (ds_cols st) (ds_headers st) it' (sat_add32 (fst (ds_pos st)) 1, snd (ds_pos st))).
  assert (Hk : S k <> O) by lia.
  pose proof (so_cols H Hk) as Hc. pose proof (so_hdrs H Hk) as Hh.
  pose proof (so_row H) as Hr. pose proof (so_col H Hk) as Hcc.
  set (st' := mkDe (ds_cols st) (ds_headers st) it' (sat_add32 (fst (ds_pos st)) 1, snd (ds_pos st))).
  assert (Hrec : st_records sh st (S k) =
                 row_to_record X sh (ds_cols st) (ds_headers st) (ds_pos st) row :: st_records sh st' k).
  { unfold st_records. rewrite Hl. cbn [mapi_from]. f_equal.
    - replace (fst (ds_pos st) + N.of_nat 0) with (fst (ds_pos st)) by lia.
      rewrite <- surjective_pairing. reflexivity.
    - subst st'. cbn [ds_rows ds_cols ds_headers ds_pos fst snd].
      rewrite mapi_from_shift. destruct k as [|k'].
      + unfold it_list. reflexivity.
      + apply mapi_from_ext. intros j r _. f_equal. f_equal.
        unfold sat_add32, U32MAX in *. lia. }
  rewrite Hrec. cbn [hd].
  unfold de_next. rewrite Hn.
  rewrite row_deserialize_spec.
  2:{ rewrite Hlen. exact Hc. }
  2:{ rewrite Hlen. exact Hcc. }
  2:{ rewrite Hlen. exact Hh. }
  cbn [obind].
  split; [reflexivity|]. split; [|split; [reflexivity|split; reflexivity]].
  subst st'. constructor; cbn [ds_rows ds_cols ds_headers ds_pos fst snd]; try rewrite Hw; auto.
  unfold sat_add32, U32MAX in *. lia.
Qed.

Lemma st_records_length : forall sh st k, length (st_records sh st k) = k.
Proof. intros. unfold st_records, it_list. rewrite mapi_from_length. apply grid_rows_length. Qed.

Lemma de_size_hint_exact : forall st k, st_ok st k ->
  de_size_hint st = (N.of_nat k, Some (N.of_nat k)).
Proof. intros st k H. apply rows_size_hint_exact. exact (so_rows H). Qed.

Lemma de_trace_spec : forall sh k st fuel, st_ok st k -> (k < fuel)%nat ->
  de_trace X fuel sh st = Ok (spec_trace_from (st_records sh st k)).
Proof.
  intros sh. induction k as [|k IH]; intros st fuel H Hf; (destruct fuel as [|fuel]; [lia|]).
  - cbn [de_trace]. rewrite (de_next_zero sh H). cbn [obind fst snd].
    rewrite (de_size_hint_exact H). reflexivity.
  - destruct (de_next_succ sh H) as [st' [Hn [Hok [Hrec _]]]].
    cbn [de_trace]. rewrite Hn. cbn [obind fst snd]. rewrite (IH st' fuel Hok ltac:(lia)). cbn [obind].
    rewrite Hrec at 2. cbn [spec_trace_from]. rewrite (de_size_hint_exact H).
    rewrite <- Hrec. rewrite st_records_length. reflexivity.
Qed.

Lemma de_items_spec : forall sh k st fuel, st_ok st k -> (k < fuel)%nat ->
  de_items X fuel sh st = Ok (st_records sh st k).
Proof.
  intros sh. induction k as [|k IH]; intros st fuel H Hf; (destruct fuel as [|fuel]; [lia|]).
  - cbn [de_items]. rewrite (de_next_zero sh H). reflexivity.
  - destruct (de_next_succ sh H) as [st' [Hn [Hok [Hrec _]]]].
    cbn [de_items]. rewrite Hn. cbn [obind fst snd]. rewrite (IH st' fuel Hok ltac:(lia)). cbn [obind].
    rewrite <- Hrec. reflexivity.
Qed.

(* ---- construction ---- *)
Lemma range_ok_empty : forall r : range data, is_empty r = true ->
  rows_new r = Ok (mkRows false [] 0) /\ rows r = [] /\ width r = 0 /\ start r = None.
Proof.
  intros r He. unfold rows_new, rows, width, start. rewrite He. auto.
Qed.

Lemma range_ok_ne : forall r : range data, range_ok r -> is_empty r = false ->
  let w := N.to_nat (width r) in
  let h := N.to_nat (height r) in
  (0 < w)%nat /\ (0 < h)%nat /\ length (r_inner r) = (h * w)%nat /\
  rows_new r = Ok (mkRows true (r_inner r) w) /\
  rows r = grid_rows h w (r_inner r) /\
  start r = Some (r_start r) /\
  fst (r_start r) + N.of_nat h <= U32MAX + 1 /\
  snd (r_start r) + N.of_nat w <= U32MAX + 1.
Proof.
  intros r [Hwf [Hr Hc]] Hne w h.
  destruct (Wf_ne Hwf Hne) as (H1 & H2 & Hh & Hw & Hl).
  assert (Hw0 : (0 < w)%nat) by (subst w; lia).
  assert (Hh0 : (0 < h)%nat) by (subst h; lia).
  assert (Hlen : length (r_inner r) = (h * w)%nat) by (subst h w; nia).
  repeat split; try assumption.
  - unfold rows_new. rewrite Hne. fold w. destruct (Nat.eqb_spec w 0); [lia|reflexivity].
  - unfold rows. rewrite Hne. fold w. apply chunks_grid; assumption.
  - unfold start. rewrite Hne. reflexivity.
  - subst h. unfold U32MAX in *. lia.
  - subst w. unfold U32MAX in *. lia.
Qed.

Lemma header_strings_vec : forall p row,
  dres_map (fun rec => record_strings rec)
           (dres_map RSeq (spec_vec X KString (seq 0 (length row)) p row)) =
  header_strings X p row.
Proof.
  intros p row. unfold header_strings, spec_vec. rewrite dsequence_map_map.
  destruct (dsequence (map (spec_cell X KString p row) (seq 0 (length row)))); reflexivity.
Qed.

Lemma header_strings_length : forall p row hs,
  header_strings X p row = DOk hs -> length hs = length row.
Proof.
  intros p row hs H. unfold header_strings in H. apply dsequence_length in H.
  rewrite map_length, seq_length in H. exact H.
Qed.

Lemma position_lt : forall h all i, position h all = Some i -> (i < length all)%nat.
Proof.
  induction all as [|x all IH]; intros i H; cbn in H; [discriminate|].
  destruct (str_eqb (trim x) h); [inversion H; cbn; lia|].
  destruct (position h all) as [j|]; [|discriminate]. inversion H. cbn. specialize (IH j eq_refl). lia.
Qed.

Lemma select_columns_lt : forall sel all cols,
  select_columns sel all = DOk cols -> Forall (fun i => (i < length all)%nat) cols.
Proof.
  induction sel as [|h sel IH]; intros all cols H; unfold select_columns in H; cbn in H.
  - inversion H. constructor.
  - destruct (position (trim h) all) as [i|] eqn:Ep; cbn in H; [|discriminate].
    fold (select_columns sel all) in H.
    destruct (select_columns sel all) as [cs|e] eqn:Es; cbn in H; [|discriminate].
    inversion H. constructor; [eapply position_lt; eassumption|]. apply IH. assumption.
Qed.

Lemma seq_lt : forall n, Forall (fun i => (i < n)%nat) (seq 0 n).
Proof. intros n. apply Forall_forall. intros i Hi. apply in_seq in Hi. lia. Qed.

(* what construction yields: an error, or a state positioned on the plan's data rows *)
Definition new_matches (res : outcome (dres de_state)) (pl : dres plan) : Prop :=
  match pl with
  | DErr e => res = Ok (DErr e)
  | DOk pl =>
    exists st, res = Ok (DOk st) /\ st_ok st (length (pl_rows pl)) /\
      ds_cols st = pl_cols pl /\ ds_headers st = pl_headers pl /\
      it_list (ds_rows st) (length (pl_rows pl)) = pl_rows pl /\
      (pl_rows pl <> [] -> ds_pos st = pl_pos pl)
  end.

Lemma st_ok_zero : forall cols hs it p, it_ok it 0 -> fst p <= U32MAX + 1 ->
  st_ok (mkDe cols hs it p) 0.
Proof.
  intros cols hs it p Hit Hp.
  constructor; cbn [ds_rows ds_cols ds_headers ds_pos fst snd];
    try (intros Hk; exfalso; apply Hk; reflexivity); [exact Hit|lia].
Qed.

Lemma st_ok_mk : forall cols hs it p k, it_ok it k ->
  Forall (fun i => (i < ri_w it)%nat) cols ->
  match hs with Some l => length l = ri_w it | None => True end ->
  fst p + N.of_nat k <= U32MAX + 1 -> snd p + N.of_nat (ri_w it) <= U32MAX + 1 ->
  st_ok (mkDe cols hs it p) k.
Proof. intros. constructor; cbn [ds_rows ds_cols ds_headers ds_pos fst snd]; auto. Qed.

Lemma de_new_spec : forall cfg r, range_ok r -> new_matches (de_new X cfg r) (spec_plan X cfg r).
Proof.
  intros cfg r Hok. destruct (is_empty r) eqn:He.
  - destruct (range_ok_empty r He) as (Hn & Hr & Hw & Hs).
    assert (Hit : it_ok (mkRows false [] 0) 0) by (left; auto).
    unfold de_new, spec_plan. rewrite Hn, Hr, Hw, Hs. cbn [obind].
    destruct cfg as [| |sel]; cbn [new_matches rows_next ri_some negb pl_rows length];
      eexists; (split; [reflexivity|]);
      (split; [apply st_ok_zero; [exact Hit|cbn; unfold U32MAX; lia]|]);
      cbn [ds_cols ds_headers ds_rows ds_pos pl_cols pl_headers pl_rows pl_pos];
      repeat split; try reflexivity; try (intros; contradiction).
  - destruct (range_ok_ne Hok He) as (Hw0 & Hh0 & Hlen & Hn & Hr & Hs & Hpr & Hpc).
    set (w := N.to_nat (width r)) in *. set (h := N.to_nat (height r)) in *.
    assert (Hit : it_ok (mkRows true (r_inner r) w) h) by (right; cbn; auto).
    unfold de_new, spec_plan. rewrite Hn, Hs. cbn [obind]. destruct cfg as [| |sel].
    + (* no header row *)
      cbn [new_matches]. eexists. split; [reflexivity|].
      cbn [ds_cols ds_headers ds_rows ds_pos pl_cols pl_headers pl_rows pl_pos].
      rewrite Hr, grid_rows_length. split; [|repeat split; auto].
      apply st_ok_mk; cbn [ri_w]; auto. fold w. apply seq_lt.
    + (* first row = headers *)
      destruct h as [|k]; [lia|].
      destruct (rows_next_succ Hit) as [row [it' [Hnx [Hok' [Hl [Hrl Hw']]]]]].
      rewrite Hnx. rewrite Hr. cbn [grid_rows]. unfold it_list in Hl. cbn [ri_w ri_v grid_rows] in Hl.
      inversion Hl as [[Hrow Hrest]]. rewrite Hrow. cbn [ri_w] in Hrl, Hw'.
      rewrite row_deserialize_spec; [| apply seq_lt | rewrite Hrl; exact Hpc | exact I].
      cbn [obind row_to_record]. rewrite <- (header_strings_vec (r_start r) row).
      destruct (spec_vec X KString (seq 0 (length row)) (r_start r) row) as [vs|e] eqn:Ev;
        cbn [dres_map dbind new_matches]; [|reflexivity].
      eexists. split; [reflexivity|].
      cbn [ds_cols ds_headers ds_rows ds_pos pl_cols pl_headers pl_rows pl_pos].
      assert (Hhl : length (record_strings (RSeq vs)) = length row).
      { apply (@header_strings_length (r_start r)). rewrite <- header_strings_vec, Ev. reflexivity. }
      rewrite grid_rows_length.
      split; [|split; [reflexivity|split; [reflexivity|split; [unfold it_list; symmetry; exact Hrest|]]]].
      * apply st_ok_mk; cbn [fst snd]; auto; rewrite ?Hw'.
        -- rewrite Hrl. apply seq_lt.
        -- rewrite Hhl. exact Hrl.
        -- unfold sat_add32, U32MAX in *. lia.
        -- exact Hpc.
      * intros Hne. unfold sat_add32. f_equal.
        destruct k; [cbn in Hne; contradiction|]. unfold U32MAX in *. lia.
    + (* selected headers *)
      destruct h as [|k]; [lia|].
      destruct (rows_next_succ Hit) as [row [it' [Hnx [Hok' [Hl [Hrl Hw']]]]]].
      rewrite Hnx. rewrite Hr. cbn [grid_rows]. unfold it_list in Hl. cbn [ri_w ri_v grid_rows] in Hl.
      inversion Hl as [[Hrow Hrest]]. rewrite Hrow. cbn [ri_w] in Hrl, Hw'.
      rewrite row_deserialize_spec; [| apply seq_lt | rewrite Hrl; exact Hpc | exact I].
      cbn [obind row_to_record]. rewrite <- (header_strings_vec (r_start r) row).
      destruct (spec_vec X KString (seq 0 (length row)) (r_start r) row) as [vs|e] eqn:Ev;
        cbn [dres_map dbind new_matches]; [|reflexivity].
      assert (Hhl : length (record_strings (RSeq vs)) = length row).
      { apply (@header_strings_length (r_start r)). rewrite <- header_strings_vec, Ev. reflexivity. }
      fold (select_columns sel (record_strings (RSeq vs))).
      destruct (select_columns sel (record_strings (RSeq vs))) as [cols|e] eqn:Es;
        cbn [dbind new_matches]; [|reflexivity].
      eexists. split; [reflexivity|].
      cbn [ds_cols ds_headers ds_rows ds_pos pl_cols pl_headers pl_rows pl_pos].
      rewrite grid_rows_length.
      split; [|split; [reflexivity|split; [reflexivity|split; [unfold it_list; symmetry; exact Hrest|]]]].
      * apply st_ok_mk; cbn [fst snd]; auto; rewrite ?Hw'.
        -- rewrite <- Hrl, <- Hhl. eapply select_columns_lt. eassumption.
        -- rewrite Hhl. exact Hrl.
        -- unfold sat_add32, U32MAX in *. lia.
        -- exact Hpc.
      * intros Hne. unfold sat_add32. f_equal.
        destruct k; [cbn in Hne; contradiction|]. unfold U32MAX in *. lia.
Qed.

Lemma st_records_plan : forall sh pl st,
  ds_cols st = pl_cols pl -> ds_headers st = pl_headers pl ->
  it_list (ds_rows st) (length (pl_rows pl)) = pl_rows pl ->
  (pl_rows pl <> [] -> ds_pos st = pl_pos pl) ->
  st_records sh st (length (pl_rows pl)) = plan_records X sh pl.
Proof.
  intros sh pl st Hc Hh Hl Hp. unfold st_records, plan_records. rewrite Hl, Hc, Hh.
  destruct (pl_rows pl) as [|row rest]; [reflexivity|]. rewrite Hp by discriminate. reflexivity.
Qed.

Lemma plan_rows_le : forall cfg r pl, spec_plan X cfg r = DOk pl ->
  (length (pl_rows pl) <= length (rows r))%nat.
Proof.
  intros cfg r pl H. unfold spec_plan in H. destruct cfg as [| |sel].
  - inversion H. cbn. lia.
  - destruct (rows r) as [|hd rs]; [inversion H; cbn; lia|].
    destruct (header_strings X _ hd); cbn in H; inversion H. cbn. lia.
  - destruct (rows r) as [|hd rs]; [inversion H; cbn; lia|].
    destruct (header_strings X _ hd); cbn in H; [|discriminate].
    destruct (select_columns sel a); cbn in H; inversion H. cbn. lia.
Qed.

(* MAIN: the model of the whole public run equals the specification *)
Theorem de_run_spec : forall cfg sh r, range_ok r ->
  de_run X cfg sh r = Ok (spec_run X cfg sh r).
Proof.
  intros cfg sh r Hok. pose proof (de_new_spec cfg Hok) as Hn.
  unfold de_run, spec_run, spec_records.
  destruct (spec_plan X cfg r) as [pl|e] eqn:Ep; cbn [new_matches] in Hn.
  - destruct Hn as [st (Hn & Hst & Hc & Hh & Hl & Hp)]. rewrite Hn. cbn [obind dres_map].
    rewrite (@de_trace_spec sh (length (pl_rows pl)) st _ Hst)
      by (pose proof (plan_rows_le cfg r Ep); lia).
    cbn [obind]. rewrite (st_records_plan sh pl st Hc Hh Hl Hp). reflexivity.
  - rewrite Hn. reflexivity.
Qed.

End Run.

(* ---------------------------------------------------------------------------------------- *)
(* Facets of the property                                                                   *)
(* ---------------------------------------------------------------------------------------- *)
Definition trace_items (t : list (hint * option (dres record))) : list (dres record) :=
  flat_map (fun x => match snd x with Some it => [it] | None => [] end) t.
Definition trace_hints (t : list (hint * option (dres record))) : list hint := map fst t.

(* the rows after the optional header row *)
Definition data_rows (cfg : hcfg) (r : range data) : list (list data) :=
  match cfg with HNone => rows r | _ => tl (rows r) end.

Lemma trace_items_spec : forall items, trace_items (spec_trace_from items) = items.
Proof. induction items as [|it rest IH]; [reflexivity|]. cbn. f_equal. exact IH. Qed.

(* the target shapes whose visitor looks at every selected (non-empty) cell of the row *)
Definition visits_all (sh : shape) (hdrs : option (list str)) : Prop :=
  match sh with
  | STuple _ => False            (* stops at its arity *)
  | SStruct _ => hdrs <> None    (* by position it stops at the number of fields *)
  | _ => True
  end.

Section Facets.
Variable X : ext.

Lemma spec_plan_rows : forall cfg r pl, spec_plan X cfg r = DOk pl -> pl_rows pl = data_rows cfg r.
Proof.
  intros cfg r pl H. unfold spec_plan, data_rows in *. destruct cfg as [| |sel].
  - inversion H. reflexivity.
  - destruct (rows r) as [|hd rs]; [inversion H; reflexivity|].
    destruct (header_strings X _ hd); cbn in H; inversion H. reflexivity.
  - destruct (rows r) as [|hd rs]; [inversion H; reflexivity|].
    destruct (header_strings X _ hd); cbn in H; [|discriminate].
    destruct (select_columns sel a); cbn in H; inversion H. reflexivity.
Qed.

Lemma plan_records_nth : forall sh pl i,
  nth_error (plan_records X sh pl) i =
  option_map (row_to_record X sh (pl_cols pl) (pl_headers pl)
                            (fst (pl_pos pl) + N.of_nat i, snd (pl_pos pl)))
             (nth_error (pl_rows pl) i).
Proof. intros. unfold plan_records. rewrite mapi_from_nth. reflexivity. Qed.

(* C09, first sentence: exactly one item per row after the optional header row, in order; each
   item is the record of its own row (and of nothing else) *)
Theorem items_are_rows : forall cfg sh r, range_ok r ->
  match spec_plan X cfg r with
  | DErr e => de_run X cfg sh r = Ok (DErr e)
  | DOk pl =>
    exists t, de_run X cfg sh r = Ok (DOk t) /\
      pl_rows pl = data_rows cfg r /\
      length (trace_items t) = length (data_rows cfg r) /\
      forall i, nth_error (trace_items t) i =
                option_map (row_to_record X sh (pl_cols pl) (pl_headers pl)
                                          (fst (pl_pos pl) + N.of_nat i, snd (pl_pos pl)))
                           (nth_error (data_rows cfg r) i)
  end.
Proof.
  intros cfg sh r Hok. rewrite (de_run_spec X cfg sh Hok). unfold spec_run, spec_records.
  destruct (spec_plan X cfg r) as [pl|e] eqn:Ep; [|reflexivity].
  pose proof (spec_plan_rows cfg r Ep) as Hr.
  eexists. split; [reflexivity|]. rewrite trace_items_spec. split; [exact Hr|]. split.
  - unfold plan_records. rewrite mapi_from_length, Hr. reflexivity.
  - intros i. rewrite plan_records_nth, Hr. reflexivity.
Qed.

(* ---- size_hint ---- *)
Lemma de_advance_ok : forall sh k st m, st_ok st m ->
  exists st', de_advance X k sh st = Ok st' /\ st_ok st' (m - k).
Proof.
  intros sh. induction k as [|k IH]; intros st m H.
  - exists st. split; [reflexivity|]. replace (m - 0)%nat with m by lia. exact H.
  - cbn [de_advance]. destruct m as [|m].
    + rewrite (de_next_zero X sh H). cbn [obind snd]. apply (IH st O H).
    + destruct (de_next_succ X sh H) as [st' [Hn [Hok _]]]. rewrite Hn. cbn [obind snd].
      apply (IH st' m Hok).
Qed.

Lemma de_new_st_ok : forall cfg r st0, range_ok r -> de_new X cfg r = Ok (DOk st0) ->
  exists n, st_ok st0 n /\ (n <= length (rows r))%nat.
Proof.
  intros cfg r st0 Hok Hn. pose proof (de_new_spec X cfg Hok) as Hs.
  destruct (spec_plan X cfg r) as [pl|e] eqn:Ep; cbn [new_matches] in Hs.
  - destruct Hs as [st (Hn' & Hst & _)]. rewrite Hn in Hn'. inversion Hn'; subst.
    exists (length (pl_rows pl)). split; [exact Hst|]. eapply plan_rows_le. eassumption.
  - rewrite Hn in Hs. discriminate.
Qed.

(* C09: at EVERY point of the iteration (after any number k of calls to next, including past the
   end) size_hint brackets the number of items still to come — in fact it is exact *)
Theorem size_hint_brackets : forall cfg sh r st0, range_ok r -> de_new X cfg r = Ok (DOk st0) ->
  forall k, exists stk items lo hi,
    de_advance X k sh st0 = Ok stk /\
    de_items X (S (length (rows r))) sh stk = Ok items /\
    de_size_hint stk = (lo, Some hi) /\
    lo <= N.of_nat (length items) /\ N.of_nat (length items) <= hi.
Proof.
  intros cfg sh r st0 Hok Hn k.
  destruct (de_new_st_ok cfg Hok Hn) as [n [Hst Hle]].
  destruct (de_advance_ok sh k Hst) as [stk [Ha Hk]].
  exists stk, (st_records X sh stk (n - k)), (N.of_nat (n - k)), (N.of_nat (n - k)).
  split; [exact Ha|]. split; [apply de_items_spec; [exact Hk|lia]|].
  split; [apply de_size_hint_exact; exact Hk|]. rewrite st_records_length. lia.
Qed.

(* ---- conversions: error cells ---- *)
Lemma convert_error_cell : forall k p e, convert X k p (DError e) = DErr (ECellError e p).
Proof.
  induction k; intros p e; cbn [convert visit_any dres_map]; try reflexivity.
  - rewrite IHk. reflexivity.
  - apply IHk.
Qed.

Lemma visit_any_cell_error : forall p d e q,
  visit_any p d = DErr (ECellError e q) -> d = DError e /\ q = p.
Proof. intros p d e q H. destruct d; cbn in H; try discriminate. inversion H. auto. Qed.

Lemma visit_any_err : forall p d e', visit_any p d = DErr e' -> exists e, d = DError e /\ e' = ECellError e p.
Proof. intros p d e' H. destruct d; cbn in H; try discriminate. inversion H. eauto. Qed.

Lemma dres_map_err : forall (A B : Type) (f : A -> B) r e, dres_map f r = DErr e -> r = DErr e.
Proof. intros A B f [a|e'] e H; cbn in H; [discriminate|inversion H; reflexivity]. Qed.

(* a CellError can only come from an error cell, and carries exactly that cell's kind and the
   position handed to the cell deserializer *)
Lemma convert_cell_error_inv : forall k p d e q,
  convert X k p d = DErr (ECellError e q) -> d = DError e /\ q = p.
Proof.
  induction k; intros p d e q H;
    try (destruct d; cbn in H;
         repeat match type of H with
                | context [match ?x with _ => _ end] => destruct x
                end; try discriminate; inversion H; auto; fail);
    try (cbn [convert] in H; apply dres_map_err in H; apply visit_any_cell_error in H; exact H).
  (* option *)
  destruct d; cbn [convert] in H; try discriminate;
    apply dres_map_err in H; apply IHk in H; exact H.
Qed.

Lemma convert_pos_ok : forall k p p' d v, convert X k p d = DOk v -> convert X k p' d = DOk v.
Proof.
  induction k; intros p p' d v H;
    try (destruct d; cbn in H |- *; try discriminate; exact H);
    try (cbn [convert] in H |- *; destruct d; cbn in H |- *; try discriminate; exact H).
  - destruct d; cbn [convert] in H |- *; try exact H;
      match type of H with dres_map _ ?c = _ => destruct c eqn:E end; cbn in H; try discriminate;
      erewrite IHk by eassumption; exact H.
  - apply IHk with (p := p). exact H.
Qed.

Lemma convert_pos_err : forall k p p' d e, convert X k p d = DErr e ->
  exists e', convert X k p' d = DErr e'.
Proof.
  intros k p p' d e H. destruct (convert X k p' d) as [v|e'] eqn:E; [|eauto].
  rewrite (convert_pos_ok k p' p d E) in H. discriminate.
Qed.

(* ---- where a CellError can come from, row level ---- *)
Lemma dsequence_err : forall (A : Type) (l : list (dres A)) e, dsequence l = DErr e -> In (DErr e) l.
Proof.
  induction l as [|x l IH]; intros e H; cbn in H; [discriminate|].
  destruct x as [a|e']; cbn in H; [|inversion H; left; reflexivity].
  right. apply IH. destruct (dsequence l); cbn in H; [discriminate|inversion H; reflexivity].
Qed.

Lemma spec_cell_error_inv : forall k p row i e q,
  spec_cell X k p row i = DErr (ECellError e q) -> q = abs_pos p i /\ cell_at row i = DError e.
Proof. intros k p row i e q H. apply convert_cell_error_inv in H. tauto. Qed.

Lemma spec_tuple_cell_error : forall ks cols p row e q,
  spec_tuple X ks cols p row = DErr (ECellError e q) ->
  exists i, In i cols /\ q = abs_pos p i /\ cell_at row i = DError e.
Proof.
  induction ks as [|k ks IH]; intros cols p row e q H; cbn in H; [discriminate|].
  destruct cols as [|i cols]; [discriminate|].
  destruct (spec_cell X k p row i) as [v|e'] eqn:Ec; cbn in H.
  - apply dres_map_err in H. destruct (IH _ _ _ _ _ H) as [i' [Hin Hq]]. exists i'. split; [right; exact Hin|exact Hq].
  - inversion H; subst. exists i. split; [left; reflexivity|]. eapply spec_cell_error_inv. eassumption.
Qed.

Lemma spec_vec_cell_error : forall k cols p row e q,
  spec_vec X k cols p row = DErr (ECellError e q) ->
  exists i, In i cols /\ q = abs_pos p i /\ cell_at row i = DError e.
Proof.
  intros k cols p row e q H. unfold spec_vec in H. apply dsequence_err in H.
  apply in_map_iff in H. destruct H as [i [Hc Hin]]. exists i. split; [exact Hin|].
  eapply spec_cell_error_inv. eassumption.
Qed.

Lemma spec_struct_seq_cell_error : forall fs cols p row e q,
  spec_struct_seq X fs cols p row = DErr (ECellError e q) ->
  exists i, In i cols /\ q = abs_pos p i /\ cell_at row i = DError e.
Proof.
  induction fs as [|f fs IH]; intros cols p row e q H; cbn in H; [discriminate|].
  destruct cols as [|i cols].
  - destruct (f_default f); [|discriminate]. apply dres_map_err in H.
    destruct (IH _ _ _ _ _ H) as [i' [[] _]].
  - destruct (spec_cell X (f_kind f) p row i) as [v|e'] eqn:Ec; cbn in H.
    + apply dres_map_err in H. destruct (IH _ _ _ _ _ H) as [i' [Hin Hq]]. exists i'. split; [right; exact Hin|exact Hq].
    + inversion H; subst. exists i. split; [left; reflexivity|]. eapply spec_cell_error_inv. eassumption.
Qed.

Lemma bound_cells_in : forall cols hs row b, In b (bound_cells cols hs row) ->
  In (bc_col b) cols /\ bc_data b = cell_at row (bc_col b) /\ bc_hdr b = nth (bc_col b) hs [] /\
  is_empty_cell (bc_data b) = false.
Proof.
  intros cols hs row b H. unfold bound_cells in H. apply filter_In in H. destruct H as [H Hne].
  apply in_map_iff in H. destruct H as [i [Hb Hin]]. subst b. cbn in *.
  repeat split; auto. destruct (is_empty_cell (cell_at row i)); [discriminate|reflexivity].
Qed.

Lemma struct_first_error_cell : forall fs p bcs seen e q,
  struct_first_error X fs p seen bcs = Some (ECellError e q) ->
  exists b, In b bcs /\ q = abs_pos p (bc_col b) /\ bc_data b = DError e.
Proof.
  induction bcs as [|b rest IH]; intros seen e q H; cbn [struct_first_error] in H; [discriminate|].
  destruct (field_index (bc_hdr b) fs) as [j|].
  - destruct (existsb (Nat.eqb j) seen); [discriminate|].
    destruct (convert X (field_kind fs j) (abs_pos p (bc_col b)) (bc_data b)) as [v|e'] eqn:Ec.
    + destruct (IH _ _ _ H) as [b' [Hin Hq]]. exists b'. split; [right; exact Hin|exact Hq].
    + inversion H; subst. apply convert_cell_error_inv in Ec. exists b. split; [left; reflexivity|tauto].
  - destruct (convert X KIgnored (abs_pos p (bc_col b)) (bc_data b)) as [v|e'] eqn:Ec.
    + destruct (IH _ _ _ H) as [b' [Hin Hq]]. exists b'. split; [right; exact Hin|exact Hq].
    + inversion H; subst. apply convert_cell_error_inv in Ec. exists b. split; [left; reflexivity|tauto].
Qed.

Lemma mapi_from_in : forall (A B : Type) (f : nat -> A -> B) l n y,
  In y (mapi_from n f l) -> exists i x, nth_error l i = Some x /\ y = f (n + i)%nat x.
Proof.
  induction l as [|x l IH]; intros n y H; cbn in H; [contradiction|]. destruct H as [H|H].
  - exists O, x. split; [reflexivity|]. replace (n + 0)%nat with n by lia. auto.
  - destruct (IH _ _ H) as [i [x' [Hn Hy]]]. exists (S i), x'. split; [exact Hn|].
    replace (n + S i)%nat with (S n + i)%nat by lia. exact Hy.
Qed.

Lemma missing_not_cell_error : forall f e q, missing f <> DErr (ECellError e q).
Proof.
  intros f e q. unfold missing. destruct (f_default f); [discriminate|].
  destruct (f_kind f); discriminate.
Qed.

Lemma spec_struct_map_cell_error : forall fs p bcs e q,
  spec_struct_map X fs p bcs = DErr (ECellError e q) ->
  exists b, In b bcs /\ q = abs_pos p (bc_col b) /\ bc_data b = DError e.
Proof.
  intros fs p bcs e q H. unfold spec_struct_map in H.
  destruct (struct_first_error X fs p [] bcs) as [e'|] eqn:Ef.
  - inversion H; subst. eapply struct_first_error_cell. eassumption.
  - apply dsequence_err in H. apply mapi_from_in in H. destruct H as [j [f [Hf Hv]]].
    unfold field_value in Hv. symmetry in Hv.
    destruct (find _ bcs) as [b|] eqn:Efind.
    + apply find_some in Efind. destruct Efind as [Hin _].
      apply convert_cell_error_inv in Hv. exists b. split; [exact Hin|tauto].
    + exfalso. eapply missing_not_cell_error. eassumption.
Qed.

Lemma spec_hashmap_cell_error : forall k p bcs e q,
  spec_hashmap X k p bcs = DErr (ECellError e q) ->
  exists b, In b bcs /\ q = abs_pos p (bc_col b) /\ bc_data b = DError e.
Proof.
  intros k p bcs e q H. unfold spec_hashmap in H. apply dsequence_err in H.
  apply in_map_iff in H. destruct H as [b [Hc Hin]]. apply dres_map_err in Hc.
  apply convert_cell_error_inv in Hc. exists b. split; [exact Hin|tauto].
Qed.

(* a record fails with CellError only because one of the selected cells of ITS row is an error
   cell; the error carries that cell's kind and that cell's absolute position *)
Lemma row_cell_error_sound : forall sh cols hdrs p row e q,
  row_to_record X sh cols hdrs p row = DErr (ECellError e q) ->
  exists i, In i cols /\ q = abs_pos p i /\ cell_at row i = DError e.
Proof.
  intros sh cols hdrs p row e q H. unfold row_to_record in H. destruct sh as [ks|k|fs|k|].
  - apply dres_map_err in H. eapply spec_tuple_cell_error. eassumption.
  - apply dres_map_err in H. eapply spec_vec_cell_error. eassumption.
  - destruct hdrs as [hs|]; apply dres_map_err in H.
    + apply spec_struct_map_cell_error in H. destruct H as [b [Hin [Hq Hd]]].
      apply bound_cells_in in Hin. destruct Hin as (Hc & Hdata & _). exists (bc_col b).
      split; [exact Hc|]. split; [exact Hq|]. rewrite <- Hdata. exact Hd.
    + eapply spec_struct_seq_cell_error. eassumption.
  - destruct hdrs as [hs|]; [|discriminate]. apply dres_map_err in H.
    apply spec_hashmap_cell_error in H. destruct H as [b [Hin [Hq Hd]]].
    apply bound_cells_in in Hin. destruct Hin as (Hc & Hdata & _). exists (bc_col b).
    split; [exact Hc|]. split; [exact Hq|]. rewrite <- Hdata. exact Hd.
  - discriminate.
Qed.

(* completeness for the shapes that visit every selected cell: an error cell in a selected
   column fails the record; when it is the first cell that does not convert, the error is its
   CellError *)
Lemma spec_vec_first_error : forall k c1 i c2 p row e,
  (forall i', In i' c1 -> exists v, spec_cell X k p row i' = DOk v) ->
  cell_at row i = DError e ->
  spec_vec X k (c1 ++ i :: c2) p row = DErr (ECellError e (abs_pos p i)).
Proof.
  intros k c1 i c2 p row e. unfold spec_vec. induction c1 as [|i0 c1 IH]; intros Hok He.
  - cbn. unfold spec_cell. rewrite He, convert_error_cell. reflexivity.
  - cbn [app map dsequence]. destruct (Hok i0 (or_introl eq_refl)) as [v Hv]. rewrite Hv. cbn [dbind].
    rewrite IH; [reflexivity| |exact He]. intros i' Hin. apply Hok. right. exact Hin.
Qed.

Lemma spec_vec_error_cell_fails : forall k cols p row i e,
  In i cols -> cell_at row i = DError e -> exists e', spec_vec X k cols p row = DErr e'.
Proof.
  intros k cols p row i e Hin He. unfold spec_vec. induction cols as [|i0 cols IH]; [contradiction|].
  cbn [map dsequence]. destruct (spec_cell X k p row i0) as [v|e'] eqn:Ec; cbn [dbind]; [|eauto].
  destruct Hin as [->|Hin].
  - unfold spec_cell in Ec. rewrite He, convert_error_cell in Ec. discriminate.
  - destruct (IH Hin) as [e' He']. rewrite He'. cbn. eauto.
Qed.

Lemma bound_cells_error_in : forall cols hs row i e, In i cols -> cell_at row i = DError e ->
  In (i, nth i hs [], DError e) (bound_cells cols hs row).
Proof.
  intros cols hs row i e Hin He. unfold bound_cells. apply filter_In. split.
  - apply in_map_iff. exists i. rewrite He. auto.
  - reflexivity.
Qed.

Lemma spec_hashmap_error_cell_fails : forall k p bcs b e,
  In b bcs -> bc_data b = DError e -> exists e', spec_hashmap X k p bcs = DErr e'.
Proof.
  intros k p bcs b e Hin He. unfold spec_hashmap. induction bcs as [|b0 bcs IH]; [contradiction|].
  cbn [map dsequence].
  destruct (convert X k (abs_pos p (bc_col b0)) (bc_data b0)) as [v|e'] eqn:Ec; cbn [dres_map dbind]; [|eauto].
  destruct Hin as [->|Hin].
  - rewrite He, convert_error_cell in Ec. discriminate.
  - destruct (IH Hin) as [e' He']. rewrite He'. cbn. eauto.
Qed.

Lemma struct_first_error_cell_fails : forall fs p bcs seen b e,
  In b bcs -> bc_data b = DError e -> exists e', struct_first_error X fs p seen bcs = Some e'.
Proof.
  induction bcs as [|b0 bcs IH]; intros seen b e Hin He; [contradiction|]. cbn [struct_first_error].
  destruct (field_index (bc_hdr b0) fs) as [j|].
  - destruct (existsb (Nat.eqb j) seen); [eauto|].
    destruct (convert X (field_kind fs j) (abs_pos p (bc_col b0)) (bc_data b0)) as [v|e'] eqn:Ec; [|eauto].
    destruct Hin as [->|Hin]; [rewrite He, convert_error_cell in Ec; discriminate|].
    eapply IH; eassumption.
  - destruct (convert X KIgnored (abs_pos p (bc_col b0)) (bc_data b0)) as [v|e'] eqn:Ec; [|eauto].
    destruct Hin as [->|Hin]; [rewrite He, convert_error_cell in Ec; discriminate|].
    eapply IH; eassumption.
Qed.

(* Vec<_>, HashMap<_,_> and structs bound by header look at every selected non-empty cell *)
Lemma row_error_cell_fails : forall sh cols hdrs p row i e,
  In i cols -> cell_at row i = DError e -> visits_all sh hdrs ->
  exists e', row_to_record X sh cols hdrs p row = DErr e'.
Proof.
  intros sh cols hdrs p row i e Hin He Hsh. unfold row_to_record. unfold visits_all in Hsh.
  destruct sh as [ks|k|fs|k|]; try contradiction.
  - destruct (spec_vec_error_cell_fails k cols p row i Hin He) as [e' H]. rewrite H. cbn. eauto.
  - destruct hdrs as [hs|]; [|congruence].
    pose proof (bound_cells_error_in cols hs row i Hin He) as Hb. unfold spec_struct_map.
    destruct (struct_first_error_cell_fails fs p _ [] _ Hb eq_refl) as [e' H]. rewrite H. cbn. eauto.
  - destruct hdrs as [hs|]; [|eauto].
    pose proof (bound_cells_error_in cols hs row i Hin He) as Hb.
    destruct (spec_hashmap_error_cell_fails k p _ _ Hb eq_refl) as [e' H]. rewrite H. cbn. eauto.
  - eauto.
Qed.

(* ---- from rows to absolute positions of the range ---- *)
Lemma rows_get_value : forall (r : range data) i row j, range_ok r ->
  nth_error (rows r) i = Some row -> (j < length row)%nat ->
  get_value r (fst (r_start r) + N.of_nat i, snd (r_start r) + N.of_nat j) = Some (cell_at row j).
Proof.
  intros r i row j Hok Hrow Hj. pose proof Hok as [Hwf _].
  destruct (accessors_agree DEmpty (fun _ _ => true) Hwf)
    as (Hlen & Hall & Hget & _ & _ & _ & Hgv & _).
  assert (Hi : (i < length (rows r))%nat) by (apply nth_error_Some; congruence).
  assert (Hne : is_empty r = false).
  { destruct (is_empty r) eqn:E; [|reflexivity]. unfold rows in Hi. rewrite E in Hi. cbn in Hi. lia. }
  destruct (Wf_ne Hwf Hne) as (H1 & H2 & Hh & Hw & _).
  assert (Hrl : length row = N.to_nat (width r)).
  { rewrite Forall_forall in Hall. apply Hall. eapply nth_error_In. eassumption. }
  rewrite Hgv. unfold in_rect, rect. rewrite Hne. unfold in_box. cbn [fst snd].
  replace ((fst (r_start r) <=? fst (r_start r) + N.of_nat i) &&
           (fst (r_start r) + N.of_nat i <=? fst (r_end r)) &&
           (snd (r_start r) <=? snd (r_start r) + N.of_nat j) &&
           (snd (r_start r) + N.of_nat j <=? snd (r_end r))) with true by lia.
  replace (fst (r_start r) + N.of_nat i - fst (r_start r)) with (N.of_nat i) by lia.
  replace (snd (r_start r) + N.of_nat j - snd (r_start r)) with (N.of_nat j) by lia.
  destruct (Hget (N.of_nat i) (N.of_nat j) ltac:(lia) ltac:(lia)) as [Hg _].
  rewrite <- Hg. rewrite !Nat2N.id, Hrow. unfold cell_at. apply nth_error_nth'. exact Hj.
Qed.

Lemma rows_row_length : forall (r : range data) row, range_ok r -> In row (rows r) ->
  length row = N.to_nat (width r).
Proof.
  intros r row [Hwf _] Hin.
  destruct (accessors_agree DEmpty (fun _ _ => true) Hwf) as (_ & Hall & _).
  rewrite Forall_forall in Hall. apply Hall. exact Hin.
Qed.

(* the selected columns of a plan address cells of every row *)
Lemma plan_cols_lt : forall cfg r pl, range_ok r -> spec_plan X cfg r = DOk pl ->
  Forall (fun i => (i < N.to_nat (width r))%nat) (pl_cols pl).
Proof.
  intros cfg r pl Hok H. unfold spec_plan in H. destruct cfg as [| |sel].
  - inversion H. cbn. apply seq_lt.
  - destruct (rows r) as [|hd rs] eqn:Er; [inversion H; constructor|].
    destruct (header_strings X _ hd); cbn in H; inversion H. cbn.
    rewrite (@rows_row_length r hd Hok) by (rewrite Er; left; reflexivity). apply seq_lt.
  - destruct (rows r) as [|hd rs] eqn:Er; [inversion H; constructor|].
    destruct (header_strings X _ hd) as [hs|] eqn:Eh; cbn in H; [|discriminate].
    destruct (select_columns sel hs) as [cols|] eqn:Es; cbn in H; inversion H. cbn.
    rewrite <- (@rows_row_length r hd Hok) by (rewrite Er; left; reflexivity).
    rewrite <- (@header_strings_length X _ _ _ Eh). eapply select_columns_lt. eassumption.
Qed.

Lemma plan_pos : forall cfg r pl, spec_plan X cfg r = DOk pl -> pl_rows pl <> [] ->
  pl_pos pl = (fst (r_start r) + (match cfg with HNone => 0 | _ => 1 end), snd (r_start r)) /\
  is_empty r = false.
Proof.
  intros cfg r pl H Hne.
  assert (He : is_empty r = false).
  { destruct (is_empty r) eqn:E; [|reflexivity]. exfalso. apply Hne.
    rewrite (spec_plan_rows cfg r H). unfold data_rows, rows. rewrite E. destruct cfg; reflexivity. }
  split; [|exact He]. unfold spec_plan, start in H. rewrite He in H. destruct cfg as [| |sel].
  - inversion H. cbn. rewrite N.add_0_r. apply surjective_pairing.
  - destruct (rows r) as [|hd rs]; [inversion H; subst; cbn in Hne; contradiction|].
    destruct (header_strings X _ hd); cbn in H; inversion H. reflexivity.
  - destruct (rows r) as [|hd rs]; [inversion H; subst; cbn in Hne; contradiction|].
    destruct (header_strings X _ hd); cbn in H; [|discriminate].
    destruct (select_columns sel a); cbn in H; inversion H. reflexivity.
Qed.

Definition hdr_off (cfg : hcfg) : nat := match cfg with HNone => O | _ => S O end.

Lemma data_rows_nth : forall cfg r i, nth_error (data_rows cfg r) i = nth_error (rows r) (hdr_off cfg + i).
Proof.
  intros cfg r i. unfold data_rows, hdr_off. destruct cfg; cbn [Nat.add]; try reflexivity;
    destruct (rows r); destruct i; reflexivity.
Qed.

(* C09, last sentence.  An item that is a CellError names an error cell of the range: the cell at
   exactly the reported absolute position holds exactly the reported error kind, and that position
   lies in the item's own row (the i-th row after the optional header row). *)
Theorem cell_error_position : forall cfg sh r t, range_ok r ->
  de_run X cfg sh r = Ok (DOk t) ->
  forall i e q, nth_error (trace_items t) i = Some (DErr (ECellError e q)) ->
    fst q = fst (r_start r) + N.of_nat (hdr_off cfg + i) /\
    get_value r q = Some (DError e).
Proof.
  intros cfg sh r t Hok Hrun i e q Hi.
  pose proof (items_are_rows cfg sh Hok) as Hit.
  destruct (spec_plan X cfg r) as [pl|e0] eqn:Ep; [|rewrite Hrun in Hit; discriminate].
  destruct Hit as [t' (Hrun' & Hrows & _ & Hnth)]. rewrite Hrun in Hrun'. inversion Hrun'; subst t'.
  rewrite Hnth in Hi. destruct (nth_error (data_rows cfg r) i) as [row|] eqn:Erow; [|discriminate].
  cbn [option_map] in Hi. inversion Hi as [Hrec]. apply row_cell_error_sound in Hrec.
  destruct Hrec as [j (Hin & Hq & Hcell)].
  assert (Hne : pl_rows pl <> []).
  { rewrite Hrows. intros E. rewrite E in Erow. destruct i; discriminate. }
  destruct (plan_pos cfg r Ep Hne) as [Hpos _].
  rewrite data_rows_nth in Erow.
  pose proof (plan_cols_lt cfg Hok Ep) as Hcols. rewrite Forall_forall in Hcols.
  assert (Hj : (j < length row)%nat).
  { rewrite (@rows_row_length r row Hok) by (eapply nth_error_In; eassumption). apply Hcols. exact Hin. }
  pose proof (@rows_get_value r _ _ _ Hok Erow Hj) as Hgv.
  subst q. unfold abs_pos. cbn [fst snd]. rewrite Hpos. cbn [fst snd]. split.
  - unfold hdr_off. destruct cfg; lia.
  - rewrite <- Hcell. rewrite <- Hgv. f_equal. f_equal. unfold hdr_off. destruct cfg; lia.
Qed.

(* the same for the header row: construction fails with the CellError of a header cell *)
Theorem header_row_error_position : forall cfg sh r e q, range_ok r ->
  de_run X cfg sh r = Ok (DErr (ECellError e q)) ->
  fst q = fst (r_start r) /\ get_value r q = Some (DError e).
Proof.
  intros cfg sh r e q Hok Hrun. rewrite (de_run_spec X cfg sh Hok) in Hrun.
  unfold spec_run, spec_records in Hrun. inversion Hrun as [H]. clear Hrun.
  do 2 apply dres_map_err in H. unfold spec_plan in H.
  assert (Hhdr : forall hd rs, rows r = hd :: rs -> start r = Some (r_start r) ->
                 header_strings X (r_start r) hd = DErr (ECellError e q) ->
                 fst q = fst (r_start r) /\ get_value r q = Some (DError e)).
  { intros hd rs Er Hs Hh. unfold header_strings in Hh. apply dsequence_err in Hh.
    apply in_map_iff in Hh. destruct Hh as [j [Hc Hin]]. apply dres_map_err in Hc.
    apply spec_cell_error_inv in Hc. destruct Hc as [Hq Hcell]. apply in_seq in Hin.
    assert (Hrow : nth_error (rows r) 0 = Some hd) by (rewrite Er; reflexivity).
    assert (Hjl : (j < length hd)%nat) by lia.
    pose proof (@rows_get_value r _ _ _ Hok Hrow Hjl) as Hgv.
    subst q. unfold abs_pos. cbn [fst snd]. split; [reflexivity|].
    rewrite <- Hcell, <- Hgv. f_equal. f_equal. lia. }
  assert (Hst : forall hd rs, rows r = hd :: rs -> start r = Some (r_start r)).
  { intros hd rs Er. unfold start. destruct (is_empty r) eqn:E; [|reflexivity].
    unfold rows in Er. rewrite E in Er. discriminate. }
  destruct cfg as [| |sel]; [discriminate| |].
  - destruct (rows r) as [|hd rs] eqn:Er; [discriminate|]. rewrite (Hst hd rs eq_refl) in H.
    destruct (header_strings X (r_start r) hd) as [hs|e'] eqn:Eh; cbn in H; [discriminate|].
    inversion H; subst. eapply Hhdr; eauto.
  - destruct (rows r) as [|hd rs] eqn:Er; [discriminate|]. rewrite (Hst hd rs eq_refl) in H.
    destruct (header_strings X (r_start r) hd) as [hs|e'] eqn:Eh; cbn in H.
    + destruct (select_columns sel hs) as [cols|e'] eqn:Es; cbn in H; [discriminate|].
      inversion H; subst. unfold select_columns in Es. apply dsequence_err in Es.
      apply in_map_iff in Es. destruct Es as [h [Hc _]].
      destruct (position (trim h) hs); discriminate.
    + inversion H; subst. eapply Hhdr; eauto.
Qed.

(* ---- positional records ---- *)
Lemma spec_tuple_nth : forall ks cols p row vs, spec_tuple X ks cols p row = DOk vs ->
  length vs = length ks /\
  forall j k, nth_error ks j = Some k ->
    exists c v, nth_error cols j = Some c /\ nth_error vs j = Some v /\ spec_cell X k p row c = DOk v.
Proof.
  induction ks as [|k0 ks IH]; intros cols p row vs H; cbn in H.
  - inversion H. split; [reflexivity|]. intros j k Hj. destruct j; discriminate.
  - destruct cols as [|c0 cols]; [discriminate|].
    destruct (spec_cell X k0 p row c0) as [v0|e] eqn:Ec; cbn in H; [|discriminate].
    destruct (spec_tuple X ks cols p row) as [vs'|e] eqn:Er; cbn in H; [|discriminate].
    inversion H; subst. destruct (IH _ _ _ _ Er) as [Hl Hn]. split; [cbn; f_equal; exact Hl|].
    intros j k Hj. destruct j as [|j].
    + inversion Hj; subst. exists c0, v0. auto.
    + apply Hn. exact Hj.
Qed.

Lemma spec_vec_nth : forall k cols p row vs, spec_vec X k cols p row = DOk vs ->
  length vs = length cols /\
  forall j c, nth_error cols j = Some c ->
    exists v, nth_error vs j = Some v /\ spec_cell X k p row c = DOk v.
Proof.
  intros k cols p row vs H. unfold spec_vec in H. split.
  - rewrite (dsequence_length _ H). apply map_length.
  - intros j c Hj. pose proof (dsequence_nth _ j H) as Hn.
    rewrite nth_error_map, Hj in Hn. cbn in Hn.
    destruct (nth_error vs j) as [v|]; [|discriminate]. inversion Hn. eauto.
Qed.

Lemma nth_error_seq : forall n s j,
  nth_error (seq s n) j = if (j <? n)%nat then Some (s + j)%nat else None.
Proof.
  induction n as [|n IH]; intros s j; cbn [seq].
  - destruct j; reflexivity.
  - destruct j as [|j]; cbn [nth_error].
    + replace (s + 0)%nat with s by lia. reflexivity.
    + rewrite IH. replace (S s + j)%nat with (s + S j)%nat by lia.
      destruct (Nat.ltb_spec j n), (Nat.ltb_spec (S j) (S n)); try lia; reflexivity.
Qed.

(* C09: without headers a record is the row's cells by position.  Item i is the record of row i
   over the columns 0..width, read at the absolute position of each cell; for tuples and Vec the
   j-th component is the conversion of the cell (start.row + i, start.col + j). *)
Theorem positional_record : forall sh r t, range_ok r -> de_run X HNone sh r = Ok (DOk t) ->
  forall i row, nth_error (rows r) i = Some row ->
    let p := (fst (r_start r) + N.of_nat i, snd (r_start r)) in
    let rec := row_to_record X sh (seq 0 (N.to_nat (width r))) None p row in
    nth_error (trace_items t) i = Some rec /\
    (forall ks vs, sh = STuple ks -> rec = DOk (RSeq vs) ->
       length vs = length ks /\
       forall j k, nth_error ks j = Some k ->
         exists c v, get_value r (fst p, snd p + N.of_nat j) = Some c /\
                     nth_error vs j = Some v /\ convert X k (fst p, snd p + N.of_nat j) c = DOk v) /\
    (forall k vs, sh = SVec k -> rec = DOk (RSeq vs) ->
       length vs = N.to_nat (width r) /\
       forall j, (j < N.to_nat (width r))%nat ->
         exists c v, get_value r (fst p, snd p + N.of_nat j) = Some c /\
                     nth_error vs j = Some v /\ convert X k (fst p, snd p + N.of_nat j) c = DOk v).
Proof.
  intros sh r t Hok Hrun i row Hrow p rec.
  pose proof (items_are_rows HNone sh Hok) as Hit.
  cbn [spec_plan] in Hit. destruct Hit as [t' (Hrun' & _ & _ & Hnth)].
  rewrite Hrun in Hrun'. inversion Hrun'; subst t'.
  assert (Hne : is_empty r = false).
  { destruct (is_empty r) eqn:E; [|reflexivity]. unfold rows in Hrow. rewrite E in Hrow.
    destruct i; discriminate. }
  assert (Hst : start r = Some (r_start r)) by (unfold start; rewrite Hne; reflexivity).
  assert (Hrl : length row = N.to_nat (width r))
    by (apply (@rows_row_length r row Hok); eapply nth_error_In; eassumption).
  split; [|split].
  - rewrite Hnth. cbn [data_rows pl_cols pl_headers pl_pos]. rewrite Hrow, Hst. reflexivity.
  - intros ks vs -> Hrec. subst rec. cbn [row_to_record] in Hrec.
    destruct (spec_tuple X ks (seq 0 (N.to_nat (width r))) p row) as [vs'|] eqn:Es; [|discriminate].
    inversion Hrec; subst vs'. destruct (spec_tuple_nth _ _ _ _ Es) as [Hl Hn]. split; [exact Hl|].
    intros j k Hj. destruct (Hn j k Hj) as [c [v (Hc & Hv & Hcv)]].
    rewrite nth_error_seq in Hc. destruct (Nat.ltb_spec j (N.to_nat (width r))); [|discriminate].
    inversion Hc; subst c. cbn [Nat.add] in *.
    exists (cell_at row j), v. split; [|split; [exact Hv|exact Hcv]].
    subst p. cbn [fst snd]. apply rows_get_value; [exact Hok|exact Hrow|lia].
  - intros k vs -> Hrec. subst rec. cbn [row_to_record] in Hrec.
    destruct (spec_vec X k (seq 0 (N.to_nat (width r))) p row) as [vs'|] eqn:Es; [|discriminate].
    inversion Hrec; subst vs'. destruct (spec_vec_nth _ _ _ _ Es) as [Hl Hn].
    rewrite seq_length in Hl. split; [exact Hl|].
    intros j Hj. destruct (Hn j j) as [v (Hv & Hcv)].
    { rewrite nth_error_seq. destruct (Nat.ltb_spec j (N.to_nat (width r))); [reflexivity|lia]. }
    exists (cell_at row j), v. split; [|split; [exact Hv|exact Hcv]].
    subst p. cbn [fst snd]. apply rows_get_value; [exact Hok|exact Hrow|lia].
Qed.

(* ---- selecting headers ---- *)
Lemma str_eqb_eq : forall a b, str_eqb a b = true <-> a = b.
Proof.
  induction a as [|x a IH]; intros [|y b]; cbn; split; intros H; try discriminate; try reflexivity.
  - apply andb_true_iff in H. destruct H as [H1 H2]. apply N.eqb_eq in H1. apply IH in H2. congruence.
  - inversion H; subst. rewrite N.eqb_refl. cbn. apply IH. reflexivity.
Qed.

(* i is the first column whose header, trimmed, equals the (trimmed) requested name *)
Definition first_match (all : list str) (h : str) (i : nat) : Prop :=
  (exists x, nth_error all i = Some x /\ trim x = trim h) /\
  forall i' x', (i' < i)%nat -> nth_error all i' = Some x' -> trim x' <> trim h.
Definition no_match (all : list str) (h : str) : Prop :=
  forall x, In x all -> trim x <> trim h.

Lemma position_some : forall h all i, position (trim h) all = Some i <-> first_match all h i.
Proof.
  intros h. induction all as [|x all IH]; intros i; cbn [position].
  - split; [discriminate|]. intros [[x [Hx _]] _]. destruct i; discriminate.
  - destruct (str_eqb (trim x) (trim h)) eqn:E.
    + apply str_eqb_eq in E. split.
      * intros H. inversion H; subst. split; [exists x; auto|]. intros i' x' Hlt. lia.
      * intros [[x0 [Hx0 Ht]] Hmin]. destruct i as [|i]; [reflexivity|].
        exfalso. apply (Hmin O x); [lia|reflexivity|exact E].
    + assert (Hne : trim x <> trim h).
      { intros Heq. apply str_eqb_eq in Heq. congruence. }
      split.
      * destruct (position (trim h) all) as [j|] eqn:Ep; [|discriminate]. intros H. inversion H; subst.
        destruct (proj1 (IH j) eq_refl) as [[x0 [Hx0 Ht]] Hmin]. split; [exists x0; auto|].
        intros i' x' Hlt Hn. destruct i' as [|i']; [inversion Hn; subst; exact Hne|].
        apply (Hmin i' x'); [lia|exact Hn].
      * intros [[x0 [Hx0 Ht]] Hmin]. destruct i as [|i].
        -- inversion Hx0; subst. contradiction.
        -- assert (Hfm : first_match all h i).
           { split; [exists x0; auto|]. intros i' x' Hlt Hn. apply (Hmin (S i') x'); [lia|exact Hn]. }
           apply IH in Hfm. rewrite Hfm. reflexivity.
Qed.

Lemma position_none : forall h all, position (trim h) all = None <-> no_match all h.
Proof.
  intros h. induction all as [|x all IH]; cbn [position].
  - split; [intros _ x []|reflexivity].
  - destruct (str_eqb (trim x) (trim h)) eqn:E.
    + apply str_eqb_eq in E. split; [discriminate|]. intros H. exfalso. apply (H x); [left; reflexivity|exact E].
    + assert (Hne : trim x <> trim h) by (intros Heq; apply str_eqb_eq in Heq; congruence).
      destruct (position (trim h) all) as [j|] eqn:Ep.
      * split; [discriminate|]. intros H. assert (Hn : no_match all h) by (intros y Hy; apply H; right; exact Hy).
        apply IH in Hn. discriminate.
      * split; [|reflexivity]. intros _ y [<-|Hy]; [exact Hne|]. apply (proj1 IH eq_refl). exact Hy.
Qed.

Lemma select_columns_ok : forall sel all cols,
  select_columns sel all = DOk cols <-> Forall2 (first_match all) sel cols.
Proof.
  induction sel as [|h sel IH]; intros all cols; unfold select_columns; cbn [map dsequence].
  - split; [intros H; inversion H; constructor|intros H; inversion H; reflexivity].
  - fold (select_columns sel all). destruct (position (trim h) all) as [i|] eqn:Ep; cbn [dbind].
    + destruct (select_columns sel all) as [cs|e] eqn:Es; cbn [dres_map]; split; intros H.
      * inversion H; subst. constructor; [apply position_some; exact Ep|apply IH; exact Es].
      * inversion H as [|? i' ? cs' Hfm Hrest]; subst. apply position_some in Hfm.
        apply IH in Hrest. congruence.
      * discriminate.
      * inversion H as [|? i' ? cs' Hfm Hrest]; subst. apply IH in Hrest. congruence.
    + split; [discriminate|]. intros H. inversion H as [|? i' ? cs' Hfm Hrest]; subst.
      apply position_some in Hfm. congruence.
Qed.

Lemma select_columns_err : forall sel all e,
  select_columns sel all = DErr e <->
  exists s1 h s2, sel = s1 ++ h :: s2 /\ e = EHeaderNotFound (trim h) /\ no_match all h /\
                  forall h', In h' s1 -> exists i, first_match all h' i.
Proof.
  induction sel as [|h sel IH]; intros all e; unfold select_columns; cbn [map dsequence].
  - split; [discriminate|]. intros (s1 & h & s2 & Hs & _). destruct s1; discriminate.
  - fold (select_columns sel all). destruct (position (trim h) all) as [i|] eqn:Ep; cbn [dbind].
    + split.
      * intros H. destruct (select_columns sel all) as [cs|e'] eqn:Es; cbn in H; [discriminate|].
        inversion H; subst. destruct (proj1 (IH all e) Es) as (s1 & h0 & s2 & Hs & He & Hn & Hp).
        exists (h :: s1), h0, s2. subst sel. repeat split; auto.
        intros h' [<-|Hin]; [exists i; apply position_some; exact Ep|apply Hp; exact Hin].
      * intros (s1 & h0 & s2 & Hs & He & Hn & Hp). destruct s1 as [|h1 s1]; cbn in Hs; inversion Hs; subst.
        -- apply position_none in Hn. congruence.
        -- assert (Hx : select_columns (s1 ++ h0 :: s2) all = DErr (EHeaderNotFound (trim h0))).
           { apply IH. exists s1, h0, s2. repeat split; auto. intros h' Hin. apply Hp. right. exact Hin. }
           rewrite Hx. reflexivity.
    + split.
      * intros H. inversion H; subst. exists [], h, sel. repeat split; auto.
        -- apply position_none. exact Ep.
        -- intros h' [].
      * intros (s1 & h0 & s2 & Hs & He & Hn & Hp). destruct s1 as [|h1 s1]; cbn in Hs; inversion Hs; subst.
        -- reflexivity.
        -- destruct (Hp h1 (or_introl eq_refl)) as [i Hi]. apply position_some in Hi. congruence.
Qed.

(* C09: selecting headers (matched after trimming, in any order, repetitions allowed) returns the
   corresponding columns in that order, or HeaderNotFound for the first requested name that no
   column carries; every record is then the record of its row over exactly those columns *)
Theorem selected_headers_spec : forall sel sh r hd rs hs, range_ok r ->
  rows r = hd :: rs -> header_strings X (r_start r) hd = DOk hs ->
  (forall cols, Forall2 (first_match hs) sel cols ->
     exists t, de_run X (HCustom sel) sh r = Ok (DOk t) /\
       trace_items t = mapi_from 0 (fun k row =>
          row_to_record X sh cols (Some hs) (fst (r_start r) + 1 + N.of_nat k, snd (r_start r)) row) rs) /\
  (forall s1 h s2, sel = s1 ++ h :: s2 -> no_match hs h ->
     (forall h', In h' s1 -> exists i, first_match hs h' i) ->
     de_run X (HCustom sel) sh r = Ok (DErr (EHeaderNotFound (trim h)))).
Proof.
  intros sel sh r hd rs hs Hok Er Eh.
  assert (Hst : start r = Some (r_start r)).
  { unfold start. destruct (is_empty r) eqn:E; [|reflexivity]. unfold rows in Er. rewrite E in Er. discriminate. }
  rewrite (de_run_spec X (HCustom sel) sh Hok). unfold spec_run, spec_records, spec_plan.
  rewrite Er, Hst, Eh. cbn [dbind]. split.
  - intros cols Hc. apply select_columns_ok in Hc. rewrite Hc. cbn [dbind dres_map].
    eexists. split; [reflexivity|]. rewrite trace_items_spec. reflexivity.
  - intros s1 h s2 Hs Hn Hp.
    assert (He : select_columns sel hs = DErr (EHeaderNotFound (trim h))).
    { apply select_columns_err. exists s1, h, s2. auto. }
    rewrite He. reflexivity.
Qed.

End Facets.

(* ---------------------------------------------------------------------------------------- *)
(* Binding by header name does not depend on the order of the columns                       *)
(* ---------------------------------------------------------------------------------------- *)
Definition erase (b : bcell) : str * data := (bc_hdr b, bc_data b).

(* two records are the same record: equal structs, equal maps (as finite maps), or both errors *)
Definition rec_equiv (a b : dres record) : Prop :=
  match a, b with
  | DOk (RMap x), DOk (RMap y) => forall k, hm_get k x = hm_get k y
  | DOk x, DOk y => x = y
  | DErr _, DErr _ => True
  | _, _ => False
  end.

Lemma find_map : forall (A B : Type) (f : A -> B) (P : B -> bool) l,
  find P (map f l) = option_map f (find (fun x => P (f x)) l).
Proof.
  induction l as [|x l IH]; [reflexivity|]. cbn. destruct (P (f x)); [reflexivity|exact IH].
Qed.

Lemma Permutation_filter' : forall (A : Type) (P : A -> bool) l l',
  Permutation l l' -> Permutation (filter P l) (filter P l').
Proof.
  intros A P l l' H. induction H as [|x l l' H IH|x y l|l l' l'' H1 IH1 H2 IH2]; cbn.
  - constructor.
  - destruct (P x); [constructor|]; exact IH.
  - destruct (P x), (P y); try apply Permutation_refl. constructor.
  - eapply Permutation_trans; eassumption.
Qed.

Section Perm.
Variable X : ext.

Section StructPerm.
Variable fs : list field.

Definition hkind (h : str) : kind :=
  match field_index h fs with Some j => field_kind fs j | None => KIgnored end.
Definition hidx (hd : str * data) : list nat :=
  match field_index (fst hd) fs with Some j => [j] | None => [] end.
Definition conv_ok (hd : str * data) : Prop :=
  exists v, convert X (hkind (fst hd)) (0, 0) (snd hd) = DOk v.
Definition bnd (j : nat) (hd : str * data) : bool :=
  match field_index (fst hd) fs with Some j' => Nat.eqb j' j | None => false end.

(* no error is met iff every bound cell converts and no field is bound twice: a condition on the
   multiset of (header, cell) pairs only *)
Lemma first_error_none_iff : forall p bcs seen,
  struct_first_error X fs p seen bcs = None <->
  Forall conv_ok (map erase bcs) /\ NoDup (flat_map hidx (map erase bcs)) /\
  (forall j, In j seen -> ~ In j (flat_map hidx (map erase bcs))).
Proof.
  intros p. induction bcs as [|b rest IH]; intros seen.
  - cbn. split; [intros _; repeat split; [constructor|constructor|intros j _ []]|reflexivity].
  - cbn [struct_first_error map flat_map]. unfold hidx at 1 3, conv_ok at 1, hkind at 1.
    cbn [erase fst snd].
    destruct (field_index (bc_hdr b) fs) as [j|] eqn:Ef.
    + destruct (existsb (Nat.eqb j) seen) eqn:Es.
      * split; [discriminate|]. intros (_ & _ & H). exfalso.
        apply existsb_eqb_In in Es. apply (H j Es). left. reflexivity.
      * assert (Hns : ~ In j seen) by (intros Hin; apply existsb_eqb_In in Hin; congruence).
        destruct (convert X (field_kind fs j) (abs_pos p (bc_col b)) (bc_data b)) as [v|e] eqn:Ec.
        -- rewrite (IH (j :: seen)). split.
           ++ intros (HF & HN & HS). split; [|split].
              ** constructor; [|exact HF]. unfold conv_ok, hkind. cbn [erase fst snd]. rewrite Ef.
                 exists v. eapply convert_pos_ok. eassumption.
              ** cbn [app]. constructor; [apply HS; left; reflexivity|exact HN].
              ** intros j' Hj' [Heq|Hin]; [subst; contradiction|].
                 apply (HS j'); [right; exact Hj'|exact Hin].
           ++ intros (HF & HN & HS). inversion HF as [|? ? _ HF']; subst.
              cbn [app] in HN, HS. inversion HN as [|? ? Hnin HN']; subst.
              split; [exact HF'|]. split; [exact HN'|].
              intros j' [<-|Hj']; [exact Hnin|]. intros Hin. apply (HS j' Hj'). right. exact Hin.
        -- split; [discriminate|]. intros (HF & _). exfalso. inversion HF as [|? ? Hc _]; subst.
           unfold conv_ok, hkind in Hc. cbn [erase fst snd] in Hc. rewrite Ef in Hc.
           destruct Hc as [v Hv]. rewrite (convert_pos_ok X _ _ (abs_pos p (bc_col b)) _ Hv) in Ec.
           discriminate.
    + destruct (convert X KIgnored (abs_pos p (bc_col b)) (bc_data b)) as [v|e] eqn:Ec.
      * rewrite (IH seen). cbn [app]. split.
        -- intros (HF & HN & HS). split; [|auto]. constructor; [|exact HF].
           unfold conv_ok, hkind. cbn [erase fst snd]. rewrite Ef. exists v.
           eapply convert_pos_ok. eassumption.
        -- intros (HF & HN & HS). inversion HF; subst. auto.
      * split; [discriminate|]. intros (HF & _). exfalso. inversion HF as [|? ? Hc _]; subst.
        unfold conv_ok, hkind in Hc. cbn [erase fst snd] in Hc. rewrite Ef in Hc.
        destruct Hc as [v Hv]. rewrite (convert_pos_ok X _ _ (abs_pos p (bc_col b)) _ Hv) in Ec.
        discriminate.
Qed.

Lemma bnd_hidx : forall j hd, bnd j hd = true -> hidx hd = [j].
Proof.
  intros j hd H. unfold bnd, hidx in *. destruct (field_index (fst hd) fs) as [j'|]; [|discriminate].
  apply Nat.eqb_eq in H. subst. reflexivity.
Qed.

Lemma NoDup_app_r : forall (A : Type) (l1 l2 : list A), NoDup (l1 ++ l2) -> NoDup l2.
Proof. induction l1 as [|x l1 IH]; intros l2 H; [exact H|]. inversion H; subst. apply IH. assumption. Qed.

(* with every field bound at most once, the cell bound to a field does not depend on the order *)
Lemma find_perm : forall el el', Permutation el el' -> NoDup (flat_map hidx el) ->
  forall j, find (bnd j) el = find (bnd j) el'.
Proof.
  intros el el' HP. induction HP as [|x l l' HP IH|x y l l' HP IH|l l' l'' HP1 IH1 HP2 IH2]
    using Permutation_ind_bis; intros Hnd j.
  - reflexivity.
  - cbn [find]. destruct (bnd j x); [reflexivity|]. apply IH. cbn [flat_map] in Hnd.
    eapply NoDup_app_r. eassumption.
  - cbn [find]. cbn [flat_map] in Hnd.
    destruct (bnd j y) eqn:Ey, (bnd j x) eqn:Ex; try reflexivity.
    + exfalso. rewrite (bnd_hidx _ _ Ey), (bnd_hidx _ _ Ex) in Hnd. cbn in Hnd.
      inversion Hnd as [|? ? Hnin _]; subst. apply Hnin. left. reflexivity.
    + apply IH. eapply NoDup_app_r. eapply NoDup_app_r. eassumption.
  - rewrite IH1 by assumption. apply IH2.
    eapply Permutation_NoDup; [|exact Hnd]. apply Permutation_flat_map. exact HP1.
Qed.

Lemma field_value_erased : forall p bcs j f, nth_error fs j = Some f ->
  struct_first_error X fs p [] bcs = None ->
  field_value X fs p bcs j f =
  match find (bnd j) (map erase bcs) with
  | Some hd => convert X (f_kind f) (0, 0) (snd hd)
  | None => missing f
  end.
Proof.
  intros p bcs j f Hf Hne. unfold field_value. rewrite find_map.
  change (fun x : bcell => bnd j (erase x)) with
    (fun b : bcell => match field_index (bc_hdr b) fs with
                      | Some j' => Nat.eqb j' j | None => false end).
  destruct (find _ bcs) as [b|] eqn:Efind; cbn [option_map]; [|reflexivity].
  change (fun b : bcell => match field_index (bc_hdr b) fs with
                           | Some j' => Nat.eqb j' j | None => false end)
    with (bound_to fs j) in Efind.
  destruct (@no_error_bound_converts X p fs bcs [] j b Hne Efind) as [v Hv].
  assert (Hk : field_kind fs j = f_kind f) by (unfold field_kind; rewrite Hf; reflexivity).
  rewrite Hk in Hv. rewrite Hv. cbn [erase snd]. symmetry. eapply convert_pos_ok. eassumption.
Qed.

Lemma clean_perm : forall el el', Permutation el el' ->
  Forall conv_ok el /\ NoDup (flat_map hidx el) -> Forall conv_ok el' /\ NoDup (flat_map hidx el').
Proof.
  intros el el' HP [HF HN]. split.
  - eapply Permutation_Forall; eassumption.
  - eapply Permutation_NoDup; [|exact HN]. apply Permutation_flat_map. exact HP.
Qed.

Theorem struct_perm_invariant : forall p p' bcs bcs',
  Permutation (map erase bcs) (map erase bcs') ->
  match spec_struct_map X fs p bcs, spec_struct_map X fs p' bcs' with
  | DOk a, DOk b => a = b
  | DErr _, DErr _ => True
  | _, _ => False
  end.
Proof.
  intros p p' bcs bcs' HP. unfold spec_struct_map.
  destruct (struct_first_error X fs p [] bcs) as [e|] eqn:E1;
    destruct (struct_first_error X fs p' [] bcs') as [e'|] eqn:E2.
  - exact I.
  - exfalso. apply first_error_none_iff in E2. destruct E2 as (HF & HN & _).
    destruct (clean_perm (Permutation_sym HP) (conj HF HN)) as [HF' HN'].
    assert (H : struct_first_error X fs p [] bcs = None).
    { apply first_error_none_iff. repeat split; auto. }
    congruence.
  - exfalso. apply first_error_none_iff in E1. destruct E1 as (HF & HN & _).
    destruct (clean_perm HP (conj HF HN)) as [HF' HN'].
    assert (H : struct_first_error X fs p' [] bcs' = None).
    { apply first_error_none_iff. repeat split; auto. }
    congruence.
  - assert (Heq : mapi_from 0 (field_value X fs p bcs) fs = mapi_from 0 (field_value X fs p' bcs') fs).
    { apply mapi_from_ext_nth. intros j f Hf. cbn [Nat.add].
      rewrite (field_value_erased p bcs j Hf E1), (field_value_erased p' bcs' j Hf E2).
      apply first_error_none_iff in E1. destruct E1 as (_ & HN & _).
      rewrite (find_perm HP HN j). reflexivity. }
    rewrite Heq. destruct (dsequence _); [reflexivity|exact I].
Qed.

End StructPerm.

(* ---- HashMap ---- *)
Lemma hm_get_in : forall l k v, NoDup (map fst l) -> (hm_get k l = Some v <-> In (k, v) l).
Proof.
  induction l as [|[k0 v0] l IH]; intros k v Hnd; cbn [hm_get].
  - split; [discriminate|intros []].
  - cbn [map fst] in Hnd. inversion Hnd as [|? ? Hnin Hnd']; subst.
    destruct (hm_get k l) as [v'|] eqn:Eg.
    + split.
      * intros H. inversion H; subst. right. apply IH; assumption.
      * intros [H|H].
        -- inversion H; subst. exfalso. apply Hnin. apply (proj1 (IH k v' Hnd')) in Eg.
           apply in_map_iff. exists (k, v'). auto.
        -- apply (IH k v Hnd') in H. congruence.
    + destruct (str_eqb k0 k) eqn:Ek.
      * apply str_eqb_eq in Ek. subst. split.
        -- intros H. inversion H; subst. left. reflexivity.
        -- intros [H|H]; [inversion H; reflexivity|].
           apply (IH k v Hnd') in H. congruence.
      * split; [discriminate|]. intros [H|H].
        -- inversion H; subst. rewrite (proj2 (str_eqb_eq k k) eq_refl) in Ek. discriminate.
        -- apply (IH k v Hnd') in H. congruence.
Qed.

Lemma hm_get_perm : forall l l', Permutation l l' -> NoDup (map fst l) ->
  forall k, hm_get k l = hm_get k l'.
Proof.
  intros l l' HP Hnd k.
  assert (Hnd' : NoDup (map fst l')) by (eapply Permutation_NoDup; [apply Permutation_map; exact HP|exact Hnd]).
  destruct (hm_get k l) as [v|] eqn:E1.
  - apply (hm_get_in l k v Hnd) in E1. symmetry. apply (hm_get_in l' k v Hnd').
    eapply Permutation_in; eassumption.
  - destruct (hm_get k l') as [v'|] eqn:E2; [|reflexivity].
    apply (hm_get_in l' k v' Hnd') in E2. apply (Permutation_in _ (Permutation_sym HP)) in E2.
    apply (hm_get_in l k v' Hnd) in E2. congruence.
Qed.

Definition hval (k : kind) (d : data) : value :=
  match convert X k (0, 0) d with DOk v => v | DErr _ => VUnit end.

Lemma spec_hashmap_erased : forall k p bcs,
  (Forall (fun hd => exists v, convert X k (0, 0) (snd hd) = DOk v) (map erase bcs) /\
   spec_hashmap X k p bcs = DOk (map (fun hd => (fst hd, hval k (snd hd))) (map erase bcs))) \/
  (~ Forall (fun hd => exists v, convert X k (0, 0) (snd hd) = DOk v) (map erase bcs) /\
   exists e, spec_hashmap X k p bcs = DErr e).
Proof.
  intros k p. unfold spec_hashmap. induction bcs as [|b rest IH]; cbn [map dsequence].
  - left. split; [constructor|reflexivity].
  - destruct (convert X k (abs_pos p (bc_col b)) (bc_data b)) as [v|e] eqn:Ec; cbn [dres_map dbind].
    + pose proof (convert_pos_ok X k _ (0, 0) _ Ec) as Ec0.
      destruct IH as [[HF Hs]|[HF [e Hs]]].
      * left. split; [constructor; [exists v; exact Ec0|exact HF]|].
        rewrite Hs. cbn [dres_map erase fst snd]. unfold hval. rewrite Ec0. reflexivity.
      * right. split; [intros H; inversion H; contradiction|]. rewrite Hs. cbn. eauto.
    + right. split; [|eauto]. intros H. inversion H as [|? ? [v Hv] _]; subst. cbn [erase snd] in Hv.
      rewrite (convert_pos_ok X k _ (abs_pos p (bc_col b)) _ Hv) in Ec. discriminate.
Qed.

Theorem hashmap_perm_invariant : forall k p p' bcs bcs',
  Permutation (map erase bcs) (map erase bcs') -> NoDup (map bc_hdr bcs) ->
  match spec_hashmap X k p bcs, spec_hashmap X k p' bcs' with
  | DOk a, DOk b => forall key, hm_get key a = hm_get key b
  | DErr _, DErr _ => True
  | _, _ => False
  end.
Proof.
  intros k p p' bcs bcs' HP Hnd.
  destruct (spec_hashmap_erased k p bcs) as [[HF Hs]|[HF [e Hs]]];
    destruct (spec_hashmap_erased k p' bcs') as [[HF' Hs']|[HF' [e' Hs']]]; rewrite Hs, Hs'.
  - intros key. apply hm_get_perm.
    + apply Permutation_map. exact HP.
    + rewrite !map_map. cbn [fst erase]. exact Hnd.
  - apply HF'. eapply Permutation_Forall; eassumption.
  - apply HF. eapply Permutation_Forall; [apply Permutation_sym; exact HP|exact HF'].
  - exact I.
Qed.

(* row level: the record bound by header depends only on the multiset of (header, cell) pairs of
   the non-empty selected cells *)
Theorem row_binding_perm_invariant : forall sh p p' cols cols' hs hs' row row',
  Permutation (map erase (bound_cells cols hs row)) (map erase (bound_cells cols' hs' row')) ->
  match sh with
  | SStruct _ => True
  | SMap _ => NoDup (map bc_hdr (bound_cells cols hs row))
  | _ => False
  end ->
  rec_equiv (row_to_record X sh cols (Some hs) p row) (row_to_record X sh cols' (Some hs') p' row').
Proof.
  intros sh p p' cols cols' hs hs' row row' HP Hsh. unfold row_to_record, rec_equiv.
  destruct sh as [ks|k|fs|k|]; try contradiction.
  - pose proof (struct_perm_invariant fs p p' _ _ HP) as H.
    destruct (spec_struct_map X fs p _), (spec_struct_map X fs p' _); cbn [dres_map]; try exact H.
    congruence.
  - pose proof (hashmap_perm_invariant k p p' _ _ HP Hsh) as H.
    destruct (spec_hashmap X k p _), (spec_hashmap X k p' _); cbn [dres_map]; exact H.
Qed.

(* ---- permuting the columns of a whole range together with its header row ---- *)
Lemma seq_map_nth : forall (A : Type) (l : list A) d,
  map (fun j => nth j l d) (seq 0 (length l)) = l.
Proof.
  induction l as [|x l IH]; intros d; [reflexivity|]. cbn [length seq map nth]. f_equal.
  rewrite <- seq_shift, map_map. apply IH.
Qed.

Lemma map_filter_comm : forall (A B : Type) (f : A -> B) (P : B -> bool) l,
  map f (filter (fun x => P (f x)) l) = filter P (map f l).
Proof.
  induction l as [|x l IH]; [reflexivity|]. cbn. destruct (P (f x)); cbn; rewrite IH; reflexivity.
Qed.

Lemma NoDup_map_filter : forall (A B : Type) (f : A -> B) (P : A -> bool) l,
  NoDup (map f l) -> NoDup (map f (filter P l)).
Proof.
  induction l as [|x l IH]; intros H; [constructor|]. cbn in *. inversion H as [|? ? Hnin Hnd]; subst.
  destruct (P x); [|apply IH; exact Hnd]. cbn. constructor; [|apply IH; exact Hnd].
  intros Hin. apply Hnin. apply in_map_iff in Hin. destruct Hin as [y [Hy Hin]].
  apply filter_In in Hin. apply in_map_iff. exists y. tauto.
Qed.

Definition permute_row (sigma : list nat) (row : list data) : list data := map (cell_at row) sigma.
Definition permute_hdrs (sigma : list nat) (hs : list str) : list str := map (fun s => nth s hs []) sigma.

Lemma erased_bound_cells : forall w hs row,
  map erase (bound_cells (seq 0 w) hs row) =
  filter (fun hd => negb (is_empty_cell (snd hd))) (map (fun i => (nth i hs [], cell_at row i)) (seq 0 w)).
Proof.
  intros w hs row. unfold bound_cells.
  replace (map (fun i => (nth i hs [], cell_at row i)) (seq 0 w))
    with (map erase (map (fun i => (i, nth i hs [], cell_at row i)) (seq 0 w)))
    by (rewrite map_map; reflexivity).
  rewrite <- (map_filter_comm erase (fun hd => negb (is_empty_cell (snd hd)))). reflexivity.
Qed.

Lemma permuted_bound_cells : forall sigma w hs row,
  Permutation sigma (seq 0 w) ->
  Permutation (map erase (bound_cells (seq 0 w) (permute_hdrs sigma hs) (permute_row sigma row)))
              (map erase (bound_cells (seq 0 w) hs row)).
Proof.
  intros sigma w hs row HP. rewrite !erased_bound_cells. apply Permutation_filter'.
  set (g := fun s : nat => (nth s hs [], cell_at row s)).
  set (l2 := map g sigma).
  assert (Hw : length l2 = w).
  { subst l2. rewrite map_length. rewrite (Permutation_length HP). apply seq_length. }
  assert (Hh : permute_hdrs sigma hs = map fst l2).
  { subst l2 g. unfold permute_hdrs. rewrite map_map. reflexivity. }
  assert (Hr : permute_row sigma row = map snd l2).
  { subst l2 g. unfold permute_row. rewrite map_map. reflexivity. }
  rewrite Hh, Hr.
  assert (Heq : map (fun i => (nth i (map fst l2) [], cell_at (map snd l2) i)) (seq 0 w) = l2).
  { rewrite <- Hw.
    transitivity (map (fun j => nth j l2 (@nil N, DEmpty)) (seq 0 (length l2))); [|apply seq_map_nth].
    apply map_ext. intros j.
    unfold cell_at. rewrite (surjective_pairing (nth j l2 (@nil N, DEmpty))). f_equal.
    - exact (map_nth fst l2 (@nil N, DEmpty) j).
    - exact (map_nth snd l2 (@nil N, DEmpty) j). }
  rewrite Heq. subst l2. apply Permutation_map. exact HP.
Qed.

Lemma Forall2_mapi_from_map : forall (A B C : Type) (R : B -> C -> Prop) (f : nat -> A -> B)
    (g : nat -> A -> C) (h : A -> A) l n,
  (forall k x, In x l -> R (f k x) (g k (h x))) ->
  Forall2 R (mapi_from n f l) (mapi_from n g (map h l)).
Proof.
  induction l as [|x l IH]; intros n H; cbn; constructor.
  - apply H. left. reflexivity.
  - apply IH. intros k y Hy. apply H. right. exact Hy.
Qed.

Lemma header_strings_nth : forall p row hs j, header_strings X p row = DOk hs -> (j < length row)%nat ->
  convert X KString (abs_pos p j) (cell_at row j) = DOk (VStr (nth j hs [])).
Proof.
  intros p row hs j H Hj. pose proof (header_strings_length X _ _ H) as Hl.
  unfold header_strings in H. pose proof (dsequence_nth _ j H) as Hn.
  rewrite nth_error_map, nth_error_seq in Hn. destruct (Nat.ltb_spec j (length row)); [|lia].
  cbn [option_map Nat.add] in Hn. assert (Hjh : (j < length hs)%nat) by lia.
  rewrite (nth_error_nth' hs [] Hjh) in Hn. cbn in Hn.
  destruct (cell_at row j); cbn in Hn |- *; inversion Hn; reflexivity.
Qed.

Lemma header_strings_permuted : forall p p' sigma hd hs hs',
  Permutation sigma (seq 0 (length hd)) ->
  header_strings X p hd = DOk hs -> header_strings X p' (permute_row sigma hd) = DOk hs' ->
  hs' = permute_hdrs sigma hs.
Proof.
  intros p p' sigma hd hs hs' HP H H'.
  assert (Hls : length sigma = length hd) by (rewrite (Permutation_length HP); apply seq_length).
  assert (Hl' : length hs' = length sigma).
  { rewrite (header_strings_length X _ _ H'). unfold permute_row. apply map_length. }
  transitivity (map (fun j => nth j hs' []) (seq 0 (length hs'))); [symmetry; apply seq_map_nth|].
  transitivity (map (fun j => nth (nth j sigma O) hs []) (seq 0 (length sigma))).
  2:{ unfold permute_hdrs.
      rewrite <- (map_map (fun j => nth j sigma O) (fun s => nth s hs [])). rewrite seq_map_nth.
      reflexivity. }
  rewrite Hl'. apply map_ext_in. intros j Hj. apply in_seq in Hj.
  assert (Hj' : (j < length (permute_row sigma hd))%nat) by (unfold permute_row; rewrite map_length; lia).
  pose proof (@header_strings_nth _ _ _ j H' Hj') as Hc'.
  assert (Hs : (nth j sigma O < length hd)%nat).
  { assert (Hin : In (nth j sigma O) (seq 0 (length hd))).
    { eapply Permutation_in; [exact HP|]. apply nth_In. lia. }
    apply in_seq in Hin. lia. }
  pose proof (@header_strings_nth _ _ _ (nth j sigma O) H Hs) as Hc.
  assert (Hcell : cell_at (permute_row sigma hd) j = cell_at hd (nth j sigma O)).
  { unfold permute_row, cell_at at 1.
    replace DEmpty with (cell_at hd (length hd)) at 1
      by (unfold cell_at; apply nth_overflow; lia).
    rewrite map_nth. f_equal. apply nth_indep. lia. }
  rewrite Hcell in Hc'. rewrite (convert_pos_ok X _ _ (abs_pos p' j) _ Hc) in Hc'.
  inversion Hc'. reflexivity.
Qed.

(* C09: with headers, fields are bound by header name independently of column order.  Permute the
   columns of a range (header row and data rows alike, anywhere on the sheet): every struct record
   is unchanged, every map record is the same finite map (headers distinct), and a record fails
   in one arrangement iff it fails in the other. *)
Theorem header_binding_permutation_invariant : forall sh sigma (r r' : range data) t t',
  range_ok r -> range_ok r' ->
  Permutation sigma (seq 0 (N.to_nat (width r))) ->
  rows r' = map (permute_row sigma) (rows r) ->
  match sh with
  | SStruct _ => True
  | SMap _ => forall hd rs hs, rows r = hd :: rs -> header_strings X (r_start r) hd = DOk hs -> NoDup hs
  | _ => False
  end ->
  de_run X HAll sh r = Ok (DOk t) -> de_run X HAll sh r' = Ok (DOk t') ->
  Forall2 rec_equiv (trace_items t) (trace_items t').
Proof.
  intros sh sigma r r' t t' Hok Hok' HP Hrows Hsh Hrun Hrun'.
  rewrite (de_run_spec X HAll sh Hok) in Hrun. rewrite (de_run_spec X HAll sh Hok') in Hrun'.
  unfold spec_run, spec_records, spec_plan in Hrun, Hrun'. rewrite Hrows in Hrun'.
  destruct (rows r) as [|hd rs] eqn:Er.
  - cbn in Hrun, Hrun'. inversion Hrun; inversion Hrun'. constructor.
  - cbn [map] in Hrun'.
    assert (Hne : is_empty r = false).
    { destruct (is_empty r) eqn:E; [|reflexivity]. unfold rows in Er. rewrite E in Er. discriminate. }
    assert (Hst : start r = Some (r_start r)) by (unfold start; rewrite Hne; reflexivity).
    rewrite Hst in Hrun.
    assert (Hw : forall row, In row (hd :: rs) -> length row = N.to_nat (width r)).
    { intros row Hin. apply (@rows_row_length r row Hok). rewrite Er. exact Hin. }
    set (w := N.to_nat (width r)) in *.
    destruct (header_strings X (r_start r) hd) as [hs|e] eqn:Eh; [|discriminate].
    destruct (header_strings X _ (permute_row sigma hd)) as [hs'|e] eqn:Eh'; [|discriminate].
    cbn [dbind dres_map] in Hrun, Hrun'. inversion Hrun as [Ht]. inversion Hrun' as [Ht'].
    rewrite !trace_items_spec. unfold plan_records.
    cbn [pl_cols pl_headers pl_pos pl_rows fst snd].
    assert (Hlp : length (permute_row sigma hd) = w).
    { unfold permute_row. rewrite map_length, (Permutation_length HP). apply seq_length. }
    rewrite Hlp, (Hw hd (or_introl eq_refl)).
    assert (Hhs' : hs' = permute_hdrs sigma hs).
    { eapply header_strings_permuted; [|exact Eh|exact Eh']. rewrite (Hw hd (or_introl eq_refl)). exact HP. }
    subst hs'.
    apply Forall2_mapi_from_map. intros k row Hin.
    apply row_binding_perm_invariant.
    + apply Permutation_sym. apply permuted_bound_cells. exact HP.
    + destruct sh as [ks|k0|fs|k0|]; try contradiction; [exact I|].
      specialize (Hsh hd rs hs eq_refl Eh).
      unfold bound_cells. apply NoDup_map_filter. rewrite map_map. cbn [bc_hdr fst snd].
      replace w with (length hs)
        by (rewrite (header_strings_length X _ _ Eh); apply Hw; left; reflexivity).
      rewrite seq_map_nth. exact Hsh.
Qed.

End Perm.

(* ---------------------------------------------------------------------------------------- *)
(* The conversion table                                                                     *)
(* ---------------------------------------------------------------------------------------- *)
Section Table.
Variable X : ext.
Local Open Scope Z_scope.

Lemma ik_bits_pos : forall ik, 8 <= ik_bits ik <= 64.
Proof. destruct ik; cbn; lia. Qed.

(* i64 as iN/uN keeps the value modulo 2^bits and lands in the target range; it is the identity
   on values already in range *)
Lemma wrap_int_spec : forall ik z,
  ik_in ik (wrap_int ik z) = true /\
  (wrap_int ik z - z) mod 2 ^ ik_bits ik = 0 /\
  (ik_in ik z = true -> wrap_int ik z = z).
Proof.
  intros ik z. unfold wrap_int, ik_in, ik_min, ik_max.
  pose proof (ik_bits_pos ik) as Hb.
  assert (Hm : 0 < 2 ^ ik_bits ik) by (apply Z.pow_pos_nonneg; lia).
  assert (Hhalf : 2 ^ ik_bits ik = 2 * 2 ^ (ik_bits ik - 1)).
  { rewrite <- Z.pow_succ_r by lia. f_equal. lia. }
  set (m := 2 ^ ik_bits ik) in *. set (hm := 2 ^ (ik_bits ik - 1)) in *.
  pose proof (Z.mod_pos_bound z m Hm) as Hr.
  assert (Hm0 : m <> 0) by lia.
  pose proof (Z.div_mod z m Hm0) as Hdm.
  assert (Hdiv : m / 2 = hm) by (rewrite Hhalf; rewrite Z.mul_comm; apply Z.div_mul; lia).
  rewrite Hdiv.
  assert (Hmul1 : (z mod m - m - z) mod m = 0).
  { replace (z mod m - m - z) with ((-1 - z / m) * m) by lia. apply Z.mod_mul. exact Hm0. }
  assert (Hmul0 : (z mod m - z) mod m = 0).
  { replace (z mod m - z) with ((- (z / m)) * m) by lia. apply Z.mod_mul. exact Hm0. }
  destruct (ik_signed ik); cbn [andb].
  - destruct (Z.leb_spec hm (z mod m)) as [Hge|Hlt].
    + split; [lia|]. split; [exact Hmul1|].
      intros Hin. assert (Hz : - hm <= z <= hm - 1) by lia.
      assert (Hneg : z < 0).
      { destruct (Z.lt_ge_cases z 0) as [Hn|Hn]; [exact Hn|]. rewrite Z.mod_small in Hge by lia. lia. }
      assert (Hmod : z mod m = z + m) by (symmetry; apply Z.mod_unique with (q := -1); lia).
      lia.
    + split; [lia|]. split; [exact Hmul0|].
      intros Hin. assert (Hz : - hm <= z <= hm - 1) by lia.
      assert (Hpos : 0 <= z).
      { destruct (Z.lt_ge_cases z 0) as [Hn|Hn]; [|exact Hn].
        assert (Hmod : z mod m = z + m) by (symmetry; apply Z.mod_unique with (q := -1); lia). lia. }
      apply Z.mod_small. lia.
  - split; [lia|]. split; [exact Hmul0|]. intros Hin. apply Z.mod_small. lia.
Qed.

Lemma ik_min_le_max : forall ik, ik_min ik <= 0 <= ik_max ik.
Proof. destruct ik; cbn; lia. Qed.

Lemma clamp_int_in : forall ik z, ik_in ik (clamp_int ik z) = true.
Proof.
  intros ik z. unfold clamp_int, ik_in. pose proof (ik_min_le_max ik).
  destruct (Z.ltb_spec z (ik_min ik)); [lia|]. destruct (Z.ltb_spec (ik_max ik) z); lia.
Qed.

(* f64 as iN/uN always lands in the target range (saturating), NaN gives 0, and an in-range
   value is truncated toward zero *)
Lemma f64_to_int_spec : forall ik f,
  ik_in ik (f64_to_int ik f) = true /\
  (fdecode F64 f = FNaN -> f64_to_int ik f = 0) /\
  (forall neg m e, fdecode F64 f = FFin neg m e -> 0 <= m ->
     let t := if 0 <=? e then m * 2 ^ e else m / 2 ^ (- e) in
     (0 <= e -> t = m * 2 ^ e) /\
     (e < 0 -> t * 2 ^ (- e) <= m < (t + 1) * 2 ^ (- e)) /\
     f64_to_int ik f = clamp_int ik (if neg then - t else t)).
Proof.
  intros ik f. unfold f64_to_int. pose proof (ik_min_le_max ik) as Hmm. split; [|split].
  - destruct (fdecode F64 f) as [|neg|neg m e].
    + unfold ik_in. lia.
    + unfold ik_in. destruct neg; lia.
    + apply clamp_int_in.
  - intros ->. reflexivity.
  - intros neg m e Hd Hm. rewrite Hd. cbv zeta. repeat split.
    + intros He. destruct (Z.leb_spec 0 e); [reflexivity|lia].
    + destruct (Z.leb_spec 0 e); [lia|].
      assert (Hp : 0 < 2 ^ (- e)) by (apply Z.pow_pos_nonneg; lia).
      pose proof (Z.div_mod m (2 ^ (- e))). pose proof (Z.mod_pos_bound m (2 ^ (- e)) Hp). nia.
    + destruct (Z.leb_spec 0 e); [lia|].
      assert (Hp : 0 < 2 ^ (- e)) by (apply Z.pow_pos_nonneg; lia).
      pose proof (Z.div_mod m (2 ^ (- e))). pose proof (Z.mod_pos_bound m (2 ^ (- e)) Hp). nia.
Qed.

Lemma parse_int_in : forall ik s z, parse_int ik s = Some z -> ik_in ik z = true.
Proof.
  intros ik s z H. unfold parse_int in H. destruct s as [|c t]; [discriminate|].
  destruct ((c =? 43)%N); [|destruct ((c =? 45)%N && ik_signed ik)]; cbv beta iota in H;
    repeat match type of H with
           | context [match ?x with _ => _ end] => destruct x eqn:?
           end; try discriminate; inversion H; subst; assumption.
Qed.

(* ---- integer text: to_string followed by FromStr is the identity ---- *)
Lemma digits_val_app : forall s1 s2 a,
  digits_val a (s1 ++ s2) =
  match digits_val a s1 with Some a' => digits_val a' s2 | None => None end.
Proof.
  induction s1 as [|c s1 IH]; intros s2 a; [reflexivity|]. cbn [app digits_val].
  destruct (is_digit c); [apply IH|reflexivity].
Qed.

Lemma to_digits_acc : forall f n acc, to_digits f n acc = to_digits f n [] ++ acc.
Proof.
  induction f as [|f IH]; intros n acc; [reflexivity|]. cbn [to_digits].
  destruct (n <? 10)%N; [reflexivity|]. rewrite IH. rewrite (IH _ [_]). rewrite <- app_assoc. reflexivity.
Qed.

Lemma to_digits_nonempty : forall f n, to_digits (S f) n [] <> [].
Proof.
  intros f n. cbn [to_digits]. destruct (n <? 10)%N; [discriminate|].
  rewrite to_digits_acc. intros H. apply app_eq_nil in H. destruct H; discriminate.
Qed.

Lemma to_digits_val : forall f n, (n < 10 ^ N.of_nat f)%N ->
  digits_val 0 (to_digits f n []) = Some (Z.of_N n).
Proof.
  induction f as [|f IH]; intros n Hn.
  - cbn in Hn. assert (n = 0%N) by lia. subst. reflexivity.
  - cbn [to_digits]. destruct (N.ltb_spec n 10) as [Hlt|Hge].
    + cbn [digits_val]. unfold is_digit.
      replace ((48 <=? 48 + n mod 10)%N && (48 + n mod 10 <=? 57)%N) with true by lia.
      f_equal. lia.
    + rewrite to_digits_acc, digits_val_app. rewrite IH.
      * cbn [digits_val]. unfold is_digit.
        replace ((48 <=? 48 + n mod 10)%N && (48 + n mod 10 <=? 57)%N) with true by lia.
        f_equal. lia.
      * rewrite Nat2N.inj_succ, N.pow_succ_r' in Hn. lia.
Qed.

Lemma N_to_str_val : forall n, digits_val 0 (N_to_str n) = Some (Z.of_N n) /\ N_to_str n <> [].
Proof.
  intros n. unfold N_to_str. split; [|apply to_digits_nonempty]. apply to_digits_val.
  rewrite Nat2N.inj_succ, N2Nat.id, N.pow_succ_r'.
  assert (H2 : (n < 2 ^ N.size n)%N) by apply N.size_gt.
  assert (H10 : (2 ^ N.size n <= 10 ^ N.size n)%N) by (apply N.pow_le_mono_l; lia).
  assert (Hp : (0 < 10 ^ N.size n)%N) by (apply N.neq_0_lt_0, N.pow_nonzero; lia).
  lia.
Qed.

Lemma digits_val_first : forall c t a v, digits_val a (c :: t) = Some v -> is_digit c = true.
Proof. intros c t a v H. cbn in H. destruct (is_digit c); [reflexivity|discriminate]. Qed.

(* i64::to_string followed by <iN/uN as FromStr>::from_str gives the number back whenever it fits
   the target type: an integer written as text converts to that integer *)
Lemma parse_int_Z_to_str : forall ik z, ik_in ik z = true -> parse_int ik (Z_to_str z) = Some z.
Proof.
  intros ik z Hin.
  assert (Hnn : forall n, z = Z.of_N n -> parse_int ik (N_to_str n) = Some z).
  { intros n ->. destruct (N_to_str_val n) as [Hv Hne]. unfold parse_int.
    destruct (N_to_str n) as [|c t] eqn:Es; [contradiction|].
    pose proof (digits_val_first _ _ _ Hv) as Hd. unfold is_digit in Hd.
    replace (c =? 43)%N with false by lia. replace (c =? 45)%N with false by lia. cbn [andb].
    rewrite Hv, Hin. reflexivity. }
  destruct z as [|q|q]; unfold Z_to_str.
  - apply (Hnn 0%N). reflexivity.
  - apply (Hnn (N.pos q)). reflexivity.
  - destruct (N_to_str_val (N.pos q)) as [Hv Hne]. unfold parse_int.
    replace (45 =? 43)%N with false by reflexivity. replace (45 =? 45)%N with true by reflexivity.
    cbn [andb]. destruct (ik_signed ik) eqn:Es.
    + destruct (N_to_str (N.pos q)) as [|c t] eqn:Et; [contradiction|]. rewrite Hv.
      change (- Z.of_N (N.pos q))%Z with (Z.neg q). rewrite Hin. reflexivity.
    + exfalso. unfold ik_in, ik_min in Hin. rewrite Es in Hin. lia.
Qed.

Definition s_TRUE : str := [84; 82; 85; 69]%N.
Definition s_True : str := [84; 114; 117; 101]%N.
Definition s_FALSE : str := [70; 65; 76; 83; 69]%N.
Definition s_False : str := [70; 97; 108; 115; 101]%N.

Lemma bool_of_str_spec : forall s,
  (bool_of_str s = Some true <-> s = s_TRUE \/ s = s_true \/ s = s_True) /\
  (bool_of_str s = Some false <-> s = s_FALSE \/ s = s_false \/ s = s_False).
Proof.
  intros s. unfold bool_of_str.
  fold s_TRUE s_True s_FALSE s_False.
  destruct (str_eqb s s_TRUE) eqn:E1; [apply str_eqb_eq in E1; subst; cbn; split; split; intros H; try discriminate; auto; destruct H as [H|[H|H]]; discriminate|].
  destruct (str_eqb s s_true) eqn:E2; [apply str_eqb_eq in E2; subst; cbn; split; split; intros H; try discriminate; auto; destruct H as [H|[H|H]]; discriminate|].
  destruct (str_eqb s s_True) eqn:E3; [apply str_eqb_eq in E3; subst; cbn; split; split; intros H; try discriminate; auto; destruct H as [H|[H|H]]; discriminate|].
  cbn [orb].
  assert (N1 : s <> s_TRUE) by (intros ->; cbn in E1; discriminate).
  assert (N2 : s <> s_true) by (intros ->; cbn in E2; discriminate).
  assert (N3 : s <> s_True) by (intros ->; cbn in E3; discriminate).
  destruct (str_eqb s s_FALSE) eqn:E4; [apply str_eqb_eq in E4; subst; cbn; split; split; intros H; try discriminate; auto; destruct H as [H|[H|H]]; discriminate|].
  destruct (str_eqb s s_false) eqn:E5; [apply str_eqb_eq in E5; subst; cbn; split; split; intros H; try discriminate; auto; destruct H as [H|[H|H]]; discriminate|].
  destruct (str_eqb s s_False) eqn:E6; [apply str_eqb_eq in E6; subst; cbn; split; split; intros H; try discriminate; auto; destruct H as [H|[H|H]]; discriminate|].
  cbn [orb].
  assert (N4 : s <> s_FALSE) by (intros ->; cbn in E4; discriminate).
  assert (N5 : s <> s_false) by (intros ->; cbn in E5; discriminate).
  assert (N6 : s <> s_False) by (intros ->; cbn in E6; discriminate).
  split; split; intros H; try discriminate; destruct H as [H|[H|H]]; contradiction.
Qed.

(* decoding a normal binary64 pattern built from its fields *)
Lemma fdecode_normal : forall neg ef man, 0 < ef < 2047 -> 0 <= man < 2 ^ 52 ->
  fdecode F64 (with_sign F64 neg (ef * 2 ^ 52 + man)) = FFin neg (man + 2 ^ 52) (ef - 1075).
Proof.
  intros neg ef man Hef Hman. unfold fdecode, with_sign.
  unfold ff_sign, ff_mbits, ff_emax. cbn [ff_ebits ff_prec ff_qmin F64].
  replace (53 - 1) with 52 by lia. change (52 + 11) with 63. change (2 ^ 11 - 1) with 2047.
  set (mag := ef * 2 ^ 52 + man).
  assert (Hmag : 0 <= mag < 2 ^ 63) by (unfold mag; change (2 ^ 63) with (2048 * 2 ^ 52); nia).
  assert (Hb : mag / 2 ^ 52 = ef).
  { unfold mag. rewrite Z.div_add_l by lia. rewrite Z.div_small by lia. lia. }
  assert (Hbm : mag mod 2 ^ 52 = man).
  { unfold mag. rewrite Z.add_comm, Z.mod_add by lia. apply Z.mod_small. lia. }
  destruct neg.
  - rewrite Z2N.id by lia.
    assert (Hs : (2 ^ 63 + mag) / 2 ^ 63 = 1).
    { replace (2 ^ 63 + mag) with (1 * 2 ^ 63 + mag) by lia. rewrite Z.div_add_l by lia.
      rewrite Z.div_small by lia. lia. }
    assert (Hb' : (2 ^ 63 + mag) / 2 ^ 52 = 2048 + ef).
    { change (2 ^ 63) with (2048 * 2 ^ 52). rewrite Z.div_add_l by lia. lia. }
    assert (Hbm' : (2 ^ 63 + mag) mod 2 ^ 52 = man).
    { change (2 ^ 63) with (2048 * 2 ^ 52). rewrite Z.add_comm, Z.mod_add by lia. exact Hbm. }
    rewrite Hs, Hb', Hbm'. change (Z.odd 1) with true.
    replace ((2048 + ef) mod 2 ^ 11) with ef
      by (change (2 ^ 11) with 2048; rewrite Z.add_comm; rewrite <- (Z.mul_1_l 2048) at 1;
          rewrite Z.mod_add by lia; symmetry; apply Z.mod_small; lia).
    replace (ef =? 2047) with false by lia. replace (ef =? 0) with false by lia.
    f_equal. lia.
  - rewrite Z2N.id by lia.
    assert (Hs : mag / 2 ^ 63 = 0) by (apply Z.div_small; lia).
    rewrite Hs, Hb, Hbm. change (Z.odd 0) with false.
    rewrite (Z.mod_small ef) by (change (2 ^ 11) with 2048; lia).
    replace (ef =? 2047) with false by lia. replace (ef =? 0) with false by lia.
    f_equal. lia.
Qed.

(* i64 as f64 is exact below 2^53: the rounding of DeNum.round_pos leaves the value unchanged *)
Lemma round_pos_int_exact : forall z, 0 < z < 2 ^ 53 ->
  let l := Z.log2 z in let m := z * 2 ^ (52 - l) in
  round_pos F64 z 1 = (l + 1023) * 2 ^ 52 + (m - 2 ^ 52) /\
  2 ^ 52 <= m < 2 ^ 53 /\ 0 <= l <= 52.
Proof.
  intros z [Hz0 Hz1] l m.
  pose proof (Z.log2_spec z Hz0) as [Hl0 Hl1]. fold l in Hl0, Hl1.
  assert (Hlnn : 0 <= l) by apply Z.log2_nonneg.
  assert (Hl52 : l <= 52).
  { destruct (Z.le_gt_cases l 52) as [H|H]; [exact H|]. exfalso.
    assert (2 ^ 53 <= 2 ^ l) by (apply Z.pow_le_mono_r; lia). lia. }
  set (P := 2 ^ (52 - l)) in *.
  assert (HP : 0 < P) by (apply Z.pow_pos_nonneg; lia).
  assert (HlP : 2 ^ l * P = 2 ^ 52) by (unfold P; rewrite <- Z.pow_add_r by lia; f_equal; lia).
  assert (Hsucc : 2 ^ Z.succ l = 2 * 2 ^ l) by (apply Z.pow_succ_r; lia).
  assert (Hm : 2 ^ 52 <= m < 2 ^ 53).
  { unfold m. change (2 ^ 53) with (2 * 2 ^ 52). rewrite <- HlP. nia. }
  split; [|split; [exact Hm|lia]].
  unfold round_pos. cbn [ff_prec ff_qmin F64]. change (Z.log2 1) with 0. rewrite Z.sub_0_r. fold l.
  unfold ge_pow2. replace (0 <=? l) with true by lia. rewrite Z.mul_1_l.
  replace (2 ^ l <=? z) with true by lia.
  replace (53 - 1) with 52 by lia.
  rewrite Z.max_l by lia.
  assert (Hnd : (if 0 <=? l - 52 then z else z * 2 ^ (- (l - 52))) /
                (if 0 <=? l - 52 then 1 * 2 ^ (l - 52) else 1) = m /\
                (if 0 <=? l - 52 then z else z * 2 ^ (- (l - 52))) mod
                (if 0 <=? l - 52 then 1 * 2 ^ (l - 52) else 1) = 0 /\
                (if 0 <=? l - 52 then 1 * 2 ^ (l - 52) else 1) = 1).
  { destruct (Z.leb_spec 0 (l - 52)).
    - assert (l = 52) by lia. unfold m, P. replace (l - 52) with 0 by lia. replace (52 - l) with 0 by lia.
      change (2 ^ 0) with 1. rewrite !Z.mul_1_r, Z.div_1_r, Z.mod_1_r. auto.
    - unfold m, P. replace (- (l - 52)) with (52 - l) by lia. rewrite Z.div_1_r, Z.mod_1_r. auto. }
  destruct Hnd as (Hdiv & Hmod & Hd). rewrite Hdiv, Hmod, Hd. change (2 * 0 <? 1) with true. cbv iota.
  replace (m =? 2 ^ 53) with false by lia. cbv iota beta.
  replace (m <? 2 ^ 52) with false by lia.
  unfold ff_emax, ff_mbits, ff_inf. cbn [ff_ebits ff_prec F64].
  change (2 ^ 11 - 1) with 2047. replace (53 - 1) with 52 by lia.
  replace (l - 52 - -1074 + 1) with (l + 1023) by lia.
  replace (2047 <=? l + 1023) with false by lia. reflexivity.
Qed.

(* Int -> f64 -> integer target gives the integer back (|z| < 2^53, value in the target range) *)
Lemma int_f64_int_roundtrip : forall ik z, - 2 ^ 53 < z < 2 ^ 53 -> ik_in ik z = true ->
  f64_to_int ik (int_to_float F64 z) = z.
Proof.
  intros ik z Hz Hin.
  assert (Hclamp : clamp_int ik z = z).
  { unfold clamp_int, ik_in in *. destruct (Z.ltb_spec z (ik_min ik)); [lia|].
    destruct (Z.ltb_spec (ik_max ik) z); lia. }
  unfold int_to_float. destruct (Z.eqb_spec z 0) as [->|Hnz].
  - unfold f64_to_int. change (fdecode F64 0%N) with (FFin false 0 (-1074)). cbv iota.
    replace (0 <=? -1074) with false by reflexivity. rewrite Z.div_0_l by (apply Z.pow_nonzero; lia).
    exact Hclamp.
  - assert (Ha : 0 < Z.abs z < 2 ^ 53) by lia.
    destruct (@round_pos_int_exact (Z.abs z) Ha) as (Hr & Hm & Hl). cbv zeta in Hr, Hm, Hl.
    set (l := Z.log2 (Z.abs z)) in *. set (P := 2 ^ (52 - l)) in *.
    rewrite Hr. unfold f64_to_int.
    rewrite fdecode_normal by lia.
    replace (Z.abs z * P - 2 ^ 52 + 2 ^ 52) with (Z.abs z * P) by lia.
    replace (l + 1023 - 1075) with (l - 52) by lia.
    assert (HP : 0 < P) by (apply Z.pow_pos_nonneg; lia).
    assert (Ht : (if 0 <=? l - 52 then Z.abs z * P * 2 ^ (l - 52) else Z.abs z * P / 2 ^ (- (l - 52))) = Z.abs z).
    { destruct (Z.leb_spec 0 (l - 52)).
      - assert (l = 52) by lia. unfold P. replace (52 - l) with 0 by lia. replace (l - 52) with 0 by lia.
        change (2 ^ 0) with 1. lia.
      - replace (- (l - 52)) with (52 - l) by lia. fold P. apply Z.div_mul. lia. }
    rewrite Ht. destruct (Z.ltb_spec z 0).
    + replace (- Z.abs z) with z by lia. exact Hclamp.
    + replace (Z.abs z) with z by lia. exact Hclamp.
Qed.

(* what the table means for integers: text and f64 both carry an integer faithfully *)
Lemma int_text_roundtrip : forall ik z p, ik_in ik z = true ->
  convert X KString p (DInt z) = DOk (VStr (Z_to_str z)) /\
  convert X (KInt ik) p (DString (Z_to_str z)) = DOk (VInt z).
Proof.
  intros ik z p Hin. split; [reflexivity|]. cbn [convert]. rewrite parse_int_Z_to_str by exact Hin.
  reflexivity.
Qed.

Lemma int_f64_roundtrip : forall ik z p, - 2 ^ 53 < z < 2 ^ 53 -> ik_in ik z = true ->
  convert X KF64 p (DInt z) = DOk (VF64 (int_to_float F64 z)) /\
  convert X (KInt ik) p (DFloat (int_to_float F64 z)) = DOk (VInt z).
Proof.
  intros ik z p Hz Hin. split; [reflexivity|]. cbn [convert]. rewrite int_f64_int_roundtrip by assumption.
  reflexivity.
Qed.

Local Close Scope Z_scope.

(* C09: each cell converts by the documented rules.  The table of DataDeserializer for the
   target kinds serde can request: numeric casts, numeric and boolean strings, Empty as
   None / false / "", error cells; [convert] is a total function, so every (kind, cell) pair has
   exactly one outcome. *)
Theorem conversion_table : forall p,
  (* Empty *)
  (forall k, convert X (KOption k) p DEmpty = DOk VNone) /\
  convert X KBool p DEmpty = DOk (VBool false) /\
  convert X KString p DEmpty = DOk (VStr []) /\
  convert X KBytes p DEmpty = DOk (VBytes []) /\
  convert X KUnit p DEmpty = DOk VUnit /\
  convert X KAny p DEmpty = DOk (VData DEmpty) /\
  (forall ik, convert X (KInt ik) p DEmpty = DErr ECustom) /\
  convert X KF64 p DEmpty = DErr ECustom /\ convert X KF32 p DEmpty = DErr ECustom /\
  (* an Option target is the inner target on every non-empty cell *)
  (forall k d, is_empty_cell d = false -> convert X (KOption k) p d = dres_map VSome (convert X k p d)) /\
  (* numeric casts (Rust `as`) *)
  (forall ik z, convert X (KInt ik) p (DInt z) = DOk (VInt (wrap_int ik z))) /\
  (forall ik f, convert X (KInt ik) p (DFloat f) = DOk (VInt (f64_to_int ik f))) /\
  (forall z, convert X KF64 p (DInt z) = DOk (VF64 (int_to_float F64 z))) /\
  (forall z, convert X KF32 p (DInt z) = DOk (VF32 (int_to_float F32 z))) /\
  (forall f, convert X KF64 p (DFloat f) = DOk (VF64 f)) /\
  (forall f, convert X KF32 p (DFloat f) = DOk (VF32 (f64_to_f32 f))) /\
  (* numeric strings *)
  (forall ik s, convert X (KInt ik) p (DString s) =
                match parse_int ik s with Some z => DOk (VInt z) | None => DErr ECustom end) /\
  (forall s, convert X KF64 p (DString s) =
             match x_parse_f64 X s with Some b => DOk (VF64 b) | None => DErr ECustom end) /\
  (forall s, convert X KF32 p (DString s) =
             match x_parse_f32 X s with Some b => DOk (VF32 b) | None => DErr ECustom end) /\
  (* booleans *)
  (forall b, convert X KBool p (DBool b) = DOk (VBool b)) /\
  (forall s, convert X KBool p (DString s) =
             match bool_of_str s with Some b => DOk (VBool b) | None => DErr ECustom end) /\
  (forall z, convert X KBool p (DInt z) = DOk (VBool (negb (z =? 0)%Z))) /\
  (forall f, convert X KBool p (DFloat f) = DOk (VBool (f64_nonzero f))) /\
  (forall ik b, convert X (KInt ik) p (DBool b) = DErr ECustom) /\
  (* strings *)
  (forall s, convert X KString p (DString s) = DOk (VStr s)) /\
  (forall z, convert X KString p (DInt z) = DOk (VStr (Z_to_str z))) /\
  (forall f, convert X KString p (DFloat f) = DOk (VStr (x_fmt_f64 X f))) /\
  (forall b, convert X KString p (DBool b) = DOk (VStr (bool_str b))) /\
  (* calamine::Data as the target keeps the cell (date-times become their serial / text) *)
  (forall d, convert X KAny p d = dres_map VData (visit_any p d)) /\
  (* an error cell fails every target with its own kind and position *)
  (forall k e, convert X k p (DError e) = DErr (ECellError e p)) /\
  (* and nothing else produces a CellError *)
  (forall k d e q, convert X k p d = DErr (ECellError e q) -> d = DError e /\ q = p).
Proof.
  intros p. repeat split; try reflexivity.
  - intros k d Hd. destruct d; try reflexivity. discriminate.
  - intros k e. apply convert_error_cell.
  - eapply (proj1 (convert_cell_error_inv X _ _ _ H)).
  - eapply (proj2 (convert_cell_error_inv X _ _ _ H)).
Qed.

End Table.

(* ---------------------------------------------------------------------------------------- *)
(* Concrete objects for the non-vacuity examples of Properties/C09.v                        *)
(* ---------------------------------------------------------------------------------------- *)
Definition s_label : str := [108; 97; 98; 101; 108].
Definition s_value : str := [118; 97; 108; 117; 101].
Definition s_value_sp : str := [32; 118; 97; 108; 117; 101; 32].          (* " value " *)
Definition s_celsius : str := [99; 101; 108; 115; 105; 117; 115].
Definition s_fahrenheit : str := [102; 97; 104; 114; 101; 110; 104; 101; 105; 116].
Definition F64_22_2222 : N := 4626948210909588436.

(* the temperature sheet of the doc examples, moved to D6:E8, header " value " not trimmed, the
   last value replaced by #DIV/0! *)
Definition ex_range : range data :=
  mkRange (5, 3) (7, 4)
    [DString s_label; DString s_value_sp;
     DString s_celsius; DFloat F64_22_2222;
     DString s_fahrenheit; DError 0].
(* the same with both columns exchanged *)
Definition ex_range_swapped : range data :=
  mkRange (5, 3) (7, 4)
    [DString s_value_sp; DString s_label;
     DFloat F64_22_2222; DString s_celsius;
     DError 0; DString s_fahrenheit].
Definition ex_struct : shape :=
  SStruct [mkField s_label KString false; mkField s_value_sp (KOption KF64) false].

Lemma ex_range_ok : range_ok ex_range.
Proof. split; [right; cbn; repeat split; lia|cbn; unfold U32MAX; lia]. Qed.
Lemma ex_range_swapped_ok : range_ok ex_range_swapped.
Proof. split; [right; cbn; repeat split; lia|cbn; unfold U32MAX; lia]. Qed.

(* one item per data row, in order, exact hints, the error at the ABSOLUTE position (7, 4) *)
Lemma ex_run :
  de_run std_ext HAll (STuple [KString; KF64]) ex_range =
  Ok (DOk [((2, Some 2), Some (DOk (RSeq [VStr s_celsius; VF64 F64_22_2222])));
           ((1, Some 1), Some (DErr (ECellError 0 (7, 4))));
           ((0, Some 0), None); ((0, Some 0), None)]).
Proof. vm_compute. reflexivity. Qed.

Lemma ex_selected :
  Forall2 (first_match [s_label; s_value_sp]) [s_value; [32; 32] ++ s_label] [1%nat; 0%nat] /\
  de_run std_ext (HCustom [s_value; [32; 32] ++ s_label]) (SVec KAny) ex_range =
  Ok (DOk [((2, Some 2), Some (DOk (RSeq [VData (DFloat F64_22_2222); VData (DString s_celsius)])));
           ((1, Some 1), Some (DErr (ECellError 0 (7, 4))));
           ((0, Some 0), None); ((0, Some 0), None)]) /\
  de_run std_ext (HCustom [s_value; s_celsius]) (SVec KAny) ex_range =
  Ok (DErr (EHeaderNotFound s_celsius)).
Proof.
  split; [|split].
  - apply select_columns_ok. vm_compute. reflexivity.
  - vm_compute. reflexivity.
  - vm_compute. reflexivity.
Qed.

Lemma ex_permutation :
  range_ok ex_range /\ range_ok ex_range_swapped /\
  Permutation [1%nat; 0%nat] (seq 0 (N.to_nat (width ex_range))) /\
  rows ex_range_swapped = map (permute_row [1%nat; 0%nat]) (rows ex_range) /\
  de_run std_ext HAll ex_struct ex_range =
  Ok (DOk [((2, Some 2), Some (DOk (RStruct [VStr s_celsius; VSome (VF64 F64_22_2222)])));
           ((1, Some 1), Some (DErr (ECellError 0 (7, 4))));
           ((0, Some 0), None); ((0, Some 0), None)]) /\
  de_run std_ext HAll ex_struct ex_range_swapped =
  Ok (DOk [((2, Some 2), Some (DOk (RStruct [VStr s_celsius; VSome (VF64 F64_22_2222)])));
           ((1, Some 1), Some (DErr (ECellError 0 (7, 3))));
           ((0, Some 0), None); ((0, Some 0), None)]).
Proof.
  split; [exact ex_range_ok|]. split; [exact ex_range_swapped_ok|]. split; [|split; [|split]].
  - apply perm_swap.
  - vm_compute. reflexivity.
  - vm_compute. reflexivity.
  - vm_compute. reflexivity.
Qed.

Lemma ex_new : exists st0, de_new std_ext HAll ex_range = Ok (DOk st0).
Proof. eexists. vm_compute. reflexivity. Qed.

(* observation kept OUT of the property (DESIGN.md, Appendix B): the header is matched after
   trimming when a column is SELECTED, but the key handed to serde is the untrimmed header, so a
   struct field "value" selected through with_deserialize_headers is not bound to the column
   headed " value " — an Option field silently becomes None. *)
Lemma ex_untrimmed_key_not_bound :
  de_run std_ext (HCustom [s_label; s_value])
         (SStruct [mkField s_label KString false; mkField s_value (KOption KF64) false]) ex_range =
  Ok (DOk [((2, Some 2), Some (DOk (RStruct [VStr s_celsius; VNone])));
           ((1, Some 1), Some (DErr (ECellError 0 (7, 4))));
           ((0, Some 0), None); ((0, Some 0), None)]).
Proof. vm_compute. reflexivity. Qed.
