(* Totality — what property C06 (malformed input: error, never panic / hang / blow-up) states on
   top of the models the other properties own.  Definitions only; proofs in Totality_proofs.v.

   The parsers themselves are modelled — after the hardening commits — by the slices that own them
   (Cfb.v, Ovba.v, Col26.v, BiffSst.v, BiffRec.v, XlsbRec.v, …); their no-panic theorems are
   collected in Properties/C06.v.  Nothing is modelled twice here: this file only adds the
   ALLOCATION side of the sector-chain walk of src/cfb.rs, on Cfb.v's own model of
   Sectors::get_chain:

     let mut chain = if len > 0 {
         Vec::with_capacity(min(len, fats.len().saturating_mul(self.size)))   <- chain_capacity
     } else { Vec::new() };

   (earlier revisions of this file carried hardened copies of decompress_stream and of
   get_row_and_optional_column; they are superseded by C18_no_panic_decompress and
   Col26_proofs.get_row_and_optional_column_total / C14_no_panic_a1.) *)
From Calamine Require Import Prelude Utf16 Cfb.
Open Scope N_scope.
Set Implicit Arguments.

(* the capacity get_chain reserves before it reads the first sector (usize saturating product) *)
Definition chain_capacity (s : sectors) (fats : list N) (len : N) : N :=
  if 0 <? len then N.min len (N.min (N.of_nat (length fats) * ssize s) U64MAX) else 0.
