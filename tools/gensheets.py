"""gensheets — plain multi-sheet workbooks of every format, for the checks that work through the
public reader API on whole files (C07 purity / access paths, C08 header rows, C06 fault
enumeration).  Pure Python, written from the file formats (ECMA-376, ODF 1.2, MS-XLS via
tools/xlsgen.py), not from calamine.  Everything random comes from ctx.rng.

generate(ctx, n) -> [(fmt, path)]   n logical workbooks, each written in the formats available
logical workbook: sheets = [{name, cells {(r,c): value}, formulas {(r,c): text}, merges [(r0,c0,r1,c1)],
                             tables [(name, r0,c0,r1,c1, header_rows, totals_rows)]}], names = [(name, text)]
value: ("n", float) | ("s", str) | ("b", bool) | ("e", "#DIV/0!")
Encoding choices drawn per file: xlsx <dimension> absent / exact / stale-too-small / stale-too-large /
"A1" placeholder, explicit or implicit r= attributes, shared or inline strings, stored or deflated
zip entries, bytes in front of the zip archive (self-extractor style: legal for the zip format,
the archive is located from its end)."""
import io, os, struct, zipfile
import vlib

DECL = '<?xml version="1.0" encoding="UTF-8" standalone="yes"?>\n'
NS_MAIN = "http://schemas.openxmlformats.org/spreadsheetml/2006/main"
NS_R = "http://schemas.openxmlformats.org/officeDocument/2006/relationships"
NS_PR = "http://schemas.openxmlformats.org/package/2006/relationships"
ERRS = ["#DIV/0!", "#N/A", "#NAME?", "#NULL!", "#NUM!", "#REF!", "#VALUE!"]


def col_name(c):
    s = ""
    c += 1
    while c:
        s = chr(65 + (c - 1) % 26) + s
        c = (c - 1) // 26
    return s


def a1(r, c):
    return "%s%d" % (col_name(c), r + 1)


def esc(s):
    return s.replace("&", "&amp;").replace("<", "&lt;").replace(">", "&gt;").replace('"', "&quot;")


# ----------------------------------------------------------------------------- logical workbooks

def gen_value(rng):
    k = rng.random()
    if k < 0.45:
        return ("n", float(rng.choice([0, 1, -1, 2.5, 42, 1e6, -3.25, 12345.678, rng.randrange(-1000, 1000)])))
    if k < 0.85:
        return ("s", rng.choice(["a", "b", "hello", "x y", "été", "<&>", "Total", "id", "name", "q\"uote", "  pad  "]) + str(rng.randrange(100)))
    if k < 0.95:
        return ("b", rng.random() < 0.5)
    return ("e", rng.choice(ERRS))


def gen_sheet(rng, idx, max_rows, max_cols):
    name = rng.choice(["Sheet", "Data", "S", "Été", "A&B", "x y", "Q1"]) + str(idx + 1)
    shape = rng.random()
    r0 = 0 if rng.random() < 0.4 else rng.randrange(0, 9)
    c0 = 0 if rng.random() < 0.4 else rng.randrange(0, 6)
    h = rng.randrange(1, 9)
    w = rng.randrange(1, 6)
    cells, formulas = {}, {}
    if shape < 0.08:
        pass                                          # empty sheet
    else:
        gap_rows = set(rng.sample(range(r0, r0 + h), k=min(h - 1, rng.randrange(0, 3)))) if h > 1 and rng.random() < 0.5 else set()
        for r in range(r0, r0 + h):
            if r in gap_rows:
                continue
            for c in range(c0, c0 + w):
                if rng.random() < 0.75:
                    cells[(r, c)] = gen_value(rng)
                    if rng.random() < 0.15:
                        formulas[(r, c)] = rng.choice(["A1+1", "SUM(A1:B2)", "B2*2", "$A$1&\"x\"", "IF(A1>0,1,2)"])
        if rng.random() < 0.2:                        # a far-away straggler
            cells[(r0 + h + rng.randrange(3, 40), c0 + rng.randrange(0, 12))] = gen_value(rng)
    merges = []
    if cells and rng.random() < 0.55:
        for _ in range(rng.randrange(1, 4)):
            mr, mc = r0 + rng.randrange(0, h + 2), c0 + rng.randrange(0, w + 2)
            merges.append((mr, mc, mr + rng.randrange(0, 3), mc + rng.randrange(0, 3)))
    tables = []
    if cells and rng.random() < 0.35 and h >= 3:
        hdr = rng.choice([1, 1, 1, 0])
        tot = rng.choice([0, 0, 1])
        tables.append(("Tbl%d_%d" % (idx + 1, rng.randrange(1000)), r0, c0, r0 + h - 1, c0 + w - 1, hdr, tot))
        for c in range(c0, c0 + w):
            cells[(r0, c)] = ("s", "col%d" % c)
    cells = {p: v for p, v in cells.items() if p[0] < max_rows and p[1] < max_cols}
    if cells and rng.random() < 0.12:
        # an error literal outside ECMA-376 18.17.3 (written by newer Excel versions): the xlsx
        # reader rejects it, so reading THIS sheet fails while the other sheets read fine — a
        # workbook in which one call can fail is what state-restoring code paths need to be tried on
        cells[rng.choice(sorted(cells))] = ("x", "#SPILL!")
    formulas = {p: f for p, f in formulas.items() if p in cells}
    return {"name": name, "cells": cells, "formulas": formulas, "merges": merges, "tables": tables}


def gen_workbook(rng, max_rows=1048576, max_cols=16384):
    n = rng.choice([1, 2, 2, 3, 3, 4])
    sheets = [gen_sheet(rng, i, max_rows, max_cols) for i in range(n)]
    names = [("Name%d" % i, "%s!$A$1" % "Sheet1") for i in range(rng.randrange(0, 3))]
    return {"sheets": sheets, "names": names}


# ----------------------------------------------------------------------------- xlsx

def xlsx_sheet_xml(rng, sh, sst, choice):
    cells = sh["cells"]
    rows = {}
    for (r, c), v in cells.items():
        rows.setdefault(r, []).append((c, v))
    out = [DECL, '<worksheet xmlns="%s" xmlns:r="%s">' % (NS_MAIN, NS_R)]
    if cells:
        rs = [p[0] for p in cells]; cs = [p[1] for p in cells]
        box = (min(rs), min(cs), max(rs), max(cs))
    else:
        box = (0, 0, 0, 0)
    d = choice["dimension"]
    if d == "exact":
        out.append('<dimension ref="%s:%s"/>' % (a1(box[0], box[1]), a1(box[2], box[3])))
    elif d == "small":       # stale: understated (a writer that appended rows without updating it)
        out.append('<dimension ref="%s:%s"/>' % (a1(box[0], box[1]), a1(box[0] + (box[2] - box[0]) // 2, box[1] + (box[3] - box[1]) // 2)))
    elif d == "large":
        out.append('<dimension ref="A1:%s"/>' % a1(box[2] + 7, box[3] + 3))
    elif d == "a1":
        out.append('<dimension ref="A1"/>')
    out.append('<sheetViews><sheetView workbookViewId="0"/></sheetViews><sheetFormatPr defaultRowHeight="15"/>')
    out.append("<sheetData>")
    prev_r = -1
    row_order = sorted(rows)
    if choice.get("shuffle_rows") and not choice["implicit"]:
        # rows with explicit references, not in ascending order (the readers place every cell by
        # its reference, so the order of the row elements does not matter)
        rng.shuffle(row_order)
    for r in row_order:
        implicit_row = choice["implicit"] and r == prev_r + 1
        out.append("<row>" if implicit_row else '<row r="%d">' % (r + 1))
        prev_c = -1
        for c, v in sorted(rows[r]):
            ref = "" if (choice["implicit"] and c == prev_c + 1) else ' r="%s"' % a1(r, c)
            f = sh["formulas"].get((r, c))
            ftag = "<f>%s</f>" % esc(f) if f else ""
            if v[0] == "n":
                out.append("<c%s>%s<v>%s</v></c>" % (ref, ftag, repr(v[1])))
            elif v[0] == "b":
                out.append('<c%s t="b">%s<v>%d</v></c>' % (ref, ftag, 1 if v[1] else 0))
            elif v[0] in ("e", "x"):
                out.append('<c%s t="e">%s<v>%s</v></c>' % (ref, ftag, esc(v[1])))
            elif f:
                out.append('<c%s t="str">%s<v>%s</v></c>' % (ref, ftag, esc(v[1])))
            elif choice["inline"]:
                out.append('<c%s t="inlineStr"><is><t xml:space="preserve">%s</t></is></c>' % (ref, esc(v[1])))
            else:
                if v[1] not in sst:
                    sst[v[1]] = len(sst)
                out.append('<c%s t="s"><v>%d</v></c>' % (ref, sst[v[1]]))
            prev_c = c
        out.append("</row>")
        prev_r = r
    out.append("</sheetData>")
    if sh["merges"]:
        out.append('<mergeCells count="%d">' % len(sh["merges"]))
        for (r0, c0, r1, c1) in sh["merges"]:
            out.append('<mergeCell ref="%s:%s"/>' % (a1(r0, c0), a1(r1, c1)))
        out.append("</mergeCells>")
    if sh["tables"]:
        out.append('<tableParts count="%d">' % len(sh["tables"]))
        for i in range(len(sh["tables"])):
            out.append('<tablePart r:id="rId%d"/>' % (i + 1))
        out.append("</tableParts>")
    out.append("</worksheet>")
    return "".join(out)


WB_COUNTER = [0]          # xlsx workbooks with tables written so far (every fifth gets an unreadable table part)

def xlsx_bytes(rng, wb):
    if any(sh["tables"] for sh in wb["sheets"]):
        WB_COUNTER[0] += 1
    choice = {"dimension": rng.choice(["exact", "none", "small", "large", "a1", "exact"]),
              "implicit": rng.random() < 0.3, "inline": rng.random() < 0.3}
    choice["shuffle_rows"] = rng.random() < 0.2
    sst = {}
    parts = []
    ct = [DECL, '<Types xmlns="http://schemas.openxmlformats.org/package/2006/content-types">',
          '<Default Extension="rels" ContentType="application/vnd.openxmlformats-package.relationships+xml"/>',
          '<Default Extension="xml" ContentType="application/xml"/>',
          '<Override PartName="/xl/workbook.xml" ContentType="application/vnd.openxmlformats-officedocument.spreadsheetml.sheet.main+xml"/>']
    wbx = [DECL, '<workbook xmlns="%s" xmlns:r="%s"><sheets>' % (NS_MAIN, NS_R)]
    rels = [DECL, '<Relationships xmlns="%s">' % NS_PR]
    tcount = 0
    for i, sh in enumerate(wb["sheets"]):
        wbx.append('<sheet name="%s" sheetId="%d" r:id="rId%d"/>' % (esc(sh["name"]), i + 1, i + 1))
        # an Excel 4.0 macro sheet is a sheet with cells like any other; only its relationship type
        # differs (every read call must treat it alike: range, ref, at, worksheets())
        rtype = "http://schemas.microsoft.com/office/2006/relationships/xlMacrosheet" if (i > 0 and rng.random() < 0.2) else NS_R + "/worksheet"
        rels.append('<Relationship Id="rId%d" Type="%s" Target="worksheets/sheet%d.xml"/>' % (i + 1, rtype, i + 1))
        ct.append('<Override PartName="/xl/worksheets/sheet%d.xml" ContentType="application/vnd.openxmlformats-officedocument.spreadsheetml.worksheet+xml"/>' % (i + 1))
        parts.append(("xl/worksheets/sheet%d.xml" % (i + 1), xlsx_sheet_xml(rng, sh, sst, choice)))
        if sh["tables"]:
            srel = [DECL, '<Relationships xmlns="%s">' % NS_PR]
            for j, (tn, r0, c0, r1, c1, hdr, tot) in enumerate(sh["tables"]):
                tcount += 1
                srel.append('<Relationship Id="rId%d" Type="%s/table" Target="../tables/table%d.xml"/>' % (j + 1, NS_R, tcount))
                # rarely a table part whose reference cannot be read: load_tables fails on this
                # workbook — every time it is called, not only the first time
                tref = "%s:" % a1(r0, c0) if WB_COUNTER[0] % 5 == 2 else "%s:%s" % (a1(r0, c0), a1(r1, c1))
                t = [DECL, '<table xmlns="%s" id="%d" name="%s" displayName="%s" ref="%s"' % (NS_MAIN, tcount, tn, tn, tref)]
                if hdr != 1:
                    t.append(' headerRowCount="%d"' % hdr)
                if tot:
                    t.append(' totalsRowCount="%d"' % tot)
                t.append('><tableColumns count="%d">' % (c1 - c0 + 1))
                for c in range(c0, c1 + 1):
                    t.append('<tableColumn id="%d" name="col%d"/>' % (c - c0 + 1, c))
                t.append("</tableColumns></table>")
                parts.append(("xl/tables/table%d.xml" % tcount, "".join(t)))
            srel.append("</Relationships>")
            parts.append(("xl/worksheets/_rels/sheet%d.xml.rels" % (i + 1), "".join(srel)))
    wbx.append("</sheets>")
    if wb["names"]:
        wbx.append("<definedNames>")
        for n, t in wb["names"]:
            wbx.append('<definedName name="%s">%s</definedName>' % (esc(n), esc(t)))
        wbx.append("</definedNames>")
    wbx.append("</workbook>")
    nsh = len(wb["sheets"])
    rels.append('<Relationship Id="rId%d" Type="%s/sharedStrings" Target="sharedStrings.xml"/>' % (nsh + 1, NS_R))
    rels.append("</Relationships>")
    ct.append("</Types>")
    sstx = [DECL, '<sst xmlns="%s" count="%d" uniqueCount="%d">' % (NS_MAIN, len(sst), len(sst))]
    for s, _ in sorted(sst.items(), key=lambda kv: kv[1]):
        sstx.append('<si><t xml:space="preserve">%s</t></si>' % esc(s))
    sstx.append("</sst>")
    top = [DECL, '<Relationships xmlns="%s"><Relationship Id="rId1" Type="%s/officeDocument" Target="xl/workbook.xml"/></Relationships>' % (NS_PR, NS_R)]
    allparts = [("[Content_Types].xml", "".join(ct)), ("_rels/.rels", "".join(top)), ("xl/workbook.xml", "".join(wbx)),
                ("xl/_rels/workbook.xml.rels", "".join(rels)), ("xl/sharedStrings.xml", "".join(sstx))] + parts
    return zip_pack(rng, allparts), choice


def zip_pack(rng, parts, prefix=b""):
    bio = io.BytesIO()
    bio.write(prefix)
    with zipfile.ZipFile(bio, "a" if prefix else "w") as z:
        for name, body in parts:
            zi = zipfile.ZipInfo(name, date_time=(2020, 1, 1, 0, 0, 0))
            zi.compress_type = zipfile.ZIP_DEFLATED if rng.random() < 0.6 else zipfile.ZIP_STORED
            z.writestr(zi, body if isinstance(body, bytes) else body.encode("utf-8"))
    return bio.getvalue()


# ----------------------------------------------------------------------------- ods

def ods_bytes(rng, wb):
    T = "urn:oasis:names:tc:opendocument:xmlns:table:1.0"
    O = "urn:oasis:names:tc:opendocument:xmlns:office:1.0"
    X = "urn:oasis:names:tc:opendocument:xmlns:text:1.0"
    out = ['<?xml version="1.0" encoding="UTF-8"?>',
           '<office:document-content xmlns:office="%s" xmlns:table="%s" xmlns:text="%s" office:version="1.2"><office:body><office:spreadsheet>' % (O, T, X)]
    for sh in wb["sheets"]:
        out.append('<table:table table:name="%s">' % esc(sh["name"]))
        cells = sh["cells"]
        if cells:
            maxr = max(p[0] for p in cells); maxc = max(p[1] for p in cells)
            r = 0
            while r <= maxr:
                rowcells = {c: v for (rr, c), v in cells.items() if rr == r}
                if not rowcells:
                    k = r
                    while k <= maxr and not any(rr == k for (rr, _c) in cells):
                        k += 1
                    out.append('<table:table-row table:number-rows-repeated="%d"><table:table-cell table:number-columns-repeated="%d"/></table:table-row>' % (k - r, maxc + 1))
                    r = k
                    continue
                out.append("<table:table-row>")
                c = 0
                while c <= max(rowcells):
                    if c not in rowcells:
                        k = c
                        while k not in rowcells:
                            k += 1
                        out.append('<table:table-cell table:number-columns-repeated="%d"/>' % (k - c) if k - c > 1 else "<table:table-cell/>")
                        c = k
                        continue
                    v = rowcells[c]
                    f = sh["formulas"].get((r, c))
                    fa = ' table:formula="of:=%s"' % esc(f) if f else ""
                    if v[0] == "n":
                        out.append('<table:table-cell%s office:value-type="float" office:value="%s"><text:p>%s</text:p></table:table-cell>' % (fa, repr(v[1]), repr(v[1])))
                    elif v[0] == "b":
                        out.append('<table:table-cell%s office:value-type="boolean" office:boolean-value="%s"><text:p>%s</text:p></table:table-cell>' % (fa, "true" if v[1] else "false", "TRUE" if v[1] else "FALSE"))
                    else:
                        s = v[1]
                        out.append('<table:table-cell%s office:value-type="string"><text:p>%s</text:p></table:table-cell>' % (fa, esc(s)))
                    c += 1
                out.append("</table:table-row>")
                r += 1
        else:
            out.append("<table:table-row><table:table-cell/></table:table-row>")
        out.append("</table:table>")
    out.append("</office:spreadsheet></office:body></office:document-content>")
    manifest = ('<?xml version="1.0" encoding="UTF-8"?><manifest:manifest xmlns:manifest="urn:oasis:names:tc:opendocument:xmlns:manifest:1.0">'
                '<manifest:file-entry manifest:full-path="/" manifest:media-type="application/vnd.oasis.opendocument.spreadsheet"/>'
                '<manifest:file-entry manifest:full-path="content.xml" manifest:media-type="text/xml"/></manifest:manifest>')
    bio = io.BytesIO()
    with zipfile.ZipFile(bio, "w") as z:
        zi = zipfile.ZipInfo("mimetype", date_time=(2020, 1, 1, 0, 0, 0)); zi.compress_type = zipfile.ZIP_STORED
        z.writestr(zi, "application/vnd.oasis.opendocument.spreadsheet")
        for name, body in (("content.xml", "".join(out)), ("META-INF/manifest.xml", manifest)):
            zi = zipfile.ZipInfo(name, date_time=(2020, 1, 1, 0, 0, 0))
            zi.compress_type = zipfile.ZIP_DEFLATED if rng.random() < 0.6 else zipfile.ZIP_STORED
            z.writestr(zi, body.encode("utf-8"))
    return bio.getvalue()


# ----------------------------------------------------------------------------- xls

def xls_bytes(rng, wb):
    import xlsgen
    sst = []
    sheets = []
    for sh in wb["sheets"]:
        cells = []
        for (r, c), v in sorted(sh["cells"].items()):
            if r >= 65536 or c >= 256:
                continue
            if v[0] == "n":
                cells.append({"k": "number", "v": v[1], "r": r, "c": c})
            elif v[0] == "b":
                cells.append({"k": "bool", "v": v[1], "r": r, "c": c})
            elif v[0] == "e":
                cells.append({"k": "error", "code": {"#DIV/0!": 7, "#N/A": 0x2A, "#NAME?": 0x1D, "#NULL!": 0, "#NUM!": 0x24, "#REF!": 0x17, "#VALUE!": 0x0F}[v[1]], "r": r, "c": c})
            else:
                if v[1] not in sst:
                    sst.append(v[1])
                cells.append({"k": "labelsst", "isst": sst.index(v[1]), "r": r, "c": c})
        merges = [(r0, r1, c0, c1) for (r0, c0, r1, c1) in sh["merges"] if r1 < 65536 and c1 < 256]
        name = sh["name"][:31]
        sheets.append({"name": name, "cells": cells, "merges": merges,
                       "dimensions": rng.choice(["exact", "exact", "none"])})
    return xlsgen.write_xls({"sst": sst, "sheets": sheets}, opts={"pad_to": rng.choice([0, 4096])}, rng=rng)



# ----------------------------------------------------------------------------- xlsb (via tools/xlsbgen.py of C03)

def xlsb_bytes(rng, wb):
    import struct, xlsbgen
    ERR = {"#NULL!": 0x00, "#DIV/0!": 0x07, "#VALUE!": 0x0F, "#REF!": 0x17, "#NAME?": 0x1D, "#NUM!": 0x24, "#N/A": 0x2A}
    fr = lambda rid, body: xlsbgen.min_fr(rid, body)
    sheets = []
    for sh in wb["sheets"]:
        items = []
        cells = sh["cells"]
        prev = None
        order = sorted(cells.items())
        if rng.random() < 0.2:
            # BrtRowHdr groups not in ascending row order (cells of a row stay together, in order)
            rws = sorted(set(p[0] for p in cells)); rng.shuffle(rws)
            rank = {r: i for i, r in enumerate(rws)}
            order = sorted(cells.items(), key=lambda kv: (rank[kv[0][0]], kv[0][1]))
        use_short = rng.random() < 0.5
        prevc = None
        for (r, c), v in order:
            if r != prev:
                it = {"k": "row", "row": r, "tail": b"\0" * 13}
                it["fr"] = fr(0, xlsbgen.item_body(it))
                items.append(it)
                prev = r
                prevc = None
            if v[0] == "n":
                val = ("real", struct.unpack("<Q", struct.pack("<d", v[1]))[0])
            elif v[0] == "b":
                val = ("bool", v[1])
            elif v[0] == "e":
                val = ("err", ERR[v[1]])
            else:
                val = ("st", v[1])
            if prevc is not None and c == prevc + 1 and use_short:
                # SheetJS style: a cell that directly follows another one is a short cell record
                it = {"k": "short", "style": 0, "fl": 0, "v": val, "tail": b""}
            else:
                it = {"k": "cell", "col": c, "style": 0, "fl": 0, "v": val, "tail": b""}
            it["fr"] = fr(xlsbgen.item_id(it), xlsbgen.item_body(it))
            items.append(it)
            prevc = c
        if cells:
            rs = [p[0] for p in cells]; cs = [p[1] for p in cells]
            box = (min(rs), min(cs), max(rs), max(cs))
        else:
            box = (0, 0, 0, 0)
        d = rng.choice(["exact", "small", "large", "absent"])   # BrtWsDim is optional
        if d == "small":
            box = (box[0], box[1], box[0] + (box[2] - box[0]) // 2, box[1] + (box[3] - box[1]) // 2)
        elif d == "large":
            box = (0, 0, box[2] + 5, box[3] + 2)
        dim_body = struct.pack("<IIII", box[0], box[2], box[1], box[3])
        d_rec = None if d == "absent" else {"fr": fr(0x94, dim_body), "d": box, "tail": b""}
        L = {"pre1": [("R", {"fr": fr(0x81, b""), "id": 0x81, "body": b""})],
             "dim": d_rec,
             "pre2": [], "begin": (fr(0x91, b""), b""), "items": items, "end": (fr(0x92, b""), b""), "trailer": b""}
        sheets.append((sh["name"][:31], xlsbgen.enc_layout(L)))
    if len(sheets) >= 2 and rng.random() < 0.3:
        # a sheet whose part cannot be read as a worksheet (no BrtBeginSheetData: what a chart sheet
        # part looks like to the cell reader), placed BEFORE a readable one: reading it fails, the
        # sheets after it must still be paired with their own cells
        k = rng.randrange(0, len(sheets) - 1)
        stub = b"".join(xlsbgen.frame(xlsbgen.min_fr(rid, b""), rid, b"") for rid in (0x81, 0x82))
        sheets[k] = (sheets[k][0], stub)
    env = {"fmts": [0], "xf_ids": [0], "customs": [], "d1904": False, "strings": []}
    return xlsbgen.package_bytes(sheets, env, sst=None, compress=rng.random() < 0.6)

# ----------------------------------------------------------------------------- driver

def generate(ctx, n=20, formats=("xlsx", "ods", "xls", "xlsb")):
    rng = ctx.rng
    d = os.path.join(vlib.tmpdir(ctx), "gensheets")
    os.makedirs(d, exist_ok=True)
    res = []
    for k in range(n):
        wb = gen_workbook(rng)
        if "xlsx" in formats:
            data, choice = xlsx_bytes(rng, wb)
            p = os.path.join(d, "g%d.xlsx" % k)
            open(p, "wb").write(data)
            res.append(("xlsx", p))
            ctx.count("gen:xlsx:dimension=" + choice["dimension"])
            if rng.random() < 0.25:
                # the same package behind leading bytes (legal for zip: located from the end)
                p2 = os.path.join(d, "g%dpre.xlsx" % k)
                with zipfile.ZipFile(io.BytesIO(data)) as z:
                    parts = [(i.filename, z.read(i.filename)) for i in z.infolist()]
                open(p2, "wb").write(zip_pack(rng, parts, prefix=b"#!stub " + bytes(rng.randrange(32, 127) for _ in range(rng.randrange(1, 40))) + b"\n"))
                res.append(("xlsx", p2))
                ctx.count("gen:xlsx:prefixed")
        if "ods" in formats:
            p = os.path.join(d, "g%d.ods" % k)
            open(p, "wb").write(ods_bytes(rng, wb))
            res.append(("ods", p))
        if "xls" in formats:
            try:
                p = os.path.join(d, "g%d.xls" % k)
                open(p, "wb").write(xls_bytes(rng, wb))
                res.append(("xls", p))
            except Exception as e:           # generator limitation, never a finding
                ctx.count("gen:xls:skipped")
        if "xlsb" in formats:
            try:
                p = os.path.join(d, "g%d.xlsb" % k)
                open(p, "wb").write(xlsb_bytes(rng, wb))
                res.append(("xlsb", p))
            except Exception as e:           # generator limitation, never a finding
                ctx.count("gen:xlsb:skipped")
                ctx.notes.append("xlsb generation skipped: %r" % (e,)) if len(ctx.notes) < 3 else None
    return res
