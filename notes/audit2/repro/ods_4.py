# ods_4: value forms, table structure, hidden sheets, external-reference cache tables, header rows
import sys; sys.path.insert(0, '/tmp/ag/audit2'); sys.path.insert(0, '/tmp/ag/audit2/repro')
from vhrun import vh, hx
from odslib import write_ods
S = hx('S1')
def row(*cells): return '<table:table-row>' + ''.join(cells) + '</table:table-row>'
def tab(name, rows, attrs=''): return '<table:table table:name="%s"%s>%s</table:table>' % (name, attrs, rows)

# --- A: value forms (one row) ---
cells = [
 # LibreOffice error cell
 '<table:table-cell table:formula="of:=1/0" office:value-type="string" office:string-value="" calcext:value-type="error"><text:p>#DIV/0!</text:p></table:table-cell>',
 # older LibreOffice / OOo error cell: float 0 + text Err
 '<table:table-cell table:formula="of:=#N/A" office:value-type="float" office:value="0"><text:p>#N/A</text:p></table:table-cell>',
 # formula, no cached value
 '<table:table-cell table:formula="of:=[.A1]+1"/>',
 '<table:table-cell office:value-type="percentage" office:value="0.5" calcext:value-type="percentage"><text:p>50%</text:p></table:table-cell>',
 '<table:table-cell office:value-type="currency" office:currency="EUR" office:value="12.5"><text:p>12,50 EUR</text:p></table:table-cell>',
 '<table:table-cell office:value-type="boolean" office:boolean-value="true"><text:p>TRUE</text:p></table:table-cell>',
 '<table:table-cell office:value-type="date" office:date-value="2024-02-29"><text:p>29.02.24</text:p></table:table-cell>',
 '<table:table-cell office:value-type="time" office:time-value="PT12H30M00S"><text:p>12:30</text:p></table:table-cell>',
 # string-value attribute wins over content
 '<table:table-cell office:value-type="string" office:string-value="attr"><text:p>shown</text:p></table:table-cell>',
 # attribute order: value before type, style in between
 '<table:table-cell office:value="7" table:style-name="ce1" office:value-type="float"><text:p>7</text:p></table:table-cell>',
 # string-value before the type
 '<table:table-cell office:string-value="sv" office:value-type="string"/>',
 '<table:table-cell office:value-type="void"/>',
 # merged origin with spans + covered cells with content
 '<table:table-cell table:number-columns-spanned="2" table:number-rows-spanned="1" office:value-type="string"><text:p>m</text:p></table:table-cell>',
 '<table:covered-table-cell office:value-type="float" office:value="9"><text:p>9</text:p></table:covered-table-cell>',
 '<table:table-cell table:number-matrix-columns-spanned="1" table:number-matrix-rows-spanned="1" table:formula="of:=SUM([.A1:.B1])" office:value-type="float" office:value="3"><text:p>3</text:p></table:table-cell>',
]
p = write_ods('ods_4_values.ods', tab('S1', row(*cells)))
print('values ', vh('ods', p, ['range ' + S, 'formula ' + S]))

# --- B: structure: title/desc/source/forms/shapes, columns groups, header rows, nested row groups,
#        soft-page-break, conditional formats; hidden sheet through the style; sheet without style ---
auto = ('<style:style style:name="co1" style:family="table-column"><style:table-column-properties style:column-width="2cm"/></style:style>'
        '<style:style style:name="ta1" style:family="table" style:master-page-name="Default"><style:table-properties table:display="true" style:writing-mode="lr-tb"/></style:style>'
        '<style:style style:name="ta2" style:family="table" style:master-page-name="Default"><style:table-properties table:display="false" style:writing-mode="lr-tb"/></style:style>'
        '<style:style style:name="ta_extref" style:family="table"><style:table-properties table:display="false"/></style:style>'
        '<style:style style:name="ce1" style:family="table-cell"><style:table-cell-properties fo:background-color="#ffff00" xmlns:fo="urn:oasis:names:tc:opendocument:xmlns:xsl-fo-compatible:1.0"/></style:style>')
c = lambda v: '<table:table-cell office:value-type="float" office:value="%d"><text:p>%d</text:p></table:table-cell>' % (v, v)
e = '<table:table-cell table:number-columns-repeated="3"/>'
rows = ('<table:title>t</table:title><table:desc>d</table:desc>'
        '<office:forms form:automatic-focus="false" form:apply-design-mode="false" xmlns:form="urn:oasis:names:tc:opendocument:xmlns:form:1.0"/>'
        '<table:shapes><draw:frame draw:name="f"><draw:text-box><text:p>page anchored</text:p></draw:text-box></draw:frame></table:shapes>'
        '<table:table-column-group><table:table-header-columns><table:table-column table:style-name="co1"/></table:table-header-columns>'
        '<table:table-columns><table:table-column table:number-columns-repeated="2"/></table:table-columns></table:table-column-group>'
        '<table:table-header-rows>' + row(c(1), c(2)) + '</table:table-header-rows>'
        '<table:table-row-group table:display="false">' + row(e) +
        '<table:table-row-group><table:table-rows>' + row(c(3)) + '<text:soft-page-break/>' + row(e, c(4)) + '</table:table-rows></table:table-row-group>'
        '</table:table-row-group>' +
        '<table:table-row table:number-rows-repeated="2" table:visibility="collapse">' + c(5) + '</table:table-row>' +
        '<table:table-row table:number-rows-repeated="1048000">' + '<table:table-cell table:number-columns-repeated="16384"/>' + '</table:table-row>' +
        '<calcext:conditional-formats><calcext:conditional-format calcext:target-range-address="S1.A1:S1.A2"><calcext:condition calcext:apply-style-name="ce1" calcext:value="=1" calcext:base-cell-address="S1.A1"/></calcext:conditional-format></calcext:conditional-formats>')
body = ('<table:calculation-settings table:case-sensitive="false"><table:null-date table:date-value="1904-01-01"/></table:calculation-settings>'
        '<table:content-validations><table:content-validation table:name="val1" table:condition="of:cell-content-is-in-list(&quot;a&quot;;&quot;b&quot;)"/></table:content-validations>'
        + tab('S1', rows, ' table:style-name="ta1" table:print="false" table:protected="true"')
        + tab('Hid', row(c(1)), ' table:style-name="ta2"')
        + tab('NoStyle', row(c(1)))
        # LibreOffice's cache of an external reference ='file:///tmp/o.ods'#$Sheet1.A1
        + tab("'file:///tmp/o.ods'#Sheet1", '<table:table-source xlink:type="simple" xlink:href="o.ods" table:table-name="Sheet1" table:mode="copy-results-only"/><table:table-column/>' + row(c(42)), ' table:print="false" table:style-name="ta_extref"')
        + '<table:named-expressions><table:named-range table:name="nr" table:base-cell-address="$S1.$A$1" table:cell-range-address="$S1.$A$1:.$B$2" table:range-usable-as="none"/>'
          '<table:named-expression table:name="ne" table:base-cell-address="$S1.$A$1" table:expression="[$S1.$A$1]*2"/></table:named-expressions>'
        + '<table:database-ranges><table:database-range table:name="db" table:target-range-address="S1.A1:S1.B2"/></table:database-ranges>')
p = write_ods('ods_4_struct.ods', body, auto)
print('struct ', vh('ods', p, ['meta', 'names', 'range ' + S, 'hdr 0', 'range ' + S, 'hdr 3', 'range ' + S, 'hdr 4', 'range ' + S, 'hdr 99', 'range ' + S, 'hdr -', 'range ' + S]))
