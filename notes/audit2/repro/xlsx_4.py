# P4: the workbook part is not xl/workbook.xml (OPC: found through _rels/.rels officeDocument relationship)
from xlsx_base import *
rootrels = DECL + '<Relationships xmlns="%s"><Relationship Id="rId1" Type="%s/officeDocument" Target="xl/book.xml"/></Relationships>' % (PR, RNS)
parts = [('[Content_Types].xml', CT.replace('/xl/workbook.xml', '/xl/book.xml')), ('_rels/.rels', rootrels), ('xl/book.xml', workbook()),
         ('xl/_rels/book.xml.rels', wbrels()), ('xl/worksheets/sheet1.xml', sheet('<row r="1"><c r="A1"><v>1</v></c></row>'))]
mkzip(OUT + 'xlsx_4_workbook_elsewhere.xlsx', parts); run(OUT + 'xlsx_4_workbook_elsewhere.xlsx')
# 4b: workbook at root (Target="workbook.xml")
rootrels = DECL + '<Relationships xmlns="%s"><Relationship Id="rId1" Type="%s/officeDocument" Target="workbook.xml"/></Relationships>' % (PR, RNS)
parts = [('[Content_Types].xml', CT.replace('/xl/', '/')), ('_rels/.rels', rootrels), ('workbook.xml', workbook()),
         ('_rels/workbook.xml.rels', wbrels()), ('worksheets/sheet1.xml', sheet('<row r="1"><c r="A1"><v>1</v></c></row>'))]
mkzip(OUT + 'xlsx_4b_workbook_root.xlsx', parts); run(OUT + 'xlsx_4b_workbook_root.xlsx')
