(* BiffRec_proofs.v — theorems about the BIFF8 sheet model of BiffRec.v.
   Everything is proved for all rows/columns/payloads/strings/layouts by induction and
   arithmetic; no sampling.  No axioms.  The one external ingredient is the specification of
   Range::from_sparse (Range_proofs.from_sparse_spec, property C05), which enters the section
   [Main] as a hypothesis with exactly that statement and is discharged in Properties/C02.v. *)
From Calamine Require Import Prelude Range Range_spec Range_proofs RK RK_proofs BiffRec.
Open Scope N_scope.
Set Implicit Arguments.
Set Default Proof Using "Type".

(* ---------- reading fields back ---------- *)
Lemma le2 : forall v, le_bytes 2 v = [v mod 256; v / 256 mod 256].
Proof. reflexivity. Qed.

Lemma u16_le : forall v, v < 65536 -> u16 (v mod 256) (v / 256 mod 256) = v.
Proof. intros v H. unfold u16. lia. Qed.

Lemma rd_cons : forall k off x r, rd k (S off) (x :: r) = rd k off r.
Proof. reflexivity. Qed.

Lemma rd_app_skip : forall k (a r : list N) off, length a = off -> rd k off (a ++ r) = rd k 0 r.
Proof.
  intros k a r off H. unfold rd. subst off. rewrite skipn_app, skipn_all, Nat.sub_diag. reflexivity.
Qed.

Lemma rd_le : forall k v r, rd k 0 (le_bytes k v ++ r) = v mod 256 ^ N.of_nat k.
Proof.
  intros k v r. unfold rd. cbn [skipn].
  rewrite firstn_app, le_bytes_length, Nat.sub_diag, firstn_O, app_nil_r.
  rewrite firstn_all2 by (rewrite le_bytes_length; lia). apply le_val_le_bytes.
Qed.

Lemma rd_le_nil : forall k v, rd k 0 (le_bytes k v) = v mod 256 ^ N.of_nat k.
Proof. intros k v. rewrite <- (app_nil_r (le_bytes k v)). apply rd_le. Qed.

Lemma rd2 : forall v r, v < 65536 -> rd 2 0 (le_bytes 2 v ++ r) = v.
Proof. intros v r H. rewrite rd_le. change (256 ^ N.of_nat 2) with 65536. apply N.mod_small, H. Qed.
Lemma rd4 : forall v r, v < 4294967296 -> rd 4 0 (le_bytes 4 v ++ r) = v.
Proof. intros v r H. rewrite rd_le. change (256 ^ N.of_nat 4) with 4294967296. apply N.mod_small, H. Qed.
Lemma rd8 : forall v r, v < 18446744073709551616 -> rd 8 0 (le_bytes 8 v ++ r) = v.
Proof.
  intros v r H. rewrite rd_le. change (256 ^ N.of_nat 8) with 18446744073709551616.
  apply N.mod_small, H.
Qed.

Lemma lenN_app : forall (A : Type) (a b : list A), lenN (a ++ b) = lenN a + lenN b.
Proof. intros A a b. unfold lenN. rewrite app_length. lia. Qed.
Lemma lenN_cons : forall (A : Type) (x : A) l, lenN (x :: l) = 1 + lenN l.
Proof. intros A x l. unfold lenN. cbn [length]. lia. Qed.
Lemma lenN_nil : forall A : Type, lenN (@nil A) = 0.
Proof. reflexivity. Qed.
Lemma lenN_le : forall k v, lenN (le_bytes k v) = N.of_nat k.
Proof. intros k v. unfold lenN. now rewrite le_bytes_length. Qed.

(* ---------- framing ---------- *)
Lemma take_n_app : forall d rest, take_n (d ++ rest) (lenN d) = Some (d, rest).
Proof.
  induction d as [|x d IH]; intros rest.
  - cbn [app]. destruct rest; reflexivity.
  - cbn [app take_n]. rewrite lenN_cons.
    destruct (1 + lenN d =? 0) eqn:E; [lia|].
    replace (1 + lenN d - 1) with (lenN d) by lia. rewrite IH. reflexivity.
Qed.

Lemma take_n_short : forall s n, lenN s < n -> take_n s n = None.
Proof.
  induction s as [|x s IH]; intros n H.
  - cbn [take_n]. destruct (n =? 0) eqn:E; [rewrite lenN_nil in H; lia|reflexivity].
  - cbn [take_n]. rewrite lenN_cons in H. destruct (n =? 0) eqn:E; [lia|].
    rewrite IH by lia. reflexivity.
Qed.

Lemma take_n_Some : forall s n a b, take_n s n = Some (a, b) -> s = a ++ b /\ lenN a = n.
Proof.
  induction s as [|x s IH]; intros n a b H; cbn [take_n] in H.
  - destruct (n =? 0) eqn:E; [|discriminate]. inversion H; subst. split; [reflexivity|].
    rewrite lenN_nil. lia.
  - destruct (n =? 0) eqn:E.
    + inversion H; subst. split; [reflexivity|]. rewrite lenN_nil. lia.
    + destruct (take_n s (n - 1)) as [[a' b']|] eqn:T; [|discriminate].
      inversion H; subst. destruct (IH _ _ _ T) as [-> L]. split; [reflexivity|].
      rewrite lenN_cons. lia.
Qed.

(* a stream that continues with a record of type t <> CONTINUE does not start a CONTINUE run *)
Lemma starts_cont_frame : forall t d rest, t < 65536 -> t <> 60 ->
  starts_cont (frame t d ++ rest) = false.
Proof.
  intros t d rest Ht Hne. unfold frame. rewrite !le2. cbn [app starts_cont].
  destruct (d ++ rest) as [|x l].
  - reflexivity.
  - rewrite u16_le by exact Ht. apply N.eqb_neq. exact Hne.
Qed.

Lemma next_record_frame : forall fuel t d rest, t < 65536 -> lenN d < 65536 ->
  starts_cont rest = false ->
  next_record fuel (frame t d ++ rest) = Some (Ok (mkRec t d None, rest)).
Proof.
  intros fuel t d rest Ht Hd Hs. unfold frame. rewrite !le2. cbn [app next_record].
  rewrite !u16_le by assumption. rewrite take_n_app. rewrite Hs. reflexivity.
Qed.

(* ---------- BOOLERR: the error-code table is one-to-one ---------- *)
Theorem parse_err_code : forall e, parse_err (err_code e) = Ok (DError e).
Proof. destruct e; reflexivity. Qed.

Theorem parse_err_inv : forall b e, parse_err b = Ok (DError e) -> b = err_code e.
Proof.
  intros b e H. unfold parse_err in H.
  repeat match type of H with
         | (if ?b =? ?k then _ else _) = _ =>
             let E := fresh "E" in destruct (b =? k) eqn:E;
             [apply N.eqb_eq in E; subst b; inversion H; reflexivity|]
         end.
  discriminate.
Qed.

Theorem parse_err_total : forall b,
  (exists e, parse_err b = Ok (DError e) /\ b = err_code e) \/ parse_err b = Err 1.
Proof.
  intros b. unfold parse_err.
  repeat match goal with
         | |- context [if ?x =? ?k then _ else _] =>
             let E := fresh "E" in destruct (x =? k) eqn:E;
             [apply N.eqb_eq in E; subst x; left; eexists; split; reflexivity|]
         end.
  right. reflexivity.
Qed.

Lemma err_code_inj : forall e1 e2, err_code e1 = err_code e2 -> e1 = e2.
Proof. intros e1 e2 H. destruct e1, e2; cbn in H; try reflexivity; discriminate. Qed.

Lemma err_code_byte : forall e, err_code e < 256.
Proof. destruct e; cbn; lia. Qed.

Section Biff.
Variable fdiv100 : N -> N.
Variable decode16 : list N -> list N.
Variable en : env.

(* keep lia from capturing section variables the statement does not mention *)
Ltac lia := try clear fdiv100; try clear decode16; try clear en; Lia.lia.

Notation parse_number := (parse_number en).
Notation parse_rk := (parse_rk fdiv100 en).
Notation parse_mul_rk := (parse_mul_rk fdiv100 en).
Notation mulrk_cells := (mulrk_cells fdiv100 en).
Notation parse_label_sst := (parse_label_sst en).
Notation parse_string := (parse_string decode16).
Notation parse_label := (parse_label decode16).
Notation step := (step fdiv100 decode16 en).
Notation sheet_loop := (sheet_loop fdiv100 decode16 en).
Notation item_cells := (item_cells fdiv100 decode16 en).
Notation num_data := (num_data en).
Notation mulrk_denote := (mulrk_denote fdiv100 en).
Notation str_text := (str_text decode16).

Lemma wf_cell_split : forall row col ixfe, wf_cell row col ixfe = true ->
  row < 65536 /\ col < 256 /\ ixfe < 65536.
Proof. intros row col ixfe H. unfold wf_cell in H. lia. Qed.

(* reading the common 6-byte cell header *)
Lemma head_fields : forall row col ixfe r, row < 65536 -> col < 65536 -> ixfe < 65536 ->
  rd 2 0 (cell_head row col ixfe ++ r) = row /\
  rd 2 2 (cell_head row col ixfe ++ r) = col /\
  rd 2 4 (cell_head row col ixfe ++ r) = ixfe.
Proof.
  intros row col ixfe r Hr Hc Hi. unfold cell_head. rewrite <- !app_assoc. repeat split.
  - apply rd2, Hr.
  - rewrite rd_app_skip by apply le_bytes_length. apply rd2, Hc.
  - rewrite (le2 row), (le2 col). cbn [app]. rewrite !rd_cons. apply rd2, Hi.
Qed.

Lemma lenN_head : forall row col ixfe, lenN (cell_head row col ixfe) = 6.
Proof. reflexivity. Qed.

(* ---------- NUMBER ---------- *)
Theorem parse_number_enc : forall row col ixfe bits,
  row < 65536 -> col < 65536 -> ixfe < 65536 -> bits < 18446744073709551616 ->
  parse_number (cell_head row col ixfe ++ le_bytes 8 bits) =
    Ok [((row, col), num_data ixfe (RFloat bits))].
Proof.
  intros row col ixfe bits Hr Hc Hi Hb. unfold BiffRec.parse_number.
  rewrite lenN_app, lenN_head, lenN_le. cbn [N.of_nat Pos.of_succ_nat Pos.succ].
  destruct (6 + 8 <? 14) eqn:E; [lia|].
  destruct (head_fields (le_bytes 8 bits) Hr Hc Hi) as (-> & -> & ->).
  rewrite rd_app_skip by reflexivity. rewrite rd_le_nil.
  change (256 ^ N.of_nat 8) with 18446744073709551616. rewrite N.mod_small by exact Hb.
  reflexivity.
Qed.

(* ---------- RK ---------- *)
Theorem parse_rk_enc : forall row col ixfe f,
  row < 65536 -> col < 65536 -> ixfe < 65536 -> legal_form f = true ->
  parse_rk (le_bytes 2 row ++ le_bytes 2 col ++ enc_rkrec (ixfe, f)) =
    Ok [((row, col), num_data ixfe (rk_form_value fdiv100 f))].
Proof.
  intros row col ixfe f Hr Hc Hi Hf. unfold BiffRec.parse_rk, enc_rkrec. cbn [fst snd].
  rewrite !lenN_app, !lenN_le. cbn [N.of_nat Pos.of_succ_nat Pos.succ].
  destruct (2 + (2 + (2 + 4)) <? 10) eqn:E; [lia|].
  rewrite rd2 by exact Hr.
  rewrite rd_app_skip by apply le_bytes_length. rewrite rd2 by exact Hc.
  rewrite (le2 row), (le2 col). cbn [app skipn].
  rewrite firstn_all2 by (rewrite app_length, !le_bytes_length; cbn; lia).
  rewrite rk_num_bytes by first [exact Hi | apply rk_encode_lt; exact Hf].
  rewrite rk_roundtrip by exact Hf. reflexivity.
Qed.

(* ---------- MULRK ---------- *)
Lemma rkrec_length : forall x, length (enc_rkrec x) = 6%nat.
Proof. intros x. unfold enc_rkrec. rewrite app_length, !le_bytes_length. reflexivity. Qed.

Lemma rk_chunks_enc : forall rks,
  rk_chunks (flat_map enc_rkrec rks) = map enc_rkrec rks.
Proof.
  induction rks as [|x rks IH]; [reflexivity|].
  cbn [flat_map map]. unfold enc_rkrec at 1. rewrite le2.
  cbn [le_bytes app rk_chunks]. rewrite IH. unfold enc_rkrec at 2. rewrite le2. reflexivity.
Qed.

Lemma flat_rkrec_length : forall rks, length (flat_map enc_rkrec rks) = (6 * length rks)%nat.
Proof.
  induction rks as [|x rks IH]; [reflexivity|].
  cbn [flat_map length]. rewrite app_length, rkrec_length, IH. lia.
Qed.

Lemma mulrk_cells_enc : forall rks row col,
  forallb (fun x => (fst x <? 65536) && legal_form (snd x)) rks = true ->
  mulrk_cells row col (map enc_rkrec rks) = Ok (mulrk_denote row col rks).
Proof.
  induction rks as [|[ixfe f] rks IH]; intros row col H; [reflexivity|].
  cbn [forallb fst snd] in H. apply andb_true_iff in H as [Hx Hrest].
  apply andb_true_iff in Hx as [Hi Hf].
  cbn [map BiffRec.mulrk_cells BiffRec.mulrk_denote]. unfold enc_rkrec at 1. cbn [fst snd].
  rewrite rk_num_bytes by first [lia | apply rk_encode_lt; exact Hf].
  rewrite rk_roundtrip by exact Hf. cbn [obind]. rewrite IH by exact Hrest. reflexivity.
Qed.

(* the body of a MULRK record for the run rks starting at column cf *)
Definition mulrk_body (row cf : N) (rks : list (N * rk_form)) : list N :=
  le_bytes 2 row ++ le_bytes 2 cf ++ flat_map enc_rkrec rks ++ le_bytes 2 (cf + lenN rks - 1).

Theorem parse_mul_rk_enc : forall row cf rks,
  row < 65536 -> 0 < lenN rks -> cf + lenN rks <= 65535 ->
  forallb (fun x => (fst x <? 65536) && legal_form (snd x)) rks = true ->
  parse_mul_rk (mulrk_body row cf rks) = Ok (mulrk_denote row cf rks).
Proof.
  intros row cf rks Hr Hn Hc Hall. unfold BiffRec.parse_mul_rk, mulrk_body.
  set (n := lenN rks) in *.
  assert (Hlen : length (le_bytes 2 row ++ le_bytes 2 cf ++ flat_map enc_rkrec rks
                         ++ le_bytes 2 (cf + n - 1)) = (6 + 6 * length rks)%nat).
  { rewrite !app_length, !le_bytes_length, flat_rkrec_length. lia. }
  assert (HlenN : lenN (le_bytes 2 row ++ le_bytes 2 cf ++ flat_map enc_rkrec rks
                         ++ le_bytes 2 (cf + n - 1)) = 6 + 6 * n).
  { unfold lenN at 1. rewrite Hlen. unfold n, lenN. lia. }
  rewrite HlenN, Hlen.
  destruct (6 + 6 * n <? 6) eqn:E; [lia|].
  rewrite rd2 by exact Hr.
  rewrite (@rd_app_skip 2 (le_bytes 2 row) _ 2) by apply le_bytes_length. rewrite rd2 by lia.
  (* col_last sits in the last two bytes *)
  assert (Hcl : rd 2 (6 + 6 * length rks - 2)
                  (le_bytes 2 row ++ le_bytes 2 cf ++ flat_map enc_rkrec rks
                   ++ le_bytes 2 (cf + n - 1)) = cf + n - 1).
  { rewrite !app_assoc. rewrite rd_app_skip.
    - rewrite rd_le_nil. change (256 ^ N.of_nat 2) with 65536. apply N.mod_small. lia.
    - rewrite !app_length, !le_bytes_length, flat_rkrec_length. lia. }
  rewrite Hcl.
  destruct (cf + n - 1 + 1 <? cf) eqn:E1; [lia|].
  replace (cf + n - 1 + 1 - cf) with n by lia.
  rewrite N.eqb_refl. cbn [negb].
  (* the middle slice is the concatenation of the RkRecs *)
  assert (Hmid : firstn (6 + 6 * length rks - 6)
                   (skipn 4 (le_bytes 2 row ++ le_bytes 2 cf ++ flat_map enc_rkrec rks
                             ++ le_bytes 2 (cf + n - 1))) = flat_map enc_rkrec rks).
  { rewrite (le2 row), (le2 cf). cbn [app skipn].
    rewrite firstn_app, flat_rkrec_length.
    replace (6 + 6 * length rks - 6 - 6 * length rks)%nat with 0%nat by lia.
    rewrite firstn_O, app_nil_r. apply firstn_all2. rewrite flat_rkrec_length. lia. }
  rewrite Hmid, rk_chunks_enc. apply mulrk_cells_enc. exact Hall.
Qed.

(* mulrk_columns: the i-th RkRec lands at (row, col_first + i) with the value of its form *)
Theorem mulrk_denote_nth : forall rks row col i x, nth_error rks i = Some x ->
  nth_error (mulrk_denote row col rks) i =
    Some ((row, col + N.of_nat i), num_data (fst x) (rk_form_value fdiv100 (snd x))).
Proof.
  induction rks as [|y rks IH]; intros row col i x H; [destruct i; discriminate|].
  destruct i as [|i]; cbn [nth_error BiffRec.mulrk_denote] in *.
  - inversion H; subst. rewrite N.add_0_r. reflexivity.
  - rewrite (IH _ _ _ _ H). do 3 f_equal. lia.
Qed.

Lemma mulrk_denote_length : forall rks row col, length (mulrk_denote row col rks) = length rks.
Proof. induction rks as [|y rks IH]; intros; cbn [BiffRec.mulrk_denote length]; auto. Qed.

Theorem mulrk_columns : forall row cf rks i x,
  row < 65536 -> 0 < lenN rks -> cf + lenN rks <= 65535 ->
  forallb (fun x => (fst x <? 65536) && legal_form (snd x)) rks = true ->
  nth_error rks i = Some x ->
  exists cells, parse_mul_rk (mulrk_body row cf rks) = Ok cells /\
    length cells = length rks /\
    nth_error cells i = Some ((row, cf + N.of_nat i), num_data (fst x) (rk_form_value fdiv100 (snd x))).
Proof.
  intros row cf rks i x Hr Hn Hc Hall Hx. exists (mulrk_denote row cf rks). split; [|split].
  - apply parse_mul_rk_enc; assumption.
  - apply mulrk_denote_length.
  - apply mulrk_denote_nth. exact Hx.
Qed.


(* ---------- LABELSST ---------- *)
Theorem parse_label_sst_enc : forall row col ixfe isst,
  row < 65536 -> col < 65536 -> ixfe < 65536 -> isst < 4294967296 ->
  parse_label_sst (cell_head row col ixfe ++ le_bytes 4 isst) =
    Ok (item_cells (ILabelSst row col ixfe isst)).
Proof.
  intros row col ixfe isst Hr Hc Hi Hs. unfold BiffRec.parse_label_sst.
  rewrite lenN_app, lenN_head, lenN_le. cbn [N.of_nat Pos.of_succ_nat Pos.succ].
  destruct (6 + 4 <? 10) eqn:E; [lia|].
  destruct (head_fields (le_bytes 4 isst) Hr Hc Hi) as (-> & -> & _).
  rewrite rd_app_skip by reflexivity. rewrite rd_le_nil.
  change (256 ^ N.of_nat 4) with 4294967296. rewrite N.mod_small by exact Hs.
  cbn [BiffRec.item_cells]. destruct (nthN (e_strings en) isst) as [[|c s]|]; reflexivity.
Qed.

(* ---------- XLUnicodeString (LABEL, STRING) ---------- *)
Lemma utf16le_length : forall units, length (utf16le units) = (2 * length units)%nat.
Proof.
  induction units as [|u l IH]; [reflexivity|].
  unfold utf16le in *. cbn [flat_map length]. rewrite app_length, le_bytes_length, IH. lia.
Qed.

Lemma compressed_expand : forall units, forallb (fun u => u <? 256) units = true ->
  flat_map (fun b => [b; 0]) units = utf16le units.
Proof.
  induction units as [|u l IH]; intros H; [reflexivity|].
  cbn [forallb] in H. apply andb_true_iff in H as [Hu Hl].
  unfold utf16le in *. cbn [flat_map]. rewrite IH by exact Hl. rewrite le2.
  replace (u mod 256) with u by lia. replace (u / 256 mod 256) with 0 by lia. reflexivity.
Qed.

Lemma odd_flag : forall b, N.odd (flag b) = b.
Proof. destruct b; reflexivity. Qed.

Theorem parse_string_enc : forall m s, m <= 65535 -> wf_xlstr m s = true ->
  parse_string (enc_xlstr s) = Ok (str_text s).
Proof.
  intros m [units wide] Hm Hwf. unfold wf_xlstr in Hwf. cbn [s_units s_wide] in *.
  apply andb_true_iff in Hwf as [Hlen Hall].
  unfold BiffRec.parse_string, enc_xlstr, BiffRec.str_text. cbn [s_units s_wide].
  set (n := lenN units) in *.
  rewrite rd2 by lia. rewrite le2. cbn [app nth skipn]. rewrite odd_flag.
  rewrite !lenN_cons.
  destruct wide.
  - assert (Hl : lenN (utf16le units) = 2 * n).
    { unfold lenN at 1. rewrite utf16le_length. unfold n, lenN. lia. }
    rewrite Hl. destruct (1 + (1 + (1 + 2 * n)) <? 3) eqn:E; [lia|].
    replace (2 * n / 2) with n by lia. rewrite N.min_id.
    rewrite firstn_all2; [reflexivity|]. rewrite utf16le_length. unfold n, lenN. lia.
  - fold n. destruct (1 + (1 + (1 + n)) <? 3) eqn:E; [lia|].
    rewrite N.min_id. rewrite firstn_all2 by (unfold n, lenN; lia).
    rewrite compressed_expand by exact Hall. reflexivity.
Qed.

(* the empty string (three bytes: cch = 0 and the flags byte) is read as "" *)
Corollary parse_string_empty : forall wide,
  parse_string (enc_xlstr (mkStr [] wide)) = Ok (decode16 []).
Proof. intros wide. rewrite (@parse_string_enc 0 (mkStr [] wide)); [reflexivity|lia|reflexivity]. Qed.

Theorem parse_label_enc : forall row col ixfe s,
  row < 65536 -> col < 65536 -> ixfe < 65536 -> wf_xlstr 255 s = true ->
  parse_label (cell_head row col ixfe ++ enc_xlstr s) = Ok [((row, col), DString (str_text s))].
Proof.
  intros row col ixfe s Hr Hc Hi Hwf. unfold BiffRec.parse_label.
  rewrite lenN_app, lenN_head.
  destruct (6 + lenN (enc_xlstr s) <? 6) eqn:E; [lia|].
  destruct (head_fields (enc_xlstr s) Hr Hc Hi) as (-> & -> & _).
  unfold cell_head at 1. rewrite !le2. cbn [app skipn].
  rewrite (@parse_string_enc 255 s) by (try lia; assumption). reflexivity.
Qed.

(* ---------- BOOLERR ---------- *)
Theorem parse_bool_enc : forall row col ixfe b, row < 65536 -> col < 65536 -> ixfe < 65536 ->
  parse_bool_err (cell_head row col ixfe ++ [flag b; 0]) = Ok [((row, col), DBool b)].
Proof.
  intros row col ixfe b Hr Hc Hi. unfold parse_bool_err.
  destruct (head_fields [flag b; 0] Hr Hc Hi) as (-> & -> & _).
  unfold cell_head. rewrite !le2. cbn [app nth lenN length N.of_nat Pos.of_succ_nat Pos.succ].
  destruct b; reflexivity.
Qed.

Theorem parse_errcell_enc : forall row col ixfe e, row < 65536 -> col < 65536 -> ixfe < 65536 ->
  parse_bool_err (cell_head row col ixfe ++ [err_code e; 1]) = Ok [((row, col), DError e)].
Proof.
  intros row col ixfe e Hr Hc Hi. unfold parse_bool_err.
  destruct (head_fields [err_code e; 1] Hr Hc Hi) as (-> & -> & _).
  unfold cell_head. rewrite !le2. cbn [app nth lenN length N.of_nat Pos.of_succ_nat Pos.succ].
  cbn [N.ltb N.compare Pos.compare Pos.compare_cont N.eqb Pos.eqb].
  rewrite parse_err_code. reflexivity.
Qed.

(* bool_err_table: a BOOLERR body decodes to Bool / the error of its code, one-to-one, and to
   nothing else *)
Theorem bool_err_table : forall row col ixfe v f, row < 65536 -> col < 65536 -> ixfe < 65536 ->
  v < 256 -> f < 256 ->
  parse_bool_err (cell_head row col ixfe ++ [v; f]) =
    if f =? 0 then Ok [((row, col), DBool (negb (v =? 0)))]
    else if f =? 1 then
      match parse_err v with
      | Ok d => Ok [((row, col), d)]
      | _ => Err 1
      end
    else Err 1.
Proof.
  intros row col ixfe v f Hr Hc Hi Hv Hf. unfold parse_bool_err.
  destruct (head_fields [v; f] Hr Hc Hi) as (-> & -> & _).
  unfold cell_head. rewrite !le2. cbn [app nth lenN length N.of_nat Pos.of_succ_nat Pos.succ].
  cbn [N.ltb N.compare Pos.compare Pos.compare_cont].
  destruct (f =? 0); [reflexivity|]. destruct (f =? 1); [|reflexivity].
  destruct (parse_err_total v) as [(e & -> & _)| ->]; reflexivity.
Qed.

(* ---------- FormulaValue ---------- *)
Definition cached_result (c : cached) : option data :=
  match c with
  | CStr _ _ => None                    (* the value comes with the STRING record *)
  | _ => Some (cached_data decode16 c)
  end.

Lemma le8 : forall v, le_bytes 8 v =
  [v mod 256; v / 256 mod 256; v / 256 / 256 mod 256; v / 256 / 256 / 256 mod 256;
   v / 256 / 256 / 256 / 256 mod 256; v / 256 / 256 / 256 / 256 / 256 mod 256;
   v / 256 / 256 / 256 / 256 / 256 / 256 mod 256;
   v / 256 / 256 / 256 / 256 / 256 / 256 / 256 mod 256].
Proof. reflexivity. Qed.

Theorem formula_cached_value : forall c, wf_cached c = true ->
  parse_formula_value (enc_cached c) = Ok (cached_result c).
Proof.
  intros c H. destruct c as [bits|b|e| |s more]; cbn [enc_cached cached_result cached_data].
  - cbn [wf_cached] in H. apply andb_true_iff in H as [Hb Hnf].
    unfold parse_formula_value. rewrite le_bytes_length.
    cbn [Nat.leb Nat.ltb Nat.sub andb].
    assert (Hff : (nth 6 (le_bytes 8 bits) 0 =? 255) && (nth 7 (le_bytes 8 bits) 0 =? 255) = false).
    { rewrite le8. cbn [nth].
      destruct (bits / 256 / 256 / 256 / 256 / 256 / 256 mod 256 =? 255) eqn:E6;
      destruct (bits / 256 / 256 / 256 / 256 / 256 / 256 / 256 mod 256 =? 255) eqn:E7;
      try reflexivity. exfalso. lia. }
    rewrite Hff, !andb_false_r. rewrite rd_le_nil.
    change (256 ^ N.of_nat 8) with 18446744073709551616. rewrite N.mod_small by lia. reflexivity.
  - destruct b; reflexivity.
  - unfold parse_formula_value. cbn [length Nat.leb Nat.sub nth andb].
    pose proof (err_code_byte e).
    cbn [N.eqb Pos.eqb andb]. rewrite parse_err_code. reflexivity.
  - reflexivity.
  - reflexivity.
Qed.

(* ---------- the sheet loop ---------- *)
(* a record of the sheet itself (depth 1: inside the sheet's BOF, outside any nested substream) *)
Lemma loop_frame : forall f t body rest cells fpos fmls cells' fpos' fmls',
  t < 65536 -> lenN body < 65536 -> starts_cont rest = false -> t <> 2057 ->
  step (mkRec t body None) cells fpos fmls = Ok (Next cells' fpos' fmls') ->
  sheet_loop (S f) (frame t body ++ rest) cells fpos fmls 1 = sheet_loop f rest cells' fpos' fmls' 1.
Proof.
  intros f t body rest cells fpos fmls cells' fpos' fmls' Ht Hb Hs Hne Hstep.
  cbn [BiffRec.sheet_loop]. rewrite next_record_frame by assumption.
  cbn [obind fst snd f_typ]. replace (t =? 2057) with false by lia.
  change (1 <? 1) with false. cbv iota. rewrite Hstep. reflexivity.
Qed.

Lemma loop_eof : forall f rest cells fpos fmls, starts_cont rest = false ->
  sheet_loop (S f) (frame 10 [] ++ rest) cells fpos fmls 1 = Ok (cells, fmls).
Proof.
  intros f rest cells fpos fmls Hs. cbn [BiffRec.sheet_loop].
  rewrite next_record_frame by (try exact Hs; rewrite ?lenN_nil; lia). reflexivity.
Qed.

(* BOF opens a substream, whatever the depth and whatever CONTINUE records follow it *)
Lemma loop_bof : forall f body rest cells fpos fmls dp,
  lenN body < 65536 -> starts_cont rest = false ->
  sheet_loop (S f) (frame 2057 body ++ rest) cells fpos fmls dp =
  sheet_loop f rest cells fpos fmls (dp + 1).
Proof.
  intros f body rest cells fpos fmls dp Hb Hs. cbn [BiffRec.sheet_loop].
  rewrite next_record_frame by (try assumption; lia). reflexivity.
Qed.

Lemma step_other : forall t body cells fpos fmls, interpreted t = false ->
  step (mkRec t body None) cells fpos fmls = Ok (Next cells fpos fmls).
Proof.
  intros t body cells fpos fmls H. unfold interpreted in H.
  repeat (apply orb_false_iff in H; destruct H as [H ?]).
  unfold BiffRec.step. cbn [f_typ f_data].
  repeat match goal with
         | E : (t =? ?k) = false |- _ => rewrite E; clear E
         end.
  reflexivity.
Qed.

Lemma step_dims : forall wide rf rl cf cl cells fpos fmls,
  wf_item (IDims wide rf rl cf cl) = true ->
  step (mkRec 512 (if wide
                   then le_bytes 4 rf ++ le_bytes 4 rl ++ le_bytes 2 cf ++ le_bytes 2 cl ++ [0; 0]
                   else le_bytes 2 rf ++ le_bytes 2 rl ++ le_bytes 2 cf ++ le_bytes 2 cl ++ [0; 0])
              None) cells fpos fmls = Ok (Next cells fpos fmls).
Proof.
  intros wide rf rl cf cl cells fpos fmls H. cbn [wf_item] in H.
  unfold BiffRec.step. cbn [f_typ f_data]. change (512 =? 512) with true. cbv iota.
  unfold parse_dimensions. destruct wide.
  - rewrite !lenN_app, !lenN_le, !lenN_cons, lenN_nil.
    cbn [N.of_nat Pos.of_succ_nat Pos.succ].
    change (4 + (4 + (2 + (2 + (1 + (1 + 0))))) =? 10) with false.
    change (4 + (4 + (2 + (2 + (1 + (1 + 0))))) =? 14) with true. cbv iota.
    rewrite rd4 by lia.
    rewrite (@rd_app_skip 4 (le_bytes 4 rf) _ 4) by apply le_bytes_length. rewrite rd4 by lia.
    assert (Hcf : rd 2 8 (le_bytes 4 rf ++ le_bytes 4 rl ++ le_bytes 2 cf ++ le_bytes 2 cl ++ [0; 0]) = cf).
    { rewrite (app_assoc (le_bytes 4 rf)). rewrite rd_app_skip.
      - apply rd2. lia.
      - rewrite app_length, !le_bytes_length. reflexivity. }
    assert (Hcl : rd 2 10 (le_bytes 4 rf ++ le_bytes 4 rl ++ le_bytes 2 cf ++ le_bytes 2 cl ++ [0; 0]) = cl).
    { rewrite (app_assoc (le_bytes 4 rf)), (app_assoc (le_bytes 4 rf ++ le_bytes 4 rl)).
      rewrite rd_app_skip.
      - apply rd2. lia.
      - rewrite !app_length, !le_bytes_length. reflexivity. }
    rewrite Hcf, Hcl.
    destruct ((1 <=? rl) && (1 <=? cl)) eqn:E; reflexivity.
  - rewrite !lenN_app, !lenN_le, !lenN_cons, lenN_nil.
    cbn [N.of_nat Pos.of_succ_nat Pos.succ].
    change (2 + (2 + (2 + (2 + (1 + (1 + 0))))) =? 10) with true. cbv iota.
    rewrite rd2 by lia.
    rewrite (@rd_app_skip 2 (le_bytes 2 rf) _ 2) by apply le_bytes_length. rewrite rd2 by lia.
    assert (Hcf : rd 2 4 (le_bytes 2 rf ++ le_bytes 2 rl ++ le_bytes 2 cf ++ le_bytes 2 cl ++ [0; 0]) = cf).
    { rewrite (app_assoc (le_bytes 2 rf)). rewrite rd_app_skip.
      - apply rd2. lia.
      - rewrite app_length, !le_bytes_length. reflexivity. }
    assert (Hcl : rd 2 6 (le_bytes 2 rf ++ le_bytes 2 rl ++ le_bytes 2 cf ++ le_bytes 2 cl ++ [0; 0]) = cl).
    { rewrite (app_assoc (le_bytes 2 rf)), (app_assoc (le_bytes 2 rf ++ le_bytes 2 rl)).
      rewrite rd_app_skip.
      - apply rd2. lia.
      - rewrite !app_length, !le_bytes_length. reflexivity. }
    rewrite Hcf, Hcl.
    destruct ((1 <=? rl) && (1 <=? cl)) eqn:E; reflexivity.
Qed.


(* ---- dispatch of each interpreted record type (by computation on the type number) ---- *)
Lemma step_515 : forall d cells fpos fmls, step (mkRec 515 d None) cells fpos fmls =
  (do c <- parse_number d; Ok (Next (cells ++ c) fpos fmls)).
Proof. reflexivity. Qed.
Lemma step_638 : forall d cells fpos fmls, step (mkRec 638 d None) cells fpos fmls =
  (do c <- parse_rk d; Ok (Next (cells ++ c) fpos fmls)).
Proof. reflexivity. Qed.
Lemma step_189 : forall d cells fpos fmls, step (mkRec 189 d None) cells fpos fmls =
  (do c <- parse_mul_rk d; Ok (Next (cells ++ c) fpos fmls)).
Proof. reflexivity. Qed.
Lemma step_253 : forall d cells fpos fmls, step (mkRec 253 d None) cells fpos fmls =
  (do c <- parse_label_sst d; Ok (Next (cells ++ c) fpos fmls)).
Proof. reflexivity. Qed.
Lemma step_516 : forall d cells fpos fmls, step (mkRec 516 d None) cells fpos fmls =
  (do c <- parse_label d; Ok (Next (cells ++ c) fpos fmls)).
Proof. reflexivity. Qed.
Lemma step_517 : forall d cells fpos fmls, step (mkRec 517 d None) cells fpos fmls =
  (do c <- parse_bool_err d; Ok (Next (cells ++ c) fpos fmls)).
Proof. reflexivity. Qed.
Lemma step_519 : forall d cells fpos fmls, step (mkRec 519 d None) cells fpos fmls =
  (do s <- parse_string d; Ok (Next (cells ++ [(fpos, DString s)]) fpos fmls)).
Proof. reflexivity. Qed.
Lemma step_519_cont : forall d conts cells fpos fmls,
  step (mkRec 519 d (Some conts)) cells fpos fmls =
  (do s <- (if lenN d <? 3 then parse_string d else
            do b <- dbcs_bytes conts (skipn 3 d) (rd 2 0 d) (N.odd (nth 2 d 0)) [];
            Ok (decode16 b));
   Ok (Next (cells ++ [(fpos, DString s)]) fpos fmls)).
Proof. reflexivity. Qed.
Lemma step_6 : forall d cells fpos fmls, step (mkRec 6 d None) cells fpos fmls =
  if lenN d <? 20 then Err 1 else
  let p := (rd 2 0 d, rd 2 2 d) in
  do v <- parse_formula_value (firstn 8 (skipn 6 d));
  let v' := match v with
            | Some (DFloat b) =>
                Some (format_excel_f64 b (nthN (e_formats en) (rd 2 4 d)) (e_1904 en))
            | other => other
            end in
  match v' with
  | Some x => Ok (Next (cells ++ [(p, x)]) p (fmls ++ [p]))
  | None => Ok (Next cells p (fmls ++ [p]))
  end.
Proof. reflexivity. Qed.

Lemma enc_cached_length : forall c, length (enc_cached c) = 8%nat.
Proof. destruct c; reflexivity. Qed.

Lemma lenN_xlstr : forall s,
  lenN (enc_xlstr s) = 3 + (if s_wide s then 2 * lenN (s_units s) else lenN (s_units s)).
Proof.
  intros [units wide]. unfold enc_xlstr. cbn [s_units s_wide].
  rewrite !lenN_app, lenN_le, lenN_cons, lenN_nil. destruct wide.
  - unfold lenN at 1. rewrite utf16le_length. unfold lenN. lia.
  - lia.
Qed.

Lemma wf_xlstr_len : forall m s, wf_xlstr m s = true -> lenN (s_units s) <= m.
Proof. intros m s H. unfold wf_xlstr in H. lia. Qed.

(* the FORMULA record of an item *)
Definition formula_body (row col ixfe : N) (c : cached) (grbit chn : N) (fmla : list N) : list N :=
  cell_head row col ixfe ++ enc_cached c ++ le_bytes 2 grbit ++ le_bytes 4 chn ++ fmla.

(* what the FORMULA record itself pushes *)
Definition formula_result (ixfe : N) (c : cached) : option data :=
  match c with
  | CStr _ _ => None                    (* the value comes with the STRING record *)
  | _ => Some (formula_data decode16 en ixfe c)
  end.

Lemma step_formula : forall row col ixfe c grbit chn fmla cells fpos fmls,
  row < 65536 -> col < 65536 -> ixfe < 65536 -> wf_cached c = true ->
  step (mkRec 6 (formula_body row col ixfe c grbit chn fmla) None) cells fpos fmls =
    Ok (match formula_result ixfe c with
        | Some x => Next (cells ++ [((row, col), x)]) (row, col) (fmls ++ [(row, col)])
        | None => Next cells (row, col) (fmls ++ [(row, col)])
        end).
Proof.
  intros row col ixfe c grbit chn fmla cells fpos fmls Hr Hc Hi Hwf. rewrite step_6.
  unfold formula_body.
  assert (HL : lenN (cell_head row col ixfe ++ enc_cached c ++ le_bytes 2 grbit
                     ++ le_bytes 4 chn ++ fmla) = 20 + lenN fmla).
  { rewrite !lenN_app, lenN_head, !lenN_le. unfold lenN at 1. rewrite enc_cached_length.
    cbn [N.of_nat Pos.of_succ_nat Pos.succ]. lia. }
  rewrite HL. destruct (20 + lenN fmla <? 20) eqn:E; [lia|]. cbv zeta.
  destruct (head_fields (enc_cached c ++ le_bytes 2 grbit ++ le_bytes 4 chn ++ fmla) Hr Hc Hi)
    as (-> & -> & ->).
  assert (HV : firstn 8 (skipn 6 (cell_head row col ixfe ++ enc_cached c ++ le_bytes 2 grbit
                                  ++ le_bytes 4 chn ++ fmla)) = enc_cached c).
  { unfold cell_head. rewrite !le2. cbn [app skipn].
    rewrite firstn_app, enc_cached_length, Nat.sub_diag, firstn_O, app_nil_r.
    apply firstn_all2. rewrite enc_cached_length. lia. }
  rewrite HV, formula_cached_value by exact Hwf. cbn [obind].
  destruct c; reflexivity.
Qed.

(* ---- a record followed by its CONTINUE records ---- *)
Definition cont_ok (b : list N) : Prop := 0 < lenN b /\ lenN b < 65536.

Lemma collect_cont_end : forall fuel rest acc, starts_cont rest = false ->
  collect_cont (S fuel) rest acc = Ok (acc, rest).
Proof.
  intros fuel rest acc H. cbn [collect_cont].
  destruct rest as [|c0 [|c1 [|l0 [|l1 [|x body]]]]]; try reflexivity.
  cbn [starts_cont] in H. rewrite H. reflexivity.
Qed.

Lemma collect_cont_frames : forall conts fuel rest acc,
  Forall cont_ok conts -> starts_cont rest = false -> (length conts < fuel)%nat ->
  collect_cont fuel (flat_map (frame 60) conts ++ rest) acc = Ok (acc ++ conts, rest).
Proof.
  induction conts as [|b conts IH]; intros fuel rest acc HF Hs Hf.
  - destruct fuel as [|fuel]; [cbn in Hf; lia|]. cbn [flat_map app]. rewrite app_nil_r.
    apply collect_cont_end, Hs.
  - inversion HF as [|? ? [Hb0 Hb1] HF']; subst.
    destruct fuel as [|fuel]; [cbn in Hf; lia|].
    cbn [flat_map]. rewrite <- app_assoc. unfold frame at 1. rewrite !le2.
    destruct b as [|x b]; [rewrite lenN_nil in Hb0; lia|].
    cbn [app collect_cont]. rewrite !u16_le by lia. rewrite N.eqb_refl.
    change (x :: b ++ flat_map (frame 60) conts ++ rest)
      with ((x :: b) ++ flat_map (frame 60) conts ++ rest).
    rewrite take_n_app. rewrite IH; [|exact HF'|exact Hs|cbn [length] in Hf; lia].
    rewrite <- app_assoc. reflexivity.
Qed.

Lemma starts_cont_conts : forall b conts rest, 0 < lenN b ->
  starts_cont (flat_map (frame 60) (b :: conts) ++ rest) = true.
Proof.
  intros b conts rest Hb. cbn [flat_map]. rewrite <- app_assoc. unfold frame. rewrite !le2.
  destruct b as [|x b]; [rewrite lenN_nil in Hb; lia|].
  cbn [app starts_cont]. rewrite u16_le by lia. reflexivity.
Qed.

Lemma next_record_frame_cont : forall fuel t d conts rest, t < 65536 -> lenN d < 65536 ->
  conts <> [] -> Forall cont_ok conts -> starts_cont rest = false -> (length conts < fuel)%nat ->
  next_record fuel (frame t d ++ flat_map (frame 60) conts ++ rest) =
    Some (Ok (mkRec t d (Some conts), rest)).
Proof.
  intros fuel t d conts rest Ht Hd Hne HF Hs Hf. unfold frame at 1. rewrite !le2.
  cbn [app next_record]. rewrite !u16_le by assumption. rewrite take_n_app.
  destruct conts as [|b conts]; [contradiction|].
  assert (Hb : 0 < lenN b) by (inversion HF as [|? ? [H0 _] _]; exact H0).
  rewrite (starts_cont_conts b conts rest Hb).
  rewrite collect_cont_frames by assumption. reflexivity.
Qed.


Lemma loop_frame_cont : forall f t body conts rest cells fpos fmls cells' fpos' fmls',
  t < 65536 -> lenN body < 65536 -> conts <> [] -> Forall cont_ok conts ->
  starts_cont rest = false -> (length conts < f)%nat -> t <> 2057 ->
  step (mkRec t body (Some conts)) cells fpos fmls = Ok (Next cells' fpos' fmls') ->
  sheet_loop (S f) (frame t body ++ flat_map (frame 60) conts ++ rest) cells fpos fmls 1 =
  sheet_loop f rest cells' fpos' fmls' 1.
Proof.
  intros f t body conts rest cells fpos fmls cells' fpos' fmls' Ht Hb Hne HF Hs Hf Hn Hstep.
  cbn [BiffRec.sheet_loop]. rewrite next_record_frame_cont by assumption.
  cbn [obind fst snd f_typ]. replace (t =? 2057) with false by lia.
  change (1 <? 1) with false. cbv iota. rewrite Hstep. reflexivity.
Qed.

(* ---- inside a nested substream (depth > 1): every record is skipped, BOF and EOF move the
   depth; the record may carry any CONTINUE records ---- *)
Lemma next_record_srec : forall fuel r rest, wf_srec r = true -> starts_cont rest = false ->
  (length (sr_conts r) < fuel)%nat ->
  exists c, next_record fuel (enc_srec r ++ rest) = Some (Ok (mkRec (sr_typ r) (sr_body r) c, rest)).
Proof.
  intros fuel [t b cs] rest Hwf Hs Hf. unfold wf_srec in Hwf. cbn [sr_typ sr_body sr_conts] in *.
  apply andb_true_iff in Hwf as [Hwf Hcs]. apply andb_true_iff in Hwf as [Hwf Hb].
  apply andb_true_iff in Hwf as [Ht Hne].
  unfold enc_srec. cbn [sr_typ sr_body sr_conts]. rewrite <- app_assoc.
  destruct cs as [|c cs].
  - exists None. cbn [flat_map app]. apply next_record_frame; try assumption; lia.
  - exists (Some (c :: cs)). apply next_record_frame_cont; try assumption; try lia; try discriminate.
    apply Forall_forall. intros x Hx. rewrite forallb_forall in Hcs. specialize (Hcs x Hx).
    unfold cont_ok. lia.
Qed.

Lemma enc_srec_starts : forall r tail, wf_srec r = true -> starts_cont (enc_srec r ++ tail) = false.
Proof.
  intros [t b cs] tail Hwf. unfold wf_srec in Hwf. cbn [sr_typ sr_body sr_conts] in *.
  unfold enc_srec. cbn [sr_typ sr_body sr_conts]. rewrite <- app_assoc.
  apply starts_cont_frame; lia.
Qed.

Lemma srecs_start : forall recs rest, forallb wf_srec recs = true -> starts_cont rest = false ->
  starts_cont (flat_map enc_srec recs ++ rest) = false.
Proof.
  intros [|r recs] rest Hwf Hs; [exact Hs|].
  cbn [flat_map forallb] in *. apply andb_true_iff in Hwf as [Hr _].
  rewrite <- app_assoc. apply enc_srec_starts, Hr.
Qed.

Definition sconts (recs : list srec) : nat :=
  fold_right (fun r n => (length (sr_conts r) + n)%nat) 0%nat recs.

(* the records of a nested substream with [d] more substreams open inside it, BOF and EOF
   balanced: the loop comes out at the depth of the nested substream (2) with nothing changed —
   whatever the record types: cell records, FORMULA, STRING, MERGECELLS, DIMENSIONS … *)
Lemma sub_loop : forall recs d f rest cells fpos fmls,
  forallb wf_srec recs = true -> balanced d recs = true -> starts_cont rest = false ->
  (sconts recs < f)%nat ->
  sheet_loop (length recs + f) (flat_map enc_srec recs ++ rest) cells fpos fmls (2 + N.of_nat d) =
  sheet_loop f rest cells fpos fmls 2.
Proof.
  induction recs as [|r recs IH]; intros d f rest cells fpos fmls Hwf Hbal Hs Hf.
  - cbn [balanced] in Hbal. destruct d; [|discriminate]. reflexivity.
  - cbn [forallb] in Hwf. apply andb_true_iff in Hwf as [Hr Hrest].
    cbn [sconts fold_right] in Hf. fold (sconts recs) in Hf.
    cbn [flat_map length Nat.add]. rewrite <- app_assoc.
    destruct (@next_record_srec (length recs + f) r (flat_map enc_srec recs ++ rest) Hr
                (srecs_start recs rest Hrest Hs)) as [c Hn]; [lia|].
    cbn [BiffRec.sheet_loop]. rewrite Hn. cbn [obind fst snd f_typ].
    cbn [balanced] in Hbal.
    destruct (sr_typ r =? 2057) eqn:E1.
    + replace (2 + N.of_nat d + 1) with (2 + N.of_nat (S d)) by lia.
      apply IH; try assumption; lia.
    + replace (1 <? 2 + N.of_nat d) with true by lia.
      destruct (sr_typ r =? 10) eqn:E2.
      * destruct d as [|d']; [discriminate|].
        replace (2 + N.of_nat (S d') - 1) with (2 + N.of_nat d') by lia.
        apply IH; try assumption; lia.
      * apply IH; try assumption; lia.
Qed.

(* the EOF of the nested substream brings the loop back to the sheet *)
Lemma loop_sub_eof : forall f rest cells fpos fmls, starts_cont rest = false ->
  sheet_loop (S f) (frame 10 [] ++ rest) cells fpos fmls 2 = sheet_loop f rest cells fpos fmls 1.
Proof.
  intros f rest cells fpos fmls Hs. cbn [BiffRec.sheet_loop].
  rewrite next_record_frame by (try exact Hs; rewrite ?lenN_nil; lia). reflexivity.
Qed.

(* ---- ignored records in a row: nothing changes, in particular not the pending position ---- *)
Lemma not_interpreted_60 : forall t, interpreted t = false -> t <> 60.
Proof. intros t H ->. vm_compute in H. discriminate. Qed.
Lemma not_interpreted_bof : forall t, interpreted t = false -> t <> 2057.
Proof. intros t H ->. vm_compute in H. discriminate. Qed.

Lemma wf_mid_split : forall t b, wf_mid (t, b) = true ->
  t < 65536 /\ interpreted t = false /\ lenN b <= 8224.
Proof.
  intros t b H. unfold wf_mid in H. cbn [fst snd] in H.
  apply andb_true_iff in H as [H Hl]. apply andb_true_iff in H as [Ht Hni].
  repeat split; try lia. destruct (interpreted t); [discriminate|reflexivity].
Qed.

Lemma mids_start : forall mids rest, forallb wf_mid mids = true -> starts_cont rest = false ->
  starts_cont (flat_map enc_mid mids ++ rest) = false.
Proof.
  intros [|[t b] mids] rest Hwf Hs; [exact Hs|].
  cbn [forallb] in Hwf. apply andb_true_iff in Hwf as [Hm _].
  apply wf_mid_split in Hm as (Ht & Hni & _).
  cbn [flat_map]. unfold enc_mid at 1. cbn [fst snd]. rewrite <- app_assoc.
  apply starts_cont_frame; [exact Ht|apply not_interpreted_60, Hni].
Qed.

Lemma mids_loop : forall mids f rest cells fpos fmls,
  forallb wf_mid mids = true -> starts_cont rest = false ->
  sheet_loop (length mids + f) (flat_map enc_mid mids ++ rest) cells fpos fmls 1 =
  sheet_loop f rest cells fpos fmls 1.
Proof.
  induction mids as [|[t b] mids IH]; intros f rest cells fpos fmls Hwf Hs; [reflexivity|].
  cbn [forallb] in Hwf. apply andb_true_iff in Hwf as [Hm Hrest].
  apply wf_mid_split in Hm as (Ht & Hni & Hl).
  cbn [flat_map length Nat.add]. unfold enc_mid at 1. cbn [fst snd]. rewrite <- app_assoc.
  rewrite (@loop_frame (length mids + f) t b (flat_map enc_mid mids ++ rest) cells fpos fmls
             cells fpos fmls); try lia.
  - apply IH; assumption.
  - apply mids_start; assumption.
  - apply not_interpreted_bof, Hni.
  - apply step_other, Hni.
Qed.

(* a record of any type but FORMULA leaves the pending position alone: of the records that may
   legally follow a FORMULA only another FORMULA moves it *)
Lemma step_keeps_fpos : forall r cells fpos fmls cells' fpos' fmls',
  f_typ r <> 6 -> step r cells fpos fmls = Ok (Next cells' fpos' fmls') -> fpos' = fpos.
Proof.
  intros [t d c] cells fpos fmls cells' fpos' fmls' Hne H. cbn [f_typ] in Hne.
  unfold BiffRec.step in H. cbn [f_typ f_data] in H.
  repeat match type of H with
         | (if ?b then _ else _) = _ =>
             let E := fresh "E" in destruct b eqn:E; [try (apply N.eqb_eq in E; contradiction)|]
         end;
  repeat match type of H with
         | obind ?o _ = _ => destruct o; cbn [obind] in H; try discriminate
         end;
  try discriminate; try (inversion H; reflexivity).
Qed.

(* ---- the STRING record of a string result, with or without CONTINUE records ---- *)
Lemma lenN_utf16le : forall units, lenN (utf16le units) = 2 * lenN units.
Proof. intros units. unfold lenN. rewrite utf16le_length. lia. Qed.

Lemma cstr_units_len : forall s more,
  lenN (cstr_units s more) = lenN (s_units s) + lenN (flat_map s_units more).
Proof. intros s more. unfold cstr_units. apply lenN_app. Qed.

Lemma lenN_frag_chars : forall s,
  lenN (frag_chars s) = if s_wide s then 2 * lenN (s_units s) else lenN (s_units s).
Proof. intros [units wide]. unfold frag_chars. cbn [s_units s_wide]. destruct wide; [apply lenN_utf16le|reflexivity]. Qed.

Lemma wf_frag_len : forall s, wf_frag s = true ->
  (if s_wide s then 2 * lenN (s_units s) else lenN (s_units s)) <= 8220.
Proof.
  intros s H. unfold wf_frag in H. apply andb_true_iff in H as [H _].
  rewrite lenN_frag_chars in H. lia.
Qed.

Theorem parse_string_first : forall s more,
  wf_frag s = true -> lenN (cstr_units s more) <= 32767 ->
  parse_string (enc_string_rec s more) = Ok (decode16 (utf16le (s_units s))).
Proof.
  intros [units wide] more Hwf HT. pose proof (cstr_units_len (mkStr units wide) more) as HL.
  pose proof (wf_frag_len _ Hwf) as Hlen.
  unfold wf_frag in Hwf. cbn [s_units s_wide] in *.
  apply andb_true_iff in Hwf as [_ Hall].
  unfold BiffRec.parse_string, enc_string_rec, frag_chars. cbn [s_units s_wide].
  set (T := lenN (cstr_units (mkStr units wide) more)) in *.
  set (n := lenN units) in *.
  rewrite rd2 by lia. rewrite le2. cbn [app nth skipn]. rewrite odd_flag.
  rewrite !lenN_cons.
  destruct wide.
  - rewrite lenN_utf16le. fold n.
    destruct (1 + (1 + (1 + 2 * n)) <? 3) eqn:E; [lia|].
    replace (2 * n / 2) with n by lia. rewrite N.min_l by lia.
    rewrite firstn_all2; [reflexivity|]. rewrite utf16le_length. unfold n, lenN. lia.
  - fold n. destruct (1 + (1 + (1 + n)) <? 3) eqn:E; [lia|].
    rewrite N.min_l by lia. rewrite firstn_all2 by (unfold n, lenN; lia).
    rewrite compressed_expand by exact Hall. reflexivity.
Qed.

Lemma lenN_string_rec : forall s more,
  lenN (enc_string_rec s more) = 3 + (if s_wide s then 2 * lenN (s_units s) else lenN (s_units s)).
Proof.
  intros [units wide] more. unfold enc_string_rec, frag_chars. cbn [s_units s_wide].
  rewrite !lenN_app, lenN_le, lenN_cons, lenN_nil. destruct wide; [rewrite lenN_utf16le|]; lia.
Qed.

Lemma lenN_cont_rec : forall m,
  lenN (enc_cont_rec m) = 1 + (if s_wide m then 2 * lenN (s_units m) else lenN (s_units m)).
Proof.
  intros [units wide]. unfold enc_cont_rec, frag_chars. cbn [s_units s_wide].
  rewrite lenN_cons. destruct wide; [rewrite lenN_utf16le|]; lia.
Qed.

Lemma conts_ok : forall more, forallb wf_frag more = true ->
  Forall cont_ok (map enc_cont_rec more).
Proof.
  induction more as [|m more IH]; intros H; [constructor|].
  cbn [forallb] in H. apply andb_true_iff in H as [Hm Hrest]. cbn [map]. constructor.
  - pose proof (wf_frag_len _ Hm) as Hl. unfold cont_ok. rewrite lenN_cont_rec.
    destruct (s_wide m); lia.
  - apply IH, Hrest.
Qed.

Lemma flat_map_map : forall (A B C : Type) (g : A -> B) (h : B -> list C) l,
  flat_map h (map g l) = flat_map (fun x => h (g x)) l.
Proof. induction l as [|x l IH]; [reflexivity|]. cbn [map flat_map]. now rewrite IH. Qed.

Lemma utf16le_app : forall a b, utf16le (a ++ b) = utf16le a ++ utf16le b.
Proof. intros a b. unfold utf16le. apply flat_map_app. Qed.

Lemma wf_frag_units : forall s, wf_frag s = true ->
  forallb (fun u => u <? (if s_wide s then 65536 else 256)) (s_units s) = true.
Proof. intros s H. unfold wf_frag in H. apply andb_true_iff in H as [_ H]. exact H. Qed.

(* read_dbcs over the STRING fragment and the CONTINUE fragments gives the UTF-16LE bytes of the
   whole string, whatever the cuts and the flag bytes (len = the characters still to come) *)
Lemma dbcs_bytes_enc : forall more s acc,
  wf_frag s = true -> forallb wf_frag more = true ->
  dbcs_bytes (map enc_cont_rec more) (frag_chars s)
             (lenN (s_units s) + lenN (flat_map s_units more)) (s_wide s) acc =
    Ok (acc ++ utf16le (s_units s ++ flat_map s_units more)).
Proof.
  induction more as [|m more IH]; intros [units wide] acc Hs Hm;
    pose proof (wf_frag_units _ Hs) as Hall; cbn [s_units s_wide] in Hall;
    unfold frag_chars; cbn [s_units s_wide map flat_map].
  - rewrite lenN_nil, N.add_0_r, app_nil_r.
    destruct wide.
    + cbn [dbcs_bytes]. rewrite lenN_utf16le.
      replace (2 * lenN units / 2) with (lenN units) by lia. rewrite N.min_id, N.sub_diag.
      cbn [N.eqb]. rewrite firstn_all2; [reflexivity|]. rewrite utf16le_length. unfold lenN. lia.
    + cbn [dbcs_bytes]. rewrite N.min_id, N.sub_diag. cbn [N.eqb].
      rewrite firstn_all2 by (unfold lenN; lia). rewrite compressed_expand by exact Hall. reflexivity.
  - cbn [forallb] in Hm. apply andb_true_iff in Hm as [Hm0 Hm].
    set (R := lenN (s_units m ++ flat_map s_units more)).
    assert (HR : R = lenN (s_units m) + lenN (flat_map s_units more)) by (unfold R; apply lenN_app).
    assert (Hb : (if wide then firstn (N.to_nat (2 * lenN units)) (utf16le units)
                  else flat_map (fun b => [b; 0]) (firstn (N.to_nat (lenN units)) units))
                 = utf16le units).
    { destruct wide.
      - apply firstn_all2. rewrite utf16le_length. unfold lenN. lia.
      - rewrite firstn_all2 by (unfold lenN; lia). apply compressed_expand, Hall. }
    cbn [dbcs_bytes].
    assert (Hl : (if wide then N.min (lenN (if wide then utf16le units else units) / 2) (lenN units + R)
                  else N.min (lenN (if wide then utf16le units else units)) (lenN units + R)) = lenN units).
    { destruct wide; [rewrite lenN_utf16le; replace (2 * lenN units / 2) with (lenN units) by lia|];
        apply N.min_l; lia. }
    destruct wide; rewrite Hl, Hb; replace (lenN units + R - lenN units) with R by lia;
      (destruct (R =? 0) eqn:E;
       [ apply N.eqb_eq in E;
         assert (Hnil : s_units m ++ flat_map s_units more = [])
           by (destruct (s_units m ++ flat_map s_units more); [reflexivity|unfold R in E; rewrite lenN_cons in E; lia]);
         rewrite Hnil, app_nil_r; reflexivity
       | unfold enc_cont_rec at 1; rewrite odd_flag, HR, IH by assumption;
         rewrite <- app_assoc, <- utf16le_app; reflexivity ]).
Qed.

(* ---- one item through the loop ---- *)
(* records the loop sees (a record and its CONTINUEs count once) / CONTINUE records folded in *)
Definition nrec (it : item) : nat :=
  match it with
  | IFormula _ _ _ c _ _ _ mid =>
      S (length mid + match c with CStr _ _ => 1 | _ => 0 end)
  | ISub _ recs => S (length recs + 1)
  | _ => 1
  end.
Definition ncont (it : item) : nat :=
  match it with
  | IFormula _ _ _ (CStr _ more) _ _ _ _ => length more
  | ISub _ recs => sconts recs
  | _ => 0%nat
  end.
Definition nrecs (l : list item) : nat := fold_right (fun it n => (nrec it + n)%nat) 0%nat l.
Definition nconts (l : list item) : nat := fold_right (fun it n => (ncont it + n)%nat) 0%nat l.

Lemma item_loop : forall it f rest cells fpos fmls,
  wf_item it = true -> starts_cont rest = false -> (ncont it < f)%nat ->
  exists fpos',
    sheet_loop (nrec it + f) (enc_item it ++ rest) cells fpos fmls 1 =
    sheet_loop f rest (cells ++ item_cells it) fpos' (fmls ++ item_fmls it) 1.
Proof.
  intros it f rest cells fpos fmls Hwf Hs Hfuel.
  destruct it as [row col ixfe bits|row col ixfe fm|row cf rks|row col ixfe isst|row col ixfe s
                 |row col ixfe b|row col ixfe e|row col ixfe c grbit chn fmla mid
                 |wide rf rl cf cl|typ body|bof recs|regs];
    cbn [wf_item] in Hwf;
    cbn [enc_item nrec BiffRec.item_cells item_fmls Nat.add];
    rewrite ?app_nil_r.
  - (* NUMBER *)
    apply andb_true_iff in Hwf as [Hc Hb]. apply wf_cell_split in Hc as (Hr & Hc & Hi).
    exists fpos. apply loop_frame; try assumption; try lia.
    + rewrite lenN_app, lenN_head, lenN_le. cbn. lia.
    + rewrite step_515, parse_number_enc by lia. reflexivity.
  - (* RK *)
    apply andb_true_iff in Hwf as [Hc Hf]. apply wf_cell_split in Hc as (Hr & Hc & Hi).
    exists fpos. apply loop_frame; try assumption; try lia.
    + unfold enc_rkrec. rewrite !lenN_app, !lenN_le. cbn. lia.
    + rewrite step_638, parse_rk_enc by (try lia; assumption). reflexivity.
  - (* MULRK *)
    apply andb_true_iff in Hwf as [Hwf Hall]. apply andb_true_iff in Hwf as [Hwf Hcf].
    apply andb_true_iff in Hwf as [Hr Hn].
    exists fpos. apply loop_frame; try assumption; try lia.
    + rewrite !lenN_app, !lenN_le. unfold lenN at 1. rewrite flat_rkrec_length.
      unfold lenN in *. cbn [N.of_nat Pos.of_succ_nat Pos.succ]. lia.
    + rewrite step_189. fold (mulrk_body row cf rks).
      rewrite parse_mul_rk_enc by (try lia; assumption). reflexivity.
  - (* LABELSST *)
    apply andb_true_iff in Hwf as [Hc Hb]. apply wf_cell_split in Hc as (Hr & Hc & Hi).
    exists fpos. apply loop_frame; try assumption; try lia.
    + rewrite lenN_app, lenN_head, lenN_le. cbn. lia.
    + rewrite step_253, parse_label_sst_enc by lia. reflexivity.
  - (* LABEL *)
    apply andb_true_iff in Hwf as [Hc Hb]. apply wf_cell_split in Hc as (Hr & Hc & Hi).
    pose proof (wf_xlstr_len _ _ Hb) as Hlen.
    exists fpos. apply loop_frame; try assumption; try lia.
    + rewrite lenN_app, lenN_head, lenN_xlstr. destruct (s_wide s); lia.
    + rewrite step_516, parse_label_enc by (try lia; assumption). reflexivity.
  - (* BOOLERR, boolean *)
    apply wf_cell_split in Hwf as (Hr & Hc & Hi).
    exists fpos. apply loop_frame; try assumption; try lia.
    + rewrite lenN_app, lenN_head. cbn. lia.
    + rewrite step_517, parse_bool_enc by lia. reflexivity.
  - (* BOOLERR, error *)
    apply wf_cell_split in Hwf as (Hr & Hc & Hi).
    exists fpos. apply loop_frame; try assumption; try lia.
    + rewrite lenN_app, lenN_head. cbn. lia.
    + rewrite step_517, parse_errcell_enc by lia. reflexivity.
  - (* FORMULA, the records between, (+ STRING + CONTINUEs) *)
    apply andb_true_iff in Hwf as [Hwf Hmid].
    apply andb_true_iff in Hwf as [Hwf Hfl]. apply andb_true_iff in Hwf as [Hwf Hch].
    apply andb_true_iff in Hwf as [Hwf Hg]. apply andb_true_iff in Hwf as [Hc Hca].
    apply wf_cell_split in Hc as (Hr & Hc & Hi).
    fold (formula_body row col ixfe c grbit chn fmla).
    assert (HL : lenN (formula_body row col ixfe c grbit chn fmla) < 65536).
    { unfold formula_body. rewrite !lenN_app, lenN_head, !lenN_le. unfold lenN at 1.
      rewrite enc_cached_length. cbn [N.of_nat Pos.of_succ_nat Pos.succ]. lia. }
    exists (row, col). rewrite <- !app_assoc.
    (* FORMULA, then the ignored records: the state after both *)
    assert (Hhead : forall g tail, starts_cont tail = false ->
              sheet_loop (S (length mid + g))
                (frame 6 (formula_body row col ixfe c grbit chn fmla)
                 ++ flat_map enc_mid mid ++ tail) cells fpos fmls 1 =
              sheet_loop g tail
                (match formula_result ixfe c with
                 | Some x => cells ++ [((row, col), x)] | None => cells end)
                (row, col) (fmls ++ [(row, col)]) 1).
    { intros g tail Ht.
      rewrite (@loop_frame (length mid + g) 6 (formula_body row col ixfe c grbit chn fmla)
                 (flat_map enc_mid mid ++ tail) cells fpos fmls
                 (match formula_result ixfe c with
                  | Some x => cells ++ [((row, col), x)] | None => cells end)
                 (row, col) (fmls ++ [(row, col)])); try lia.
      - apply mids_loop; assumption.
      - apply mids_start; assumption.
      - rewrite step_formula by (try lia; assumption).
        destruct (formula_result ixfe c); reflexivity. }
    destruct c as [bits|b|e| |s more];
      try (cbn [app]; rewrite ?app_nil_r, Nat.add_0_r; cbn [Nat.add];
           rewrite Hhead by exact Hs; reflexivity).
    (* string result: FORMULA pushes nothing, the STRING record supplies the value *)
    cbn [wf_cached] in Hca. apply andb_true_iff in Hca as [Hca HT].
    apply andb_true_iff in Hca as [Hws Hmore].
    pose proof (wf_frag_len _ Hws) as Hlen. cbn [ncont] in Hfuel.
    replace (S (length mid + 1 + f))%nat with (S (length mid + S f)) by lia.
    rewrite <- app_assoc. rewrite Hhead.
    + cbn [formula_result formula_data cached_data].
      destruct more as [|m0 more'].
      * cbn [flat_map app].
        apply loop_frame; try assumption; try lia.
        -- rewrite lenN_string_rec. destruct (s_wide s); lia.
        -- rewrite step_519, parse_string_first by (try lia; assumption).
           unfold cstr_units. cbn [flat_map]. rewrite app_nil_r. reflexivity.
      * rewrite <- (flat_map_map enc_cont_rec (frame 60)).
        apply loop_frame_cont; try assumption; try lia.
        -- rewrite lenN_string_rec. destruct (s_wide s); lia.
        -- discriminate.
        -- apply conts_ok, Hmore.
        -- rewrite map_length. exact Hfuel.
        -- rewrite step_519_cont. rewrite lenN_string_rec.
           destruct (3 + (if s_wide s then 2 * lenN (s_units s) else lenN (s_units s)) <? 3) eqn:E3;
             [destruct (s_wide s); lia|].
           unfold enc_string_rec at 1 2 3. rewrite rd2 by lia. rewrite le2.
           cbn [app nth skipn]. rewrite odd_flag.
           rewrite cstr_units_len, dbcs_bytes_enc by assumption.
           cbn [obind app]. reflexivity.
    + apply starts_cont_frame; lia.
  - (* DIMENSIONS *)
    exists fpos. rewrite ?app_nil_r.
    pose proof (@step_dims wide rf rl cf cl cells fpos fmls) as SD. cbn [wf_item] in SD.
    specialize (SD Hwf).
    destruct wide; (apply loop_frame; try assumption; try lia;
      rewrite !lenN_app, !lenN_le, !lenN_cons, lenN_nil; cbn; lia).
  - (* ignored record *)
    apply andb_true_iff in Hwf as [Hwf Hl]. apply andb_true_iff in Hwf as [Ht Hni].
    assert (Hi : interpreted typ = false) by (destruct (interpreted typ); [discriminate|reflexivity]).
    exists fpos. rewrite ?app_nil_r. apply loop_frame; try assumption; try lia.
    + apply not_interpreted_bof, Hi.
    + apply step_other, Hi.
  - (* nested substream: BOF, its records, EOF — nothing reaches the sheet *)
    apply andb_true_iff in Hwf as [Hwf Hbal]. apply andb_true_iff in Hwf as [Hb Hrecs].
    cbn [ncont] in Hfuel.
    exists fpos. rewrite ?app_nil_r, <- ?app_assoc.
    assert (Heof : starts_cont (frame 10 [] ++ rest) = false) by (apply starts_cont_frame; lia).
    rewrite loop_bof; [|lia|apply srecs_start; assumption].
    replace (length recs + 1 + f)%nat with (length recs + S f)%nat by lia.
    change (1 + 1) with (2 + N.of_nat 0).
    rewrite sub_loop by (try assumption; lia).
    apply loop_sub_eof, Hs.
  - (* MERGECELLS: long enough for the regions it announces *)
    exists fpos. rewrite ?app_nil_r.
    assert (HL : lenN (le_bytes 2 (lenN regs) ++ flat_map enc_ref8 regs) = 2 + 8 * lenN regs).
    { assert (HF : lenN (flat_map enc_ref8 regs) = 8 * lenN regs).
      { clear Hwf Hfuel. induction regs as [|[[[a b] c] d] regs IH]; [reflexivity|].
        cbn [flat_map]. rewrite lenN_app, lenN_cons, IH. unfold enc_ref8.
        rewrite !lenN_app, !lenN_le. cbn [N.of_nat Pos.of_succ_nat Pos.succ]. lia. }
      rewrite lenN_app, lenN_le, HF. reflexivity. }
    apply loop_frame; try assumption; try lia.
    unfold BiffRec.step. cbn [f_typ f_data]. change (229 =? 512) with false.
    change (229 =? 515) with false. change (229 =? 516) with false. change (229 =? 517) with false.
    change (229 =? 519) with false. change (229 =? 638) with false. change (229 =? 253) with false.
    change (229 =? 189) with false. change (229 =? 229) with true. cbv iota.
    unfold merge_cells_panics. rewrite HL. rewrite rd2 by lia.
    replace (2 + 8 * lenN regs <? 2) with false by lia.
    replace (2 + 8 * lenN regs <? 2 + 8 * lenN regs) with false by lia.
    rewrite andb_false_r. reflexivity.
Qed.

(* every item starts with a record whose type is not CONTINUE *)
Lemma enc_item_starts : forall it tail, wf_item it = true -> starts_cont (enc_item it ++ tail) = false.
Proof.
  intros it tail Hwf.
  destruct it as [row col ixfe bits|row col ixfe fm|row cf rks|row col ixfe isst|row col ixfe s
                 |row col ixfe b|row col ixfe e|row col ixfe c grbit chn fmla mid
                 |wide rf rl cf cl|typ body|bof recs|regs]; cbn [enc_item];
    try (apply starts_cont_frame; lia).
  - rewrite <- app_assoc. apply starts_cont_frame; lia.
  - destruct wide; apply starts_cont_frame; lia.
  - cbn [wf_item] in Hwf. apply andb_true_iff in Hwf as [Hwf Hl].
    apply andb_true_iff in Hwf as [Ht Hni]. apply starts_cont_frame; [lia|].
    intros ->. discriminate.
  - rewrite <- app_assoc. apply starts_cont_frame; lia.
Qed.

Lemma items_start : forall items rest, forallb wf_item items = true -> starts_cont rest = false ->
  starts_cont (flat_map enc_item items ++ rest) = false.
Proof.
  intros [|it items] rest Hwf Hs; [exact Hs|].
  cbn [flat_map forallb] in *. apply andb_true_iff in Hwf as [Hit _].
  rewrite <- app_assoc. apply enc_item_starts. exact Hit.
Qed.

Lemma items_loop : forall items f rest cells fpos fmls,
  forallb wf_item items = true -> starts_cont rest = false -> (nconts items < f)%nat ->
  exists fpos',
    sheet_loop (nrecs items + f) (flat_map enc_item items ++ rest) cells fpos fmls 1 =
    sheet_loop f rest (cells ++ flat_map item_cells items) fpos' (fmls ++ flat_map item_fmls items) 1.
Proof.
  induction items as [|it items IH]; intros f rest cells fpos fmls Hwf Hs Hf.
  - exists fpos. cbn [flat_map nrecs fold_right app Nat.add]. rewrite !app_nil_r. reflexivity.
  - cbn [forallb] in Hwf. apply andb_true_iff in Hwf as [Hit Hrest].
    cbn [nconts fold_right] in Hf. fold (nconts items) in Hf.
    cbn [flat_map nrecs fold_right]. rewrite <- app_assoc, <- Nat.add_assoc.
    destruct (@item_loop it (fold_right (fun it n => (nrec it + n)%nat) 0%nat items + f)%nat
                (flat_map enc_item items ++ rest) cells fpos fmls Hit
                (items_start items rest Hrest Hs)) as [fp1 ->]; [lia|].
    fold (nrecs items).
    destruct (IH f rest (cells ++ item_cells it) fp1 (fmls ++ item_fmls it) Hrest Hs) as [fp2 ->];
      [lia|].
    exists fp2. rewrite <- !app_assoc. reflexivity.
Qed.

Lemma frame_length : forall t d, length (frame t d) = (4 + length d)%nat.
Proof. intros t d. unfold frame. rewrite !app_length, !le_bytes_length. lia. Qed.

Lemma flat_map_length_ge : forall (A B : Type) (f : A -> list B) k l,
  (forall x, k <= length (f x))%nat -> (k * length l <= length (flat_map f l))%nat.
Proof.
  intros A B f k l H. induction l as [|x l IH]; [cbn; lia|].
  cbn [flat_map length]. rewrite app_length. specialize (H x). lia.
Qed.

Lemma srecs_length : forall recs,
  (length recs + sconts recs <= length (flat_map enc_srec recs))%nat.
Proof.
  induction recs as [|r recs IH]; [cbn; lia|].
  cbn [flat_map length sconts fold_right]. fold (sconts recs).
  unfold enc_srec at 1. rewrite !app_length, frame_length.
  pose proof (@flat_map_length_ge _ _ (frame 60) 4 (sr_conts r)) as Hc.
  assert (4 * length (sr_conts r) <= length (flat_map (frame 60) (sr_conts r)))%nat.
  { apply Hc. intros x. rewrite frame_length. lia. }
  lia.
Qed.

(* fuel: every record the loop sees and every folded CONTINUE has at least its 4 header bytes *)
Lemma enc_item_length : forall it, (nrec it + ncont it <= length (enc_item it))%nat.
Proof.
  intros it. destruct it as [| | | | | | |row col ixfe c grbit chn fmla mid|wide ? ? ? ?| |bof recs|];
    cbn [enc_item nrec ncont]; rewrite ?app_length, ?frame_length; try lia.
  - pose proof (@flat_map_length_ge _ _ enc_mid 4 mid) as Hm.
    assert (Hm' : (4 * length mid <= length (flat_map enc_mid mid))%nat).
    { apply Hm. intros [t b]. unfold enc_mid. rewrite frame_length. lia. }
    destruct c as [| | | |s more]; rewrite ?app_length, ?frame_length; cbn [length]; try lia.
    pose proof (@flat_map_length_ge _ _ (fun m => frame 60 (enc_cont_rec m)) 4 more) as Hc.
    assert (Hc' : (4 * length more
                   <= length (flat_map (fun m => frame 60 (enc_cont_rec m)) more))%nat).
    { apply Hc. intros m. rewrite frame_length. lia. }
    lia.
  - destruct wide; rewrite frame_length; lia.
  - pose proof (srecs_length recs). cbn [length]. lia.
Qed.

Lemma items_length : forall items,
  (nrecs items + nconts items <= length (flat_map enc_item items))%nat.
Proof.
  induction items as [|it items IH]; [cbn; lia|].
  cbn [flat_map nrecs nconts fold_right]. rewrite app_length.
  fold (nrecs items). fold (nconts items).
  pose proof (enc_item_length it). lia.
Qed.

(* the cell list the loop builds from any well-formed layout (cell records in any order): the
   logical cell list of the layout, in stream order; and the formula positions *)
Theorem sheet_cells_encode : forall c, wf_layout c = true ->
  sheet_cells fdiv100 decode16 en (encode_sheet c) =
    Ok (logical fdiv100 decode16 en c, layout_fmls c).
Proof.
  intros [items trailer] Hwf. unfold wf_layout in Hwf. cbn [l_items l_trailer] in Hwf.
  apply andb_true_iff in Hwf as [Hit Htr]. unfold trailer_ok in Htr.
  assert (Hs : starts_cont trailer = false) by (destruct (starts_cont trailer); [discriminate|reflexivity]).
  unfold sheet_cells, encode_sheet, logical, layout_fmls. cbn [l_items l_trailer].
  set (tail := frame 10 [] ++ trailer).
  assert (Htail : starts_cont tail = false) by (apply starts_cont_frame; lia).
  (* enough fuel: one unit per record, and every record has at least four bytes *)
  assert (Hfuel : exists k, S (length (frame 2057 bof_body ++ flat_map enc_item items ++ tail))
                            = S (nrecs items + S k) /\ (nconts items < S k)%nat).
  { unfold tail. rewrite !app_length, !frame_length. pose proof (items_length items).
    exists (length bof_body + 3 + (length (flat_map enc_item items) - nrecs items)
            + (4 + length (@nil N)) + length trailer)%nat. cbn [length]. lia. }
  destruct Hfuel as (k & -> & Hk).
  (* the sheet's own BOF: depth 0 -> 1 *)
  rewrite loop_bof; [|cbn; lia|apply items_start; assumption]. change (0 + 1) with 1.
  destruct (@items_loop items (S k) tail [] (0, 0) [] Hit Htail Hk) as [fp ->].
  unfold tail. rewrite loop_eof by exact Hs. reflexivity.
Qed.

(* a nested substream is inert: the sheet reads exactly as it does without it, wherever it stands
   among the items and whatever records it holds (cell records at positions of the sheet's own
   cells, FORMULA, STRING, MERGECELLS, DIMENSIONS, further BOF … EOF pairs, CONTINUE records) *)
Theorem nested_substream_inert : forall before bof recs after trailer,
  wf_layout (mkLayout (before ++ ISub bof recs :: after) trailer) = true ->
  wf_layout (mkLayout (before ++ after) trailer) = true /\
  sheet_cells fdiv100 decode16 en (encode_sheet (mkLayout (before ++ ISub bof recs :: after) trailer)) =
  sheet_cells fdiv100 decode16 en (encode_sheet (mkLayout (before ++ after) trailer)).
Proof.
  intros before bof recs after trailer Hwf.
  assert (Hwf' : wf_layout (mkLayout (before ++ after) trailer) = true).
  { unfold wf_layout in *. cbn [l_items l_trailer] in *. rewrite forallb_app in *. cbn [forallb] in Hwf.
    apply andb_true_iff in Hwf as [Hi Ht]. apply andb_true_iff in Hi as [H1 H2].
    apply andb_true_iff in H2 as [_ H2]. rewrite H1, H2, Ht. reflexivity. }
  split; [exact Hwf'|].
  rewrite !sheet_cells_encode by assumption. unfold logical, layout_fmls. cbn [l_items].
  rewrite !flat_map_app. reflexivity.
Qed.

End Biff.

(* ---------- positions of a legal layout ---------- *)
Section Bounds.
Variable fdiv100 : N -> N.
Variable decode16 : list N -> list N.
Variable en : env.

(* keep lia from capturing section variables the statement does not mention *)
Ltac lia := try clear fdiv100; try clear decode16; try clear en; Lia.lia.

Definition in_grid (c : cellv) : Prop := fst (fst c) < 65536 /\ snd (fst c) < 256.

Lemma mulrk_denote_grid : forall rks row col, row < 65536 -> col + lenN rks <= 256 ->
  Forall in_grid (mulrk_denote fdiv100 en row col rks).
Proof.
  induction rks as [|x rks IH]; intros row col Hr Hc; cbn [mulrk_denote]; constructor.
  - rewrite lenN_cons in Hc. unfold in_grid. cbn [fst snd]. lia.
  - apply IH; [exact Hr|]. rewrite lenN_cons in Hc. lia.
Qed.

Lemma item_cells_grid : forall it, wf_item it = true ->
  Forall in_grid (item_cells fdiv100 decode16 en it).
Proof.
  intros it Hwf.
  destruct it as [row col ixfe bits|row col ixfe fm|row cf rks|row col ixfe isst|row col ixfe s
                 |row col ixfe b|row col ixfe e|row col ixfe c grbit chn fmla mid
                 |wide rf rl cf cl|typ body|bof recs|regs]; cbn [wf_item] in Hwf; cbn [item_cells];
    try (constructor; [unfold in_grid, wf_cell in *; cbn [fst snd]; lia|constructor]);
    try constructor.
  - apply mulrk_denote_grid; lia.
  - destruct (nthN (e_strings en) isst) as [[|c0 s0]|]; try constructor; [|constructor].
    unfold in_grid, wf_cell in *. cbn [fst snd]. lia.
Qed.

Lemma logical_grid : forall c, wf_layout c = true ->
  Forall in_grid (logical fdiv100 decode16 en c).
Proof.
  intros [items trailer] Hwf. unfold wf_layout in Hwf. cbn [l_items] in Hwf.
  apply andb_true_iff in Hwf as [Hit _]. unfold logical. cbn [l_items].
  induction items as [|it items IH]; [constructor|].
  cbn [forallb] in Hit. apply andb_true_iff in Hit as [H1 H2].
  cbn [flat_map]. apply Forall_app. split; [apply item_cells_grid, H1|apply IH, H2].
Qed.
End Bounds.

Lemma sorted_by_rowb_spec : forall L : list cellv, sorted_by_rowb L = true -> sorted_by_row L.
Proof.
  induction L as [|c L IH]; intros H; [exact I|].
  cbn [sorted_by_rowb] in H. cbn [sorted_by_row]. destruct L as [|c' L'].
  - split; exact I.
  - apply andb_true_iff in H as [H1 H2]. split; [lia|apply IH, H2].
Qed.

(* the tight bounding box of positions inside the grid is inside the grid *)
Definition box_in_grid (b : pos * pos) : Prop :=
  fst (fst b) < 65536 /\ snd (fst b) < 256 /\ fst (snd b) < 65536 /\ snd (snd b) < 256.

Lemma bbox_fold_grid : forall (ps : list pos) (b : pos * pos),
  Forall (fun p => fst p < 65536 /\ snd p < 256) ps -> box_in_grid b ->
  box_in_grid (fold_left (fun b p => bbox (Some b) p) ps b).
Proof.
  induction ps as [|p ps IH]; intros b HF Hb; cbn [fold_left]; [exact Hb|].
  inversion HF as [|? ? [Hp1 Hp2] HF']; subst. apply IH; [exact HF'|].
  destruct b as [s e]. unfold box_in_grid in *. cbn [bbox fst snd] in *. lia.
Qed.

Lemma tight_bbox_grid : forall (p0 : pos) (ps : list pos),
  Forall (fun p => fst p < 65536 /\ snd p < 256) (p0 :: ps) ->
  exists s e, tight_bbox (p0 :: ps) = Some (s, e) /\ box_in_grid (s, e).
Proof.
  intros p0 ps HF. inversion HF as [|? ? [H1 H2] HF']; subst. cbn [tight_bbox].
  exists (fst (fold_left (fun b p => bbox (Some b) p) ps (p0, p0))),
         (snd (fold_left (fun b p => bbox (Some b) p) ps (p0, p0))).
  rewrite <- surjective_pairing. split; [reflexivity|].
  apply bbox_fold_grid; [exact HF'|]. unfold box_in_grid. cbn [fst snd]. lia.
Qed.

(* ---------- from_sparse gives the expected range ---------- *)
Lemma nth_error_ext_eq : forall (A : Type) (l1 l2 : list A),
  (forall k, nth_error l1 k = nth_error l2 k) -> l1 = l2.
Proof.
  induction l1 as [|x l1 IH]; intros [|y l2] H.
  - reflexivity.
  - specialize (H 0%nat). discriminate.
  - specialize (H 0%nat). discriminate.
  - pose proof (H 0%nat) as H0. cbn in H0. inversion H0; subst. f_equal.
    apply IH. intros k. apply (H (S k)).
Qed.

Lemma tabulate_length : forall (A : Type) (f : N -> A) n k, length (tabulate f n k) = n.
Proof. induction n as [|n IH]; intros k; cbn [tabulate length]; auto. Qed.

Lemma tabulate_nth : forall (A : Type) (f : N -> A) n k i, (i < n)%nat ->
  nth_error (tabulate f n k) i = Some (f (k + N.of_nat i)).
Proof.
  induction n as [|n IH]; intros k i H; [lia|].
  destruct i as [|i]; cbn [tabulate nth_error].
  - rewrite N.add_0_r. reflexivity.
  - rewrite IH by lia. do 2 f_equal. lia.
Qed.

Lemma range_cells_length : forall s e L,
  length (range_cells s e L) = N.to_nat ((fst e - fst s + 1) * (snd e - snd s + 1)).
Proof. intros s e L. unfold range_cells. cbv zeta. apply tabulate_length. Qed.

Lemma range_cells_nth : forall s e L k,
  (k < N.to_nat ((fst e - fst s + 1) * (snd e - snd s + 1)))%nat ->
  nth_error (range_cells s e L) k =
    Some (last_write DEmpty L (fst s + N.of_nat k / (snd e - snd s + 1),
                               snd s + N.of_nat k mod (snd e - snd s + 1))).
Proof.
  intros s e L k H. unfold range_cells. cbv zeta.
  rewrite tabulate_nth by exact H. rewrite N.add_0_l. reflexivity.
Qed.

(* ---------- the formula positions: a row-sorted sub-sequence of the cell positions ---------- *)
From Coq Require Import Sorting.Sorted.

Definition rows_of (L : list cellv) : list N := map (fun c => fst (fst c)) L.

Lemma sorted_rows_Sorted : forall L : list cellv, sorted_by_rowb L = true -> Sorted N.le (rows_of L).
Proof.
  induction L as [|c L IH]; intros H; [constructor|].
  cbn [sorted_by_rowb] in H. unfold rows_of in *. cbn [map]. destruct L as [|c' L'].
  - constructor; constructor.
  - apply andb_true_iff in H as [H1 H2]. constructor; [apply IH, H2|].
    cbn [map]. constructor. apply N.leb_le. exact H1.
Qed.

Lemma sorted_rows_SS : forall L : list cellv, sorted_by_rowb L = true ->
  StronglySorted N.le (rows_of L).
Proof.
  intros L H. apply Sorted_StronglySorted.
  - intros x y z Hxy Hyz. lia.
  - apply sorted_rows_Sorted, H.
Qed.

Lemma SS_app_r : forall (a b : list N), StronglySorted N.le (a ++ b) -> StronglySorted N.le b.
Proof.
  induction a as [|x a IH]; intros b H; [exact H|].
  cbn [app] in H. inversion H; subst. apply IH. assumption.
Qed.

Lemma SS_sorted_by_row : forall (T : Type) (v : T) (ps : list pos),
  StronglySorted N.le (map fst ps) -> sorted_by_row (map (fun p => (p, v)) ps).
Proof.
  induction ps as [|p ps IH]; intros H; [exact I|].
  cbn [map] in *. inversion H as [|? ? HS HF]; subst. cbn [sorted_by_row]. split.
  - destruct ps as [|q ps']; [exact I|]. cbn [map fst]. inversion HF; subst. assumption.
  - apply IH, HS.
Qed.

Lemma pre_sparse_grid : forall (T : Type) (cs : list (pos * T)),
  Forall (fun p => fst p < 65536 /\ snd p < 256) (map fst cs) -> pre_sparse cs.
Proof.
  intros T cs Hg. split.
  - intros x Hx. rewrite Forall_forall in Hg. destruct (Hg (fst x)) as [G1 G2].
    + apply in_map. exact Hx.
    + unfold U32MAX. lia.
  - destruct (map fst cs) as [|p0 ps] eqn:E; [exact I|].
    destruct (tight_bbox_grid Hg) as (s & e & -> & B).
    unfold box_in_grid in B. unfold box_cells, U64MAX. cbn [fst snd] in *. nia.
Qed.

Section Fmls.
Variable fdiv100 : N -> N.
Variable decode16 : list N -> list N.
Variable en : env.

Ltac lia := try clear fdiv100; try clear decode16; try clear en; Lia.lia.

Lemma fmls_grid : forall items, forallb wf_item items = true ->
  Forall (fun p => fst p < 65536 /\ snd p < 256) (flat_map item_fmls items).
Proof.
  induction items as [|it items IH]; intros H; [constructor|].
  cbn [forallb] in H. apply andb_true_iff in H as [H1 H2]. cbn [flat_map].
  apply Forall_app. split; [|apply IH, H2].
  destruct it; cbn [item_fmls]; try constructor; [|constructor].
  cbn [wf_item] in H1. unfold wf_cell in H1. cbn [fst snd]. lia.
Qed.

End Fmls.

Section Main.
Variable fdiv100 : N -> N.
Variable decode16 : list N -> list N.
Variable en : env.

(* keep lia from capturing section variables the statement does not mention *)
Ltac lia := try clear fdiv100; try clear decode16; try clear en; Lia.lia.

Lemma from_sparse_range_of : forall L : list cellv,
  Forall in_grid L -> from_sparse DEmpty L = Ok (range_of L).
Proof.
  intros L Hg. destruct L as [|c0 L0] eqn:EL; [reflexivity|]. rewrite <- EL in *.
  assert (Hne : L <> []) by (rewrite EL; discriminate).
  assert (HgP : Forall (fun p => fst p < 65536 /\ snd p < 256) (map fst L))
    by (apply Forall_map; exact Hg).
  (* the bounding box *)
  assert (Hbb : exists s e, tight_bbox (map fst L) = Some (s, e) /\
                  fst s < 65536 /\ snd s < 256 /\ fst e < 65536 /\ snd e < 256).
  { revert HgP. rewrite EL. cbn [map]. intros HgP.
    destruct (tight_bbox_grid HgP) as (s & e & Hb & B).
    exists s, e. split; [exact Hb|]. exact B. }
  destruct Hbb as (s & e & Hbb & Hs1 & Hs2 & He1 & He2).
  destruct (from_sparse_spec_unsorted DEmpty (pre_sparse_grid L HgP)) as (r & Hr & Hwf & Hrect & Hget).
  rewrite Hr. f_equal. unfold range_of. rewrite Hbb.
  destruct r as [rs re inner]. rewrite Hbb in Hrect. unfold rect in Hrect.
  destruct (is_empty (mkRange rs re inner)) eqn:Hemp; [discriminate|].
  cbn [r_start r_end] in Hrect. inversion Hrect; subst rs re. clear Hrect.
  f_equal.
  (* the inner vector, cell by cell *)
  destruct Hwf as [Hnil|(Hle1 & Hle2 & Hlen)];
    [cbn [r_inner] in Hnil; subst inner; discriminate|].
  cbn [r_start r_end r_inner] in Hle1, Hle2, Hlen.
  set (h := fst e - fst s + 1) in *. set (w := snd e - snd s + 1) in *.
  apply nth_error_ext_eq. intros k.
  destruct (Nat.lt_ge_cases k (N.to_nat (h * w))) as [Hk|Hk].
  - rewrite range_cells_nth by exact Hk. fold w.
    set (i := N.of_nat k / w). set (j := N.of_nat k mod w).
    assert (Hw : 0 < w) by (unfold w; lia).
    assert (Hi : i < h) by (unfold i; apply N.div_lt_upper_bound; lia).
    assert (Hj : j < w) by (unfold j; apply N.mod_lt; lia).
    specialize (Hget (fst s + i, snd s + j)).
    unfold in_rect, rect in Hget. rewrite Hemp in Hget. cbn [r_start r_end] in Hget.
    unfold in_box in Hget. cbn [fst snd] in Hget.
    unfold get_value in Hget. cbn [r_start r_end fst snd] in Hget.
    destruct s as [sr sc], e as [er ec]. cbn [fst snd] in *.
    assert (Hc : (sr <=? sr + i) && (sr + i <=? er) && (sc <=? sc + j) && (sc + j <=? ec) = true)
      by (unfold h, w in *; lia).
    rewrite Hc in Hget. unfold get, width, height in Hget. rewrite Hemp in Hget.
    cbn [r_start r_end r_inner fst snd] in Hget. fold h w in Hget.
    replace (sr + i - sr) with i in Hget by lia. replace (sc + j - sc) with j in Hget by lia.
    destruct ((w <=? j) || (h <=? i)) eqn:Eb; [lia|].
    replace (N.to_nat (i * w + j)) with k in Hget; [exact Hget|].
    unfold i, j. pose proof (N.div_mod (N.of_nat k) w). lia.
  - assert (H1 : nth_error inner k = None) by (apply nth_error_None; lia).
    assert (H2 : nth_error (range_cells s e L) k = None).
    { apply nth_error_None. rewrite range_cells_length. fold h w. lia. }
    rewrite H1, H2. reflexivity.
Qed.

(* the formula range is built whatever the positions *)
Lemma fmls_range_ok : forall ps : list pos,
  exists r, from_sparse tt (map (fun p => (p, tt)) ps) = Ok r.
Proof. intros ps. destruct (from_sparse_total tt (map (fun p => (p, tt)) ps)) as (r & Hr & _). eauto. Qed.

(* xls_sheet_main: every legal layout c of a logical sheet L — cell records in any order, any
   run of ignored records between FORMULA and STRING, STRING continued in any number of
   CONTINUE records — reads back as the range of L.  No known class is left. *)
Theorem xls_sheet_main : forall L c,
  legal fdiv100 decode16 en c L ->
  sheet_model fdiv100 decode16 en (encode_sheet c) = Ok (range_of L).
Proof.
  intros L c (Hwf & HL). unfold sheet_model.
  rewrite sheet_cells_encode by assumption. cbn [obind fst snd]. rewrite HL.
  rewrite from_sparse_range_of by (rewrite <- HL; apply logical_grid; exact Hwf).
  cbn [obind]. destruct (fmls_range_ok (layout_fmls c)) as [rf ->]. reflexivity.
Qed.

(* what "range_of L" means, spelled out: tight bounding box of the cells, every cell at its
   absolute position (last record wins), Empty elsewhere inside, nothing outside *)
Theorem xls_sheet_main_values : forall L c,
  legal fdiv100 decode16 en c L ->
  exists r, sheet_model fdiv100 decode16 en (encode_sheet c) = Ok r /\ Wf r /\
    rect r = tight_bbox (map fst L) /\
    forall q, get_value r q = if in_rect r q then Some (last_write DEmpty L q) else None.
Proof.
  intros L c (Hwf & HL). unfold sheet_model.
  rewrite sheet_cells_encode by assumption. cbn [obind fst snd]. rewrite HL.
  destruct (fmls_range_ok (layout_fmls c)) as [rf Hrf]. rewrite Hrf.
  assert (Hg : Forall in_grid L) by (rewrite <- HL; apply logical_grid; exact Hwf).
  assert (HgP : Forall (fun p => fst p < 65536 /\ snd p < 256) (map fst L))
    by (apply Forall_map; exact Hg).
  destruct (from_sparse_spec_unsorted DEmpty (pre_sparse_grid L HgP)) as (r & -> & Hrest).
  exists r. cbn [obind]. split; [reflexivity|exact Hrest].
Qed.

End Main.

(* ---------- totality: no input panics the sheet reader, the stated fuel suffices ---------- *)
(* (as of the C06 hardening of /repo: MULRK, DIMENSIONS, MERGECELLS, the BoundSheet position and
   Range::from_sparse no longer have a panic path; what is left are the two slice reads whose
   length the callers establish first: rk_num on exactly 6 bytes, read_f64 on the 8 FormulaValue
   bytes) *)
Definition safe (A : Type) (o : outcome A) : Prop :=
  match o with Panic | OutOfFuel => False | _ => True end.

Lemma safe_bind : forall (A B : Type) (o : outcome A) (k : A -> outcome B),
  safe o -> (forall x, o = Ok x -> safe (k x)) -> safe (obind o k).
Proof. intros A B [x|e| |] k Ho Hk; cbn [obind safe] in *; try contradiction; auto. Qed.

Lemma safe_not : forall (A : Type) (o : outcome A), safe o -> o <> Panic /\ o <> OutOfFuel.
Proof. intros A [x|e| |] H; cbn [safe] in H; try contradiction; split; discriminate. Qed.

Ltac safe_tac := repeat first
  [ exact I
  | match goal with
    | |- safe (if ?b then _ else _) => destruct b
    | |- safe (obind ?o _) => apply safe_bind; [|intros ? ?]
    | |- safe (match ?x with _ => _ end) => destruct x
    end ].

Lemma parse_err_safe : forall e, safe (parse_err e).
Proof. intros e. unfold parse_err. safe_tac. Qed.

Lemma parse_bool_err_safe : forall r, safe (parse_bool_err r).
Proof. intros r. unfold parse_bool_err. safe_tac. apply parse_err_safe. Qed.

Lemma parse_dimensions_safe : forall r, safe (parse_dimensions r).
Proof. intros r. unfold parse_dimensions. cbv zeta. safe_tac. Qed.

Lemma parse_formula_value_safe : forall r, length r = 8%nat -> safe (parse_formula_value r).
Proof.
  intros r H. unfold parse_formula_value. rewrite H. cbv zeta.
  change (8 <? 8)%nat with false.
  repeat match goal with
         | |- safe (if ?b then _ else _) => destruct b
         end; try exact I.
  apply safe_bind; [apply parse_err_safe|intros; exact I].
Qed.

Lemma rk_num_six : forall fdiv100 rk formats is1904, length rk = 6%nat ->
  safe (rk_num fdiv100 rk formats is1904).
Proof.
  intros fdiv100 rk formats is1904 H.
  do 7 (destruct rk as [|? rk]; try discriminate H). exact I.
Qed.

Lemma rk_chunks_six : forall n (l : list N), length l = (6 * n)%nat ->
  Forall (fun c => length c = 6%nat) (rk_chunks l).
Proof.
  induction n as [|n IH]; intros l H.
  - destruct l; [constructor|discriminate H].
  - do 6 (destruct l as [|? l]; [cbn [length] in H; lia|]).
    cbn [rk_chunks]. constructor; [reflexivity|]. apply IH. cbn [length] in H. lia.
Qed.

Lemma dbcs_bytes_safe : forall conts data len hb acc, safe (dbcs_bytes conts data len hb acc).
Proof.
  induction conts as [|c conts IH]; intros data len hb acc; cbn [dbcs_bytes]; cbv zeta.
  - match goal with |- safe (if ?b then _ else _) => destruct b end; exact I.
  - match goal with |- safe (if ?b then _ else _) => destruct b end; [exact I|].
    destruct c as [|fl rest]; [exact I|apply IH].
Qed.

Section Total.
Variable fdiv100 : N -> N.
Variable decode16 : list N -> list N.
Variable en : env.
Ltac lia := try clear fdiv100; try clear decode16; try clear en; Lia.lia.

Lemma parse_number_safe : forall r, safe (parse_number en r).
Proof. intros r. unfold parse_number. safe_tac. Qed.

Lemma parse_string_safe : forall r, safe (parse_string decode16 r).
Proof. intros r. unfold parse_string. cbv zeta. safe_tac. Qed.

Lemma parse_label_safe : forall r, safe (parse_label decode16 r).
Proof. intros r. unfold parse_label. safe_tac. apply parse_string_safe. Qed.

Lemma parse_label_sst_safe : forall r, safe (parse_label_sst en r).
Proof. intros r. unfold parse_label_sst. safe_tac. Qed.

Lemma parse_rk_safe : forall r, safe (parse_rk fdiv100 en r).
Proof.
  intros r. unfold parse_rk. destruct (lenN r <? 10) eqn:E; [exact I|].
  apply safe_bind; [|intros; exact I]. apply rk_num_six.
  rewrite firstn_length, skipn_length. unfold lenN in E. lia.
Qed.

Lemma mulrk_cells_safe : forall chunks row col,
  Forall (fun c => length c = 6%nat) chunks -> safe (mulrk_cells fdiv100 en row col chunks).
Proof.
  induction chunks as [|c chunks IH]; intros row col H; [exact I|].
  inversion H as [|? ? H1 H2]; subst. cbn [mulrk_cells].
  apply safe_bind; [apply rk_num_six, H1|intros d _].
  apply safe_bind; [apply IH, H2|intros; exact I].
Qed.

Lemma parse_mul_rk_safe : forall r, safe (parse_mul_rk fdiv100 en r).
Proof.
  intros r. unfold parse_mul_rk. cbv zeta.
  destruct (lenN r <? 6) eqn:E0; [exact I|].
  set (cf := rd 2 2 r). set (cl := rd 2 (length r - 2) r).
  destruct (cl + 1 <? cf) eqn:E1; [exact I|].
  destruct (lenN r =? 6 + 6 * (cl + 1 - cf)) eqn:E2; [|exact I]. cbn [negb].
  apply mulrk_cells_safe. apply (rk_chunks_six (N.to_nat (cl + 1 - cf))).
  rewrite firstn_length, skipn_length. unfold lenN in *. lia.
Qed.

Theorem parse_cell_record_safe : forall typ d, safe (parse_cell_record fdiv100 decode16 en typ d).
Proof.
  intros typ d. unfold parse_cell_record.
  repeat match goal with |- safe (if ?b then _ else _) => destruct b end;
    first [apply parse_number_safe|apply parse_rk_safe|apply parse_mul_rk_safe
          |apply parse_bool_err_safe|apply parse_label_sst_safe|apply parse_label_safe|exact I].
Qed.

Lemma step_safe : forall r cells fpos fmls, safe (step fdiv100 decode16 en r cells fpos fmls).
Proof.
  intros [t d c] cells fpos fmls. unfold step. cbn [f_typ f_data f_cont]. cbv zeta.
  repeat match goal with
         | |- safe (if (t =? _) then _ else _) => destruct (t =? _)
         end;
  try (apply safe_bind; [|intros; exact I]);
  try first [apply parse_dimensions_safe|apply parse_number_safe|apply parse_label_safe
            |apply parse_bool_err_safe|apply parse_string_safe|apply parse_rk_safe
            |apply parse_label_sst_safe|apply parse_mul_rk_safe|exact I
            |destruct c as [conts|];
             [destruct (lenN d <? 3);
              [apply parse_string_safe|apply safe_bind; [apply dbcs_bytes_safe|intros; exact I]]
             |apply parse_string_safe]].
  - destruct (merge_cells_panics d); exact I.
  - destruct (lenN d <? 20) eqn:E; [exact I|].
    apply safe_bind.
    + apply parse_formula_value_safe. rewrite firstn_length, skipn_length.
      unfold lenN in E. lia.
    + intros v _. destruct v as [[]|]; exact I.
Qed.

(* framing: with fuel above the stream length the CONTINUE collection never runs dry, and what
   it leaves is no longer than what it got *)
Lemma take_n_length : forall s n a b, take_n s n = Some (a, b) -> (length b <= length s)%nat.
Proof.
  intros s n a b H. apply take_n_Some in H as [-> _]. rewrite app_length. lia.
Qed.

Lemma collect_cont_safe : forall fuel s acc, (length s < fuel)%nat ->
  safe (collect_cont fuel s acc) /\
  forall a r, collect_cont fuel s acc = Ok (a, r) -> (length r <= length s)%nat.
Proof.
  induction fuel as [|fuel IH]; intros s acc H; [lia|].
  cbn [collect_cont].
  destruct s as [|c0 [|c1 [|l0 [|l1 [|x body]]]]];
    try (split; [exact I|intros a r E; inversion E; subst; lia]).
  destruct (u16 c0 c1 =? 60).
  - destruct (take_n (x :: body) (u16 l0 l1)) as [[dd rest]|] eqn:T.
    + pose proof (take_n_length _ _ T) as HL. cbn [length] in *.
      destruct (IH rest (acc ++ [dd])) as [S1 S2]; [lia|].
      split; [exact S1|]. intros a r E. specialize (S2 a r E). lia.
    + split; [exact I|discriminate].
  - split; [exact I|intros a r E; inversion E; subst; lia].
Qed.

Lemma next_record_safe : forall fuel s, (length s <= fuel)%nat ->
  match next_record fuel s with
  | None => True
  | Some o => safe o /\ forall rr, o = Ok rr -> (length (snd rr) + 4 <= length s)%nat
  end.
Proof.
  intros fuel s H. unfold next_record.
  destruct s as [|t0 [|t1 [|l0 [|l1 body]]]]; try exact I;
    try (split; [exact I|discriminate]).
  destruct (take_n body (u16 l0 l1)) as [[dd next]|] eqn:T; [|split; [exact I|discriminate]].
  pose proof (take_n_length _ _ T) as HL. cbn [length] in *.
  destruct (starts_cont next).
  - destruct (@collect_cont_safe fuel next []) as [S1 S2]; [lia|].
    destruct (collect_cont fuel next []) as [[a r]| | |] eqn:E; cbn [obind safe] in *;
      try contradiction; (split; [exact I|]); try discriminate.
    intros rr Hrr. inversion Hrr; subst. cbn [snd]. specialize (S2 a r eq_refl). lia.
  - split; [exact I|]. intros rr Hrr. inversion Hrr; subst. cbn [snd]. lia.
Qed.

Lemma sheet_loop_S : forall f s cells fpos fmls dp,
  sheet_loop fdiv100 decode16 en (S f) s cells fpos fmls dp =
  match next_record f s with
  | None => Ok (cells, fmls)
  | Some o =>
      do rr <- o;
      let t := f_typ (fst rr) in
      if t =? 2057 then sheet_loop fdiv100 decode16 en f (snd rr) cells fpos fmls (dp + 1)
      else if 1 <? dp then
        sheet_loop fdiv100 decode16 en f (snd rr) cells fpos fmls (if t =? 10 then dp - 1 else dp)
      else
      do fl <- step fdiv100 decode16 en (fst rr) cells fpos fmls;
      match fl with
      | Stop => Ok (cells, fmls)
      | Next cells' fpos' fmls' => sheet_loop fdiv100 decode16 en f (snd rr) cells' fpos' fmls' dp
      end
  end.
Proof. reflexivity. Qed.

Lemma sheet_loop_safe : forall f s cells fpos fmls dp, (length s <= f)%nat ->
  safe (sheet_loop fdiv100 decode16 en (S f) s cells fpos fmls dp).
Proof.
  induction f as [|f IH]; intros s cells fpos fmls dp H.
  - destruct s; [|cbn [length] in H; lia]. exact I.
  - rewrite sheet_loop_S. cbv zeta. pose proof (@next_record_safe (S f) s H) as NR.
    destruct (next_record (S f) s) as [o|]; [|exact I].
    destruct NR as [So Hl]. destruct o as [rr|e| |]; cbn [safe] in So; try contradiction;
      cbn [obind]; [|exact I].
    specialize (Hl rr eq_refl).
    destruct (f_typ (fst rr) =? 2057); [apply IH; lia|].
    destruct (1 <? dp); [apply IH; lia|].
    pose proof (step_safe (fst rr) cells fpos fmls) as St.
    destruct (step fdiv100 decode16 en (fst rr) cells fpos fmls) as [fl|e| |];
      cbn [safe] in St; try contradiction; cbn [obind]; [|exact I].
    destruct fl as [cells' fpos' fmls'|]; [|exact I].
    apply IH. lia.
Qed.

(* C02_no_panic_sheet: for EVERY byte string, at the fuel the model states (stream length + 1),
   the sheet reader neither panics nor runs out of fuel *)
Theorem sheet_cells_total : forall stream,
  sheet_cells fdiv100 decode16 en stream <> Panic /\
  sheet_cells fdiv100 decode16 en stream <> OutOfFuel.
Proof. intros stream. apply safe_not. unfold sheet_cells. apply sheet_loop_safe. lia. Qed.

Theorem sheet_model_total : forall stream,
  sheet_model fdiv100 decode16 en stream <> Panic /\
  sheet_model fdiv100 decode16 en stream <> OutOfFuel.
Proof.
  intros stream. apply safe_not. unfold sheet_model.
  apply safe_bind; [unfold sheet_cells; apply sheet_loop_safe; lia|intros cf _].
  destruct (from_sparse_total DEmpty (fst cf)) as (r & -> & _). cbn [obind].
  destruct (from_sparse_total tt (map (fun p => (p, tt)) (snd cf))) as (r' & -> & _). exact I.
Qed.

Theorem sheet_at_total : forall workbook p,
  sheet_at fdiv100 decode16 en workbook p <> Panic /\
  sheet_at fdiv100 decode16 en workbook p <> OutOfFuel.
Proof.
  intros workbook p. unfold sheet_at. destruct (lenN workbook <? p).
  - split; discriminate.
  - apply sheet_model_total.
Qed.

Theorem all_records_total : forall s,
  all_records (S (length s)) s <> Panic /\ all_records (S (length s)) s <> OutOfFuel.
Proof.
  intros s. apply safe_not.
  assert (G : forall f s, (length s <= f)%nat -> safe (all_records (S f) s)).
  { induction f as [|f IH]; intros s0 H.
    - destruct s0; [exact I|cbn [length] in H; lia].
    - cbn [all_records]. pose proof (@next_record_safe (S (S f)) s0) as NR.
      destruct (next_record (S (S f)) s0) as [o|]; [|exact I].
      destruct NR as [So Hl]; [lia|].
      destruct o as [rr|e| |]; cbn [safe] in So; try contradiction; cbn [obind]; [|exact I].
      specialize (Hl rr eq_refl).
      apply safe_bind; [apply IH; lia|intros; exact I]. }
  apply G. lia.
Qed.
End Total.

(* the per-parser statements in the form C06 lists them *)
Theorem parse_cell_record_total : forall fdiv100 decode16 en typ d,
  parse_cell_record fdiv100 decode16 en typ d <> Panic /\
  parse_cell_record fdiv100 decode16 en typ d <> OutOfFuel.
Proof. intros. apply safe_not, parse_cell_record_safe. Qed.

Theorem parse_formula_value_total : forall r, length r = 8%nat ->
  parse_formula_value r <> Panic /\ parse_formula_value r <> OutOfFuel.
Proof. intros r H. apply safe_not, parse_formula_value_safe, H. Qed.

Theorem parse_dimensions_total : forall r,
  parse_dimensions r <> Panic /\ parse_dimensions r <> OutOfFuel.
Proof. intros r. apply safe_not, parse_dimensions_safe. Qed.

Theorem rk_num_total : forall fdiv100 rk formats is1904,
  rk_num fdiv100 rk formats is1904 <> Panic <-> length rk = 6%nat.
Proof.
  intros fdiv100 rk formats is1904. split.
  - intros H. destruct (Nat.eq_dec (length rk) 6) as [E|E]; [exact E|].
    exfalso. apply H. apply rk_num_panics. exact E.
  - intros H. apply safe_not. apply rk_num_six. exact H.
Qed.

(* ---------- NUMBER vs RK vs MULRK ---------- *)
(* numerically equal cell values: an Int k and the double k are the same number *)
Definition data_num_eq (a b : data) : Prop :=
  match a, b with
  | DFloat x, DFloat y => x = y
  | DFloat x, DInt k => z2f k = x
  | DInt k, DFloat x => z2f k = x
  | DInt k, DInt k' => k = k'
  | DDateTime x d s, DDateTime y d' s' => x = y /\ d = d' /\ s = s'
  | _, _ => False
  end.

Section Equiv.
Variable fdiv100 : N -> N.
Variable decode16 : list N -> list N.
Variable en : env.

(* keep lia from capturing section variables the statement does not mention *)
Ltac lia := try clear fdiv100; try clear decode16; try clear en; Lia.lia.

Lemma num_data_eq : forall ixfe r bits, rk_num_eqb r bits = true ->
  data_num_eq (num_data en ixfe (RFloat bits)) (num_data en ixfe r).
Proof.
  intros ixfe r bits H. unfold num_data.
  destruct r as [k|b]; cbn [rk_num_eqb] in H; apply N.eqb_eq in H; subst bits;
    cbn [rk_wrap format_excel_f64 format_excel_i64];
    destruct (nthN (e_formats en) ixfe) as [[| |]|]; cbn [data_num_eq]; repeat split; auto.
Qed.

(* the same number written as a NUMBER record, as an RK record in any of its legal forms, or
   inside a MULRK run (any run: [before] and [after] are arbitrary legal neighbours) is read at
   the same cell with numerically equal values; RK and MULRK agree exactly *)
Theorem encodings_equivalent : forall row col ixfe bits f before after,
  row < 65536 -> ixfe < 65536 -> bits < 18446744073709551616 ->
  lenN before <= col -> col + lenN after < 65535 ->
  form_of fdiv100 bits f = true ->
  forallb (fun x => (fst x <? 65536) && legal_form (snd x)) before = true ->
  forallb (fun x => (fst x <? 65536) && legal_form (snd x)) after = true ->
  exists d1 d2 cells,
    parse_number en (cell_head row col ixfe ++ le_bytes 8 bits) = Ok [((row, col), d1)] /\
    parse_rk fdiv100 en (le_bytes 2 row ++ le_bytes 2 col ++ enc_rkrec (ixfe, f)) = Ok [((row, col), d2)] /\
    parse_mul_rk fdiv100 en (mulrk_body row (col - lenN before) (before ++ (ixfe, f) :: after)) = Ok cells /\
    nth_error cells (length before) = Some ((row, col), d2) /\
    data_num_eq d1 d2.
Proof.
  intros row col ixfe bits f before after Hr Hi Hb Hbe Haf Hform Hall1 Hall2.
  unfold form_of in Hform. apply andb_true_iff in Hform as [Hleg Hnum].
  exists (num_data en ixfe (RFloat bits)), (num_data en ixfe (rk_form_value fdiv100 f)),
         (mulrk_denote fdiv100 en row (col - lenN before) (before ++ (ixfe, f) :: after)).
  assert (HL : lenN (before ++ (ixfe, f) :: after) = lenN before + 1 + lenN after)
    by (rewrite lenN_app, lenN_cons; lia).
  split; [apply parse_number_enc; lia|]. split; [apply parse_rk_enc; try lia; assumption|].
  split; [|split].
  - apply parse_mul_rk_enc; try lia.
    rewrite forallb_app. cbn [forallb fst snd]. rewrite Hall1, Hall2, Hleg.
    destruct (ixfe <? 65536) eqn:E; [reflexivity|lia].
  - rewrite (@mulrk_denote_nth fdiv100 en _ row (col - lenN before) (length before) (ixfe, f)).
    + cbn [fst snd]. replace (col - lenN before + N.of_nat (length before)) with col
        by (unfold lenN in *; lia). reflexivity.
    + rewrite nth_error_app2 by lia. rewrite Nat.sub_diag. reflexivity.
  - apply num_data_eq. exact Hnum.
Qed.

(* ---------- what lies outside [legal] ---------- *)
(* outside [legal]: cell records that are not in row order.  Until repo commit 3140dd1
   from_sparse took the first and last record's rows as the bounds (panic, or cells silently
   dropped); it now searches all four bounds and these sheets read back in full.  [legal]
   no longer asks for row order (C05's from_sparse_spec_unsorted). *)
Example unsorted_rows_read :
  sheet_model fdiv100 decode16 en
    (encode_sheet (mkLayout [IBool 5 0 0 true; IBool 2 0 0 false; IBool 6 0 0 true] []))
  = Ok (mkRange (2, 0) (6, 0) [DBool false; DEmpty; DEmpty; DBool true; DBool true]).
Proof. vm_compute. reflexivity. Qed.

Example rows_beyond_last_kept :
  sheet_model fdiv100 decode16 en
    (encode_sheet (mkLayout [IBool 2 0 0 true; IBool 7 0 0 false; IBool 3 0 0 true] []))
  = Ok (mkRange (2, 0) (7, 0) [DBool true; DBool true; DEmpty; DEmpty; DEmpty; DBool false]).
Proof. vm_compute. reflexivity. Qed.

End Equiv.

(* ---------- non-vacuity ---------- *)
(* SHRFMLA (0x04BC) for rows 3..4 of column 2; ARRAY (0x0221) anchored at (4, 1) *)
Definition ex_shrfmla : midrec := (1212, [3; 0; 4; 0; 2; 2; 0; 2; 3; 0; 30; 1; 0]).
Definition ex_array : midrec := (545, [4; 0; 4; 0; 1; 1; 0; 0; 0; 0; 0; 0; 3; 0; 30; 1; 0]).
Definition ex_table : midrec := (566, [5; 0; 6; 0; 1; 2; 0; 0; 5; 0; 0; 0; 0; 0; 0; 0]).

(* the chart substream of an embedded chart object as Excel writes it (shortened): Units, Chart,
   Begin / End, the DIMENSIONS of the series cache, SIIndex 1 with two NUMBER records at
   (0,0) and (1,2) — the second collides with a cell of the sheet —, SIIndex 2 with a LABEL, a
   BOOLERR, then shapes no chart has but the format does not forbid inside a nested substream:
   FORMULA + STRING, MERGECELLS, a record followed by two CONTINUE records, a further BOF … EOF
   pair holding an RK record *)
Definition ex_chart : item :=
  ISub [0; 6; 32; 0; 187; 13; 204; 7; 0; 0; 0; 0; 6; 3; 0; 0]
    [mkSrec 4097 [0; 0] []; mkSrec 4098 [0;0;0;0; 0;0;0;0; 100;0;0;0; 100;0;0;0] [];
     mkSrec 4147 [] []; mkSrec 4148 [] [];
     mkSrec 512 [0;0;0;0; 2;0;0;0; 0;0; 2;0; 0;0] [];
     mkSrec 4197 [1; 0] [];
     mkSrec 515 [0;0; 0;0; 0;0; 0;0;0;0;0;0;36;64] []; mkSrec 515 [1;0; 2;0; 0;0; 0;0;0;0;0;0;52;64] [];
     mkSrec 4197 [2; 0] [];
     mkSrec 516 [0;0; 0;0; 0;0; 1;0; 0; 97] []; mkSrec 517 [1;0; 0;0; 0;0; 1; 0] [];
     mkSrec 6 [3;0; 2;0; 0;0; 0;0;0;0;0;0;255;255; 0;0; 0;0;0;0; 3;0; 30;1;0] [];
     mkSrec 519 [1;0; 0; 120] [];
     mkSrec 229 [1;0; 4;0; 5;0; 0;0; 1;0] [];
     mkSrec 236 [1; 2; 3] [[4; 5]; [6]];
     mkSrec 2057 [0; 6; 32; 0] [[7]]; mkSrec 638 [1;0; 2;0; 0;0; 2;0;0;0] []; mkSrec 10 [] []].

Definition example_layout : layout :=
  mkLayout [index_item 1 65536 [1234];
            IDims true 1 65536 0 256; row_item 1 2 4 255; row_item 2 1 9 255;
            INumber 1 2 0 4607182418800017408; IRk 1 3 0 (RkI (-5) false);
            IMulRk 2 1 [(0, RkI 700 true); (1, RkI 7 false); (0, RkF 267911168 true)];
            ex_chart;
            ILabelSst 2 5 0 0; ILabelSst 2 4 0 1; blank_item 2 7 0; mulblank_item 2 8 [0; 0; 1];
            IOther 513 [1; 2; 3];
            IBool 3 0 0 true; IErr 3 1 0 ENA;
            (* first cell of a shared text formula: FORMULA (PtgExp), SHRFMLA, STRING *)
            IFormula 3 2 0 (CStr (mkStr [104; 105] false) []) 8 0 [5; 0; 1; 3; 0; 2; 0] [ex_shrfmla];
            IFormula 3 3 0 (CNum 4611686018427387904) 0 0 [3; 0; 30; 1; 0] [];
            ILabel 4 0 0 (mkStr [] false);
            (* array-formula anchor returning "": FORMULA, ARRAY, an ignorable record, STRING
               and a CONTINUE holding only its flag byte *)
            IFormula 4 1 0 (CStr (mkStr [] true) [mkStr [] false]) 0 0 [5; 0; 1; 4; 0; 1; 0]
                     [ex_array; (2150, [1; 2])];
            (* a numeric formula may be followed by TABLE / SHRFMLA too *)
            IFormula 5 1 0 (CBool true) 0 0 [5; 0; 1; 5; 0; 1; 0] [ex_table];
            dbcell_item 100 [20; 30];
            ISub [] [];                          (* the smallest nested substream: BOF, EOF *)
            IDims false 1 65535 0 256;
            ILabel 65535 255 0 (mkStr [104; 300] true)] [9; 8; 16; 0].
Definition example_env : env := mkEnv [FOther; FDateTime] false [[97; 98]; []; [99]].

Lemma example_legal : forall fdiv100 decode16,
  legal fdiv100 decode16 example_env example_layout
        (logical fdiv100 decode16 example_env example_layout) /\
  length (logical fdiv100 decode16 example_env example_layout) = 14%nat.
Proof. intros. repeat split; reflexivity. Qed.

(* the former defect XLS-2 (audit 2): a worksheet with an embedded chart whose series cache is
   addressed like the cells A1, A2 of the sheet, MERGECELLS behind the chart.  The sheet reads
   back as its own cells; the chart's records change nothing. *)
Definition chart_layout : layout :=
  mkLayout [ILabel 0 0 0 (mkStr [78] false); ILabel 0 1 0 (mkStr [86] false);
            ILabel 1 0 0 (mkStr [97] false); INumber 1 1 0 4621819117588971520;
            IOther 236 [0;0;0;0;0;0;0;0]; IOther 93 [0; 0];
            ISub [0; 6; 32; 0]
              [mkSrec 512 [0;0;0;0; 2;0;0;0; 0;0; 1;0; 0;0] []; mkSrec 4197 [1; 0] [];
               mkSrec 515 [0;0; 0;0; 0;0; 0;0;0;0;0;0;36;64] [];
               mkSrec 4197 [2; 0] []; mkSrec 516 [0;0; 0;0; 0;0; 1;0; 0; 97] [];
               mkSrec 516 [1;0; 0;0; 0;0; 1;0; 0; 98] []];
            IOther 574 [182; 6; 0; 0];
            IMerge [(4, 5, 0, 1)];
            IBool 2 0 0 true] [].

(* the named ignorable records are IOther items within wf_item *)
Lemma ignorable_wf : forall row col ixfe cf ixfes cl h off offs rf rl dbs,
  lenN ixfes <= 256 -> lenN offs <= 32 -> lenN dbs <= 2048 ->
  wf_item (blank_item row col ixfe) = true /\
  wf_item (mulblank_item row cf ixfes) = true /\
  wf_item (row_item row cf cl h) = true /\
  wf_item (dbcell_item off offs) = true /\
  wf_item (index_item rf rl dbs) = true.
Proof.
  intros row col ixfe cf ixfes cl h off offs rf rl dbs H1 H2 H3.
  assert (HF : forall k (l : list N), lenN (flat_map (le_bytes k) l) = N.of_nat k * lenN l).
  { intros k l. induction l as [|x l IH]; [cbn [flat_map]; rewrite !lenN_nil; lia|].
    cbn [flat_map]. rewrite lenN_app, lenN_le, lenN_cons, IH. nia. }
  unfold blank_item, mulblank_item, row_item, dbcell_item, index_item. cbn [wf_item].
  change (interpreted 513) with false. change (interpreted 190) with false.
  change (interpreted 520) with false. change (interpreted 215) with false.
  change (interpreted 523) with false.
  rewrite !lenN_app, !lenN_head, !lenN_le, !HF, !lenN_cons, !lenN_nil.
  cbn [N.of_nat Pos.of_succ_nat Pos.succ negb andb].
  repeat split; lia.
Qed.

(* the former known class StringContinue, now read in full: "h" in STRING, "i€" in its CONTINUE,
   SHRFMLA between FORMULA and STRING *)
Definition cont_layout : layout :=
  mkLayout [IFormula 1 1 0 (CStr (mkStr [104] false) [mkStr [105; 8364] true]) 0 0
                     [3; 0; 30; 1; 0] [ex_shrfmla]] [].
Definition id_decode (b : list N) : list N := b.

Lemma example_chart_sheet : forall fdiv100,
  wf_item ex_chart = true /\
  legal fdiv100 id_decode example_env chart_layout
        (logical fdiv100 id_decode example_env chart_layout) /\
  sheet_model fdiv100 id_decode example_env (encode_sheet chart_layout)
    = Ok (mkRange (0, 0) (2, 1)
            [DString [78; 0]; DString [86; 0]; DString [97; 0]; DFloat 4621819117588971520;
             DBool true; DEmpty]).
Proof.
  intros fdiv100. split; [reflexivity|]. split; [split; reflexivity|]. vm_compute. reflexivity.
Qed.

Lemma example_string_continue : forall fdiv100,
  legal fdiv100 id_decode example_env cont_layout
        (logical fdiv100 id_decode example_env cont_layout) /\
  sheet_model fdiv100 id_decode example_env (encode_sheet cont_layout)
    = Ok (mkRange (1, 1) (1, 1) [DString [104; 0; 105; 0; 172; 32]]).
Proof. intros fdiv100. split; [split; reflexivity|]. vm_compute. reflexivity. Qed.

Lemma example_equiv : forall fdiv100,
  form_of fdiv100 4619567317775286272 (RkI 700 true) = true /\       (* 7.0 as 700 / 100 *)
  form_of fdiv100 4619567317775286272 (RkI 7 false) = true /\
  form_of fdiv100 4619567317775286272 (RkF 268894208 false) = true.
Proof. intros. repeat split; reflexivity. Qed.
