(* C13 — compound-file streams are recovered whatever the container's physical layout.
   Statements only; proofs are in Cfb_proofs.v.  Model (of src/cfb.rs after the hardening and the
   two C13 fixes: names decoded without BOM sniffing, zero-length entries read as empty), encoder
   and validity: Cfb.v.
   Proved: (1) chain following for any FAT / chain / sector contents; totality of the chain walk
   (a cycle ends in an I/O error); (2) recovery of a small stream through the mini FAT inside the
   root entry's chain; (3) layout independence THROUGH THE BYTES: for every container and every
   valid layout, reading any stream of cfb_write c l gives its content (C13_layout_independent),
   hence two containers holding the same stream read the same; the table-level `_partial`
   statements and the byte-level round trips of each table are kept; (4) totality of Cfb::new and
   get_stream on ANY input (for C06); (5) names unique per storage only (MS-CFB) and Excel's
   "Workbook preferred, Book as fallback": the entry the flat scan of Cfb::get_stream reaches is
   the one in the lowest directory slot among the objects carrying the name
   (C13_find_dir_first); a stream is read back as soon as no object of the same name sits in a
   lower slot (C13_layout_independent_first), always when names are distinct over the whole file
   (C13_layout_independent); Xls::parse_workbook's two lookups read the root storage's Workbook,
   else its Book, in any directory order (C13_workbook_stream_preferred, _unique, _known), EXCEPT
   in known class 2 (an object of the same name of another storage in a lower slot:
   C13_refuted_shadowed_workbook, confirmed on the real code). *)
From Calamine Require Import Prelude Utf16 Cfb Cfb_proofs.
Open Scope N_scope.

(* ---------------------------------------------------------------- (1) chains *)
Theorem C13_chain_follow : forall fat ss body start ids len s r,
  Chain fat start ids -> NoDup ids ->
  Inv ss body s r ->
  (forall id, In id ids -> (id + 1) * ss <= lenN body) ->
  exists s' r',
    get_chain s start fat r len
    = Ok (trunc_spec len (concat (map (sector ss body) ids)), s', r') /\ Inv ss body s' r'.
Proof. exact chain_follow. Qed.

(* the chain walk needs no fuel and never panics, for ANY allocation table, start and reader *)
Theorem C13_chain_total : forall s id fats r len,
  get_chain s id fats r len <> Panic /\ get_chain s id fats r len <> OutOfFuel.
Proof. exact chain_total. Qed.

(* a repetition: start leads to x and x leads back to x; the walk ends in an I/O error
   (before the hardening the real loop did not terminate) *)
Theorem C13_chain_cycle_is_error : forall fat ss body start p x q,
  Path fat start p x -> Path fat x q x -> q <> [] ->
  (forall id, In id (p ++ q) -> (id + 1) * ss <= lenN body) ->
  forall s r len, Inv ss body s r -> get_chain s start fat r len = Err ERR_IO.
Proof. exact chain_repetition_is_error. Qed.

(* ---------------------------------------------------------------- (2) mini stream *)
Theorem C13_mini_compose : forall (c : cfb) name d r mids,
  find_dir name (directories c) = Some d -> 0 < d_len d -> d_len d < 4096 ->
  ssize (mini_sectors c) = 64 ->
  Chain (mini_fats c) (d_start d) mids -> NoDup mids ->
  (forall m, In m mids -> (m + 1) * 64 <= lenN (sdata (mini_sectors c))) ->
  get_stream c name r
  = Ok (trunc_spec (d_len d) (concat (map (sector 64 (sdata (mini_sectors c))) mids)), c, r).
Proof. exact mini_compose. Qed.

(* a zero-length entry is the empty stream, whatever its start-sector field holds *)
Theorem C13_empty_stream : forall (c : cfb) name d r,
  find_dir name (directories c) = Some d -> d_len d = 0 -> get_stream c name r = Ok ([], c, r).
Proof. exact empty_stream. Qed.

Theorem C13_mini_sector_in_root_chain : forall ss body rootids rlen m,
  ss = 512 \/ ss = 4096 ->
  (forall id, In id rootids -> (id + 1) * ss <= lenN body) ->
  (m + 1) * 64 <= N.of_nat (length rootids) * ss -> (0 < rlen -> (m + 1) * 64 <= rlen) ->
  sector 64 (trunc_spec rlen (concat (map (sector ss body) rootids))) m
  = takeN 64 (dropN ((m * 64) mod ss)
                    (sector ss body (nth (N.to_nat (m * 64 / ss)) rootids ENDOFCHAIN))).
Proof. exact mini_sector_in_root_chain. Qed.

(* ---------------------------------------------------------------- (3) layout independence *)
(* through the bytes: any fuel from fuel_for l = 1 + number of DIFAT sectors on *)
(* valid_layout now asks for names unique PER STORAGE only (hier_okb); with names distinct over
   the whole file (names_unique) every stream is read back, whatever the layout *)
Theorem C13_layout_independent : forall c l fuel, valid_layout c l -> names_unique c ->
  (fuel_for l <= fuel)%nat ->
  forall n b, In (n, b) (c_streams c) -> cfb_get_stream fuel (cfb_write c l) n = Ok b.
Proof. exact layout_independent. Qed.

Theorem C13_same_streams_same_read : forall c1 l1 c2 l2 n b,
  valid_layout c1 l1 -> valid_layout c2 l2 -> names_unique c1 -> names_unique c2 ->
  In (n, b) (c_streams c1) -> In (n, b) (c_streams c2) ->
  cfb_get_stream (fuel_for l1) (cfb_write c1 l1) n = cfb_get_stream (fuel_for l2) (cfb_write c2 l2) n.
Proof. exact same_streams_same_read. Qed.

(* ---------------------------------------------------------------- (5) duplicate names (audit G8) *)
(* what Cfb::get_stream / has_directory reach on a written container, names unique per storage
   only: the entry in the LOWEST directory slot among the objects (storages and streams, of any
   storage) that carry the name; first_slot computes it from the container and the layout *)
Theorem C13_find_dir_first : forall c l n, valid_layout c l -> n <> [] -> n <> ROOT_NAME ->
  find_dir n (parsed_dirs c l) =
  match first_slot c l n with
  | Some s => Some (dirent_of_item (dir_item c l s))
  | None => None
  end.
Proof. exact find_dir_first. Qed.

(* the precondition of the flat lookup, stated exactly: the k-th stream is read back, through the
   bytes, in every valid layout in which no object of the same name sits in a lower slot *)
Theorem C13_layout_independent_first : forall c l fuel, valid_layout c l -> (fuel_for l <= fuel)%nat ->
  forall k n b s, nth_error (c_streams c) k = Some (n, b) -> stream_slot c l k = Some s ->
  first_slot c l n = Some s ->
  cfb_get_stream fuel (cfb_write c l) n = Ok b.
Proof. exact layout_independent_first. Qed.

(* Xls::parse_workbook: get_stream("Workbook") or else get_stream("Book").  Whatever slots the
   entries sit in (Book before or after Workbook in the directory array), the bytes parsed are
   Workbook's when the lookup of that name ends on that stream; with no object named Workbook,
   Book's *)
Theorem C13_workbook_stream_preferred : forall c l fuel, valid_layout c l -> (fuel_for l <= fuel)%nat ->
  (forall k b s, nth_error (c_streams c) k = Some (WORKBOOK, b) -> stream_slot c l k = Some s ->
     first_slot c l WORKBOOK = Some s -> xls_workbook_stream fuel (cfb_write c l) = Ok b) /\
  (forall k b s, first_slot c l WORKBOOK = None ->
     nth_error (c_streams c) k = Some (BOOK, b) -> stream_slot c l k = Some s ->
     first_slot c l BOOK = Some s -> xls_workbook_stream fuel (cfb_write c l) = Ok b).
Proof. exact workbook_stream_preferred. Qed.

(* names distinct over the whole file: a container holding both streams (a dual-format file) reads
   Workbook in every valid layout; one holding only Book reads Book *)
Theorem C13_workbook_stream_preferred_unique : forall c l fuel, valid_layout c l -> names_unique c ->
  (fuel_for l <= fuel)%nat ->
  (forall bw, In (WORKBOOK, bw) (c_streams c) -> xls_workbook_stream fuel (cfb_write c l) = Ok bw) /\
  (forall bb, ~ In WORKBOOK (all_names c) -> In (BOOK, bb) (c_streams c) ->
     xls_workbook_stream fuel (cfb_write c l) = Ok bb).
Proof. exact workbook_stream_preferred_unique. Qed.

(* any hierarchy: outside known class 2 the bytes parsed are those of the ROOT storage's Workbook
   stream, else of its Book stream (spec_workbook), in every valid layout *)
Theorem C13_workbook_stream_known : forall c l fuel k b, valid_layout c l -> (fuel_for l <= fuel)%nat ->
  spec_workbook c = Some (k, b) -> known_C13 c l = None ->
  xls_workbook_stream fuel (cfb_write c l) = Ok b.
Proof. exact workbook_stream_known. Qed.

(* interface for C20: the written file opens and every storage / stream name is the name of an
   entry of the directory array (has_directory answers true) *)
Theorem C13_written_names_listed : forall c l fuel, valid_layout c l -> (fuel_for l <= fuel)%nat ->
  exists cf r, cfb_new fuel (cfb_write c l) = Ok (cf, r) /\
    forall n, In n (all_names c) ->
      (exists d, In d (directories cf) /\ d_name d = n) /\ has_directory cf n = true.
Proof. exact written_names_listed. Qed.

(* what Cfb::new returns on a written file *)
Theorem C13_cfb_new_written : forall c l fuel, valid_layout c l -> (fuel_for l <= fuel)%nat ->
  exists cf r, cfb_new fuel (cfb_write c l) = Ok (cf, r) /\ written_cfb c l cf r.
Proof. exact cfb_new_written. Qed.

(* the table-level statements (kept) *)
Theorem C13_layout_independent_partial : forall c l, valid_layout c l -> names_unique c ->
  forall n b, In (n, b) (c_streams c) ->
  forall ms r, Inv (c_ss c) (body_bytes c l) ms r ->
  exists c' r', get_stream (parsed_cfb c l ms) n r = Ok (b, c', r').
Proof. exact layout_independent_partial. Qed.

Theorem C13_has_directory_partial : forall c l ms, valid_layout c l ->
  forall n, In n (all_names c) -> has_directory (parsed_cfb c l ms) n = true.
Proof. exact has_directory_partial. Qed.

Theorem C13_same_streams_same_read_partial : forall c1 l1 c2 l2 n b,
  valid_layout c1 l1 -> valid_layout c2 l2 -> names_unique c1 -> names_unique c2 ->
  In (n, b) (c_streams c1) -> In (n, b) (c_streams c2) ->
  forall ms1 r1 ms2 r2, Inv (c_ss c1) (body_bytes c1 l1) ms1 r1 -> Inv (c_ss c2) (body_bytes c2 l2) ms2 r2 ->
  exists x c1' r1' c2' r2',
    get_stream (parsed_cfb c1 l1 ms1) n r1 = Ok (x, c1', r1') /\
    get_stream (parsed_cfb c2 l2 ms2) n r2 = Ok (x, c2', r2').
Proof. exact same_streams_same_read_partial. Qed.

(* the chains and sector contents the partial theorem rests on, per stream *)
Theorem C13_big_stream_tables : forall c l n b ch, valid_layout c l ->
  In ((n, b), ch) (stream_chains c l) -> is_big b = true ->
  Chain (fat_table c l) (hd ENDOFCHAIN ch) ch /\ NoDup ch /\
  (forall id, In id ch -> (id + 1) * c_ss c <= lenN (body_bytes c l)) /\
  trunc_spec (lenN b) (concat (map (sector (c_ss c) (body_bytes c l)) ch)) = b.
Proof. exact big_stream_read. Qed.

Theorem C13_small_stream_tables : forall c l n b ch, valid_layout c l ->
  In ((n, b), ch) (stream_chains c l) -> is_big b = false ->
  Chain (minifat_table c l) (hd ENDOFCHAIN ch) ch /\ NoDup ch /\
  (forall m, In m ch -> (m + 1) * 64 <= lenN (ministream_read c l)) /\
  trunc_spec (lenN b) (concat (map (sector 64 (ministream_read c l)) ch)) = b.
Proof. exact small_stream_read. Qed.

(* ---------------------------------------------------------------- byte level: tables read back *)
(* pieces of the byte-level round trip that are proved: the loops of Cfb::new, run on the sector
   ids of the layout over the written file body, give back the written tables *)
Theorem C13_fat_load_roundtrip : forall c l s r, valid_layout c l ->
  Inv (c_ss c) (body_bytes c l) s r ->
  exists s' r', load_fats (l_fat_ids l) s r = Ok (fat_table c l, s', r') /\
                Inv (c_ss c) (body_bytes c l) s' r'.
Proof. exact fat_load_roundtrip. Qed.

Theorem C13_dir_chain_roundtrip : forall c l s r, valid_layout c l ->
  Inv (c_ss c) (body_bytes c l) s r ->
  exists s' r',
    get_chain s (hd ENDOFCHAIN (l_dir_ids l)) (fat_table c l) r
              ((if c_ss c =? 512 then 0 else N.of_nat (length (l_dir_ids l))) * c_ss c)
    = Ok (dir_bytes c l, s', r') /\ Inv (c_ss c) (body_bytes c l) s' r'.
Proof. exact dir_chain_roundtrip. Qed.

Theorem C13_minifat_load_roundtrip : forall c l s r, valid_layout c l ->
  Inv (c_ss c) (body_bytes c l) s r ->
  exists mf s' r',
    get_chain s (hd ENDOFCHAIN (l_minifat_ids l)) (fat_table c l) r
              (N.of_nat (length (l_minifat_ids l)) * c_ss c) = Ok (mf, s', r') /\
    to_u32 mf = Ok (minifat_table c l) /\ Inv (c_ss c) (body_bytes c l) s' r'.
Proof. exact minifat_load_roundtrip. Qed.

Theorem C13_ministream_roundtrip : forall c l s r, valid_layout c l ->
  Inv (c_ss c) (body_bytes c l) s r ->
  exists s' r',
    get_chain s (hd ENDOFCHAIN (l_root_ids l)) (fat_table c l) r (l_nmini l * 64)
    = Ok (ministream_read c l, s', r') /\ Inv (c_ss c) (body_bytes c l) s' r'.
Proof. exact ministream_roundtrip. Qed.

Theorem C13_header_roundtrip : forall c l body, valid_layout c l ->
  exists h, header_from_reader (header_bytes c l ++ body) = Ok (h, difat_header l, body) /\
    h_ss h = c_ss c /\
    h_dir_len h = (if c_ss c =? 512 then 0 else N.of_nat (length (l_dir_ids l))) /\
    h_dir_start h = hd ENDOFCHAIN (l_dir_ids l) /\
    h_mini_fat_len h = N.of_nat (length (l_minifat_ids l)) /\
    h_mini_fat_start h = hd ENDOFCHAIN (l_minifat_ids l) /\
    h_difat_start h = hd ENDOFCHAIN (l_difat_ids l).
Proof. exact header_roundtrip. Qed.

Theorem C13_difat_roundtrip : forall c l s r fuel, valid_layout c l ->
  Inv (c_ss c) (body_bytes c l) s r -> (length (l_difat_ids l) < fuel)%nat ->
  exists D s' r',
    difat_loop fuel 0 s (hd ENDOFCHAIN (l_difat_ids l)) (difat_header l) r = Ok (D, s', r') /\
    filter (fun id => id <? DIFSECT) D = l_fat_ids l /\ Inv (c_ss c) (body_bytes c l) s' r'.
Proof. exact difat_roundtrip. Qed.

Theorem C13_dirs_roundtrip : forall c l, valid_layout c l ->
  map_outcome (fun ch => from_slice ch (c_ss c)) (chunks_exact 128 (dir_bytes c l))
  = Ok (parsed_dirs c l).
Proof. exact dirs_roundtrip_exact. Qed.

(* ---------------------------------------------------------------- totality (for C06) *)
(* no input at all makes the model of Cfb::new / get_stream panic; the DIFAT walk (the only loop
   with fuel in the model) ends by itself: fuel above the number of 512-byte sectors suffices *)
Theorem C13_no_panic_cfb_new : forall fuel file,
  cfb_new fuel file <> Panic /\
  (lenN file / 512 < N.of_nat fuel -> cfb_new fuel file <> OutOfFuel).
Proof. exact cfb_new_total. Qed.

Theorem C13_no_panic_get_stream : forall cf name r,
  get_stream cf name r <> Panic /\ get_stream cf name r <> OutOfFuel.
Proof. exact get_stream_total. Qed.

(* ---------------------------------------------------------------- examples (non-vacuity) *)
Definition ex_small : list N := map (fun i => N.of_nat i mod 251) (seq 0 100).
Definition ex_big : list N := map (fun i => (N.of_nat i * 7 + 3) mod 256) (seq 0 5000).
Definition ex_c (ss : N) : container :=
  {| c_ss := ss; c_storages := [[86; 66; 65]];
     c_streams := [([65], ex_small); ([87; 111; 114; 107; 98; 111; 111; 107], ex_big)];
     c_parents := [] |}.
(* 512-byte sectors, shuffled: FAT in sector 7, directory in 3, mini FAT in 12, mini stream in 0,
   the big stream fragmented over ten sectors in no order, sector 8 free, mini sector 1 free *)
Definition ex_l : layout :=
  {| l_nsect := 15; l_fat_ids := [7]; l_difat_ids := []; l_dir_ids := [3]; l_minifat_ids := [12];
     l_root_ids := [0]; l_nmini := 3;
     l_chains := [[2; 0]; [14; 2; 9; 1; 13; 4; 11; 5; 10; 6]];
     l_slots := [2; 3; 1]; l_pad := 170; l_size_hi := 4294967295; l_empty_start := 0;
     l_links := [] |}.
(* 4096-byte sectors, sequential *)
Definition ex_l4 : layout :=
  {| l_nsect := 6; l_fat_ids := [0]; l_difat_ids := []; l_dir_ids := [1]; l_minifat_ids := [2];
     l_root_ids := [3]; l_nmini := 2;
     l_chains := [[0; 1]; [4; 5]];
     l_slots := [1; 2; 3]; l_pad := 0; l_size_hi := 0; l_empty_start := ENDOFCHAIN;
     l_links := [(FREESECT, FREESECT, 1); (2, 3, FREESECT);
                 (FREESECT, FREESECT, FREESECT); (FREESECT, FREESECT, FREESECT)] |}.

Example C13_layout_nonvacuous : valid_layout (ex_c 512) ex_l /\ valid_layout (ex_c 4096) ex_l4 /\
  names_unique (ex_c 512) /\ legal_treeb (ex_c 4096) ex_l4 = true.
Proof. repeat split; vm_compute; reflexivity. Qed.

(* through the bytes: the written files are read back by the whole model (header, DIFAT, FAT,
   directory, mini stream), both sector sizes, both kinds of stream *)
Example C13_bytes_roundtrip_example :
  cfb_get_stream (fuel_for ex_l) (cfb_write (ex_c 512) ex_l) [65] = Ok ex_small /\
  cfb_get_stream (fuel_for ex_l) (cfb_write (ex_c 512) ex_l) [87; 111; 114; 107; 98; 111; 111; 107] = Ok ex_big /\
  cfb_get_stream (fuel_for ex_l4) (cfb_write (ex_c 4096) ex_l4) [65] = Ok ex_small /\
  cfb_get_stream (fuel_for ex_l4) (cfb_write (ex_c 4096) ex_l4) [87; 111; 114; 107; 98; 111; 111; 107] = Ok ex_big.
Proof. repeat split; vm_compute; reflexivity. Qed.

Example C13_chain_follow_nonvacuous :
  Chain [2; ENDOFCHAIN; 1] 0 [0; 2; 1] /\ NoDup [0; 2; 1] /\
  Inv 4 [10;11;12;13; 20;21;22;23; 30;31;32;33] {| sdata := []; ssize := 4 |}
      [10;11;12;13; 20;21;22;23; 30;31;32;33] /\
  get_chain {| sdata := []; ssize := 4 |} 0 [2; ENDOFCHAIN; 1] [10;11;12;13; 20;21;22;23; 30;31;32;33] 10
  = Ok ([10;11;12;13; 30;31;32;33; 20;21], {| sdata := [10;11;12;13; 20;21;22;23; 30;31;32;33]; ssize := 4 |}, []).
Proof.
  split; [|split; [|split; [split; reflexivity|vm_compute; reflexivity]]].
  - apply Chain_step with (nx := 2); [discriminate|reflexivity|].
    apply Chain_step with (nx := 1); [discriminate|reflexivity|].
    apply Chain_step with (nx := ENDOFCHAIN); [discriminate|reflexivity|constructor].
  - repeat constructor; cbn; intuition discriminate.
Qed.

Example C13_chain_cycle_nonvacuous :
  Path [1; 2; 1] 0 [0] 1 /\ Path [1; 2; 1] 1 [1; 2] 1 /\
  get_chain {| sdata := []; ssize := 4 |} 0 [1; 2; 1] [10;11;12;13; 20;21;22;23; 30;31;32;33] 0 = Err ERR_IO.
Proof.
  split; [|split; [|vm_compute; reflexivity]].
  - apply Path_step with (nx := 1); [discriminate|reflexivity|constructor].
  - apply Path_step with (nx := 2); [discriminate|reflexivity|].
    apply Path_step with (nx := 1); [discriminate|reflexivity|constructor].
Qed.

(* ---------------------------------------------------------------- former class bom_name *)
(* a stream whose name begins with U+FEFF, and an empty stream whose start field is 0: both were
   misread before the fixes (BOM sniffing in Directory::from_slice; no truncation for len = 0) *)
Definition bom_c : container :=
  {| c_ss := 512; c_storages := []; c_streams := [([65279; 65], ex_small); ([69], [])]; c_parents := [] |}.
Definition bom_l : layout :=
  {| l_nsect := 4; l_fat_ids := [0]; l_difat_ids := []; l_dir_ids := [1]; l_minifat_ids := [2];
     l_root_ids := [3]; l_nmini := 2; l_chains := [[0; 1]; []]; l_slots := [1; 3]; l_pad := 0;
     l_size_hi := 0; l_empty_start := 0; l_links := [] |}.

Example C13_bom_name_and_empty_start_example :
  valid_layout bom_c bom_l /\
  cfb_get_stream (fuel_for bom_l) (cfb_write bom_c bom_l) [65279; 65] = Ok ex_small /\
  cfb_get_stream (fuel_for bom_l) (cfb_write bom_c bom_l) [69] = Ok [].
Proof. repeat split; vm_compute; reflexivity. Qed.

(* ---------------------------------------------------------------- dual-format files, duplicate names *)
Definition ex_other : list N := map (fun i => (N.of_nat i * 5 + 1) mod 256) (seq 0 100).
Definition MBD1 : list N := [77; 66; 68; 48; 48; 48; 49].                       (* "MBD0001" *)
(* a dual-format file: Book (slot 1) BEFORE Workbook (slot 2) in the directory array *)
Definition dual_c : container :=
  {| c_ss := 512; c_storages := []; c_streams := [(WORKBOOK, ex_small); (BOOK, ex_other)]; c_parents := [] |}.
Definition dual_l : layout :=
  {| l_nsect := 4; l_fat_ids := [0]; l_difat_ids := []; l_dir_ids := [1]; l_minifat_ids := [2];
     l_root_ids := [3]; l_nmini := 4; l_chains := [[0; 1]; [2; 3]]; l_slots := [2; 1]; l_pad := 0;
     l_size_hi := 0; l_empty_start := ENDOFCHAIN;
     l_links := [(FREESECT, FREESECT, 1); (FREESECT, FREESECT, FREESECT); (FREESECT, 2, FREESECT)] |}.
Definition book_c : container :=
  {| c_ss := 512; c_storages := []; c_streams := [(BOOK, ex_other)]; c_parents := [] |}.
Definition book_l : layout :=
  {| l_nsect := 4; l_fat_ids := [0]; l_difat_ids := []; l_dir_ids := [1]; l_minifat_ids := [2];
     l_root_ids := [3]; l_nmini := 2; l_chains := [[0; 1]]; l_slots := [3]; l_pad := 0;
     l_size_hi := 0; l_empty_start := ENDOFCHAIN; l_links := [(FREESECT, FREESECT, 3)] |}.

Example C13_workbook_stream_preferred_nonvacuous :
  valid_layout dual_c dual_l /\ names_unique dual_c /\ legal_treeb dual_c dual_l = true /\
  In (WORKBOOK, ex_small) (c_streams dual_c) /\ In (BOOK, ex_other) (c_streams dual_c) /\
  nth_error (c_streams dual_c) 0 = Some (WORKBOOK, ex_small) /\ stream_slot dual_c dual_l 0 = Some 2 /\
  stream_slot dual_c dual_l 1 = Some 1 /\ first_slot dual_c dual_l WORKBOOK = Some 2 /\
  xls_workbook_stream (fuel_for dual_l) (cfb_write dual_c dual_l) = Ok ex_small /\
  valid_layout book_c book_l /\ names_unique book_c /\ ~ In WORKBOOK (all_names book_c) /\
  first_slot book_c book_l WORKBOOK = None /\ first_slot book_c book_l BOOK = Some 3 /\
  xls_workbook_stream (fuel_for book_l) (cfb_write book_c book_l) = Ok ex_other.
Proof.
  repeat split; try (vm_compute; reflexivity); try (left; reflexivity); try (right; left; reflexivity).
  intros [H|[]]. discriminate H.
Qed.

(* an embedded workbook: storage MBD0001 holds its own Workbook stream (legal: names are unique
   per storage).  emb_ok: the root's Workbook sits in the lower slot — read correctly;
   emb_bad: the embedded one sits in the lower slot (the array position is free) — class 2 *)
Definition emb_c : container :=
  {| c_ss := 512; c_storages := [MBD1];
     c_streams := [(WORKBOOK, ex_small); (WORKBOOK, ex_other)]; c_parents := [0; 0; 1] |}.
Definition emb_l (root_slot emb_slot : N) : layout :=
  {| l_nsect := 4; l_fat_ids := [0]; l_difat_ids := []; l_dir_ids := [1]; l_minifat_ids := [2];
     l_root_ids := [3]; l_nmini := 4; l_chains := [[0; 1]; [2; 3]]; l_slots := [1; root_slot; emb_slot];
     l_pad := 0; l_size_hi := 0; l_empty_start := ENDOFCHAIN;
     l_links := [(FREESECT, FREESECT, 1); (FREESECT, root_slot, emb_slot);
                 (FREESECT, FREESECT, FREESECT); (FREESECT, FREESECT, FREESECT)] |}.

Example C13_workbook_stream_known_nonvacuous :
  valid_layout emb_c (emb_l 2 3) /\ legal_treeb emb_c (emb_l 2 3) = true /\
  names_uniqueb emb_c = false /\
  spec_workbook emb_c = Some (0%nat, ex_small) /\ known_C13 emb_c (emb_l 2 3) = None /\
  stream_slot emb_c (emb_l 2 3) 0 = Some 2 /\ first_slot emb_c (emb_l 2 3) WORKBOOK = Some 2 /\
  xls_workbook_stream (fuel_for (emb_l 2 3)) (cfb_write emb_c (emb_l 2 3)) = Ok ex_small.
Proof. repeat split; vm_compute; reflexivity. Qed.

(* KNOWN CLASS 2 (shadowed_workbook), audit item G8: a legal container — same two storages, same
   streams, the embedded Workbook's entry merely placed in a lower directory slot — is read as
   the EMBEDDED workbook by Xls::new (confirmed on the real code, see notes/C13.md) *)
Theorem C13_refuted_shadowed_workbook : exists c l bw bx,
  valid_layout c l /\ legal_treeb c l = true /\ known_C13 c l = Some 2 /\
  spec_workbook c = Some (0%nat, bw) /\
  xls_workbook_stream (fuel_for l) (cfb_write c l) = Ok bx /\ bx <> bw.
Proof.
  exists emb_c, (emb_l 3 2), ex_small, ex_other.
  repeat split; try (vm_compute; reflexivity). vm_compute. discriminate.
Qed.

(* class 2, second shape: the root storage has only Book (a BIFF5 file) and an embedded object
   has a Workbook: the first lookup succeeds on the embedded stream, in EVERY directory order *)
Definition emb5_c : container :=
  {| c_ss := 512; c_storages := [MBD1];
     c_streams := [(BOOK, ex_small); (WORKBOOK, ex_other)]; c_parents := [0; 0; 1] |}.
(* (Book, 4 units, sorts before MBD0001, 7 units: it is the storage's LEFT sibling) *)
Definition emb5_l (root_slot emb_slot : N) : layout :=
  {| l_nsect := 4; l_fat_ids := [0]; l_difat_ids := []; l_dir_ids := [1]; l_minifat_ids := [2];
     l_root_ids := [3]; l_nmini := 4; l_chains := [[0; 1]; [2; 3]]; l_slots := [1; root_slot; emb_slot];
     l_pad := 0; l_size_hi := 0; l_empty_start := ENDOFCHAIN;
     l_links := [(FREESECT, FREESECT, 1); (root_slot, FREESECT, emb_slot);
                 (FREESECT, FREESECT, FREESECT); (FREESECT, FREESECT, FREESECT)] |}.
Theorem C13_refuted_book_and_embedded_workbook : exists c bw bx,
  spec_workbook c = Some (0%nat, bw) /\ bx <> bw /\
  forall l, In l [emb5_l 2 3; emb5_l 3 2] ->
    valid_layout c l /\ legal_treeb c l = true /\ known_C13 c l = Some 2 /\
    xls_workbook_stream (fuel_for l) (cfb_write c l) = Ok bx.
Proof.
  exists emb5_c, ex_small, ex_other. split; [reflexivity|]. split; [vm_compute; discriminate|].
  intros l [<-|[<-|[]]]; repeat split; vm_compute; reflexivity.
Qed.

Check C13_chain_follow : forall fat ss body start ids len s r,
  Chain fat start ids -> NoDup ids -> Inv ss body s r ->
  (forall id, In id ids -> (id + 1) * ss <= lenN body) ->
  exists s' r',
    get_chain s start fat r len
    = Ok (trunc_spec len (concat (map (sector ss body) ids)), s', r') /\ Inv ss body s' r'.
Check C13_layout_independent : forall c l fuel, valid_layout c l -> names_unique c ->
  (fuel_for l <= fuel)%nat ->
  forall n b, In (n, b) (c_streams c) -> cfb_get_stream fuel (cfb_write c l) n = Ok b.
Check C13_layout_independent_first : forall c l fuel, valid_layout c l -> (fuel_for l <= fuel)%nat ->
  forall k n b s, nth_error (c_streams c) k = Some (n, b) -> stream_slot c l k = Some s ->
  first_slot c l n = Some s ->
  cfb_get_stream fuel (cfb_write c l) n = Ok b.
Check C13_workbook_stream_preferred_unique : forall c l fuel, valid_layout c l -> names_unique c ->
  (fuel_for l <= fuel)%nat ->
  (forall bw, In (WORKBOOK, bw) (c_streams c) -> xls_workbook_stream fuel (cfb_write c l) = Ok bw) /\
  (forall bb, ~ In WORKBOOK (all_names c) -> In (BOOK, bb) (c_streams c) ->
     xls_workbook_stream fuel (cfb_write c l) = Ok bb).
Check C13_workbook_stream_known : forall c l fuel k b, valid_layout c l -> (fuel_for l <= fuel)%nat ->
  spec_workbook c = Some (k, b) -> known_C13 c l = None ->
  xls_workbook_stream fuel (cfb_write c l) = Ok b.
Check C13_layout_independent_partial : forall c l, valid_layout c l -> names_unique c ->
  forall n b, In (n, b) (c_streams c) ->
  forall ms r, Inv (c_ss c) (body_bytes c l) ms r ->
  exists c' r', get_stream (parsed_cfb c l ms) n r = Ok (b, c', r').

Print Assumptions C13_chain_follow.
Print Assumptions C13_chain_total.
Print Assumptions C13_chain_cycle_is_error.
Print Assumptions C13_layout_independent.
Print Assumptions C13_same_streams_same_read.
Print Assumptions C13_written_names_listed.
Print Assumptions C13_cfb_new_written.
Print Assumptions C13_header_roundtrip.
Print Assumptions C13_difat_roundtrip.
Print Assumptions C13_dirs_roundtrip.
Print Assumptions C13_no_panic_cfb_new.
Print Assumptions C13_no_panic_get_stream.
Print Assumptions C13_mini_compose.
Print Assumptions C13_mini_sector_in_root_chain.
Print Assumptions C13_layout_independent_partial.
Print Assumptions C13_has_directory_partial.
Print Assumptions C13_same_streams_same_read_partial.
Print Assumptions C13_big_stream_tables.
Print Assumptions C13_small_stream_tables.
Print Assumptions C13_fat_load_roundtrip.
Print Assumptions C13_dir_chain_roundtrip.
Print Assumptions C13_minifat_load_roundtrip.
Print Assumptions C13_ministream_roundtrip.
Print Assumptions C13_layout_nonvacuous.
Print Assumptions C13_bytes_roundtrip_example.
Print Assumptions C13_chain_follow_nonvacuous.
Print Assumptions C13_chain_cycle_nonvacuous.
Print Assumptions C13_bom_name_and_empty_start_example.
Print Assumptions C13_empty_stream.
Print Assumptions C13_find_dir_first.
Print Assumptions C13_layout_independent_first.
Print Assumptions C13_workbook_stream_preferred.
Print Assumptions C13_workbook_stream_preferred_unique.
Print Assumptions C13_workbook_stream_known.
Print Assumptions C13_workbook_stream_preferred_nonvacuous.
Print Assumptions C13_workbook_stream_known_nonvacuous.
Print Assumptions C13_refuted_shadowed_workbook.
Print Assumptions C13_refuted_book_and_embedded_workbook.
