(* MetaXlsCodePage_proofs — property C16, xls: the CodePage record (0x0042) of the globals has no
   say in what a BIFF8 workbook reports (audit-2 finding XLS-1, repaired in /repo).

   Meta.xls_legal admits a CodePage record of any value wherever an ignorable record may stand
   (Meta.xjunk_ok), so C16_report_xls and its corollaries already quantify over it.  Stated
   explicitly here: putting a CodePage record of ANY 16-bit value right after the BOF (where every
   producer writes it: Excel 1200, JExcelApi 1252, localised writers 932 / 936 / 949 / 950 /
   65001, ...) into any legal globals stream leaves it legal and the report unchanged — sheet
   names (8- or 16-bit storage, non-ASCII, astral), visibility, kind, defined names, date flag. *)
From Calamine Require Import Prelude BiffSst BiffSst_proofs Meta Meta_proofs MetaXls_proofs
  MetaXlsNames_proofs.
Open Scope N_scope.

Definition with_codepage (cp : N) (c : xls_choice) : xls_choice :=
  mkLc (lc_sheets c) (lc_names c) (lc_xtis c) (lc_xcuts c) ((66, le16 cp) :: lc_junk0 c) (lc_junk1 c)
       (lc_junk2 c) (lc_junk3 c) (lc_omit_1904 c) (lc_tail c).

Lemma xls_stream_with_codepage_len : forall cp c wb,
  len (xls_stream (with_codepage cp c) wb) = 6 + len (xls_stream c wb).
Proof.
  intros cp c wb. unfold xls_stream, with_codepage.
  cbn [lc_sheets lc_names lc_xtis lc_xcuts lc_junk0 lc_junk1 lc_junk2 lc_junk3 lc_omit_1904 lc_tail].
  change (frames ((66, le16 cp) :: lc_junk0 c)) with (frame 66 (le16 cp) ++ frames (lc_junk0 c)).
  rewrite !len_app.
  assert (H6 : len (frame 66 (le16 cp)) = 6) by reflexivity.
  rewrite H6. lia.
Qed.

Lemma forallb_le_mono : forall (l : list ls_choice) a b, a <= b ->
  forallb (fun ch => ls_pos ch <=? a) l = true -> forallb (fun ch => ls_pos ch <=? b) l = true.
Proof.
  intros l a b Hab H. rewrite forallb_forall in *. intros x Hx. specialize (H x Hx). lia.
Qed.

Lemma with_codepage_legal : forall cp c wb, cp < 65536 ->
  xls_legal c wb = true -> xls_legal (with_codepage cp c) wb = true.
Proof.
  intros cp c wb Hcp Hl. unfold xls_legal in *.
  apply andb_true_iff in Hl. destruct Hl as [Hl Hpos].
  apply andb_true_iff in Hl. destruct Hl as [Hl Htail].
  apply andb_true_iff in Hl. destruct Hl as [Hl Hconts].
  apply andb_true_iff in Hl. destruct Hl as [Hl Hrec].
  apply andb_true_iff in Hl. destruct Hl as [Hl Hnx].
  apply andb_true_iff in Hl. destruct Hl as [Hl Hxt].
  apply andb_true_iff in Hl. destruct Hl as [Hl Hnames].
  apply andb_true_iff in Hl. destruct Hl as [Hl Hsheets].
  apply andb_true_iff in Hl. destruct Hl as [Hl J3].
  apply andb_true_iff in Hl. destruct Hl as [Hl J2].
  apply andb_true_iff in Hl. destruct Hl as [J0 J1].
  assert (Hpos' : forallb (fun ch => ls_pos ch <=? len (xls_stream (with_codepage cp c) wb))
                          (lc_sheets c) = true).
  { apply (forallb_le_mono _ (len (xls_stream c wb)));
      [rewrite xls_stream_with_codepage_len; lia | exact Hpos]. }
  remember (xls_stream (with_codepage cp c) wb) as S eqn:ES.
  (* the environment of the names depends on the XTI table only *)
  change (spec_env_xls (with_codepage cp c) wb) with (spec_env_xls c wb).
  cbn [with_codepage lc_sheets lc_names lc_xtis lc_xcuts lc_junk0 lc_junk1 lc_junk2 lc_junk3 lc_tail forallb].
  rewrite J0, J1, J2, J3, Hsheets, Hnames, Hxt, Hnx, Hrec, Hconts, Htail, Hpos'.
  assert (Hj : xjunk_ok (66, le16 cp) = true).
  { unfold xjunk_ok. cbn [fst snd]. change (len (le16 cp)) with 2. reflexivity. }
  rewrite Hj. reflexivity.
Qed.

(* the report of a workbook does not depend on the CodePage record *)
Theorem report_xls_any_codepage : forall show_f64 cp c wb, cp < 65536 ->
  xls_legal c wb = true ->
  xls_parse_workbook show_f64 (xls_stream (with_codepage cp c) wb) =
  xls_parse_workbook show_f64 (xls_stream c wb) /\
  xls_parse_workbook show_f64 (xls_stream (with_codepage cp c) wb) =
  Ok (mkParsed (wb_sheets wb) [] (spec_names_xls show_f64 c wb) (wb_1904 wb)).
Proof.
  intros show_f64 cp c wb Hcp Hl.
  rewrite (xls_parse_encode show_f64 _ _ (with_codepage_legal cp c wb Hcp Hl)).
  rewrite (xls_parse_encode show_f64 _ _ Hl). split; reflexivity.
Qed.

(* the globals loop skips a CodePage record with any body of at least two bytes *)
Lemma xls_globals_codepage_any : forall d c rest st, 2 <= len d ->
  xls_globals (Ok (66, d, c) :: rest) st = xls_globals rest st.
Proof.
  intros d c rest st H. cbn [xls_globals]. change (66 =? 47) with false.
  change (66 =? 66) with true. cbv iota. replace (len d <? 2) with false by lia. reflexivity.
Qed.

(* non-vacuity: the workbook of xlsn_nonvacuous (8- and 16-bit sheet names, non-ASCII and astral
   characters, five defined names, an XTI table whose array continues in CONTINUE records: lc_xcuts)
   with the CodePage record of JExcelApi (1252), of
   Excel (1200), of a Japanese writer (932), UTF-8 (65001), one no decoder table knows (437: not in
   the codepage crate; 54321: no code page) — and, through junk1, a second CodePage record *)
Definition ex_xlsn_two : xls_choice :=
  mkLc (lc_sheets ex_xlsn_c) (lc_names ex_xlsn_c) (lc_xtis ex_xlsn_c) (lc_xcuts ex_xlsn_c)
       [(225, [176; 4]); (66, [228; 4])] [(224, [0; 0; 14; 0]); (66, [164; 3; 9])] [] [(255, [])]
       false [9; 8].
Lemma xls_codepage_nonvacuous :
  Forall (fun cp => xls_legal (with_codepage cp ex_xlsn_c) ex_xlsn_wb = true /\
                    xls_parse_workbook (fun _ => []) (xls_stream (with_codepage cp ex_xlsn_c) ex_xlsn_wb) =
                    Ok (mkParsed (wb_sheets ex_xlsn_wb) [] (spec_names_xls (fun _ => []) ex_xlsn_c ex_xlsn_wb) true))
         [1252; 1200; 932; 65001; 437; 54321; 0; 65535] /\
  firstn 10 (skipn 20 (xls_stream (with_codepage 1252 ex_xlsn_c) ex_xlsn_wb)) =
    [66; 0; 2; 0; 228; 4; 225; 0; 2; 0] /\
  xls_legal ex_xlsn_two ex_xlsn_wb = true /\
  xls_parse_workbook (fun _ => []) (xls_stream ex_xlsn_two ex_xlsn_wb) =
  Ok (mkParsed (wb_sheets ex_xlsn_wb) [] (spec_names_xls (fun _ => []) ex_xlsn_c ex_xlsn_wb) true).
Proof.
  split; [repeat constructor; vm_compute; reflexivity|].
  repeat split; vm_compute; reflexivity.
Qed.
