"""C14 — formulas are reported at their cell with the A1 text the file encodes.

Correspondence (implementation vs extracted Coq model) and search for failing inputs
(implementation vs the Coq spec `render`) for
  * column lettering: utils::push_column, xlsx::column_number_to_name / coordinate_to_name,
    xlsx::get_row_and_optional_column / get_row_column / get_dimension (cmd `col26`);
  * the two token decoders xls::parse_formula / xlsb::parse_formula (cmd `ptg`): random ASTs
    encoded by the extracted Coq encoders (cmd `ptg_ast`, model side only), raw and mutated rgce
    byte strings (the model must predict err / panic / text exactly);
  * shared and array formulas of xls (round 7): PtgRefN / PtgAreaN relative to a base cell (format
    `xls@R:C` of cmds `ptg` / `ptg_ast`), generated .xls sheets with shared / array groups through
    Xls::worksheet_formula against the extracted FormulaSheet model (cmd `fsheet`) and the Coq spec;
  * the decoders' environment and the end-to-end statement (round 3): generated .xlsb / .xls /
    .xlsx / .ods files (tools/fmlagen.py) through Reader::worksheet_formula of every sheet and
    Reader::defined_names; expected = the generator's semantic description expanded independently
    (+ the Coq `render` text for token formulas), model = extracted FormulaEnv (cmds `fenv`, `fpos`).
All randomness comes from ctx.rng."""
import os, struct, sys
import vlib

sys.path.insert(0, os.path.dirname(os.path.dirname(os.path.abspath(__file__))))
import gen_tables

ASSUMPTIONS = [
    "f64 Display (PtgNum) is a parameter of model and spec (Section variable show_f64); the OCaml driver instantiates it with a shortest-round-trip printer compared against Rust's on every PtgNum case",
    "offsets into the formula buffer are modelled as character offsets (Rust: byte offsets, always at character boundaries); exercised with non-ASCII sheet names, defined names and string literals",
    "the decoders are reached through the verif hooks with code page 1200 (what BIFF8 files declare); other code pages are outside the model",
    "FTAB / FTAB_ARGC are compared with a frozen reference copy = pinned source + the 3 arities (MMULT, LENB, CONVERT) an audit found wrong against the Ftab of MS-XLS 2.5.198.17; the other 482 arities were compared with the Ftab by that audit, the 485 names were not re-audited here",
    "sheet names in 3-D references: bare for a word (first character a letter, '_' or non-ASCII; then the same, digits or '.'), else between apostrophes with apostrophes doubled; names that read as a cell reference or a boolean (A1, R1C1, TRUE), which Excel also quotes, are rendered bare by code and spec alike (residual, notes/C14.md)",
    "PtgAttrSpace / PtgAttrSpaceSemi (white space typed into the formula) are display-neutral in the spec: the A1 text of the property's grammar has no white space; both decoders skip them",
    "PtgFuncVar with tab 0x00FF: in domain when the first parameter is a PtgName (EName); with any other first operand the decoders print that operand's text in the name position (compared implementation vs model only)",
    "3-D references go through the XTI table and the supporting links (xls: the SupBook records; xlsb: the BrtSup* records of the EXTERNALS block, in record order): itabFirst / itabLast are sheets of this workbook exactly when the XTI's link is this workbook (SupBook 0x0401 / BrtSupSelf / BrtSupSame); a span of sheets reads First:Last; through a link to another workbook the spec writes [n]Sheet!A1 with that workbook's sheet names (n counts the links to other workbooks) — calamine never reads iSupBook: known finding K_EXTERN_BOOK (class Ptg.known_C14: the formula goes through an XTI whose link is not this workbook; C14_refuted_extern_xls / _xlsb)",
    "defined names: every Lbl / BrtName / definedName / named-range record of the file is a defined name (the code filters nothing; hidden and built-in names keep their slot); an xls built-in name (fBuiltin + a one-character id of MS-XLS 2.5.114) is _xlnm.<Name>, the string the xlsx / xlsb twins store; an id outside the table or a longer string with fBuiltin is reported as stored",
    "xls shared formulas: a relative component of PtgRefN / PtgAreaN is an offset from the cell using the formula; rows wrap modulo 65536, columns modulo 256 (the low 8 bits of the column field are the offset); an area whose corners end up inverted after wrapping is printed as translated (Excel would normalise it); array formulas are reported as the plain text of the ARRAY record on every cell of the range (no braces); a PtgExp cell whose group has no SHRFMLA / ARRAY record has no text",
    "xlsb shared formulas: a relative component of PtgRefN / PtgAreaN is an offset from the cell using the formula; rows wrap modulo 1048576, columns modulo 16384 (MS-XLSB RgceLocRel: 32-bit row, 14-bit column field); the group a PtgExp cell uses is the one whose BrtShrFmla / BrtArrFmla record follows the cell PtgExp names (row in the token, column in rgcb = PtgExtraCol), and that cell comes first in the sheet (rows and columns ascend); a PtgExp cell naming a cell that has started no group, or carrying no column (cb = 0), has no text and is absent like every xlsb cell without text; array formulas are reported as the plain text of the BrtArrFmla record on every cell; an inverted area after wrapping is printed as translated",
    "stored-text formats: the text of <f> (character data, entities and CDATA resolved) / of the table:formula attribute (entities resolved, of:= / = prefix kept) is the formula text; a repeated ods cell or row repeats its formula verbatim; cells whose text is empty are not formula cells",
    "FormulaEnv models the name / extern-sheet loops from the framed records on (framing: C02 / C03); the XML event level of xlsx / ods has no Coq model (the file tier compares the real readers with the generator's expansion and with the extracted Range::from_sparse)",
]

U32 = 2**32 - 1
KNOWN_NAMES = {}      # the model side answers the finding ids themselves (K_EXTERN_BOOK)
KNOWN_EXTERN = "K_EXTERN_BOOK"


def hx(s):
    return s.encode("utf-8").hex()


def names_arg(lst):
    if not lst:
        return "-"
    return ",".join(hx(s) if s else "." for s in lst)


# ------------------------------------------------------------------------------- column lettering
def py_letters(c):
    """independent Python reading of bijective base 26 (used only to cross-check the Coq spec)"""
    s = ""
    c += 1
    while c > 0:
        c, r = divmod(c - 1, 26)
        s = chr(65 + r) + s
    return s


def run_columns(ctx):
    full = ctx.tier == "thorough" or True      # the 0..16383 sweep is cheap: always exhaustive
    cols = list(range(16384)) if full else []
    edges = [16383, 16384, 16385, 18277, 18278, 18279, 475253, 475254, 12356629, 12356630,
             321272405, 321272406, 321272407, 2**31 - 1, 2**31, U32 - 1, U32, 65535, 65536, 255, 256, 701, 702, 703, 25, 26]
    extra = edges + [ctx.rng.randrange(0, U32 + 1) for _ in range(ctx.scale(2000, 40000))] + \
        [ctx.rng.randrange(16384, 20000) for _ in range(200)]
    lines = []
    for c in cols + extra:
        lines.append("pc%d\tcol26\tpush_column\t%d" % (c, c))
        lines.append("lt%d\tcol26\tletters\t%d" % (c, c))
    for c in cols + edges + [ctx.rng.randrange(16384, U32 + 1) for _ in range(200)]:
        lines.append("cn%d\tcol26\tcn2n\t%d" % (c, c))
    lines = list(dict((l.split("\t", 1)[0], l) for l in lines).values())
    impl = ctx.run_impl([l for l in lines if not l.startswith("lt")])
    model = ctx.run_model(lines)
    ctx.evaluations += 0
    for l in lines:
        lid, _, sub, arg = l.split("\t")
        if sub == "letters":
            c = int(arg)
            if model.get(lid) != "ok:" + hx(py_letters(c)):
                ctx.disagreements.append({"function": "letters(spec) vs python reading", "case": l,
                                          "impl": py_letters(c), "model": model.get(lid)})
            continue
        c = int(arg)
        i, m = impl.get(lid), model.get(lid)
        ctx.traces += 1
        ctx.count("col26:" + sub)
        if i != m:
            ctx.disagreements.append({"function": "Col26." + sub, "case": l, "impl": i, "model": m})
        spec = model.get("lt%d" % c)
        if sub == "push_column" or (sub == "cn2n" and c < 16384):
            if spec is not None and i != spec:
                ctx.violations.append({"case": l, "expected": spec, "actual": i, "model": m,
                                       "what": "column %d must be lettered %s" % (c, py_letters(c))})
        if sub == "push_column":
            ctx.nontrivial("col:%d" % c)
    ctx.sample({"case": "col26 push_column 702", "impl": impl.get("pc702"), "model": model.get("pc702")})


def rand_case(rng, s):
    return "".join(ch.lower() if rng.random() < 0.5 else ch for ch in s)


def run_a1(ctx):
    rng = ctx.rng
    lines = []
    rows = [0, 1, 8, 9, 98, 99, 1048574, 1048575, 1048576, 99999998, 999999997, 999999998, 999999999,
            1000000000, 2**31, U32 - 1, U32]
    colsel = [0, 1, 25, 26, 27, 255, 256, 701, 702, 16382, 16383, 16384, 18277, 18278]
    pairs = [(r, c) for r in rows for c in colsel]
    for _ in range(ctx.scale(3000, 60000)):
        r = rng.choice([rng.randrange(0, 1048576), rng.randrange(0, 10**9), rng.randrange(0, U32 + 1)])
        c = rng.choice([rng.randrange(0, 16384), rng.randrange(0, 300), rng.randrange(0, 20000)])
        pairs.append((r, c))
    meta = {}
    for k, (r, c) in enumerate(pairs):
        lines.append("c2n%d\tcol26\tc2n\t%d\t%d" % (k, r, c))
        name = py_letters(c) + str(r + 1)
        shown = rand_case(rng, name) if k % 3 else name
        lines.append("grc%d\tcol26\tgrc\t%s" % (k, hx(shown)))
        lines.append("groc%d\tcol26\tgroc\t%s" % (k, hx(str(r + 1) if k % 5 == 0 else shown)))
        meta[k] = (r, c, name)
    # dimensions: ordered, reversed, single, too many parts
    for k in range(ctx.scale(1500, 30000)):
        (r0, c0), (r1, c1) = [(rng.randrange(0, 1048600), rng.randrange(0, 16400)) for _ in range(2)]
        mode = rng.randrange(6)
        if mode < 3:
            r0, r1 = min(r0, r1), max(r0, r1)
            c0, c1 = min(c0, c1), max(c0, c1)
        a, b = py_letters(c0) + str(r0 + 1), py_letters(c1) + str(r1 + 1)
        txt = a if mode == 3 else (a + ":" + b + ":" + a if mode == 5 and k % 2 else a + ":" + b)
        lines.append("dim%d\tcol26\tdim\t%s" % (k, hx(rand_case(rng, txt))))
    # malformed cell names
    alphabet = "AZaz09:$ .-@[`{/"
    for k in range(ctx.scale(2000, 40000)):
        n = rng.randrange(0, 14)
        s = "".join(rng.choice(alphabet + "ABCXYZ0123456789") for _ in range(n))
        if rng.random() < 0.3:
            s = rng.choice(["A", "ZZZZZZZ", "AAAAAAA", "A0", "0", "", "1A", "A1A", "FXSHRXX1", "FXSHRXW1",
                            "A4294967295", "A4294967296", "A0000000001", "A999999999", "a1:b2:c3", ":", "A1:", ":A1"])
        sub = rng.choice(["grc", "groc", "dim"])
        lines.append("bad%d\tcol26\t%s\t%s" % (k, sub, hx(s)))
    impl, model = ctx.run_both(lines)
    for l in lines:
        lid = l.split("\t", 1)[0]
        i, m = impl.get(lid), model.get(lid)
        ctx.traces += 1
        ctx.count("col26:" + l.split("\t")[2])
        if i != m:
            ctx.disagreements.append({"function": "Col26." + l.split("\t")[2], "case": l, "impl": i, "model": m})
    # implementation vs spec: the round trip inside the proved bounds
    for k, (r, c, name) in meta.items():
        if c < 16384 and r < U32:
            exp = "ok:" + hx(name)
            if impl.get("c2n%d" % k) != exp:
                ctx.violations.append({"case": "c2n %d %d" % (r, c), "expected": exp,
                                       "actual": impl.get("c2n%d" % k), "model": model.get("c2n%d" % k),
                                       "what": "coordinate_to_name must give the A1 name"})
        if r + 1 < 10**9 and c < 26**6:
            exp = "ok:%d,%d" % (r, c)
            if impl.get("grc%d" % k) != exp:
                ctx.violations.append({"case": "grc %s" % name, "expected": exp,
                                       "actual": impl.get("grc%d" % k), "model": model.get("grc%d" % k),
                                       "what": "get_row_column must invert the A1 name (either letter case)"})
            ctx.nontrivial("a1:%s" % name)


# ------------------------------------------------------------------------------- formula ASTs
F64_POOL = [0.0, -0.0, 1.0, -1.0, 0.1, 0.5, 1.5, 2.5, 1e21, 1e22, 1e23, 1e-7, 1e-5, 123456.789, 3.141592653589793,
            1e300, 1e-300, 5e-324, 1.7976931348623157e308, 2.2250738585072014e-308, 4.35, 0.3, 1e15, 1e16, 1e17,
            9007199254740993.0, 0.1 + 0.2, 100.0, 1234567890123456789.0, float("inf"), float("-inf"), float("nan")]


def f64_bits(rng):
    p = rng.random()
    if p < 0.5:
        return struct.unpack("<Q", struct.pack("<d", rng.choice(F64_POOL)))[0]
    if p < 0.8:
        return struct.unpack("<Q", struct.pack("<d", rng.uniform(-1e6, 1e6)))[0]
    return rng.getrandbits(64)


class Gen:
    def __init__(self, ctx, fmt, ftab_argc):
        self.ctx, self.rng, self.fmt = ctx, ctx.rng, fmt
        self.fixed = {}
        for i, a in enumerate(ftab_argc):
            if a <= 5:
                self.fixed.setdefault(a, []).append(i)
        self.nftab = len(ftab_argc)
        self.rowlim = 65536 if fmt == "xls" else 2**32
        self.base = None          # (row, col) of the cell using a shared formula: PtgRefN / PtgAreaN allowed

    def fmt_arg(self):
        """the format field of a ptg / ptg_ast line: xls@R:C = decode relative to the base cell (R, C)"""
        return self.fmt if self.base is None else "%s@%d:%d" % (self.fmt, self.base[0], self.base[1])

    def cref_n(self):
        """a corner of PtgRefN / PtgAreaN as stored: a relative component is a two's-complement offset
        (rows 16 bits; columns: 8 bits as Excel writes them, sometimes the 14-bit form), an absolute one
        the row / column itself"""
        rng = self.rng
        rr, cr = rng.randrange(2), rng.randrange(2)
        if self.fmt == "xlsb":
            # xlsb: a relative row is the 32-bit two's complement of the offset, a relative column the 14-bit one
            if rr:
                d = rng.choice([0, 0, 1, -1, 2, -2, 7, -7, 100, -100, 1048575, -1048575, 1048576, -1048576, 2**31 - 1, -2**31,
                                rng.randrange(-1048575, 1048576)])
                r = d % 2**32
            else:
                r = rng.choice([0, 1, 9, 65535, 65536, 1048575, rng.randrange(0, 1048576)])
            if cr:
                d = rng.choice([0, 0, 1, -1, 2, -2, 5, -5, 255, -256, 8191, -8192, 16383, -16383, rng.randrange(-16383, 16384)])
                c = d % 16384
            else:
                c = rng.choice([0, 1, 25, 26, 255, 256, 16383, rng.randrange(0, 16384)])
            self.ctx.count("%s:refn:row_%s,col_%s" % (self.fmt, "rel" if rr else "abs", "rel" if cr else "abs"))
            return "%d %d %d %d" % (r, c, rr, cr)
        if rr:
            d = rng.choice([0, 0, 1, -1, 2, -2, 7, -7, 100, -100, 32767, -32768, rng.randrange(-65535, 65536)])
            r = d % 65536
        else:
            r = rng.choice([0, 1, 9, 65535, rng.randrange(0, 65536)])
        if cr:
            d = rng.choice([0, 0, 1, -1, 2, -2, 5, -5, 127, -128, 255, -255, rng.randrange(-255, 256)])
            c = d % 256 if rng.random() < 0.8 else d % 16384
        else:
            c = rng.choice([0, 1, 25, 26, 255, rng.randrange(0, 256)])
        self.ctx.count("%s:refn:row_%s,col_%s" % (self.fmt, "rel" if rr else "abs", "rel" if cr else "abs"))
        return "%d %d %d %d" % (r, c, rr, cr)

    def isup(self):
        """the supporting link of a new XTI: mostly one that stands for this workbook"""
        rng = self.rng
        if len(self.links) == 1 and self.links[0][0] == "self":
            return 0
        if rng.random() < 0.8:
            return rng.choice(self.local)
        v = rng.choice([i for i in range(len(self.links) + 1) if i not in self.local])
        self.ctx.count("%s:xti:link_%s" % (self.fmt, self.links[v][0] if v < len(self.links) else "out_of_range"))
        return v

    def env(self, links=False):
        """links: the tier hands the supporting links to the spec (ptg_ast … LINKS) and, when it writes a file,
        stores them in it; otherwise the only link is this workbook and every XTI points at it"""
        rng = self.rng
        pool = ["Sheet1", "Sheet2", "Data", "My Sheet", "Übersicht", "数据", "S", "a'b", "Sheet 10", "Δ",
                "O'Neil", "2024", "tax.rate", "A-B", "'q'", "1a", ".x", "x y'z"]
        ns = rng.randrange(1, 6)
        self.sheets = rng.sample(pool, ns)
        self.names = rng.sample(["rate", "Total", "x", "名前", "_n1", "Prix_€"], rng.randrange(0, 4))
        self.links, self.local = fg.random_links(rng, self.fmt) if links else ([("self",)], [0])
        self.bundle, self.xtis_b = None, None
        if links:
            self.ctx.count("%s:links:%s" % (self.fmt, fg.links_tag(self.links)))
        if self.fmt == "xlsb" and links:
            # the table the decoder gets is resolved from the XTI array against the workbook's sheets
            self.bundle = self.sheets
            xt = []
            for _ in range(rng.randrange(0, 6)):
                p = rng.random()
                f = rng.randrange(0, ns) if p < 0.75 else rng.choice([-1, -2]) if p < 0.9 else rng.choice([ns, ns + 3, 70000])
                l_ = f
                if rng.random() < 0.25:
                    l_ = rng.randrange(0, ns) if rng.random() < 0.85 else rng.choice([-1, ns, 70000])
                xt.append((self.isup(), f, l_))
            self.xtis_b = xt
            self.sheets = [fg.xlsb_resolve_xti(x[1], self.bundle, x[2]) for x in xt]
            self.xtis, self.nixti = None, len(xt)
            return self
        if self.fmt == "xls":
            xt = []
            for _ in range(rng.randrange(0, 6)):
                p = rng.random()
                if p < 0.7:
                    f = rng.randrange(0, ns)
                elif p < 0.8:
                    f = rng.choice([65535, 65534])
                elif p < 0.9:
                    f = rng.choice([ns, ns + 1, 32767, 32768, 40000])
                else:
                    f = rng.randrange(0, ns)
                l_ = f
                if rng.random() < 0.25:
                    # a span of sheets First:Last (itabLast another sheet), sometimes an invalid last sheet
                    l_ = rng.randrange(0, ns) if rng.random() < 0.85 else rng.choice([ns, 65535, 40000])
                    self.ctx.count("xls:xti:span" if l_ != f and l_ < ns else "xls:xti:last_invalid_or_same")
                xt.append((self.isup(), f, l_))
            self.xtis = xt
            self.nixti = len(xt)
        else:
            self.xtis = None
            self.nixti = ns
        return self

    def link_args(self):
        """what follows the AST in a ptg_ast line when the spec is to go through the supporting links"""
        if self.fmt == "xls":
            return [fg.links_arg(self.links)]
        return [fg.links_arg(self.links), ",".join("%d:%d:%d" % (a, f & U32, l_ & U32) for (a, f, l_) in self.xtis_b) or "-",
                names_arg(self.bundle)]

    def env_args(self):
        # file tiers (quote_sheets): the table the readers hand to the decoder holds the sheet names as
        # formula text writes them (quoted when the grammar demands it); the hook tiers pass the list as is
        import fmlagen
        # xls: the decoder gets the BoundSheet8 names as stored and quotes at the lookup (also spans First:Last);
        # xlsb file tiers: g.sheets already is the resolved extern_sheets table
        sh = self.sheets
        a = [names_arg(sh), names_arg(self.names)]
        if self.fmt == "xls":
            a.append(",".join("%d:%d:%d" % t for t in self.xtis) if self.xtis else "-")
        return a

    def cref(self):
        rng = self.rng
        r = rng.choice([0, 1, 9, 98, 99, 65534, 65535, rng.randrange(0, 65536), rng.randrange(0, 100)])
        if self.fmt == "xlsb" and rng.random() < 0.4:
            r = rng.choice([65536, 1048575, 1048576, 2**31, U32, rng.randrange(0, 1048576)])
        lim = 256 if (self.fmt == "xls" and rng.random() < 0.8) else 16384
        c = rng.choice([0, 1, 25, 26, 27, 51, 52, 255, lim - 1, rng.randrange(0, lim), rng.randrange(0, lim), 701 % lim, 702 % lim])
        rr, cr = rng.randrange(2), rng.randrange(2)
        self.ctx.count("%s:flags:row_%s,col_%s" % (self.fmt, "rel" if rr else "abs", "rel" if cr else "abs"))
        self.ctx.count("%s:col:%s" % (self.fmt, "A-Z" if c < 26 else "AA-IV" if c < 256 else "IW-ZZ" if c < 702 else "AAA-XFD"))
        return "%d %d %d %d" % (r, c, rr, cr)

    def ixti(self):
        rng = self.rng
        if rng.random() < 0.12:
            v = rng.choice([self.nixti, self.nixti + 1, 255, 65535])
            self.ctx.count("%s:ixti:out_of_range" % self.fmt)
            return v
        if self.nixti == 0:
            self.ctx.count("%s:ixti:out_of_range" % self.fmt)
            return 0
        if self.nixti > 1370 and rng.random() < 0.6:
            self.ctx.count("%s:ixti:beyond_1370" % self.fmt)
            return rng.randrange(1370, self.nixti)
        v = rng.randrange(0, self.nixti)
        self.ctx.count("%s:ixti:in_range" % self.fmt)
        return v

    def string(self):
        rng = self.rng
        p = rng.random()
        n = rng.choice([0, 1, 2, 3, 5, 8, 12]) if p < 0.95 else rng.choice([126, 127, 128, 254, 255])
        wide = 0
        if self.fmt == "xls":
            if rng.random() < 0.12:
                wide = 1
                alph = "abcXYZ 中文é€Ω\U0001F600\U00010000\U0010FFFF" + '"'
            else:
                alph = "abcdefXYZ 0123,;()!$é\xff\x80" + ('"' if rng.random() < 0.15 else "")
        else:
            alph = "abcdefXYZ 0123,;()!$é中文€Ω\U0001F600\U00010000\U0010FFFF\uFEFF" + ('"' if rng.random() < 0.15 else "")
        s = [ord(rng.choice(alph)) for _ in range(n)]
        if self.fmt == "xlsb" and n >= 2 and rng.random() < 0.04:
            k = rng.randrange(3)
            if k == 0:
                s[0] = 0xFEFF
            elif k == 1:
                s[0] = 0xFFFE
            else:
                s[0], s[1] = 0xBBEF, rng.choice([0x00BF, 0x4EBF, 0x41])
        return "%d %s" % (wide, ".".join(str(c) for c in s) if s else "-")

    def expr(self, depth):
        rng, c = self.rng, self.ctx
        leaf = depth <= 0 or rng.random() < 0.25
        if leaf:
            k = rng.choice(["ref", "ref", "area", "ref3", "area3", "name", "int", "num", "str", "bool", "err", "miss"])
            if rng.random() < 0.06:
                k = rng.choice(["referr", "areaerr", "referr3", "areaerr3"])   # references that no longer exist: #REF!
            if self.base is not None and rng.random() < 0.45 or rng.random() < 0.01:
                k = rng.choice(["refn", "refn", "arean"])       # without a base: not wf (the decoder refuses them)
        else:
            k = rng.choice(["un", "bin", "bin", "par", "func", "fvar", "fvar", "sum", "attr", "attr", "choose", "user"])
        c.count("%s:ctor:%s" % (self.fmt, k))
        cls = lambda: rng.choice("rva")
        if k == "ref":
            return "ref %s %s" % (cls(), self.cref())
        if k == "area":
            return "area %s %s %s" % (cls(), self.cref(), self.cref())
        if k == "refn":
            return "refn %s %s" % (cls(), self.cref_n())
        if k == "arean":
            return "arean %s %s %s" % (cls(), self.cref_n(), self.cref_n())
        if k in ("referr", "areaerr", "referr3", "areaerr3"):
            rb = 2 if self.fmt == "xls" else 4
            nj = (rb + 2) if k in ("referr", "referr3") else (2 * rb + 4)
            if rng.random() < 0.05:
                nj = max(0, nj + rng.choice([-1, 1]))                           # wrong size: not wf
            junk = ".".join(str(rng.choice([0, 0, 255, rng.randrange(256)])) for _ in range(nj)) or "-"
            if k in ("referr3", "areaerr3"):
                return "%s %s %d %s" % (k, cls(), self.ixti(), junk)
            return "%s %s %s" % (k, cls(), junk)
        if k == "ref3":
            return "ref3 %s %d %s" % (cls(), self.ixti(), self.cref())
        if k == "area3":
            return "area3 %s %d %s %s" % (cls(), self.ixti(), self.cref(), self.cref())
        if k == "name":
            n = len(self.names)
            idx = rng.randrange(1, n + 1) if n and rng.random() < 0.85 else rng.choice([0, n + 1, n + 7, U32])
            return "name %s %d" % (cls(), idx)
        if k == "int":
            return "int %d" % rng.choice([0, 1, 9, 10, 65535, rng.randrange(0, 65536)])
        if k == "num":
            return "num %d" % f64_bits(rng)
        if k == "str":
            return "str " + self.string()
        if k == "bool":
            return "bool %d" % rng.randrange(2)
        if k == "err":
            return "err %d" % (rng.choice([0, 7, 15, 23, 29, 36, 42, 43]) if rng.random() < 0.93 else rng.choice([1, 8, 44, 255]))
        if k == "miss":
            return "miss"
        if k == "un":
            return "un %s %s" % (rng.choice("+-%"), self.expr(depth - 1))
        if k == "bin":
            op = rng.randrange(3, 18) if rng.random() < 0.97 else rng.choice([2, 18])
            if rng.random() < 0.25:
                op = rng.choice([15, 16, 17])         # intersection, union, range: the reference operators
            b_ = "bin %d %s %s" % (op, self.expr(depth - 1), self.expr(depth - 1))
            if op in (15, 16, 17) and rng.random() < 0.8:
                # as Excel writes it: a PtgMemArea / PtgMemErr / PtgMemNoMem / PtgMemFunc in front of the
                # sub-expression built with a reference operator (4 bytes: unused / an error code; then cce)
                m = rng.choice(["area", "area", "func", "func", "nomem", "err"])
                w = rng.choice([0, 0, rng.getrandbits(32), 0x17, 0x2A]) if rng.random() < 0.97 else 2**32
                c.count("%s:mem:%s" % (self.fmt, m))
                return "mem %s %s %d %s" % (cls(), m, w, b_)
            return b_
        if k == "par":
            return "par " + self.expr(depth - 1)
        if k == "func":
            argc = rng.choice(sorted(self.fixed))
            ift = rng.choice(self.fixed[argc])
            n = argc
            if rng.random() < 0.05:
                n = max(0, argc + rng.choice([-1, 1]))          # wrong count: not wf
            c.count("%s:func_argc:%d" % (self.fmt, argc))
            return "func %s %d %d%s" % (cls(), ift, n, "".join(" " + self.expr(depth - 1) for _ in range(n)))
        if k == "fvar":
            n = rng.choice([0, 1, 1, 2, 2, 3, 4, 7])
            ift = rng.randrange(0, self.nftab) if rng.random() < 0.95 else rng.choice([self.nftab, self.nftab + 1, 0x8004, 65535])
            c.count("%s:fvar_argc:%d" % (self.fmt, n))
            return "fvar %s %d %d%s" % (cls(), ift, n, "".join(" " + self.expr(depth - 1) for _ in range(n)))
        if k == "sum":
            return "sum " + self.expr(depth - 1)
        if k == "choose":
            # CHOOSE as Excel writes it: idx, PtgAttrChoose(cOffset = n, n + 1 offsets), each value followed
            # by a PtgAttrGoto, PtgFuncVar(n + 1, 100)
            n = rng.choice([1, 2, 3, 4, 10, rng.randrange(1, 30)])
            c.count("%s:choose:%d" % (self.fmt, n if n in (1, 2, 3, 4, 10) else 0))
            vals = [self.expr(min(depth - 1, 1)) for _ in range(n)]
            offs = [rng.choice([4 * i, rng.randrange(65536)]) for i in range(n + 1)]
            if rng.random() < 0.04:
                offs = offs[:-1]                                    # cOffset one short: still skippable
            parts = ["post 8 %d chs %d %s %s" % (rng.randrange(65536), len(offs), " ".join(map(str, offs)), vals[0])]
            parts += ["post 8 %d %s" % (rng.choice([3, rng.randrange(65536)]), v) for v in vals[1:]]
            return "fvar %s 100 %d %s %s" % (cls(), n + 1, self.expr(min(depth - 1, 1)), " ".join(parts))
        if k == "user":
            # user-defined / future function: PtgName, arguments, PtgFuncVar(tab 255)
            n = rng.choice([0, 1, 2, 3])
            nn = len(self.names)
            p = rng.random()
            if nn and p < 0.85:
                first = "name %s %d" % (cls(), rng.randrange(1, nn + 1))
            elif p < 0.93:
                first = "name %s %d" % (cls(), rng.choice([0, nn + 1]))   # not wf
            else:
                first = self.expr(0)                                       # not a name: not wf
            c.count("%s:user_fn_argc:%d" % (self.fmt, n))
            return "fvar %s 255 %d %s%s" % (cls(), n + 1, first, "".join(" " + self.expr(depth - 1) for _ in range(n)))
        p = rng.random()
        if p < 0.6:
            et = rng.choice([1, 2, 8, 0x20, 0x21])
        elif p < 0.9:
            et = rng.choice([0x40, 0x41])                                  # PtgAttrSpace / PtgAttrSpaceSemi
        else:
            et = rng.choice([0x80, 0x04, 0x03, 0x10])
        w = rng.choice([0, 1, 0x1234, 65535]) if et not in (0x40, 0x41) else rng.randrange(7) + 256 * rng.choice([0, 1, 2, 255])
        c.count("%s:attr:%#x" % (self.fmt, et))
        return "%s %d %d %s" % (rng.choice(["attr", "attr", "post"]), et, w, self.expr(depth - 1))


def classify_ast(ctx, fmt, lid, ast_line, impl_line, ans, impl):
    """ans = hex|model|spec|known|wf from the model side; impl = answer of the real decoder"""
    parts = ans.split("|")
    if len(parts) != 5:
        ctx.disagreements.append({"function": "ptg_ast(model side)", "case": ast_line, "impl": impl, "model": ans})
        return
    hexb, model, spec, known, wf = parts
    ctx.traces += 1
    if impl != model:
        ctx.disagreements.append({"function": "%s::parse_formula" % fmt, "case": impl_line, "impl": impl,
                                  "model": model, "ast": ast_line})
        # fall through: still compare against the spec
    in_domain = wf == "1" and (fmt != "xls" or len(hexb) // 2 - 2 < 65536)
    ctx.count("%s:%s" % (fmt, "wf" if in_domain else "not_wf"))
    if not in_domain:
        ctx.count("%s:not_wf:%s" % (fmt, (impl or "?").split(":")[0]))
        return
    expected = "ok:" + spec
    if known != "-":
        ctx.count("%s:known:%s" % (fmt, KNOWN_NAMES.get(known, known)))
        if impl != expected:
            ctx.known_hits.setdefault(KNOWN_NAMES.get(known, known),
                                      {"case": impl_line, "ast": ast_line, "expected": expected, "actual": impl})
        return
    if impl != expected:
        ctx.violations.append({"case": impl_line, "expected": expected, "actual": impl, "model": model,
                               "what": "%s formula text differs from the A1 rendering of the token stream; AST: %s"
                                       % (fmt, ast_line.split("\t")[-1])})
    elif model != expected:
        ctx.disagreements.append({"function": "rpn_correct_%s (model vs spec)" % fmt, "case": ast_line,
                                  "impl": impl, "model": model})
    ctx.nontrivial(hexb)


def run_ast_batch(ctx, fmt, n, tag, ftab_argc, depth=6):
    g = Gen(ctx, fmt, ftab_argc)
    ast_lines, envs = [], []
    fmts = []
    for k in range(n):
        with_links = ctx.rng.random() < 0.6
        g.env(links=with_links)
        # a fifth of the cases are shared formulas: decoded relative to a base cell
        g.base = None
        if ctx.rng.random() < 0.2:
            if fmt == "xls":
                g.base = (ctx.rng.choice([0, 1, 9, 65535, ctx.rng.randrange(65536)]), ctx.rng.choice([0, 1, 25, 255, ctx.rng.randrange(256)]))
            else:
                g.base = (ctx.rng.choice([0, 1, 9, 65535, 1048575, ctx.rng.randrange(1048576)]),
                          ctx.rng.choice([0, 1, 25, 255, 16383, ctx.rng.randrange(16384)]))
            ctx.count("%s:with_base_cell" % fmt)
        d = ctx.rng.choice([0, 1, 2, 3, 4, 5, depth]) if k % 4 else depth
        ast = g.expr(d)
        ea = g.env_args()
        fmts.append(g.fmt_arg())
        ast_lines.append("%s%d\tptg_ast\t%s\t%s\t%s%s" % (tag, k, fmts[-1], "\t".join(ea), ast,
                                                           "\t" + "\t".join(g.link_args()) if with_links else ""))
        envs.append(ea)
    g.base = None
    model = ctx.run_model(ast_lines)
    impl_lines = []
    for k, l in enumerate(ast_lines):
        lid = "%s%d" % (tag, k)
        a = model.get(lid, "")
        hexb = a.split("|", 1)[0] if "|" in a else ""
        impl_lines.append("%s\tptg\t%s\t%s\t%s" % (lid, fmts[k], "\t".join(envs[k]), hexb))
    impl = ctx.run_impl(impl_lines)
    option_free(ctx, impl_lines, impl)
    for k, l in enumerate(ast_lines):
        lid = "%s%d" % (tag, k)
        classify_ast(ctx, fmt, lid, l, impl_lines[k], model.get(lid, "(missing)"), impl.get(lid))
        if k < 2:
            ctx.sample({"ast": l.split("\t", 2)[2], "impl": impl.get(lid), "model_hex|model|spec|known|wf": model.get(lid)})
    return ast_lines, impl_lines, model


# ------------------------------------------------------------------------------- raw / malformed rgce
PTGS = [0x01, 0x03, 0x05, 0x08, 0x0F, 0x10, 0x11, 0x12, 0x13, 0x14, 0x15, 0x16, 0x17, 0x18, 0x19, 0x1C, 0x1D, 0x1E,
        0x1F, 0x20, 0x40, 0x21, 0x41, 0x22, 0x42, 0x62, 0x23, 0x43, 0x24, 0x44, 0x64, 0x25, 0x45, 0x26, 0x29, 0x49,
        0x2A, 0x2B, 0x2C, 0x2C, 0x4C, 0x6C, 0x2D, 0x4D, 0x39, 0x59, 0x79, 0x3A, 0x5A, 0x3B, 0x7B, 0x3C, 0x3D, 0x02, 0x00, 0xFF,
        0x26, 0x27, 0x28, 0x46, 0x67, 0x68]


def rand_token(rng, fmt):
    p = rng.choice(PTGS)
    rb = 2 if fmt == "xls" else 4
    def by(n):
        return bytes(rng.randrange(256) if rng.random() < 0.5 else rng.choice([0, 1, 2, 255]) for _ in range(n))
    if p in (0x24, 0x44, 0x64):
        body = by(rb + 2)
    elif p in (0x25, 0x45):
        body = by(2 * rb + 4)
    elif p in (0x3A, 0x5A):
        body = bytes([rng.randrange(4), 0]) + by(rb + 2)
    elif p in (0x3B, 0x7B):
        body = bytes([rng.randrange(4), 0]) + by(2 * rb + 4)
    elif p in (0x3C,):
        body = bytes([rng.randrange(4), 0]) + by(rb + 2)
    elif p in (0x3D,):
        body = bytes([rng.randrange(4), 0]) + by(2 * rb + 4)
    elif p == 0x17:
        n = rng.randrange(0, 6)
        if fmt == "xls":
            fl = rng.choice([0, 0, 1, 2, 3])
            body = bytes([n, fl]) + by(n * (2 if (fl & 1 and rng.random() < 0.5) else 1))
        else:
            lead = rng.choice([b"", b"", b"\xff\xfe", b"\xfe\xff", b"\xef\xbb\xbf\xbf", b"\xef\xbb"])
            chars = lead + by(2 * n)
            chars = chars[: 2 * (len(chars) // 2)]
            if rng.random() < 0.3:   # surrogates
                chars += rng.choice([b"\x00\xd8\x00\xdc", b"\x00\xd8", b"\x00\xdc", b"\x3d\xd8\x00\xde", b"\x00\xd8\x41\x00"])
            body = struct.pack("<H", len(chars) // 2) + chars
    elif p == 0x19:
        et = rng.choice([1, 2, 4, 8, 0x10, 0x10, 0x20, 0x21, 0x40, 0x41, 0x80, 0x03])
        if et == 4:
            body = bytes([et]) + struct.pack("<H", rng.randrange(0, 3)) + by(rng.randrange(0, 10))
        elif et in (0x40, 0x41):
            body = bytes([et, rng.randrange(0, 8), rng.randrange(0, 4)])
        else:
            body = bytes([et]) + by(2)
    elif p == 0x18:
        body = (bytes([rng.choice([0x19, 0x1D, 0x00])]) + by(rng.choice([4, 12]))) if fmt == "xlsb" else by(5)
    elif p == 0x1C:
        body = bytes([rng.choice([0, 7, 15, 23, 29, 36, 42, 43, 1, 255])])
    elif p == 0x1D:
        body = bytes([rng.choice([0, 1, 2, 255])])
    elif p == 0x1E:
        body = by(2)
    elif p == 0x1F:
        body = struct.pack("<Q", f64_bits(rng))
    elif p in (0x20, 0x40):
        body = by(7 if fmt == "xls" else 14)
    elif p in (0x21, 0x41):
        body = struct.pack("<H", rng.choice([rng.randrange(0, 485), 484, 485, 486, 10, 19, 34, 35, 65535]))
    elif p in (0x22, 0x42, 0x62):
        body = bytes([rng.choice([0, 1, 2, 3, 0x81, 255])]) + struct.pack("<H", rng.choice([rng.randrange(0, 485), 484, 485, 0x8004, 4, 0, 255]))
    elif p in (0x23, 0x43):
        body = struct.pack("<I", rng.choice([0, 1, 2, 3, 4, U32]))
    elif p in (0x29, 0x49):
        inner = b"".join(rand_token(rng, fmt) for _ in range(rng.randrange(0, 3)))
        ln = len(inner) if rng.random() < 0.8 else rng.choice([0, len(inner) + 1, 65535])
        body = struct.pack("<H", ln) + inner
    elif p in (0x26, 0x27, 0x28, 0x46, 0x67, 0x68):
        inner = b"".join(rand_token(rng, fmt) for _ in range(rng.randrange(0, 3)))
        ln = len(inner) if rng.random() < 0.8 else rng.choice([0, len(inner) + 1, 65535])
        body = (by(4) + struct.pack("<H", ln))[: rng.choice([6, 6, 6, 6, 5, 3])] + inner
    elif p in (0x2A, 0x2C, 0x4C, 0x6C):
        body = by(rb + 2)
    elif p in (0x2D, 0x4D):
        body = by(2 * rb + 4)
    elif p in (0x2B,):
        body = by(2 * rb + 4)
    elif p in (0x39, 0x59, 0x79):
        body = by(6)
    elif p == 0x01:
        body = by(4)
    else:
        body = b""
    return bytes([p]) + body


def raw_env(rng, fmt):
    sheets = rng.sample(["S1", "Sheet2", "Ünï", "数"], rng.randrange(0, 4))
    names = rng.sample(["n1", "名", "total"], rng.randrange(0, 3))
    a = [names_arg(sheets), names_arg(names)]
    if fmt == "xls":
        xt = [(0, rng.choice([0, 1, 2, 3, 65535, 65534, 32768]), 0) for _ in range(rng.randrange(0, 4))]
        a.append(",".join("%d:%d:%d" % t for t in xt) if xt else "-")
    return a


def run_raw(ctx, fmt, n, tag, seeds):
    """random token soups, truncations and byte mutations of valid encodings (seeds: hex strings)"""
    rng = ctx.rng
    lines = []
    for k in range(n):
        mode = rng.randrange(10)
        if mode < 5 or not seeds:
            rg = b"".join(rand_token(rng, fmt) for _ in range(rng.randrange(0, 7)))
            if fmt == "xls":
                cce = len(rg) if rng.random() < 0.85 else rng.choice([0, max(0, len(rg) - 1), len(rg) + 1, 65535])
                data = struct.pack("<H", cce) + rg
                if rng.random() < 0.03:
                    data = data[: rng.randrange(0, 3)]
            else:
                data = rg
            kind = "soup"
        else:
            data = bytearray(bytes.fromhex(rng.choice(seeds)))
            if mode < 7 and len(data) > 0:
                data = data[: rng.randrange(0, len(data) + 1)]
                if fmt == "xls" and len(data) >= 2 and rng.random() < 0.7:
                    data[0:2] = struct.pack("<H", len(data) - 2)
                kind = "truncate"
            else:
                for _ in range(rng.randrange(1, 4)):
                    if data:
                        data[rng.randrange(len(data))] = rng.choice([0, 1, 255, 0x80, rng.randrange(256)])
                kind = "flip"
            data = bytes(data)
        ctx.count("%s:raw:%s" % (fmt, kind))
        f_ = fmt
        if fmt == "xls" and rng.random() < 0.3:       # a base cell: PtgRefN / PtgAreaN are decoded
            f_ = "xls@%d:%d" % (rng.choice([0, 1, 65535, rng.randrange(65536)]), rng.choice([0, 1, 255, rng.randrange(256)]))
        if fmt == "xlsb" and rng.random() < 0.3:
            f_ = "xlsb@%d:%d" % (rng.choice([0, 1, 1048575, 1048576, U32, rng.randrange(1048576)]),
                                 rng.choice([0, 1, 16383, 16384, 65536, U32, rng.randrange(16384)]))
        lines.append("%s%d\tptg\t%s\t%s\t%s" % (tag, k, f_, "\t".join(raw_env(rng, fmt)), data.hex()))
    impl, model = ctx.run_both(lines)
    for l in lines:
        lid = l.split("\t", 1)[0]
        i, m = impl.get(lid), model.get(lid)
        ctx.traces += 1
        ctx.count("%s:raw_outcome:%s" % (fmt, (i or "?").split(":")[0]))
        if i != m:
            ctx.disagreements.append({"function": "%s::parse_formula (raw bytes)" % fmt, "case": l, "impl": i, "model": m})
        elif i and i.startswith("ok:") and len(i) > 3:
            ctx.nontrivial(l.split("\t", 2)[2])


# ------------------------------------------------------------------------------- corpus
def corpus(ctx):
    """witnesses of the repaired defects F1, F18, F19, F20, F28 (must now agree with the spec) and of
    the known classes (must still fail, as the refutation lemmas say)"""
    xenv = [names_arg(["S0", "S1", "S2"]), names_arg(["nm"]), "0:2:2,0:0:0"]
    benv = [names_arg(["S0", "S1", "S2"]), names_arg(["nm"])]
    cases = [
        ("xls", xenv, "ref r 0 26 1 1"),                          # F1: AA1
        ("xls", xenv, "ref r 0 702 1 1"),                         # F1: AAA1
        ("xls", xenv, "ref v 0 1 1 0"),                           # F18: $B1
        ("xls", xenv, "ref v 0 1 0 1"),                           # F18: B$1
        ("xlsb", benv, "ref v 0 1 1 0"),
        ("xls", xenv, "ref3 r 0 0 1 1 1"),                        # F19: S2!B1
        ("xls", xenv, "area r 0 0 1 1 1 1 1 1"),                  # F20: A1:B2
        ("xls", xenv, "area3 r 0 0 0 1 1 1 1 0 0"),               # F20: S2!A1:$B$2 through the XTI table
        ("xlsb", benv, "area3 r 2 0 0 1 1 1 16383 0 0"),
        ("xls", xenv, "fvar v 4 3 ref r 0 0 1 1 miss int 7"),     # SUM(A1,,7)
        ("xls", xenv, "func v 1 3 bool 1 int 5 func v 19 0"),     # IF(TRUE,5,PI())
        ("xls", xenv, "str 1 97.98"),                             # former K_STR_WIDE witness (fixed by a3d91ee)
        ("xls", xenv, "str 1 97"),
        ("xls", xenv, "str 1 20013.128512.34.65279"),             # wide, astral (surrogate pair), quote, U+FEFF
        ("xls", xenv, "bin 8 str 1 26085.26412 ref r 0 0 1 1"),    # tokens after a wide string stay in sync
        ("xls", xenv, "str 0 97.34.98"),                          # former K_STR_QUOTE witness (fixed by 6ef7f34)
        ("xlsb", benv, "str 0 97.34.98"),
        ("xlsb", benv, "str 0 34.34.128512.34"),
        ("xlsb", benv, "str 0 65279.97"),                         # BOM-like first character (fixed by 98c2838)
        # audit E1-E3: MMULT / LENB / CONVERT as PtgFunc (2 / 1 / 3 parameters)
        ("xls", xenv, "func v 165 2 area r 0 0 1 1 1 1 1 1 area r 0 2 1 1 1 3 1 1"),
        ("xlsb", benv, "func v 165 2 int 1 int 2"),
        ("xls", xenv, "func v 211 1 str 1 26085.26412"),
        ("xlsb", benv, "func v 211 1 ref r 0 0 1 1"),
        ("xls", xenv, "func v 468 3 int 1 str 0 109 str 0 102.116"),
        ("xlsb", benv, "func v 468 3 ref r 4 2 1 1 str 0 109 str 0 102.116"),
        # audit E4: user-defined / future functions (tab 255): name(args); issue_182.xlsb!A2 = nm("A","b")
        ("xlsb", benv, "fvar v 255 3 name r 1 str 0 65 attr 64 256 str 0 98"),
        ("xls", xenv, "fvar v 255 3 name r 1 str 0 65 str 0 98"),
        ("xls", xenv, "fvar v 255 1 name r 1"),
        ("xlsb", benv, "bin 3 fvar v 255 2 name v 1 fvar v 255 1 name r 1 int 1"),
        # audit G1: white space tokens, also in front of the first operand
        ("xls", xenv, "attr 64 256 bin 3 int 1 attr 64 512 int 2"),
        ("xlsb", benv, "attr 65 1 bin 3 int 1 post 64 513 int 2"),
        ("xls", xenv, "par attr 64 1026 post 64 1028 int 5"),
        # shared formulas (former K_PTGEXP): PtgRefN / PtgAreaN seen from the base cell xls@row:col
        ("xls@1:1", xenv, "bin 3 bin 5 refn v 0 255 1 1 int 2 ref v 0 2 0 0"),     # B2: A2*2+$C$1
        ("xls@3:1", xenv, "bin 3 bin 5 refn v 0 255 1 1 int 2 ref v 0 2 0 0"),     # B4: A4*2+$C$1
        ("xls@0:3", xenv, "sum arean r 65535 0 1 1 1 1 0 1"),                      # D1: SUM(D65536:E$2), row -1 wraps
        ("xls@65535:255", xenv, "refn r 1 1 1 1"),                                 # IV65536: +1 / +1 wraps to A1
        ("xls@5:5", xenv, "refn r 3 2 0 0"),                                       # absolute: $C$4 from anywhere
        ("xls@5:5", xenv, "refn r 65533 16382 1 1"),                               # 14-bit column offset -2: D3
        ("xls@5:5", xenv, "refn a 7 2 0 1"),                                       # mixed: H$8
        ("xls", xenv, "refn r 0 0 1 1"),                                           # no base cell: refused (not wf)
        # the same for xlsb (former K_PTGEXP, xlsb half): rows modulo 1048576, columns modulo 16384
        ("xlsb@1:1", benv, "bin 3 bin 5 refn v 0 16383 1 1 int 2 ref v 0 2 0 0"),            # B2: A2*2+$C$1 (column offset -1)
        ("xlsb@3:1", benv, "bin 3 bin 5 refn v 0 16383 1 1 int 2 ref v 0 2 0 0"),            # B4: A4*2+$C$1
        ("xlsb@0:3", benv, "sum arean r 4294967295 0 1 1 1 1 0 1"),                          # D1: SUM(D1048576:E$2), row -1 wraps
        ("xlsb@1048575:16383", benv, "refn r 1 1 1 1"),                                      # XFD1048576: +1 / +1 wraps to A1
        ("xlsb@5:5", benv, "refn r 3 2 0 0"),                                                # absolute: $C$4 from anywhere
        ("xlsb@5:5", benv, "refn r 4294967293 16382 1 1"),                                   # -3 / -2: D3
        ("xlsb@5:300", benv, "refn a 7 2 0 1"),                                              # mixed: KQ$8 (col 302)
        ("xlsb@70000:5", benv, "refn v 1048574 0 1 0"),                                      # row offset +1048574 = -2: $A69999
        ("xlsb", benv, "refn r 0 0 1 1"),                                                    # no base cell: refused (not wf)
        # audit 2, XLS-3 / XLSB-1b: the mem tokens Excel writes in front of union / intersection / range expressions
        ("xls", xenv, "fvar v 4 1 par mem r area 0 bin 16 area r 0 0 1 1 1 0 1 1 area r 0 2 1 1 1 2 1 1"),    # SUM((A1:A2,C1:C2))
        ("xlsb", benv, "fvar v 4 1 par mem r area 0 bin 16 area r 0 0 1 1 1 0 1 1 area r 0 2 1 1 1 2 1 1"),
        ("xls", xenv, "fvar v 4 1 mem r area 0 bin 15 area r 0 0 1 1 1 1 1 1 area r 0 1 1 1 1 2 1 1"),        # SUM(A1:B2 B1:C2)
        ("xlsb", benv, "fvar v 4 1 mem r nomem 0 bin 15 area r 0 0 1 1 1 1 1 1 area r 0 1 1 1 1 2 1 1"),
        ("xls", xenv, "fvar v 4 1 mem r func 0 bin 17 ref r 0 0 1 1 fvar r 29 2 area r 0 0 1 1 65535 0 1 1 int 3"),   # SUM(A1:INDEX(A1:A65536,3))
        ("xlsb", benv, "fvar v 4 1 mem r func 0 bin 17 ref r 0 0 1 1 fvar r 29 2 area r 0 0 1 1 1048575 0 1 1 int 3"),
        ("xls", xenv, "mem r func 0 bin 16 area3 r 0 0 0 0 0 65535 1 0 0 area3 r 0 0 0 0 0 1 255 0 0"),       # Print_Titles: S2!$A$1:$B$65536,S2!$A$1:$IV$2
        ("xlsb", benv, "mem v err 23 bin 16 ref r 0 0 1 1 mem r func 0 bin 17 ref r 1 1 1 1 mem a func 7 bin 17 ref r 2 2 1 1 ref r 3 3 1 1"),  # nested
    ] + [
        # audit G1: CHOOSE with 1, 2, 3, 4, 10 values (jump table + goto after each value)
        (fmt, env, "fvar v 100 %d int 2 post 8 %d chs %d %s int 10%s" % (
            n + 1, 4 * n, n + 1, " ".join(str(4 * i) for i in range(n + 1)),
            "".join(" post 8 %d int %d" % (4 * (n - i), 10 + i) for i in range(1, n))))
        for n in (1, 2, 3, 4, 10) for (fmt, env) in (("xls", xenv), ("xlsb", benv))
    ]
    # KNOWN FINDING K_EXTERN_BOOK (C14_refuted_extern_xls / _xlsb): three supporting links — add-in functions, another
    # workbook (sheets Data, Other Sheet), this workbook — and a formula through the XTI of the other workbook:
    # '[1]Other Sheet'!$A$1+S2!$A$1, decoded as S2!$A$1+S2!$A$1; the reference through XTI 0 (this workbook) is right
    lk = "addin,ext:%s/%s,self" % ("Data".encode().hex(), "Other Sheet".encode().hex())
    xenv_l = [names_arg(["S1", "S2"]), names_arg(["Their", "Ours"]), "2:1:1,1:1:1,1:0:1"]
    benv_l = [names_arg(["S2", "S2", "S1:S2"]), names_arg(["Their", "Ours"])]
    bextra = [lk, "2:1:1,1:1:1,1:0:1", names_arg(["S1", "S2"])]
    cases = [c + ([],) for c in cases] + [
        ("xls", xenv_l, "bin 3 ref3 r 1 0 0 0 0 ref3 r 0 0 0 0 0", [lk]),
        ("xls", xenv_l, "ref3 r 0 0 0 0 0", [lk]),
        ("xls", xenv_l, "area3 r 2 0 0 0 0 1 1 0 0", [lk]),                 # '[1]Data:Other Sheet'!$A$1:$B$2
        ("xlsb", benv_l, "bin 3 ref3 r 1 0 0 0 0 ref3 r 0 0 0 0 0", bextra),
        ("xlsb", benv_l, "ref3 r 0 0 0 0 0", bextra),
        ("xlsb", benv_l, "area3 r 2 0 0 0 0 1 1 0 0", bextra),
    ]
    ast_lines, impl_lines = [], []
    for k, (fmt, env, ast, extra) in enumerate(cases):
        ast_lines.append("k%d\tptg_ast\t%s\t%s\t%s%s" % (k, fmt, "\t".join(env), ast, "".join("\t" + e for e in extra)))
    model = ctx.run_model(ast_lines)
    for k, (fmt, env, ast, extra) in enumerate(cases):
        hexb = model.get("k%d" % k, "").split("|", 1)[0]
        impl_lines.append("k%d\tptg\t%s\t%s\t%s" % (k, fmt, "\t".join(env), hexb))
    # F28: PtgFunc with iftab == 485 must be an error, not a panic (raw)
    impl_lines.append("k28a\tptg\txls\t-\t-\t-\t" + (struct.pack("<H", 3) + bytes([0x21]) + struct.pack("<H", 485)).hex())
    impl_lines.append("k28b\tptg\txlsb\t-\t-\t" + (bytes([0x21]) + struct.pack("<H", 485)).hex())
    impl = ctx.run_impl(impl_lines)
    option_free(ctx, impl_lines, impl)
    m2 = ctx.run_model(impl_lines[-2:])
    for k, (fmt, env, ast, extra) in enumerate(cases):
        lid = "k%d" % k
        classify_ast(ctx, fmt, lid, ast_lines[k], impl_lines[k], model.get(lid, "(missing)"), impl.get(lid))
    for lid in ("k28a", "k28b"):
        ctx.traces += 1
        if impl.get(lid) != m2.get(lid):
            ctx.disagreements.append({"function": "parse_formula (F28 witness)", "case": lid,
                                      "impl": impl.get(lid), "model": m2.get(lid)})
        if impl.get(lid) != "err":
            ctx.violations.append({"case": [l for l in impl_lines if l.startswith(lid)][0], "expected": "err",
                                   "actual": impl.get(lid), "model": m2.get(lid),
                                   "what": "PtgFunc with iftab == FTAB_LEN must be rejected, not panic (F28)"})


# ------------------------------------------------------------------------------- end to end (.xls files)
def run_files(ctx, n, ftab_argc):
    """generated .xls files through the public API: Xls::worksheet_formula must return, for every
    sheet, the tight rectangle of the formula cells with each formula's A1 text (the Coq spec's
    rendering) at its absolute position and "" everywhere else."""
    import shutil
    from props import c14_xlsfile as xf
    rng = ctx.rng
    tmp = os.path.join(vlib.CACHE, "tmp", "c14-%d" % os.getpid())
    shutil.rmtree(tmp, ignore_errors=True)
    os.makedirs(tmp, exist_ok=True)
    g = Gen(ctx, "xls", ftab_argc)
    books, ast_lines = [], []
    for k in range(n):
        g.env()
        g.names = [x for x in g.names if all(ord(ch) < 256 for ch in x)]
        ea = g.env_args()
        sheets = []
        for si in range(len(g.sheets)):
            br, bc = rng.choice([0, 0, 3, 65535 - 40, rng.randrange(0, 65000)]), rng.choice([0, 0, 2, 255 - 12, rng.randrange(0, 240)])
            poss = sorted(set((br + rng.randrange(0, 40), bc + rng.randrange(0, 12)) for _ in range(rng.choice([0, 1, 2, 3, 6]))))
            slots = []
            for (r, c) in poss:
                lid = "fa%d_%d_%d" % (k, si, len(slots))
                ast_lines.append("%s\tptg_ast\txls\t%s\t%s" % (lid, "\t".join(ea), g.expr(rng.choice([0, 1, 2, 3]))))
                slots.append((r, c, lid))
            sheets.append(slots)
        books.append((list(g.sheets), list(g.names), list(g.xtis), sheets))
    model = ctx.run_model(ast_lines)
    impl_lines, expected = [], {}
    for k, (snames, names, xtis, sheets) in enumerate(books):
        fbs, exps = [], []
        for slots in sheets:
            fl, ex = [], []
            for (r, c, lid) in slots:
                parts = model.get(lid, "").split("|")
                if len(parts) != 5 or parts[4] != "1" or parts[3] != "-" or len(parts[0]) // 2 > 8000:
                    continue                      # outside the theorem's domain: leave the cell out
                fl.append((r, c, bytes.fromhex(parts[0])))
                ex.append((r, c, parts[2]))
            fbs.append(fl)
            exps.append(ex)
        data = xf.cfb_write([("Workbook", xf.workbook_stream(snames, names, xtis, fbs))])
        path = os.path.join(tmp, "b%d.xls" % k)
        with open(path, "wb") as f:
            f.write(data)
        for si, ex in enumerate(exps):
            lid = "ff%d_%d" % (k, si)
            impl_lines.append("%s\txlsformula\t%s\t%s" % (lid, path, hx(snames[si])))
            if not ex:
                expected[lid] = "ok:empty"
            else:
                r0, r1 = min(e[0] for e in ex), max(e[0] for e in ex)
                c0, c1 = min(e[1] for e in ex), max(e[1] for e in ex)
                m = {(e[0], e[1]): e[2] for e in ex}
                cells = [(m.get((r, c), "") or ".") for r in range(r0, r1 + 1) for c in range(c0, c1 + 1)]
                expected[lid] = "ok:%d,%d,%d,%d|%s" % (r0, c0, r1, c1, ";".join(cells))
            ctx.count("file:formulas_per_sheet:%d" % len(ex))
    impl = ctx.run_impl(impl_lines)
    option_free(ctx, impl_lines, impl)
    for l in impl_lines:
        lid = l.split("\t", 1)[0]
        ctx.traces += 1
        if impl.get(lid) != expected[lid]:
            ctx.violations.append({"case": l, "expected": expected[lid], "actual": impl.get(lid), "model": None,
                                   "what": "Xls::worksheet_formula on a generated file: formula cells must sit at their absolute position with the A1 text, every other cell empty"})
        elif expected[lid] != "ok:empty":
            ctx.nontrivial("file:" + expected[lid])
    ctx.sample({"case": impl_lines[0] if impl_lines else None, "impl": impl.get(impl_lines[0].split("\t", 1)[0]) if impl_lines else None})
    ctx.extra["generated_files"] = len(books)



# ------------------------------------------------------------------------------- end to end, all four formats
# Real files through Reader::worksheet_formula (every sheet) and Reader::defined_names.  Expected
# values: tools/fmlagen.expected_range / expected_names over the generator's own semantic
# description, with the Coq `render` text for token formulas (cmd ptg_ast).  Model: the extracted
# FormulaEnv functions (cmd fenv: name / extern-sheet tables from the raw records; cmd fpos:
# Range::from_sparse over the formula cells).
import fmlagen as fg

# (K_PTGEXP, shared / array formula cells reported without their formula, is repaired in both binary
#  readers: xls d24e473, xlsb "fix: xlsb cells of shared and array formulas were reported without their
#  formula"; no class of this property is left)
KNOWN_XLS_NAME = "K_XLS_NAME_FORMULA"
KNOWN_XLSX_CDATA = "K_XLSX_NAME_CDATA"
E2E_DIR = os.path.join(vlib.CACHE, "tmp", "c14-%d" % os.getpid())


def _write(name, data):
    os.makedirs(E2E_DIR, exist_ok=True)
    path = os.path.join(E2E_DIR, name)
    with open(path, "wb") as f:
        f.write(data)
    return path


def _keep_file(line):
    """the failing file of an `open` case is part of the replay: the generated files are deleted at the next run,
    so the file is copied next to the replays and the case line is made to name the copy"""
    import shutil, hashlib
    f = line.split("\t")
    if len(f) < 5 or f[1] != "open" or not os.path.isfile(f[3]):
        return line
    d = os.path.join(vlib.OUTROOT, "replays", "C14-files")
    os.makedirs(d, exist_ok=True)
    h = hashlib.sha1(open(f[3], "rb").read()).hexdigest()[:12]
    dst = os.path.join(d, "%s-%s" % (h, os.path.basename(f[3])))
    shutil.copyfile(f[3], dst)
    f[3] = dst
    return "\t".join(f)


def _open_failure(fmt, answer):
    """what to say when the answer to an `open` case is not one result per call"""
    if (answer or "").startswith("panic"):
        return "%s file through the public API: the reader PANICKED while opening / reading the workbook (%s); the file is kept with the replay" % (fmt, answer)
    return "%s file through the public API: the workbook could not be read (%s)" % (fmt, answer)


def _window(rng, maxr, maxc, h=24, w=8):
    """base of a small window of cells: origin, small offsets, random, and the far corner"""
    br = rng.choice([0, 0, 3, maxr - h, maxr - h, rng.randrange(0, maxr - h)])
    bc = rng.choice([0, 0, 2, maxc - w, maxc - w, rng.randrange(0, maxc - w)])
    return br, bc


def _check_book(ctx, fmt, line, answer, exp_names, exp_sheets, known_sheets=None, model_names=None, known_names=None):
    """answer: the harness' reply to `open fmt path names;formula s1;…`.
    exp_names: what the property demands of defined_names; model_names: what the Coq model predicts
    (None = same); exp_sheets: per sheet (demanded by the property, predicted by the model).  Model and
    property differ only inside a known class (known_names / known_sheets = its id)."""
    parts = (answer or "").split(";;")
    want = [exp_names] + [e[0] for e in exp_sheets]
    pred = [model_names if model_names is not None else exp_names] + [e[1] for e in exp_sheets]
    ctx.traces += 1
    if len(parts) != len(want) or (answer or "").startswith("panic"):
        ctx.violations.append({"case": _keep_file(line), "expected": ";;".join(want), "actual": answer, "model": ";;".join(pred),
                               "what": _open_failure(fmt, answer)})
        return False
    ok = True
    for i, (got, w, p_) in enumerate(zip(parts, want, pred)):
        if got != p_:
            ctx.disagreements.append({"function": "%s %s (real file vs FormulaEnv model)" % (fmt, "defined_names" if i == 0 else "worksheet_formula"),
                                      "case": line, "impl": got, "model": p_})
        if got == w:
            if w and w != "R[-]":
                ctx.nontrivial("%s:file:%s" % (fmt, w))
            continue
        kn = known_names if i == 0 else known_sheets
        if kn and got == p_:
            ctx.known_hits.setdefault(kn, {"case": line, "expected": w, "actual": got})
            ctx.count("%s:file:known:%s" % (fmt, kn))
            continue
        ok = False
        if i == 0:
            what = "defined_names must list every name record in file order, each with the text of its formula"
        else:
            what = ("worksheet_formula of sheet #%d: every formula text at its absolute position, \"\" elsewhere, "
                    "tight bounding box of the formula cells" % (i - 1))
        ctx.violations.append({"case": _keep_file(line), "expected": ";;".join(want), "actual": answer, "model": ";;".join(pred),
                               "what": "%s file through the public API: %s" % (fmt, what)})
        break
    return ok


def _fpos_line(lid, cells, keep=False):
    return "%s\tfpos\t%s\t%s" % (lid, "keep" if keep else "drop",
                                 ",".join("%d:%d:%s" % (r, c, hx(t)) for (r, c, t) in cells) or "-")


def _model_ranges(ctx, meta, fmt):
    """stored-text formats: the extracted FormulaEnv.formula_range over the formula cells must agree
    with the generator's own expansion (and, through _check_book, with the real reader)"""
    lines = []
    for lid, m in meta.items():
        for si, fc in enumerate(m[3]):
            lines.append(_fpos_line("%s_p%d" % (lid, si), fc))
    mod = ctx.run_model(lines)
    for lid, m in meta.items():
        for si, e in enumerate(m[2]):
            got = mod.get("%s_p%d" % (lid, si))
            if got != e[1]:
                ctx.disagreements.append({"function": "formula_range (FormulaEnv model vs expansion of the generator, %s)" % fmt,
                                          "case": m[0], "impl": e[1], "model": got})


def _recs_arg(recs):
    return ",".join("%d:%s" % (t, p.hex()) for t, p in recs) or "-"


def _pick_ast(model, lids, fallback_hex, fallback_text):
    """first in-domain candidate (wf, no known class, reasonable size): (rgce hex incl. framing, text)"""
    for lid in lids:
        parts = model.get(lid, "").split("|")
        if len(parts) == 5 and parts[4] == "1" and parts[3] == "-" and len(parts[0]) // 2 <= 4000 and parts[1] == "ok:" + parts[2]:
            return parts[0], bytes.fromhex(parts[2]).decode("utf-8")
    return fallback_hex, fallback_text


def _pick_ast3(model, lids, fallback_hex, fallback_text):
    """like _pick_ast, for tiers that hand the supporting links to the spec: candidates of the known class
    K_EXTERN_BOOK are taken too — (rgce hex, text the property demands, text the model predicts, known id or "-")"""
    for lid in lids:
        parts = model.get(lid, "").split("|")
        if len(parts) == 5 and parts[4] == "1" and len(parts[0]) // 2 <= 4000 and parts[1].startswith("ok:") and \
                (parts[3] != "-" or parts[1] == "ok:" + parts[2]):
            return parts[0], bytes.fromhex(parts[2]).decode("utf-8"), bytes.fromhex(parts[1][3:]).decode("utf-8"), parts[3]
    return fallback_hex, fallback_text, fallback_text, "-"


NAME_POOL = ["Rate", "Bonus", "Total", "_xlnm._FilterDatabase", "_xlnm.Print_Area", "x", "Prix_€", "名前",
             "_n1", "tax.rate", "\\a", "Länge", "solver_adj", "A_very_long_defined_name_0123456789"]
SHEET_POOL = ["Sheet1", "Sheet2", "Data", "My Sheet", "Übersicht", "数据", "S", "a'b", "Sheet 10", "Δ", "A&B", "x<y"]


def _name_biased_expr(g, rng, after=0):
    """a formula that certainly uses a defined name (preferably one stored after index `after`)"""
    n = len(g.names)
    lo = after + 1 if after < n and rng.random() < 0.8 else 1
    idx = rng.randrange(lo, n + 1)
    return "bin %d %s name %s %d" % (rng.choice([3, 5, 8]), g.expr(rng.choice([0, 1])), rng.choice("rv"), idx)


def run_xlsb_files(ctx, n, argc):
    rng = ctx.rng
    g = Gen(ctx, "xlsb", argc)
    books, ast_lines = [], []
    for k in range(n):
        ns = rng.randrange(1, 5)
        bundle = rng.sample(SHEET_POOL, ns)
        # extern-sheet table: deliberately not the identity on sheet indices
        # the EXTERNALS block: the supporting links in any order (BrtSupSelf, BrtSupSame, BrtSupAddin, BrtSupBookSrc);
        # an XTI points into this workbook exactly when its link is BrtSupSelf / BrtSupSame
        g.links, g.local = fg.random_links(rng, "xlsb")
        ctx.count("xlsb:file:links:%s" % fg.links_tag(g.links))
        xtis = []
        for _ in range(rng.randrange(1, 6)):
            p = rng.random()
            f = rng.randrange(0, ns) if p < 0.75 else rng.choice([-1, -2]) if p < 0.9 else rng.choice([ns, ns + 3, 70000])
            l_ = f
            if rng.random() < 0.3:
                l_ = rng.randrange(0, ns) if rng.random() < 0.85 else rng.choice([-1, ns, 70000])
                ctx.count("xlsb:file:xti:span" if f >= 0 and l_ != f and 0 <= l_ < ns else "xlsb:file:xti:last_invalid_or_same")
            xtis.append((g.isup(), f, l_))
            if xtis[-1][0] in g.local and xtis[-1][0] > 0:
                ctx.count("xlsb:file:xti:of_this_workbook_with_link_index>0")
        if ns > 1 and rng.random() < 0.6:
            xtis.sort(key=lambda x: -x[1])
        ext = [fg.xlsb_resolve_xti(x[1], bundle, x[2]) for x in xtis]
        g.sheets, g.xtis, g.nixti = ext, None, len(ext)
        g.bundle, g.xtis_b = bundle, xtis
        la = "\t" + "\t".join(g.link_args())
        # names: every flag combination, hidden / built-in ones first more often than not
        nn = rng.choice([0, 1, 2, 3, 4, 6])
        nm = []
        for i in range(nn):
            fl = 0
            for bit, pr in ((fg.NF_HIDDEN, 0.35), (fg.NF_FUNC, 0.1), (fg.NF_OB, 0.05), (fg.NF_PROC, 0.1), (fg.NF_CALCEXP, 0.1),
                            (fg.NF_BUILTIN, 0.2), (fg.NF_PUBLISHED, 0.1), (fg.NF_WBPARAM, 0.05), (fg.NF_FUTURE, 0.03)):
                if rng.random() < pr:
                    fl |= bit
            if i == 0 and nn > 1 and rng.random() < 0.6:
                fl |= fg.NF_HIDDEN
            name = rng.choice(NAME_POOL) if rng.random() < 0.9 else rng.choice(["", "dup", "dup"])
            if fl & fg.NF_BUILTIN and rng.random() < 0.7:
                name = rng.choice(["_xlnm._FilterDatabase", "_xlnm.Print_Area", "_xlnm.Print_Titles", "_xlnm.Criteria"])
            ctx.count("xlsb:file:name_flags:%s" % ("+".join(t for b, t in ((1, "hidden"), (2, "func"), (8, "proc"), (32, "builtin")) if fl & b) or "plain"))
            nm.append({"flags": fl, "name": name, "itab": rng.choice([0xFFFFFFFF, 0xFFFFFFFF, 0, ns - 1]),
                       "comment": rng.choice([None, None, "c", ""]), "chkey": rng.choice([0, 0, 65])})
        if rng.random() < 0.5:
            nm.sort(key=lambda x: x["name"].lower())      # Excel stores the names sorted
        # the formulas: PtgName indexes the WHOLE table, so a name may use one stored after it
        g.names = [x["name"] for x in nm]
        for i, x_ in enumerate(nm):
            cands = []
            mode = rng.random()
            for j in range(3):
                lid = "xbn%d_%d_%d" % (k, i, j)
                if mode < 0.15:
                    ast = None
                elif mode < 0.5 and nn > 1:
                    # defined through another name, stored before or (as often) after it
                    tgt = rng.choice([t_ for t_ in range(nn) if t_ != i])
                    ctx.count("xlsb:file:name_ref:%s" % ("forward" if tgt > i else "backward"))
                    ast = "bin %d name %s %d %s" % (rng.choice([3, 5, 8]), rng.choice("rv"), tgt + 1, g.expr(rng.choice([0, 1])))
                elif mode < 0.75:
                    ast = "area3 r %d %s %s" % (rng.randrange(0, len(ext)), g.cref(), g.cref())
                else:
                    ast = g.expr(rng.choice([0, 1, 2]))
                if ast is not None:
                    ast_lines.append("%s\tptg_ast\txlsb\t%s\t%s%s" % (lid, "\t".join(g.env_args()), ast, la))
                    cands.append(lid)
            x_["cands"] = cands
        hidden = [i for i, x in enumerate(nm) if x["flags"] & fg.NF_HIDDEN]
        after = hidden[0] + 1 if hidden else 0
        ea = g.env_args()
        sheets = []
        for si in range(ns):
            br, bc = _window(rng, 1048576, 16384)
            poss = sorted(set((br + rng.randrange(0, 24), bc + rng.randrange(0, 8)) for _ in range(rng.choice([0, 1, 2, 3, 5, 8]))))
            slots = []
            for (r, c) in poss:
                p = rng.random()
                kind = rng.choice(["fnum", "fnum", "fstr", "fstr", "fbool", "ferr"])
                if p < 0.12:
                    slots.append((r, c, rng.choice(["num", "str", "bool", "err", "blank"]), None))   # value cell
                elif p < 0.17:
                    slots.append((r, c, kind, "empty"))
                elif p < 0.21:
                    slots.append((r, c, kind, "ptgexp"))
                else:
                    cands = []
                    for j in range(2):
                        lid = "xbc%d_%d_%d_%d" % (k, si, len(slots), j)
                        q = rng.random()
                        if q < 0.35 and g.names:
                            ast = _name_biased_expr(g, rng, after)
                        elif q < 0.55:
                            ast = "ref3 %s %d %s" % (rng.choice("rv"), rng.randrange(0, len(ext)), g.cref())
                        else:
                            ast = g.expr(rng.choice([0, 1, 2, 3]))
                        ast_lines.append("%s\tptg_ast\txlsb\t%s\t%s%s" % (lid, "\t".join(ea), ast, la))
                        cands.append(lid)
                    slots.append((r, c, kind, cands))
            # value cells outside the formula area: the formula range must not follow the value range
            if poss and rng.random() < 0.5:
                r0, c0 = poss[0][0], min(p[1] for p in poss)
                if r0 > 0:
                    slots.insert(0, (r0 - 1, max(0, c0 - 1), "num", None))
                slots.append((poss[-1][0] + 1, min(16383, max(p[1] for p in poss) + 2), "str", None))
            sheets.append(slots)
        books.append((bundle, xtis, ext, nm, sheets, list(g.links)))
    model = ctx.run_model(ast_lines)
    impl_lines, meta, model_lines, bad_lines = [], {}, [], []
    for k, (bundle, xtis, ext, nm, sheets, links) in enumerate(books):
        payloads, exp_names = [], []
        known_names, known_sheets = None, None
        for x in nm:
            hexb, text, mtext, kn = _pick_ast3(model, x["cands"], "1e0700", "7") if x["cands"] else ("", "", "", "-")
            payloads.append(fg.brt_name_payload(x["flags"], x["itab"], x["name"], bytes.fromhex(hexb), x["chkey"], x["comment"]))
            exp_names.append((x["name"], text))
            if kn != "-":
                known_names = kn
        sheet_cells, exp_sheets, mlines, tables = [], [], [], []
        for si, slots in enumerate(sheets):
            recs, cells_prop, cells_model, cells_all = [], [], [], []
            for (r, c, kind, what) in slots:
                if what is None:
                    recs.append((r, c, kind, b""))
                elif what == "empty":
                    recs.append((r, c, kind, b""))
                    cells_all.append((r, c, ""))
                elif what == "ptgexp":
                    q = rng.random()
                    rgce_e, rgcb_e = fg.xlsb_ptgexp((r, c))
                    if q < 0.6:
                        # a one-cell shared group whose expression is 7 (former known class K_PTGEXP)
                        recs.append((r, c, kind, rgce_e, rgcb_e, [(0x01AB, fg.brt_shrfmla_payload(r, r, c, c, b"\x1e\x07\x00"))]))
                        cells_prop.append((r, c, "7"))
                        cells_model.append((r, c, "7"))
                        ctx.count("xlsb:file:ptgexp:one_cell_group")
                    elif q < 0.85:
                        # PtgExp naming a cell that starts no group (itself, no BrtShrFmla): nothing to report
                        recs.append((r, c, kind, rgce_e, rgcb_e))
                        ctx.count("xlsb:file:ptgexp:orphan")
                    else:
                        # PtgExp without its column (cb = 0): names no cell; the BrtShrFmla fmlagen may put
                        # behind it belongs to nobody
                        recs.append((r, c, kind, rgce_e))
                        ctx.count("xlsb:file:ptgexp:no_column")
                    cells_all.append((r, c, ""))
                else:
                    hexb, text, mtext, kn = _pick_ast3(model, what, "1e0700", "7")
                    recs.append((r, c, kind, bytes.fromhex(hexb)))
                    cells_prop.append((r, c, text))
                    cells_model.append((r, c, mtext))
                    cells_all.append((r, c, text))
                    if kn != "-":
                        known_sheets = kn
            sheet_cells.append(recs)
            tables.append(fg.xlsb_table_records(recs, rng))
            exp_sheets.append([fg.expected_range(cells_prop), fg.expected_range(cells_model)])
            # model: FormulaSheet.xlsb_sheet_formula_range on the records of the cell table
            mlines.append("xb%d_p%d\tfsheet\txlsb\t%s\t%s\t%s" % (k, si, names_arg(ext), names_arg([x["name"] for x in nm]),
                                                                 _recs_arg(tables[-1] + [(0x0092, b"")])))
            ctx.count("xlsb:file:formulas_per_sheet:%d" % len(cells_model))
        tail = fg.xlsb_tail_records(xtis, payloads, links=links)
        # sheets without formula cells standing before another sheet may be CHART sheets: they keep their
        # place in the sheet list the XTIs index (3-D references of the other sheets' formulas and of the
        # names go across them), and are not asked for formulas
        charts = [si for si in range(len(bundle) - 1) if not sheet_cells[si] and rng.random() < 0.6]
        path = _write("e%d.xlsb" % k, fg.xlsb_bytes(bundle, sheet_cells, tail, rng, tables=tables, charts=charts))
        if charts:
            ctx.count("xlsb:file:chart_sheet_before_a_worksheet")
        calls = "names;" + ";".join("formula " + hx(s) for si, s in enumerate(bundle) if si not in charts)
        line = "xb%d\topen\txlsb\t%s\t%s" % (k, path, calls)
        impl_lines.append(line)
        model_lines += mlines
        model_lines.append("xb%d_e\tfenv\txlsb\t%s\t-\t%s" % (k, names_arg(bundle), _recs_arg(tail)))
        meta["xb%d" % k] = (line, fg.expected_names(exp_names), exp_sheets, known_sheets, ext, known_names, charts)
        # a malformed sibling (implementation vs model only): a truncated BrtName, or an extern-sheet
        # count that runs into the bytes an earlier record left in the reader's buffer
        if nm and rng.random() < 0.25:
            bad = list(payloads)
            j = rng.randrange(len(bad))
            q = rng.random()
            if q < 0.6:
                bad[j] = bad[j][: rng.randrange(0, len(bad[j]))]
            elif q < 0.8:      # a character count far beyond the record (wide_str must answer Err)
                bad[j] = bad[j][:9] + struct.pack("<I", rng.choice([0x7FFFFFFF, 0xFFFFFFFF, 100000])) + bad[j][13:]
            else:              # an rgce length far beyond the record (slice out of range)
                nlen = struct.unpack("<I", bad[j][9:13])[0]
                o = 13 + 2 * nlen
                bad[j] = bad[j][:o] + struct.pack("<I", rng.choice([0xFFFFFFF0, 0x7FFFFFFF, 70000])) + bad[j][o + 4:]
            btail = fg.xlsb_tail_records(xtis, bad, links=links)
        elif rng.random() < 0.15:
            btail = fg.xlsb_tail_records(xtis, payloads[:2], junk=bytes(rng.randrange(256) for _ in range(rng.choice([3, 16, 60, 200]))),
                                         cxti=len(xtis) + rng.choice([1, 2, 5]), links=links)
        else:
            btail = None
        if btail is not None:
            bpath = _write("e%d_bad.xlsb" % k, fg.xlsb_bytes(bundle, [[] for _ in bundle], btail, rng))
            bad_lines.append(("xbm%d" % k, "xbm%d\topen\txlsb\t%s\tnames" % (k, bpath),
                              "xbm%d\tfenv\txlsb\t%s\t-\t%s" % (k, names_arg(bundle), _recs_arg(btail))))
    impl = ctx.run_impl(impl_lines + [b[1] for b in bad_lines])
    option_free(ctx, impl_lines, impl)
    mod2 = ctx.run_model(model_lines + [b[2] for b in bad_lines])
    for lid, (line, en, es, known, ext, known_names, charts) in meta.items():
        env = mod2.get(lid + "_e", "")
        mnames = None
        if env.startswith("ok:") and "|" in env:
            mnames, mext = env[3:].split("|", 1)
            if mext != ",".join(hx(x) for x in ext):
                ctx.disagreements.append({"function": "xlsb extern-sheet table (FormulaEnv model vs independent reading of the XTI array)",
                                          "case": line, "impl": ",".join(hx(x) for x in ext), "model": mext})
        else:
            mnames = env or "(missing)"
        for si, e in enumerate(es):
            m = mod2.get("%s_p%d" % (lid, si))
            if m != e[1]:
                ctx.disagreements.append({"function": "formula_range (FormulaEnv model vs expansion of the generator)", "case": line,
                                          "impl": e[1], "model": m})
        _check_book(ctx, "xlsb", line, impl.get(lid), en, [tuple(e) for si, e in enumerate(es) if si not in charts], known, model_names=mnames,
                    known_names=known_names)
    for lid, il, ml in bad_lines:
        i, m = impl.get(lid), mod2.get(lid, "")
        ctx.traces += 1
        ctx.count("xlsb:file:malformed_names:%s" % (i if i in ("panic", "openerr:other") else "ok"))
        same = (m == "panic" and i == "panic") or (m == "err" and i == "openerr:other") or \
               (m.startswith("ok:") and i == m[3:].split("|", 1)[0])
        if not same:
            ctx.disagreements.append({"function": "xlsb read_workbook names loop (malformed records)", "case": il, "impl": i, "model": m})
    ctx.extra["generated_xlsb_files"] = len(books) + len(bad_lines)
    return meta, impl


def run_xls_files2(ctx, n, argc):
    """.xls: Lbl records of every kind (hidden, built-in = one-character ids reported as _xlnm.<Name>,
    8/16-bit names) in front of the names the formulas use, 3-D references through a shuffled XTI table
    (possibly split over two EXTERNSHEET records), one-cell shared groups / orphan PtgExp cells (groups
    proper: run_xls_shared_files), defined_names whose formulas range over the whole grammar."""
    from props import c14_xlsfile as xf
    rng = ctx.rng
    g = Gen(ctx, "xls", argc)
    books, ast_lines = [], []
    for k in range(n):
        # the supporting links (SupBook records) in any order; an XTI points into this workbook exactly when its
        # SupBook is the one with cch = 0x0401
        g.env(links=True)
        ns = len(g.sheets)
        loc = g.local[-1]
        if ns > 1 and rng.random() < 0.5:
            g.xtis = [(loc, f, f) for f in rng.sample(range(ns), ns)][::-1] + g.xtis[:2]
            g.nixti = len(g.xtis)
        if rng.random() < 0.06:
            # more XTI than fit into one ExternSheet record (1370): the array goes on in CONTINUE records
            # (audit 2, XLS-5); Gen.ixti then prefers entries beyond the 1370th
            g.xtis = g.xtis + [(loc, rng.randrange(ns), rng.randrange(ns)) if rng.random() < 0.2 else (loc, f_, f_)
                               for f_ in (rng.randrange(ns) for _ in range(rng.choice([1371, 1375, 1400, 2745]) - len(g.xtis)))]
            g.nixti = len(g.xtis)
            ctx.count("xls:file:externsheet:more_than_1370_xti")
        if any(x[0] in g.local and x[0] > 0 for x in g.xtis):
            ctx.count("xls:file:xti:of_this_workbook_with_link_index>0")
        la = "\t" + "\t".join(g.link_args())
        nn = rng.choice([0, 1, 2, 3, 4, 6])
        nm = []
        for i in range(nn):
            fl = 0
            for bit, pr in ((fg.LF_HIDDEN, 0.35), (fg.LF_FUNC, 0.1), (fg.LF_OB, 0.05), (fg.LF_PROC, 0.1), (fg.LF_CALCEXP, 0.1),
                            (fg.LF_PUBLISHED, 0.1), (fg.LF_WBPARAM, 0.05)):
                if rng.random() < pr:
                    fl |= bit
            if i == 0 and nn > 1 and rng.random() < 0.6:
                fl |= fg.LF_HIDDEN
            if rng.random() < 0.25:
                fl |= fg.LF_BUILTIN
                # the stored string of a built-in name is its one-character id (MS-XLS 2.5.114); now and then
                # an id outside the table or a longer string (reported as stored)
                name, wide16 = chr(rng.choice([0x00, 0x01, 0x06, 0x07, 0x0C, 0x0D, 0x0D, 0x0E, 0x41, rng.randrange(0x0E)])), rng.random() < 0.15
                if rng.random() < 0.05:
                    name = rng.choice(["\x06x", "Print_Area"])
            else:
                name = rng.choice(NAME_POOL)
                wide16 = any(ord(ch) > 255 for ch in name) or rng.random() < 0.3
            ctx.count("xls:file:name:%s%s%s" % ("builtin" if fl & 32 else "plain", "+hidden" if fl & 1 else "", "+16bit" if wide16 else ""))
            nm.append({"flags": fl, "name": fg.lbl_logical(fl, name), "stored": name, "wide": wide16, "itab": rng.choice([0, 0, 1])})
        g.names = [x["name"] for x in nm]
        # the Lbl formulas (decoded after the globals loop against ALL names: a name may be defined
        # through one stored after it): single 3-D references, any AST of the grammar, expressions
        # over other names; a few raw token streams parse_formula rejects (first-token fallback)
        empty_first = nn >= 3 and rng.random() < 0.35      # a formula-less name (macro / add-in function) in front
        for i, x in enumerate(nm):
            mode = rng.random()
            ixti = rng.randrange(0, max(1, g.nixti + (1 if rng.random() < 0.1 else 0)))
            x["lid"], x["raw"] = "xln%d_%d" % (k, i), None
            if empty_first and i == 0:
                ast, x["raw"] = "int 0", b""
            elif empty_first and i == nn - 1:
                ast = _name_biased_expr(g, rng, 1)         # … and a name defined through one stored after it
            elif mode < 0.25:
                ast = "ref3 r %d %d %d 0 0" % (ixti, rng.choice([0, 9, 65535, rng.randrange(65536)]), rng.choice([0, 25, 26, 255, rng.randrange(256)]))
            elif mode < 0.45:
                ast = "area3 r %d %d %d 0 0 %d %d 0 0" % (ixti, rng.randrange(100), rng.randrange(30), rng.randrange(100, 65536), rng.randrange(30, 256))
            elif mode < 0.55:
                ast = "ref3 r %d %d %d %d %d" % (ixti, rng.randrange(100), rng.randrange(100), rng.randrange(2), 1)
            elif mode < 0.7:
                ast = _name_biased_expr(g, rng)
            elif mode < 0.93:
                ast = rng.choice(["int 7", "bin 3 ref3 r %d 1 1 0 0 int 1" % ixti, "str 0 97.98", "bool 1", g.expr(rng.choice([0, 1, 2])), g.expr(2)])
            else:
                ast = "int 0"
                x["raw"] = rng.choice([b"", b"\x1e\x07\x00\x1e\x08\x00", b"\x02\x00", b"\x3c\x00\x00", b"\x3a\x00\x00\x01\x00\x02\x00\x03",
                                       b"\x1e\x07\x00\x03", b"\x17\x05\x00ab"])
            ctx.count("xls:file:name_formula:%s" % ("raw" if x["raw"] is not None else ast.split()[0]))
            ast_lines.append("%s\tptg_ast\txls\t%s\t%s%s" % (x["lid"], "\t".join(g.env_args()), ast, la))
        g.names = [x["name"] for x in nm]
        hidden = [i for i, x in enumerate(nm) if x["flags"] & (fg.LF_HIDDEN | fg.LF_BUILTIN)]
        after = hidden[0] + 1 if hidden else 0
        ea = g.env_args()
        sheets = []
        for si in range(ns):
            br, bc = _window(rng, 65536, 256, 40, 12)
            poss = sorted(set((br + rng.randrange(0, 40), bc + rng.randrange(0, 12)) for _ in range(rng.choice([0, 1, 2, 3, 6]))))
            slots = []
            for (r, c) in poss:
                if rng.random() < 0.06:
                    slots.append((r, c, "ptgexp"))
                    continue
                cands = []
                for j in range(2):
                    lid = "xlc%d_%d_%d_%d" % (k, si, len(slots), j)
                    q = rng.random()
                    if q < 0.35 and g.names:
                        ast = _name_biased_expr(g, rng, after)
                    elif q < 0.55 and g.nixti:
                        ast = "ref3 %s %d %s" % (rng.choice("rv"), rng.randrange(0, g.nixti), g.cref())
                    else:
                        ast = g.expr(rng.choice([0, 1, 2, 3]))
                    ast_lines.append("%s\tptg_ast\txls\t%s\t%s%s" % (lid, "\t".join(ea), ast, la))
                    cands.append(lid)
                slots.append((r, c, cands))
            sheets.append(slots)
        # how the XTI array is stored: one record; two EXTERNSHEET records (calamine appends); the record and
        # CONTINUE records, cut anywhere (not only between two XTI)
        nb_ = 6 * len(g.xtis)
        if nb_ > 8220:
            split = ("cuts", [8220] * ((nb_ - 1) // 8220))
        elif g.xtis and rng.random() < 0.25:
            split = ("cuts", sorted(rng.randrange(0, nb_ + 1) for _ in range(rng.choice([1, 1, 2, 3]))))
            split = ("cuts", [b - a for a, b in zip([0] + split[1], split[1])])
        elif len(g.xtis) > 1 and rng.random() < 0.3:
            split = ("two", None)
        else:
            split = ("one", None)
        ctx.count("xls:file:externsheet:%s" % split[0])
        books.append((list(g.sheets), list(g.xtis), nm, sheets, split, list(g.links)))
    model = ctx.run_model(ast_lines)
    impl_lines, meta, model_lines = [], {}, []
    for k, (snames, xtis, nm, sheets, split, links) in enumerate(books):
        lbls, exp_names = [], []
        known_names, known_sheets = None, None
        for x in nm:
            parts = model.get(x["lid"], "").split("|")
            ok = len(parts) == 5 and parts[4] == "1" and len(parts[0]) // 2 <= 4000 and \
                (parts[3] == "-" or parts[1].startswith("ok:"))
            mtext = None
            if x["raw"] is not None:
                rgce, text = x["raw"], None            # outside the grammar: implementation vs model only
            elif ok:
                rgce, text = bytes.fromhex(parts[0])[2:], bytes.fromhex(parts[2]).decode("utf-8")
                if parts[3] != "-":
                    # known class K_EXTERN_BOOK: the property demands [text], the model predicts [mtext]
                    known_names, mtext = parts[3], bytes.fromhex(parts[1][3:]).decode("utf-8")
            elif len(parts) == 5 and len(parts[0]) // 2 <= 4000:
                rgce, text = bytes.fromhex(parts[0])[2:], None     # ill-formed AST: implementation vs model only
            else:
                rgce, text = b"\x1e\x07\x00", "7"
            # NameParsedFormula = rgce ++ rgcb: extra data behind the tokens (array constants, PtgExtraMem) in a
            # quarter of the names — bytes that must not be read as tokens (audit 2, XLS-4): a PtgExtraMem-like
            # block, the array-constant bytes of the audit's reproducer (";1234567": a legal name that made
            # Xls::new fail), a single byte, random bytes
            rgcb = b""
            if rng.random() < 0.25:
                rgcb = rng.choice([struct.pack("<HHHHH", 1, 0, 1, 0, 0), b"\x00\x00\x00\x02\x09\x00\x00x;1234567",
                                   b"\x00\x00\x00\x01" + struct.pack("<d", 1.0), b"\x3a", bytes(rng.randrange(256) for _ in range(rng.randrange(1, 40)))])
                ctx.count("xls:file:name:rgcb")
            lbls.append(fg.lbl_payload(x["flags"], x["itab"], x["stored"], x["wide"], rgce, rgcb=rgcb))
            exp_names.append((x["name"], text, mtext))
        fbs, exp_sheets, has_exp, cms = [], [], False, []
        for slots in sheets:
            fl, cp, cm = [], [], []
            cms.append(cm)
            first_exp = True
            for slot in slots:
                r, c = slot[0], slot[1]
                if slot[2] == "ptgexp":
                    cpf = struct.pack("<H", 5) + b"\x01" + struct.pack("<HH", r, c)
                    tail = xf.rec(0x04BC, fg.shrfmla_record_payload(r, r, c, c, b"\x1e\x07\x00")) if first_exp else b""
                    fl.append((r, c, cpf, tail))
                    # the first such cell starts a one-cell shared group (SHRFMLA = 7); the others name
                    # themselves without a SHRFMLA record: nothing to report (shared groups proper:
                    # run_xls_shared_files)
                    cp.append((r, c, "7" if first_exp else ""))
                    cm.append((r, c, "7" if first_exp else ""))
                    first_exp = False
                else:
                    hexb, text, mtext, kn = _pick_ast3(model, slot[2], "03001e0700", "7")
                    fl.append((r, c, bytes.fromhex(hexb)))
                    cp.append((r, c, text))
                    cm.append((r, c, mtext))
                    if kn != "-":
                        known_sheets = kn
            if fl and rng.random() < 0.6:
                # NUMBER cells outside the formula area: the formula range must not follow the value range
                r0, c0 = fl[0][0], min(x[1] for x in fl)
                r1, c1 = fl[-1][0], max(x[1] for x in fl)
                num = lambda r_, c_: xf.rec(0x0203, struct.pack("<HHHd", r_, c_, 0, 3.25))
                if r0 > 0:
                    fl.insert(0, (r0 - 1, max(0, c0 - 1), None, num(r0 - 1, max(0, c0 - 1))))
                elif c0 > 0:
                    fl.insert(0, (r0, 0, None, num(r0, 0)))
                if r1 < 65535:
                    fl.append((r1 + 1, min(255, c1 + 2), None, num(r1 + 1, min(255, c1 + 2))))
                ctx.count("xls:file:values_outside_formula_area")
            fbs.append(fl)
            exp_sheets.append((fg.expected_range(cp, keep_empty=True), fg.expected_range(cm, keep_empty=True)))
            ctx.count("xls:file:formulas_per_sheet:%d" % len(cm))
        data = xf.cfb_write([("Workbook", xf.workbook_stream(snames, [], xtis, fbs, lbls=lbls, split_extern=(split[0] == "two"),
                                                             extern_cuts=split[1] if split[0] == "cuts" else None,
                                                             supbooks=links))])
        path = _write("e%d.xls" % k, data)
        calls = "names;" + ";".join("formula " + hx(s) for s in snames)
        line = "xl%d\topen\txls\t%s\t%s" % (k, path, calls)
        impl_lines.append(line)
        # the globals records that build the environment, in file order (as workbook_stream writes them)
        grecs = [(0x01AE, xf.supbook_record(sb, len(snames))[4:]) for sb in links]
        if xtis and split[0] == "two":
            grecs += [(0x0017, fg.externsheet_payload(xtis[:len(xtis) // 2])), (0x0017, fg.externsheet_payload(xtis[len(xtis) // 2:]))]
        elif xtis and split[0] == "cuts":
            arr, parts_ = fg.externsheet_payload(xtis)[2:], []
            for c_ in split[1]:
                parts_.append(arr[:c_]); arr = arr[c_:]
            parts_.append(arr)
            grecs.append((0x0017, struct.pack("<H", len(xtis)) + parts_[0]))
            grecs += [(0x003C, p_) for p_ in parts_[1:]]
        elif xtis:
            grecs.append((0x0017, fg.externsheet_payload(xtis)))
        grecs += [(0x0018, p_) for p_ in lbls] + [(0x000A, b"")]
        model_lines.append("xl%d_e\tfenv\txls\t%s\t%s" % (k, names_arg(snames), _recs_arg(grecs)))
        for si, cm in enumerate(cms):
            model_lines.append(_fpos_line("xl%d_p%d" % (k, si), cm, keep=True))
        meta["xl%d" % k] = (line, exp_names, exp_sheets, (known_names, known_sheets), xtis)
    impl = ctx.run_impl(impl_lines)
    option_free(ctx, impl_lines, impl)
    mod2 = ctx.run_model(model_lines)
    for lid, (line, en, es, (known_names, known_sheets), xtis) in meta.items():
        env = mod2.get(lid + "_e", "")
        mnames, mparts = env or "(missing)", []
        if env.startswith("ok:") and "|" in env:
            mnames, mx = env[3:].split("|", 1)
            if mx != ",".join("%d:%d:%d" % t for t in xtis):
                ctx.disagreements.append({"function": "xls XTI table (FormulaEnv model vs the generator's list)", "case": line,
                                          "impl": ",".join("%d:%d:%d" % t for t in xtis), "model": mx})
            mparts = mnames.split(",") if mnames else []
        want = []
        for i, (n_, t_, mt_) in enumerate(en):
            if t_ is None:
                # a token stream outside the grammar: no spec; the model's prediction stands in
                want.append(mparts[i] if i < len(mparts) else "%s=?" % hx(n_))
                continue
            spec = "%s=%s" % (hx(n_), hx(t_))
            want.append(spec)
            pred = spec if mt_ is None else "%s=%s" % (hx(n_), hx(mt_))     # mt_: inside the known class
            if i >= len(mparts) or mparts[i] != pred:
                # C14_defined_name_text_is_render_xls: on a well-formed AST the model gives the A1 text
                ctx.disagreements.append({"function": "xls defined name (FormulaEnv model vs render)",
                                          "case": line, "impl": pred, "model": mparts[i] if i < len(mparts) else None})
        for si, e in enumerate(es):
            m = mod2.get("%s_p%d" % (lid, si))
            if m != e[1]:
                ctx.disagreements.append({"function": "formula_range (FormulaEnv model vs expansion of the generator)", "case": line,
                                          "impl": e[1], "model": m})
        _check_book(ctx, "xls", line, impl.get(lid), ",".join(want), es, known_sheets, model_names=mnames,
                    known_names=known_names)
    ctx.extra["generated_xls_files"] = len(books)
    return meta, impl


def _cross_sheet_plan(rng, ns, maxr, maxc):
    """how the sheets of a group-file workbook relate.  None: every sheet has its own window (independent layouts).
    Otherwise (window, anchors, roles): the sheets lie in ONE window and reuse the same anchor cells — roles[si] is
    "orphans" (plain formulas and, after them, PtgExp cells naming the anchors, but no SHRFMLA / ARRAY / BrtShrFmla
    record at all) or "groups" (groups starting at the anchors, few other formulas).  At least one orphans-only sheet
    comes before a sheet with groups: whatever a reader keeps per sheet (formulas of the groups by anchor, PtgExp
    cells by index) must not be carried from one sheet to the next (seed C06-J)"""
    if ns < 2 or rng.random() < 0.45:
        return None
    br, bc = _window(rng, maxr, maxc, 40, 12)
    anchors = sorted(set((br + rng.randrange(0, 30), bc + rng.randrange(0, 6)) for _ in range(rng.choice([1, 2, 3]))))
    roles = [rng.choice(["orphans", "groups"]) for _ in range(ns - 1)] + ["groups"]
    if "orphans" not in roles:
        roles[rng.randrange(0, ns - 1)] = "orphans"
    return (br, bc), anchors, roles


# ---- xls shared and array formulas (former known class K_PTGEXP, xls half)
def _simple_shared(rng):
    """a small shared expression with an INDEPENDENT reading of its text: (AST, f: member cell -> text).
    corners are (row_rel, signed offset or row, col_rel, signed offset or column)"""
    def corner():
        rr, cr = rng.randrange(2), rng.randrange(2)
        r = rng.choice([0, 1, -1, 2, -3, 40, -40, 65535, -65535, rng.randrange(-300, 300)]) if rr else rng.choice([0, 1, 9, 65535, rng.randrange(65536)])
        c = rng.choice([0, 1, -1, 2, -2, 12, -12, 255, -255, rng.randrange(-20, 20)]) if cr else rng.choice([0, 1, 25, 26, 255, rng.randrange(256)])
        return (rr, r, cr, c)
    def stored(k):
        rr, r, cr, c = k
        cc = (c % 256 if rng.random() < 0.85 else c % 16384) if cr else c
        return "%d %d %d %d" % (r % 65536 if rr else r, cc, rr, cr)
    a, b = corner(), corner()
    cls = rng.choice("rva")
    kind = rng.randrange(4)
    if kind == 0:
        return "refn %s %s" % (cls, stored(a)), lambda p: fg.shared_ref_text(p, a)
    if kind == 1:
        return ("bin 5 refn %s %s int 2" % (cls, stored(a)), lambda p: fg.shared_ref_text(p, a) + "*2")
    if kind == 2:
        return ("sum arean %s %s %s" % (cls, stored(a), stored(b)),
                lambda p: "SUM(%s:%s)" % (fg.shared_ref_text(p, a), fg.shared_ref_text(p, b)))
    return ("bin 3 refn %s %s refn %s %s" % (cls, stored(a), cls, stored(b)),
            lambda p: fg.shared_ref_text(p, a) + "+" + fg.shared_ref_text(p, b))


def run_xls_nested_corpus(ctx):
    """corpus witness of the former defect XLS-2 (notes/AUDIT2.md 3.2) on the formula side: B2:B4 share =A2*2 (first
    cell B2 with its SHRFMLA, members B3, B4); between B2 and B3 an embedded chart whose substream holds a FORMULA
    record at B2 (=9), a SHRFMLA record (=8) that would replace the group's expression, and an ARRAY record; then a
    plain formula =7 at C9 behind a second (empty) nested substream.  Before the repair the sheet ended at the
    chart's EOF: B3, B4, C9 were lost and B2 read 9."""
    from props import c14_xlsfile as xf
    bofc = struct.pack("<HHHHII", 0x0600, 0x0020, 0x0DBB, 0x07CC, 0, 0x0306)
    rgce = bytes([0x4C, 0x00, 0x00, 0xFF, 0xC0, 0x1E, 0x02, 0x00, 0x05])          # PtgRefN (row +0, col -1) 2 *
    shr = (0x04BC, fg.shrfmla_record_payload(1, 3, 1, 1, rgce))
    chart = [(0x0809, bofc), (0x1001, b"\0\0"), (0x0200, struct.pack("<IIHHH", 0, 2, 0, 2, 0)),
             (0x0203, struct.pack("<HHHd", 1, 1, 0, 5.0)),
             (0x0006, fg.xls_formula_payload(1, 1, bytes.fromhex("03001e0900"))),
             (0x04BC, fg.shrfmla_record_payload(1, 3, 1, 1, b"\x1e\x08\x00")),
             (0x0221, fg.array_record_payload(1, 1, 1, 1, b"\x1e\x06\x00")), (0x000A, b"")]
    empty = [(0x0809, b""), (0x000A, b"")]
    raw = lambda rs: b"".join(xf.rec(t, b) for t, b in rs)
    fl = [(1, 1, fg.ptgexp_cpf(1, 1), raw([shr])), (1, 255, None, raw(chart)), (2, 1, fg.ptgexp_cpf(1, 1)),
          (3, 1, fg.ptgexp_cpf(1, 1)), (3, 255, None, raw(empty)), (8, 2, bytes.fromhex("03001e0700"))]
    recs = [(0x0809, struct.pack("<HHHHII", 0x0600, 0x0010, 0x0DBB, 0x07CC, 0, 0x0306)),
            (0x0006, fg.xls_formula_payload(1, 1, fg.ptgexp_cpf(1, 1))), shr] + chart + \
           [(0x0006, fg.xls_formula_payload(2, 1, fg.ptgexp_cpf(1, 1))), (0x0006, fg.xls_formula_payload(3, 1, fg.ptgexp_cpf(1, 1)))] + \
           empty + [(0x0006, fg.xls_formula_payload(8, 2, bytes.fromhex("03001e0700"))), (0x000A, b"")]
    want = fg.expected_range([(1, 1, "A2*2"), (2, 1, "A3*2"), (3, 1, "A4*2"), (8, 2, "7")], keep_empty=True)
    path = _write("corpus_nested_chart.xls", xf.cfb_write([("Workbook", xf.workbook_stream(["S1"], [], [], [fl]))]))
    line = "xnc\topen\txls\t%s\tformula %s" % (path, hx("S1"))
    impl = ctx.run_impl([line])
    mod = ctx.run_model(["xnc_m\tfsheet\txls\t%s\t-\t-\t%s" % (hx("S1"), _recs_arg(recs))])
    got, m = impl.get("xnc"), mod.get("xnc_m")
    ctx.traces += 1
    ctx.count("xls:file:corpus:nested-chart-substream")
    if got != m:
        ctx.disagreements.append({"function": "xls worksheet_formula (corpus nested chart vs FormulaSheet model)", "case": line, "impl": got, "model": m})
    if got != want:
        ctx.violations.append({"case": line, "expected": want, "actual": got, "model": m,
                               "what": "xls sheet with an embedded chart substream between the cells of a shared formula: the chart's "
                                       "FORMULA / SHRFMLA / ARRAY records are not the sheet's, and the sheet goes on behind the chart's EOF"})
    else:
        ctx.nontrivial("xls:nested-corpus")


def run_xls_shared_files(ctx, n, argc):
    """.xls sheets with shared groups (column, row, block; first cell = top-left; relative, absolute and
    mixed PtgRefN / PtgAreaN, offsets that wrap around the sheet) and array groups, between plain formula
    cells: every cell of a group must report the group's expression seen from its own position
    (C14_shared_formula_members_xls / _array_).  Expected = the Coq spec (ptg_ast with the base cell), for
    the simple expressions cross-checked against an independent Python reading; model = FormulaSheet
    (cmd fsheet) on the records of the sheet."""
    from props import c14_xlsfile as xf
    rng = ctx.rng
    g = Gen(ctx, "xls", argc)
    books, ast_lines = [], []
    for k in range(n):
        g.env()
        g.names = [x for x in g.names if all(ord(ch) < 256 for ch in x)]
        g.base = None
        ea = g.env_args()
        sheets = []
        nsh = len(g.sheets)
        plan = _cross_sheet_plan(rng, nsh, 65536, 256)
        if plan:
            ctx.count("xls:file:sheets_share_anchors:%d_sheets,%d_of_them_orphans_only%s" % (
                nsh, plan[2].count("orphans"), ",first_sheet_orphans_only" if plan[2][0] == "orphans" else ""))
        for si in range(nsh):
            br, bc = plan[0] if plan else _window(rng, 65536, 256, 40, 12)
            role = plan[2][si] if plan else "free"
            anchors = list(plan[1]) if plan else []
            rng.shuffle(anchors)
            used, items = set(), []
            ngroups = 0 if role == "orphans" else rng.choice([1, 1, 2, 3]) if role == "groups" else rng.choice([0, 1, 1, 2, 3])
            for gi in range(ngroups):
                array = rng.random() < 0.25
                shape = rng.choice(["col", "row", "block"])
                h = rng.randrange(2, 7) if shape != "row" else 1
                w = rng.randrange(2, 6) if shape != "col" else 1
                r0, c0 = br + rng.randrange(0, 40 - h), bc + rng.randrange(0, 12 - w)
                if role == "groups" and gi < len(anchors):
                    r0, c0 = anchors[gi]                    # the anchor an earlier sheet's PtgExp cells name
                cells = [(r, c) for r in range(r0, r0 + h) for c in range(c0, c0 + w)]
                if any(q in used for q in cells):
                    continue
                if not array and rng.random() < 0.3:
                    cells = [cells[0]] + [q for q in cells[1:] if rng.random() < 0.7]      # not every cell uses the group
                used.update(cells)
                first = cells[0]
                cands = []
                for j in range(2):
                    simple = None
                    if array:
                        ast = g.expr(rng.choice([0, 1, 2]))
                    elif rng.random() < 0.5:
                        ast, simple = _simple_shared(rng)
                    else:
                        g.base = first
                        ast = g.expr(rng.choice([0, 1, 2, 3]))
                        g.base = None
                    lids = []
                    for (r, c) in cells:
                        lid = "xs%d_%d_%d_%d_%d_%d" % (k, si, gi, j, r, c)
                        fmt = "xls" if array else "xls@%d:%d" % (r, c)
                        ast_lines.append("%s\tptg_ast\t%s\t%s\t%s" % (lid, fmt, "\t".join(ea), ast))
                        lids.append(lid)
                    cands.append((ast, lids, simple))
                ctx.count("xls:file:group:%s:%s" % ("array" if array else "shared", shape))
                items.append({"kind": "array" if array else "shared", "cells": cells, "box": (r0, r0 + h - 1, c0, c0 + w - 1),
                              "cands": cands})
            nplain = rng.choice([2, 4, 6, 9]) if role == "orphans" else rng.choice([0, 0, 1, 3]) if role == "groups" else rng.choice([0, 1, 2, 4])
            if role == "orphans":
                # PtgExp cells naming the anchors, late in the sheet (a high index among its formulas)
                for t in anchors[: rng.choice([1, 2, 3])]:
                    q = (br + rng.randrange(32, 40), bc + rng.randrange(0, 12))
                    if q not in used and q != t:
                        used.add(q)
                        items.append({"kind": "orphan", "pos": q, "target": t})
                        ctx.count("xls:file:group:orphan_ptgexp_naming_an_anchor_of_a_later_sheet")
            for _ in range(nplain):
                q = (br + rng.randrange(0, 32 if role == "orphans" else 40), bc + rng.randrange(0, 12))
                if q in used:
                    continue
                used.add(q)
                if rng.random() < 0.12:
                    # a PtgExp naming a cell that starts no group: nothing to report
                    t = (br + rng.randrange(0, 40), bc + rng.randrange(0, 12))
                    if not any(t == it["cells"][0] for it in items if "cells" in it):
                        items.append({"kind": "orphan", "pos": q, "target": t})
                        ctx.count("xls:file:group:orphan_ptgexp")
                    continue
                lid = "xsp%d_%d_%d_%d" % (k, si, q[0], q[1])
                ast_lines.append("%s\tptg_ast\txls\t%s\t%s" % (lid, "\t".join(ea), g.expr(rng.choice([0, 1, 2]))))
                items.append({"kind": "plain", "pos": q, "lid": lid})
            sheets.append(items)
        books.append((list(g.sheets), list(g.names), list(g.xtis), sheets, ea))
    model = ctx.run_model(ast_lines)
    def good(lid):
        parts = model.get(lid, "").split("|")
        ok = len(parts) == 5 and parts[4] == "1" and parts[3] == "-" and len(parts[0]) // 2 <= 4000 and parts[1] == "ok:" + parts[2]
        return parts if ok else None
    impl_lines, model_lines, meta = [], [], {}
    for k, (snames, names, xtis, sheets, ea) in enumerate(books):
        fbs, per_sheet = [], []
        for si, items in enumerate(sheets):
            cellrecs = {}       # position -> (cpf, records after the FORMULA record)
            exp = []
            for it in items:
                if it["kind"] == "plain":
                    parts = good(it["lid"])
                    cpf, text = (bytes.fromhex(parts[0]), bytes.fromhex(parts[2]).decode("utf-8")) if parts else (bytes.fromhex("03001e0700"), "7")
                    cellrecs[it["pos"]] = (cpf, b"")
                    exp.append((it["pos"][0], it["pos"][1], text))
                elif it["kind"] == "orphan":
                    cellrecs[it["pos"]] = (fg.ptgexp_cpf(*it["target"]), b"")
                    exp.append((it["pos"][0], it["pos"][1], ""))
                else:
                    chosen = None
                    for (ast, lids, simple) in it["cands"]:
                        ps = [good(l) for l in lids]
                        if all(ps):
                            chosen = (ps, simple, ast)
                            break
                    first = it["cells"][0]
                    if chosen is None:
                        rgce, texts = b"\x1e\x07\x00", ["7"] * len(it["cells"])
                    else:
                        ps, simple, ast = chosen
                        rgce = bytes.fromhex(ps[0][0])[2:]
                        texts = [bytes.fromhex(p_[2]).decode("utf-8") for p_ in ps]
                        if any(bytes.fromhex(p_[0])[2:] != rgce for p_ in ps):
                            ctx.disagreements.append({"function": "encode_xls depends on the base cell", "case": ast, "impl": None, "model": None})
                        if simple is not None:
                            for q, t in zip(it["cells"], texts):
                                if simple(q) != t:
                                    ctx.disagreements.append({"function": "Ptg.translate / render (Coq spec) vs the independent Python reading of PtgRefN",
                                                              "case": "cell %r uses %s" % (q, ast), "impl": simple(q), "model": t})
                            ctx.count("xls:file:group:independent_reading")
                    r0, r1, c0, c1 = it["box"]
                    if rng.random() < 0.15:
                        # the ref of the record is a bounding box: the first cell need not be its top-left corner
                        r0, c0 = max(0, r0 - rng.randrange(2)), max(0, c0 - rng.randrange(2))
                    if it["kind"] == "shared":
                        tail = xf.rec(0x04BC, fg.shrfmla_record_payload(r0, r1, c0, c1, rgce))
                    else:
                        tail = xf.rec(0x0221, fg.array_record_payload(r0, r1, c0, c1, rgce, rng.choice([0, 1])))
                    for i, (q, t) in enumerate(zip(it["cells"], texts)):
                        cellrecs[q] = (fg.ptgexp_cpf(*first), tail if i == 0 else b"")
                        exp.append((q[0], q[1], t))
                    ctx.count("xls:file:group_cells", len(it["cells"]))
            entries = []
            for q in sorted(cellrecs):
                cpf, tail = cellrecs[q]
                rr = [(0x0006, fg.xls_formula_payload(q[0], q[1], cpf))]
                if tail:
                    rr.append((struct.unpack("<H", tail[:2])[0], tail[4:]))
                entries.append(((q[0], q[1], cpf, tail), rr))
            if entries and rng.random() < 0.4:
                # a NUMBER record between the cells: ignored by the formula side
                numrec = struct.pack("<HHHd", entries[0][0][0], 255, 0, 1.5)
                entries.insert(rng.randrange(1, len(entries) + 1),
                               ((entries[0][0][0], 255, None, xf.rec(0x0203, numrec)), [(0x0203, numrec)]))
            if entries and rng.random() < 0.45:
                # substreams nested in the sheet ([MS-XLS] 2.1.7.20.5 OBJECTS: the chart substream BOF ... EOF of an
                # embedded chart object), anywhere between the formula cells - also between the first cell of a
                # group and its members.  Besides the chart's series cache they hold FORMULA / SHRFMLA / ARRAY
                # records at cells of the sheet's own formulas and groups (a reader that takes them for the sheet's
                # replaces the group's expression or adds cells) and sometimes a further BOF ... EOF pair.
                import xlsgen
                ps = sorted(cellrecs)
                for _ in range(rng.choice([1, 1, 2])):
                    sub = xlsgen.chart_sub(rng, ps, exotic=0.6)
                    srecs = []
                    for t_, b_, conts_ in sub["recs"]:
                        srecs.append((t_, b_))
                        srecs += [(0x003C, c_) for c_ in conts_]
                    for _ in range(rng.choice([0, 1, 1, 2])):
                        q = rng.choice(ps)
                        at = rng.randrange(len(srecs) + 1)
                        kind_ = rng.choice(["formula", "shared", "array", "shrfmla-only"])
                        ins = []
                        if kind_ != "shrfmla-only":
                            ins.append((0x0006, fg.xls_formula_payload(q[0], q[1], bytes.fromhex("03001e0900") if kind_ == "formula" else fg.ptgexp_cpf(*q))))
                        if kind_ in ("shared", "shrfmla-only"):
                            ins.append((0x04BC, fg.shrfmla_record_payload(q[0], min(q[0] + 1, 65535), q[1] & 0xFF, q[1] & 0xFF, b"\x1e\x08\x00")))
                        if kind_ == "array":
                            ins.append((0x0221, fg.array_record_payload(q[0], q[0], q[1] & 0xFF, q[1] & 0xFF, b"\x1e\x06\x00")))
                        srecs[at:at] = ins
                        ctx.count("xls:file:nested-substream:with-%s-record-at-a-formula-cell" % kind_)
                    full = [(0x0809, sub["bof"])] + srecs + [(0x000A, b"")]
                    raw = b"".join(xf.rec(t_, b_) for t_, b_ in full)
                    at = rng.randrange(len(entries) + 1)
                    entries.insert(at, ((entries[0][0][0], 255, None, raw), full))
                    ctx.count("xls:file:nested-substream")
                    if at < len(entries) - 1:
                        ctx.count("xls:file:nested-substream:before-later-formula-cells")
            fl = [e_[0] for e_ in entries]
            # the model reads the substream from its own BOF record on (xls_file.workbook_stream writes this body)
            recs = [(0x0809, struct.pack("<HHHHII", 0x0600, 0x0010, 0x0DBB, 0x07CC, 0, 0x0306))] + [r_ for e_ in entries for r_ in e_[1]]
            fbs.append(fl)
            recs.append((0x000A, b""))
            per_sheet.append((fg.expected_range(exp, keep_empty=True), recs))
        data = xf.cfb_write([("Workbook", xf.workbook_stream(snames, names, xtis, fbs))])
        path = _write("s%d.xls" % k, data)
        line = "xs%d\topen\txls\t%s\t%s" % (k, path, ";".join("formula " + hx(s_) for s_ in snames))
        impl_lines.append(line)
        for si, (want, recs) in enumerate(per_sheet):
            model_lines.append("xs%d_m%d\tfsheet\txls\t%s\t%s" % (k, si, "\t".join(ea), _recs_arg(recs)))
        meta["xs%d" % k] = (line, [w for w, _ in per_sheet])
    impl = ctx.run_impl(impl_lines)
    option_free(ctx, impl_lines, impl)
    mod2 = ctx.run_model(model_lines)
    for lid, (line, wants) in meta.items():
        preds = [mod2.get("%s_m%d" % (lid, si), "(missing)") for si in range(len(wants))]
        parts = (impl.get(lid) or "").split(";;")
        ctx.traces += 1
        if len(parts) != len(wants) or (impl.get(lid) or "").startswith("panic"):
            ctx.violations.append({"case": _keep_file(line), "expected": ";;".join(wants), "actual": impl.get(lid), "model": ";;".join(preds),
                                   "what": _open_failure("xls (shared / array formulas, several sheets)", impl.get(lid))})
            continue
        for si, (got, w, m) in enumerate(zip(parts, wants, preds)):
            if got != m:
                ctx.disagreements.append({"function": "xls worksheet_formula (real file vs FormulaSheet model)", "case": line, "impl": got, "model": m})
            if got != w:
                ctx.violations.append({"case": _keep_file(line), "expected": ";;".join(wants), "actual": impl.get(lid), "model": ";;".join(preds),
                                       "what": "xls file through the public API, sheet #%d: every cell of a shared formula must report the shared "
                                               "expression translated to its own position, every cell of an array formula the array's expression" % si})
                break
            if w != "R[-]":
                ctx.nontrivial("xls:shared:%s" % w)
    ctx.extra["generated_xls_shared_files"] = len(books)
    return meta, impl


# ---- xlsb shared and array formulas (former known class K_PTGEXP, xlsb half)
def _simple_shared_b(rng):
    """a small shared expression with an INDEPENDENT reading of its text: (AST, f: member cell -> text).
    corners are (row_rel, signed offset or row, col_rel, signed offset or column)"""
    def corner():
        rr, cr = rng.randrange(2), rng.randrange(2)
        r = (rng.choice([0, 1, -1, 2, -3, 40, -40, 1048575, -1048575, rng.randrange(-300, 300)]) if rr
             else rng.choice([0, 1, 9, 65535, 65536, 1048575, rng.randrange(1048576)]))
        c = (rng.choice([0, 1, -1, 2, -2, 12, -12, 16383, -16383, rng.randrange(-20, 20)]) if cr
             else rng.choice([0, 1, 25, 26, 255, 256, 16383, rng.randrange(16384)]))
        return (rr, r, cr, c)
    def stored(k):
        rr, r, cr, c = k
        return "%d %d %d %d" % (r % 2**32 if rr else r, c % 16384 if cr else c, rr, cr)
    a, b = corner(), corner()
    cls = rng.choice("rva")
    kind = rng.randrange(4)
    if kind == 0:
        return "refn %s %s" % (cls, stored(a)), lambda p: fg.shared_ref_text_b(p, a)
    if kind == 1:
        return ("bin 5 refn %s %s int 2" % (cls, stored(a)), lambda p: fg.shared_ref_text_b(p, a) + "*2")
    if kind == 2:
        return ("sum arean %s %s %s" % (cls, stored(a), stored(b)),
                lambda p: "SUM(%s:%s)" % (fg.shared_ref_text_b(p, a), fg.shared_ref_text_b(p, b)))
    return ("bin 3 refn %s %s refn %s %s" % (cls, stored(a), cls, stored(b)),
            lambda p: fg.shared_ref_text_b(p, a) + "+" + fg.shared_ref_text_b(p, b))


def _mangle_table(rng, table):
    """a malformed / unusual sibling of a cell table (implementation vs model only)"""
    t = list(table)
    idx = [i for i, (ty, _) in enumerate(t) if ty in (0x01AB, 0x01AA)]
    cellidx = [i for i, (ty, _) in enumerate(t) if ty in (8, 9, 10, 11)]
    q = rng.randrange(8)
    if q == 0 and idx:                       # the group's record is cut somewhere
        i = rng.choice(idx)
        t[i] = (t[i][0], t[i][1][: rng.randrange(0, len(t[i][1]))])
    elif q == 1 and idx:                     # its cce runs past the record
        i = rng.choice(idx)
        o = 16 if t[i][0] == 0x01AB else 17
        t[i] = (t[i][0], t[i][1][:o] + struct.pack("<I", rng.choice([len(t[i][1]), 0x7FFFFFFF, 0xFFFFFFFF])) + t[i][1][o + 4:])
    elif q == 2 and idx:                     # the group's record is missing: its cells name nobody
        del t[rng.choice(idx)]
    elif q == 3 and idx and cellidx:         # the record follows another cell (stray after a plain cell: ignored;
        i = rng.choice(idx)                  # after a member: taken as a group starting there)
        r_ = t.pop(i)
        j = rng.choice([x for x in cellidx if x < len(t)] or [0])
        t.insert(j + 1, r_)
    elif q == 4 and idx:                     # shared <-> array record type swapped (formula offset off by one)
        i = rng.choice(idx)
        t[i] = (0x01AA if t[i][0] == 0x01AB else 0x01AB, t[i][1])
    elif q == 5 and cellidx:                 # a cell record cut somewhere
        i = rng.choice(cellidx)
        t[i] = (t[i][0], t[i][1][: rng.randrange(0, len(t[i][1]))])
    elif q == 6 and cellidx:                 # the sheet ends right after a cell: no record to look ahead to
        i = rng.choice(cellidx)
        return t[: i + 1], False
    else:                                    # a row header beyond the last row ends the sheet
        i = rng.randrange(0, len(t) + 1)
        t.insert(i, (0x0000, struct.pack("<IIHBBBI", rng.choice([0x100000, 0x100001, 0xFFFFFFFF]), 0, 300, 0, 0, 0, 0)))
    return t, True


def run_xlsb_shared_files(ctx, n, argc):
    """.xlsb sheets with shared groups (column, row, block; relative, absolute and mixed PtgRefN / PtgAreaN,
    offsets that wrap around the sheet: windows at the origin and at row 1048575 / column XFD) and array
    groups, between plain formula cells, value cells, orphan PtgExp cells: every cell of a group must report
    the group's expression seen from its own position (C14_shared_formula_members_xlsb / _array_).
    Expected = the Coq spec (ptg_ast with the base cell), for the simple expressions cross-checked against an
    independent Python reading; model = FormulaSheet.xlsb_sheet_formula_range (cmd fsheet xlsb) on the records
    of the cell table; real code = Xlsb::worksheet_formula of every sheet of the real file."""
    rng = ctx.rng
    g = Gen(ctx, "xlsb", argc)
    books, ast_lines = [], []
    for k in range(n):
        ns = rng.choice([1, 2, 2, 3, 3])
        bundle = rng.sample(SHEET_POOL, ns)
        xtis = [(0, f, f) for f in ([rng.randrange(0, ns) for _ in range(rng.randrange(1, 4))] + [rng.choice([-1, -2, ns])])]
        if ns > 1 and rng.random() < 0.4:
            a_, b_ = rng.sample(range(ns), 2)
            xtis.insert(rng.randrange(len(xtis) + 1), (0, a_, b_))          # a span of sheets
        ext = [fg.xlsb_resolve_xti(x[1], bundle, x[2]) for x in xtis]
        g.sheets, g.xtis, g.nixti = ext, None, len(ext)
        g.names = rng.sample(NAME_POOL, rng.randrange(0, 4))
        g.base = None
        ea = g.env_args()
        sheets = []
        nsh = ns
        plan = _cross_sheet_plan(rng, nsh, 1048576, 16384)
        if plan:
            ctx.count("xlsb:file:sheets_share_anchors:%d_sheets,%d_of_them_orphans_only%s" % (
                nsh, plan[2].count("orphans"), ",first_sheet_orphans_only" if plan[2][0] == "orphans" else ""))
        for si in range(nsh):
            br, bc = plan[0] if plan else _window(rng, 1048576, 16384, 40, 12)
            role = plan[2][si] if plan else "free"
            anchors = list(plan[1]) if plan else []
            rng.shuffle(anchors)
            used, items = set(), []
            ngroups = 0 if role == "orphans" else rng.choice([1, 1, 2, 3]) if role == "groups" else rng.choice([0, 1, 1, 2, 3])
            for gi in range(ngroups):
                array = rng.random() < 0.25
                shape = rng.choice(["col", "row", "block"])
                h = rng.randrange(2, 7) if shape != "row" else 1
                w = rng.randrange(2, 6) if shape != "col" else 1
                r0, c0 = br + rng.randrange(0, 40 - h), bc + rng.randrange(0, 12 - w)
                if role == "groups" and gi < len(anchors):
                    r0, c0 = anchors[gi]                    # the anchor an earlier sheet's PtgExp cells name
                cells = [(r, c) for r in range(r0, r0 + h) for c in range(c0, c0 + w)]
                if any(q in used for q in cells):
                    continue
                if not array and rng.random() < 0.3:
                    cells = [cells[0]] + [q for q in cells[1:] if rng.random() < 0.7]      # not every cell uses the group
                used.update(cells)
                first = cells[0]
                cands = []
                for j in range(2):
                    simple = None
                    if array:
                        ast = g.expr(rng.choice([0, 1, 2]))
                    elif rng.random() < 0.5:
                        ast, simple = _simple_shared_b(rng)
                    else:
                        g.base = first
                        ast = g.expr(rng.choice([0, 1, 2, 3]))
                        g.base = None
                    lids = []
                    for (r, c) in cells:
                        lid = "bs%d_%d_%d_%d_%d_%d" % (k, si, gi, j, r, c)
                        fmt = "xlsb" if array else "xlsb@%d:%d" % (r, c)
                        ast_lines.append("%s\tptg_ast\t%s\t%s\t%s" % (lid, fmt, "\t".join(ea), ast))
                        lids.append(lid)
                    cands.append((ast, lids, simple))
                ctx.count("xlsb:file:group:%s:%s" % ("array" if array else "shared", shape))
                items.append({"kind": "array" if array else "shared", "cells": cells, "box": (r0, r0 + h - 1, c0, c0 + w - 1),
                              "cands": cands})
            nplain = rng.choice([2, 4, 6, 9]) if role == "orphans" else rng.choice([0, 0, 1, 3]) if role == "groups" else rng.choice([0, 1, 2, 4])
            if role == "orphans":
                # PtgExp cells naming the anchors, late in the sheet (a high index among its formulas)
                for t in anchors[: rng.choice([1, 2, 3])]:
                    q = (br + rng.randrange(32, 40), bc + rng.randrange(0, 12))
                    if q not in used and q != t:
                        used.add(q)
                        items.append({"kind": "orphan", "pos": q, "target": t})
                        ctx.count("xlsb:file:group:orphan_ptgexp_naming_an_anchor_of_a_later_sheet")
            for _ in range(nplain):
                q = (br + rng.randrange(0, 32 if role == "orphans" else 40), bc + rng.randrange(0, 12))
                if q in used:
                    continue
                used.add(q)
                p_ = rng.random()
                if p_ < 0.12:
                    # a PtgExp naming a cell that starts no group: nothing to report
                    t = (br + rng.randrange(0, 40), bc + rng.randrange(0, 12))
                    if not any(t == it["cells"][0] for it in items if "cells" in it):
                        items.append({"kind": "orphan", "pos": q, "target": t})
                        ctx.count("xlsb:file:group:orphan_ptgexp")
                    continue
                if p_ < 0.25:
                    items.append({"kind": "value", "pos": q})
                    continue
                lid = "bsp%d_%d_%d_%d" % (k, si, q[0], q[1])
                ast_lines.append("%s\tptg_ast\txlsb\t%s\t%s" % (lid, "\t".join(ea), g.expr(rng.choice([0, 1, 2]))))
                items.append({"kind": "plain", "pos": q, "lid": lid})
            sheets.append(items)
        books.append((bundle, xtis, ext, list(g.names), sheets, ea))
    model = ctx.run_model(ast_lines)
    def good(lid):
        parts = model.get(lid, "").split("|")
        ok = len(parts) == 5 and parts[4] == "1" and parts[3] == "-" and len(parts[0]) // 2 <= 4000 and parts[1] == "ok:" + parts[2]
        return parts if ok else None
    impl_lines, model_lines, meta, bad = [], [], {}, []
    for k, (bundle, xtis, ext, names, sheets, ea) in enumerate(books):
        tables, sheet_cells, wants = [], [], []
        for si, items in enumerate(sheets):
            cellrecs = {}       # position -> (kind, rgce, rgcb, records after the cell)
            exp = []
            fk = lambda: rng.choice(["fnum", "fnum", "fstr", "fbool", "ferr"])
            for it in items:
                if it["kind"] == "plain":
                    parts = good(it["lid"])
                    rgce, text = (bytes.fromhex(parts[0]), bytes.fromhex(parts[2]).decode("utf-8")) if parts else (bytes.fromhex("1e0700"), "7")
                    cellrecs[it["pos"]] = (fk(), rgce, rng.choice([b"", b"", b"\x00\x00"]), [])
                    exp.append((it["pos"][0], it["pos"][1], text))
                elif it["kind"] == "value":
                    cellrecs[it["pos"]] = (rng.choice(["num", "str", "bool", "err", "blank"]), b"", b"", [])
                elif it["kind"] == "orphan":
                    rgce, rgcb = fg.xlsb_ptgexp(it["target"])
                    cellrecs[it["pos"]] = (fk(), rgce, rgcb, [])
                else:
                    chosen = None
                    for (ast, lids, simple) in it["cands"]:
                        ps = [good(l) for l in lids]
                        if all(ps):
                            chosen = (ps, simple, ast)
                            break
                    first = it["cells"][0]
                    if chosen is None:
                        rgce, texts = b"\x1e\x07\x00", ["7"] * len(it["cells"])
                    else:
                        ps, simple, ast = chosen
                        rgce = bytes.fromhex(ps[0][0])
                        texts = [bytes.fromhex(p_[2]).decode("utf-8") for p_ in ps]
                        if any(bytes.fromhex(p_[0]) != rgce for p_ in ps):
                            ctx.disagreements.append({"function": "encode_xlsb depends on the base cell", "case": ast, "impl": None, "model": None})
                        if simple is not None:
                            for q, t in zip(it["cells"], texts):
                                if simple(q) != t:
                                    ctx.disagreements.append({"function": "Ptg.translate_b / render (Coq spec) vs the independent Python reading of PtgRefN (xlsb)",
                                                              "case": "cell %r uses %s" % (q, ast), "impl": simple(q), "model": t})
                            ctx.count("xlsb:file:group:independent_reading")
                    r0, r1, c0, c1 = it["box"]
                    if rng.random() < 0.2:
                        # the rfx of the record is a bounding box larger than the cells that use the group
                        r0, c0 = max(0, r0 - rng.randrange(3)), max(0, c0 - rng.randrange(3))
                        r1, c1 = min(1048575, r1 + rng.randrange(3)), min(16383, c1 + rng.randrange(3))
                        ctx.count("xlsb:file:group:larger_bounding_box")
                    tl = rng.choice([None, None, b"", struct.pack("<I", 0) + b"\x00\x00"])
                    if it["kind"] == "shared":
                        after = [(0x01AB, fg.brt_shrfmla_payload(r0, r1, c0, c1, rgce, tail=tl))]
                    else:
                        after = [(0x01AA, fg.brt_arrfmla_payload(r0, r1, c0, c1, rgce, rng.choice([0, 1]), tail=tl))]
                    e_rgce, e_rgcb = fg.xlsb_ptgexp(first)
                    for i, (q, t) in enumerate(zip(it["cells"], texts)):
                        cellrecs[q] = (fk(), e_rgce, e_rgcb, after if i == 0 else [])
                        exp.append((q[0], q[1], t))
                    ctx.count("xlsb:file:group_cells", len(it["cells"]))
            cl = []
            for q in sorted(cellrecs):
                kind, rgce, rgcb, after = cellrecs[q]
                cl.append((q[0], q[1], kind, rgce, rgcb, list(after)))
            table = fg.xlsb_table_records(cl, rng)
            if table and rng.random() < 0.3:
                # a record the reader ignores somewhere in the table (never right after a PtgExp cell's
                # own record pair is split: it goes in front of a row header or at the end)
                rows_at = [i for i, (ty, _) in enumerate(table) if ty == 0] + [len(table)]
                table.insert(rng.choice(rows_at), (rng.choice([0x0001, 0x0031, 0x0813]), bytes(rng.randrange(256) for _ in range(rng.choice([0, 4, 8, 30])))))
            tables.append(table)
            sheet_cells.append(cl)
            wants.append(fg.expected_range(exp))
            model_lines.append("bs%d_m%d\tfsheet\txlsb\t%s\t%s" % (k, si, "\t".join(ea), _recs_arg(table + [(0x0092, b"")])))
        tail = fg.xlsb_tail_records(xtis, [fg.brt_name_payload(0, 0xFFFFFFFF, nm_, b"\x1e\x07\x00") for nm_ in names])
        path = _write("sb%d.xlsb" % k, fg.xlsb_bytes(bundle, sheet_cells, tail, rng, tables=tables))
        line = "bs%d\topen\txlsb\t%s\t%s" % (k, path, ";".join("formula " + hx(s_) for s_ in bundle))
        impl_lines.append(line)
        meta["bs%d" % k] = (line, wants)
        # malformed / unusual siblings of the first sheet's table: implementation vs model only
        if tables and tables[0] and rng.random() < 0.5:
            mt, ended = _mangle_table(rng, tables[0])
            if ended:
                bdata = fg.xlsb_bytes(bundle, sheet_cells, tail, rng, tables=[mt] + tables[1:])
            else:
                bdata = _xlsb_unterminated(bundle, sheet_cells, tail, rng, [mt] + tables[1:])
            bpath = _write("sb%d_bad.xlsb" % k, bdata)
            bad.append(("bsm%d" % k, "bsm%d\topen\txlsb\t%s\tformula %s" % (k, bpath, hx(bundle[0])),
                        "bsm%d\tfsheet\txlsb\t%s\t%s" % (k, "\t".join(ea), _recs_arg(mt + ([(0x0092, b""), (0x0082, b"")] if ended else [])))))
    impl = ctx.run_impl(impl_lines + [b[1] for b in bad])
    option_free(ctx, impl_lines, impl)
    mod2 = ctx.run_model(model_lines + [b[2] for b in bad])
    for lid, (line, wants) in meta.items():
        preds = [mod2.get("%s_m%d" % (lid, si), "(missing)") for si in range(len(wants))]
        parts = (impl.get(lid) or "").split(";;")
        ctx.traces += 1
        if len(parts) != len(wants) or (impl.get(lid) or "").startswith("panic"):
            ctx.violations.append({"case": _keep_file(line), "expected": ";;".join(wants), "actual": impl.get(lid), "model": ";;".join(preds),
                                   "what": _open_failure("xlsb (shared / array formulas, several sheets)", impl.get(lid))})
            continue
        for si, (got, w, m) in enumerate(zip(parts, wants, preds)):
            if got != m:
                ctx.disagreements.append({"function": "xlsb worksheet_formula (real file vs FormulaSheet model)", "case": line, "impl": got, "model": m})
            if got != w:
                ctx.violations.append({"case": _keep_file(line), "expected": ";;".join(wants), "actual": impl.get(lid), "model": ";;".join(preds),
                                       "what": "xlsb file through the public API, sheet #%d: every cell of a shared formula must report the shared "
                                               "expression translated to its own position, every cell of an array formula the array's expression" % si})
                break
            if w != "R[-]":
                ctx.nontrivial("xlsb:shared:%s" % w)
    for lid, il, ml in bad:
        i, m = impl.get(lid) or "", mod2.get(lid, "(missing)")
        ctx.traces += 1
        ctx.count("xlsb:file:malformed_table:%s" % ("err" if i.startswith("err") else "panic" if i.startswith("panic") else "ok"))
        same = (i == m) or (m == "err" and i.startswith("err")) or (m == "panic" and i.startswith("panic"))
        if not same:
            ctx.disagreements.append({"function": "xlsb next_formula loop (malformed / unusual cell table)", "case": il + " || " + ml, "impl": i, "model": m})
    ctx.extra["generated_xlsb_shared_files"] = len(books) + len(bad)
    return meta, impl


def _xlsb_unterminated(bundle, sheet_cells, tail, rng, table):
    """a workbook whose first sheet part stops after the last record of its cell table: no BrtEndSheetData"""
    import zipfile, io
    data = fg.xlsb_bytes(bundle, sheet_cells, tail, rng, tables=table)
    zin = zipfile.ZipFile(io.BytesIO(data))
    out = io.BytesIO()
    with zipfile.ZipFile(out, "w") as z:
        for nm_ in zin.namelist():
            body = zin.read(nm_)
            if nm_ == "xl/worksheets/sheet1.bin":
                end = fg.brec(0x0092) + fg.brec(0x0082)
                assert body.endswith(end)
                body = body[: -len(end)]
            z.writestr(zipfile.ZipInfo(nm_, date_time=(2020, 1, 1, 0, 0, 0)), body)
    return out.getvalue()


# ---- stored-text formats
XLSX_TEXTS = ["A1+B2", "SUM(A1:B2)", 'IF(A1<B1,"x&y","<>")', "A1&\"<tag attr='1'>\"", " A1 ", "1+1 ", "\nA1*2", "\tB2",
              "'My Sheet'!A1", "[1]Sheet1!$A$1", "a<b", "a>b", "a&&b", "x]]>y", "Σ(α)+名前", '""', "-A1", "1", "TRUE",
              "Rate*B1", "_xlnm.Print_Area", "A1:INDEX(A:A,3)", "\U0001F600&\"\"", "&amp;", "&#65;", "<![CDATA[x]]>", "  "]


def _stored_text(rng, pool):
    if rng.random() < 0.7:
        return rng.choice(pool)
    alph = "AB12+-*/(),:$ <>&\"'!.\n\tπ名"
    return "".join(rng.choice(alph) for _ in range(rng.randrange(1, 14)))


def _shared_tokens(rng):
    toks = []
    for _ in range(rng.randrange(1, 4)):
        toks.append(("ref", rng.randrange(0, 60), rng.randrange(0, 900), rng.random() < 0.3, rng.random() < 0.3))
        toks.append(("lit", rng.choice(["+", "*", "-1+", ",", "&\"A1\"&", "+SUM(", ")+"])))
    toks.append(("ref", rng.randrange(0, 60), rng.randrange(0, 900), False, False))
    return toks


def _shared_text(toks, dr, dc):
    out = []
    for t in toks:
        if t[0] == "lit":
            out.append(t[1])
        else:
            _, c, r, cabs, rabs = t
            out.append(("$" if cabs else "") + fg.col_letters(c if cabs else c + dc) + ("$" if rabs else "") + str((r if rabs else r + dr) + 1))
    return "".join(out)


def run_xlsx_files(ctx, n):
    rng = ctx.rng
    impl_lines, meta = [], {}
    for k in range(n):
        ns = rng.randrange(1, 4)
        sheets = rng.sample(SHEET_POOL, ns)
        sheet_cells, exp_sheets, sparse = [], [], []
        for si in range(ns):
            br, bc = _window(rng, 1048576, 16384)
            cells = {}
            for _ in range(rng.choice([0, 1, 2, 3, 5, 9])):
                r, c = br + rng.randrange(0, 24), bc + rng.randrange(0, 8)
                p = rng.random()
                v = rng.choice([None, None, None, ("n", "1.5"), ("str", "a<b"), ("b", "1"), ("e", "#DIV/0!"), ("is", "in line"), ("s", 1), ("n", "")])
                if p < 0.15:
                    cells[(r, c)] = {"f": None, "v": v or ("n", "2")}
                else:
                    t = "" if p < 0.22 else _stored_text(rng, XLSX_TEXTS)
                    fa = rng.choice(["", "", "", ' aca="1"', ' xml:space="preserve"', ' ca="1"', ' t="normal"', ' t="array" ref="%s"' % fg.a1(r, c),
                                     ' t="shared" ref="%s" si="%d"' % (fg.a1(r, c), 40 + len(cells))])
                    cells[(r, c)] = {"f": t, "fa": fa, "v": v, "exp": t}
            if rng.random() < 0.4:
                # a dense row starting in column A written WITHOUT r attributes: the position of a
                # formula cell then depends on the reader counting the value-only cells before it
                dr_ = br + 26
                for c in range(rng.randrange(2, 7)):
                    if rng.random() < 0.5:
                        cells[(dr_, c)] = {"f": None, "v": ("n", str(c + 1)), "imp": True}
                    else:
                        t = _stored_text(rng, XLSX_TEXTS)
                        cells[(dr_, c)] = {"f": t, "fa": "", "v": rng.choice([None, ("n", "4")]), "exp": t, "imp": True}
                ctx.count("xlsx:file:dense_implicit_row")
            if br < 1000 and bc < 1000 and rng.random() < 0.35:
                # a shared group: the master carries the text, the members only t/si
                toks = _shared_tokens(rng)
                mr, mc = br + 30, bc + rng.randrange(0, 3)
                h, w = rng.choice([(3, 1), (1, 4), (3, 2)])
                si_ = rng.randrange(0, 5)
                for dr in range(h):
                    for dc in range(w):
                        if dr == dc == 0:
                            cells[(mr, mc)] = {"f": _shared_text(toks, 0, 0), "v": rng.choice([None, ("n", "3")]), "exp": _shared_text(toks, 0, 0),
                                               "fa": ' t="shared" ref="%s:%s" si="%d"' % (fg.a1(mr, mc), fg.a1(mr + h - 1, mc + w - 1), si_)}
                        elif rng.random() < 0.85:
                            cells[(mr + dr, mc + dc)] = {"f": "", "fa": ' t="shared" si="%d"' % si_, "v": rng.choice([None, ("n", "3")]),
                                                         "exp": _shared_text(toks, dr, dc)}
                ctx.count("xlsx:file:shared_group")
            if cells and rng.random() < 0.5:      # values outside the formula area
                r0, c0 = min(cells)[0], min(p[1] for p in cells)
                if r0 > 0 and c0 > 0:
                    cells[(r0 - 1, c0 - 1)] = {"f": None, "v": ("n", "9")}
                r1 = max(cells)[0]
                if r1 < 1048575:
                    cells[(r1 + 1, min(16383, max(p[1] for p in cells) + 1))] = {"f": None, "v": ("str", "end")}
            sheet_cells.append(cells)
            fc = [(r, c, d["exp"]) for (r, c), d in sorted(cells.items()) if d.get("f") is not None]
            e = fg.expected_range(fc)
            exp_sheets.append((e, e))
            sparse.append(fc)
            ctx.count("xlsx:file:formulas_per_sheet:%d" % len([x for x in fc if x[2]]))
            ctx.count("xlsx:file:formula_without_value", len([1 for d in cells.values() if d.get("f") and d.get("v") is None]))
        names = []
        for i in range(rng.choice([0, 0, 1, 2, 4])):
            attrs = rng.choice(["", "", ' hidden="1"', ' localSheetId="0"', ' function="1" vbProcedure="1"', ' comment="c &amp; d"', ' hidden="1" localSheetId="0"'])
            t_ = _stored_text(rng, ["Sheet1!$A$1:$B$2", "1+2", "\"a<b\"&\"&\"", "#REF!", "'My Sheet'!$C$3", "OFFSET(Data!$A$1,0,0,COUNTA(Data!$A:$A),1)", ""])
            if t_ and "]]>" not in t_ and rng.random() < 0.1:
                names.append((attrs, rng.choice(NAME_POOL), t_, rng.randrange(0, len(t_))))      # CDATA in a definedName (K_XLSX_NAME_CDATA until 6524937)
            else:
                names.append((attrs, rng.choice(NAME_POOL), t_))
        path = _write("e%d.xlsx" % k, fg.xlsx_bytes(sheets, sheet_cells, names, rng))
        line = "xx%d\topen\txlsx\t%s\t%s" % (k, path, "names;" + ";".join("formula " + hx(s) for s in sheets))
        impl_lines.append(line)
        pred_names = fg.expected_names([(x[1], x[2]) for x in names])
        meta["xx%d" % k] = (line, fg.expected_names([(x[1], x[2]) for x in names]), exp_sheets, sparse, pred_names)
    impl = ctx.run_impl(impl_lines)
    option_free(ctx, impl_lines, impl)
    _model_ranges(ctx, meta, "xlsx")
    for lid, (line, en, es, _, pn) in meta.items():
        # former K_XLSX_NAME_CDATA (fixed by 6524937): a CDATA section inside <definedName> is part of the text
        _check_book(ctx, "xlsx", line, impl.get(lid), en, es, model_names=pn, known_names=KNOWN_XLSX_CDATA if pn != en else None)
    ctx.extra["generated_xlsx_files"] = n
    return meta, impl


def option_free(ctx, impl_lines, impl, limit=60):
    """worksheet_formula / defined_names are functions of the file alone: under a header row set on
    the reader (which belongs to the value reads) they must answer what they answer by default"""
    sub = [l for l in impl_lines if "\topen\t" in l and "formula " in l][:limit]
    hl = []
    for l in sub:
        f = l.split("\t")
        hl.append("\t".join([f[0] + "_h", f[1], f[2], f[3], "hdr %d;" % (2 + len(hl) % 5) + f[4]]))
    # xlsb: the cells reader is a public streaming API; next_formula reads one record ahead behind a
    # PtgExp cell — handing the reader over to next_cell afterwards must lose no record
    ml = []
    for l in sub:
        f = l.split("\t")
        if f[2] == "xlsb":
            calls = [c.replace("formula ", "cellsmix ", 1) for c in f[4].split(";") if c.startswith("formula ")]
            ml.append("\t".join([f[0] + "_m", f[1], f[2], f[3], ";".join(calls)]))
    for lid, a in ctx.run_impl(ml).items():
        ctx.count("xlsb_cells_reader_mixed_calls")
        if "MIXMISMATCH" in (a or "") or (a or "").startswith(("panic", "abort", "timeout")):
            line = [x for x in ml if x.startswith(lid + "\t")][0]
            ctx.violations.append({"case": line, "expected": "ok", "actual": (a or "")[:400], "model": None,
                                   "what": "XlsbCellsReader: next_cell after next_formula does not continue with the cells behind that formula cell"})
    got = ctx.run_impl(hl)
    for l, h in zip(sub, hl):
        lid = l.split("\t", 1)[0]
        a = impl.get(lid)
        b = got.get(lid + "_h") or "abort"
        ctx.traces += 1
        ctx.count("formula_reads_under_a_header_row")
        if a is None or a.startswith("openerr"):
            continue
        if b.split(";;")[1:] != a.split(";;"):
            ctx.violations.append({"case": h, "expected": a[:1500], "actual": b[:1500], "model": None,
                                   "what": "worksheet_formula / defined_names answer differently after with_header_row (formulas above the header row must still be reported at their positions)"})


ODS_TEXTS = ["of:=[.A1]+1", "=1+2", "of:=SUM([.A1:.B2])", "oooc:=[.A1]", "msoxl:=A1", 'of:=IF([.A1]<[.B1];"x&y";"<>")',
             "of:=['My Sheet'.A1]", 'of:="a""b"', " of:=1 ", "of:", "=", "of:=[$Sheet2.$A$1]*Rate", "of:=Σ+名前", "of:=1>2", "of:=[.A1]&\"'\"",
             "of:=\U0001F600", "of:=COM.MICROSOFT.CONCAT([.A1:.A3])", "1"]


def run_ods_files(ctx, n):
    rng = ctx.rng
    impl_lines, meta = [], {}
    for k in range(n):
        ns = rng.randrange(1, 4)
        sheets = rng.sample(SHEET_POOL, ns)
        sheet_rows, exp_sheets, sparse = [], [], []
        for si in range(ns):
            rows = []
            lead_r = rng.choice([0, 0, 1, 5, 1048576 - 40, rng.randrange(0, 100000)])
            lead_c = rng.choice([0, 0, 1, 3, 16384 - 40, rng.randrange(0, 3000)])
            if lead_r:
                if rng.random() < 0.5 or lead_r < 3:
                    rows.append((lead_r, [(rng.choice([1, 16384]), {})]))
                else:
                    a = rng.randrange(1, lead_r)
                    rows += [(a, [(1, {})]), (lead_r - a, [(16384, {})])]
            used_r = lead_r
            for _ in range(rng.choice([0, 1, 2, 3, 5])):
                if used_r >= 1048576 - 6:
                    break
                kind = rng.random()
                if kind < 0.15:
                    rep = rng.choice([1, 2, 7])
                    rows.append((rep, [(rng.choice([1, 5, 16384]), {})]))       # empty rows inside the block
                    used_r += rep
                    continue
                rcells = []
                used_c = 0
                if lead_c and rng.random() < 0.85:
                    rcells.append((lead_c, {}))
                    used_c = lead_c
                for _ in range(rng.choice([1, 2, 3, 5])):
                    if used_c >= 16384 - 6:
                        break
                    p = rng.random()
                    rep = rng.choice([1, 1, 1, 2, 3])
                    v = rng.choice([None, None, ("float", "2"), ("float", "-1.5"), ("string", "txt"), ("string", ""), ("boolean", "true"), ("strattr", "a&b")])
                    if p < 0.2:
                        cell = {}                                                  # blank
                    elif p < 0.35:
                        cell = {"v": v or ("float", "7")}                          # value only
                    elif p < 0.42:
                        cell = {"f": "", "v": v}                                   # empty formula attribute
                    else:
                        cell = {"f": _stored_text(rng, ODS_TEXTS), "v": v}
                    if cell and rng.random() < 0.2:
                        cell["style"] = True
                    if not cell.get("v") and not cell.get("f") and rng.random() < 0.2:
                        cell["covered"] = True
                    rcells.append((rep, cell))
                    used_c += rep
                if rng.random() < 0.5 and used_c < 16384:
                    rcells.append((16384 - used_c, {}))                            # the trailing filler LibreOffice writes
                rrep = rng.choice([1, 1, 1, 2, 3])
                rows.append((rrep, rcells))
                used_r += rrep
            if rng.random() < 0.5 and used_r < 1048576:
                rows.append((1048576 - used_r, [(16384, {})]))
            if not rows:
                rows.append((1, [(1, {})]))
            sheet_rows.append(rows)
            fc = fg.ods_expand(rows)
            e = fg.expected_range(fc)
            exp_sheets.append((e, e))
            sparse.append(fc)
            ctx.count("ods:file:formulas_per_sheet:%d" % min(9, len([x for x in fc if x[2]])))
            for (rrep, rcells) in rows:
                for (crep, cell) in rcells:
                    if cell.get("f"):
                        ctx.count("ods:file:formula_%s_value%s" % ("with" if cell.get("v") else "without", "_repeated" if crep > 1 or rrep > 1 else ""))
        names = []
        for i in range(rng.choice([0, 0, 1, 2, 4])):
            if rng.random() < 0.5:
                names.append(("range", rng.choice(NAME_POOL), rng.choice(["$S.$A$1", "$S.$A$1:.$B$2", "$'My Sheet'.$C$3", ""])))
            else:
                names.append(("expr", rng.choice(NAME_POOL), _stored_text(rng, ODS_TEXTS)))
        path = _write("e%d.ods" % k, fg.ods_bytes(sheets, sheet_rows, names, rng))
        line = "xo%d\topen\tods\t%s\t%s" % (k, path, "names;" + ";".join("formula " + hx(s) for s in sheets))
        impl_lines.append(line)
        meta["xo%d" % k] = (line, fg.expected_names([(n_, t_) for _, n_, t_ in names]), exp_sheets, sparse)
    impl = ctx.run_impl(impl_lines)
    option_free(ctx, impl_lines, impl)
    _model_ranges(ctx, meta, "ods")
    for lid, (line, en, es, _) in meta.items():
        _check_book(ctx, "ods", line, impl.get(lid), en, es)
    ctx.extra["generated_ods_files"] = n
    return meta, impl



def load_ftab():
    src = os.path.join(os.environ.get("VERIF_REPO", "/repo"), "src", "utils.rs")
    _, _, argc = gen_tables.extract(src)
    return argc


def run_twins(ctx):
    """Independent ground truth for the RPN decoders: the repository holds several workbooks saved by
    Excel in more than one format (issues.xlsx / .xls / .xlsb ...).  The xlsx twin stores the formula
    TEXT Excel wrote; the xls / xlsb twins store tokens that calamine decodes.  Wherever both report a
    formula at the same cell the texts must be equal.  (This differential would have caught the
    swapped PtgGe / PtgGt table, which the spec had inherited from the code.)"""
    import collections
    by = collections.defaultdict(dict)
    for e, p in vlib.fixtures(("xlsx", "xlsm", "xls", "xlsb")):
        by[os.path.basename(p).rsplit(".", 1)[0]][e] = p
    jobs = []
    for b, d in sorted(by.items()):
        x = d.get("xlsx") or d.get("xlsm")
        if x and ("xls" in d or "xlsb" in d):
            jobs.append((b, x, [(e, d[e]) for e in ("xls", "xlsb") if e in d]))
    names = ctx.run_impl(["tw%d\topen\txlsx\t%s\tsheets" % (k, x) for k, (b, x, o) in enumerate(jobs)])
    lines, meta = [], []
    for k, (b, x, others) in enumerate(jobs):
        a = names.get("tw%d" % k) or ""
        if a.startswith(("openerr", "nofile")) or a in ("panic", "abort", "timeout", ""):
            continue
        for n in [h for h in a.split(",") if h][:12]:
            lid = "tx%d" % len(lines)
            lines.append("%s\topen\txlsx\t%s\tformula %s" % (lid, x, n))
            for e, p in others:
                lid2 = "tx%d" % len(lines)
                lines.append("%s\topen\t%s\t%s\tformula %s" % (lid2, e, p, n))
                meta.append((b, n, e, p, lid, lid2))
    ans = ctx.run_impl(lines)
    def cells(txt):
        pr = vlib.parse_range(txt or "")
        if pr is None or isinstance(pr, str):
            return {}
        (sr, sc), _, rows = pr
        return {(sr + i, sc + j): v for i, row in enumerate(rows) for j, v in enumerate(row) if v}
    for b, n, e, p, lx, lo in meta:
        fx, fo = cells(ans.get(lx)), cells(ans.get(lo))
        common = [q for q in fx if q in fo]
        ctx.traces += 1
        ctx.count("twins:" + e)
        ctx.count("twin_formula_cells", len(common))
        for q in common:
            if fx[q] != fo[q]:
                ctx.violations.append({"case": "open %s %s formula %s (cell %s) vs its xlsx twin" % (e, p, vlib.unhexs(n), q),
                                       "expected": vlib.unhexs(fx[q]), "actual": vlib.unhexs(fo[q]), "model": "",
                                       "what": "the %s twin of %s.xlsx decodes the formula of cell %s differently from the text Excel stored in the xlsx twin" % (e, b, q)})
                break
        else:
            if common:
                ctx.nontrivial("twin|%s|%s|%s" % (b, e, n))


def run_sheet_names(ctx):
    """sheet names in formula text: the Coq model of utils::quote_sheet_name, the Coq spec (sheet_text) and
    the independent Python reading of the grammar must agree on every name (the real function is
    reached end to end: 3-D references of generated .xls / .xlsb files with such sheet names)"""
    rng = ctx.rng
    alph = "AZaz09_. '-!&()[]#\"+,;:$é数\u00a0\U0001F600"
    names = ["", "Sheet1", "My Sheet", "O'Neil", "'", "''", "2024", "1a", ".x", "x.y", "_x", "a-b", "A1", "R1C1", "TRUE",
             "数据", "Übersicht", "a\u00a0b", "x!", "é", "s p a c e", "tab\tname"]
    for _ in range(ctx.scale(1500, 20000)):
        names.append("".join(rng.choice(alph) for _ in range(rng.randrange(0, 9))))
    lines = ["sq%d\tsheetq\t%s" % (i, hx(s) if s else ".") for i, s in enumerate(names)]
    mod = ctx.run_model(lines)
    for i, s in enumerate(names):
        ctx.traces += 1
        want = hx(fg.sheet_text(s))
        got = mod.get("sq%d" % i, "")
        ctx.count("sheet_name:%s" % ("quoted" if fg.sheet_text(s) != s else "bare"))
        if got != want + "|" + want:
            ctx.disagreements.append({"function": "quote_sheet_name (model) | sheet_text (spec) vs the Python reading of the grammar",
                                      "case": lines[i], "impl": want + "|" + want, "model": got})


def run_fixture_regressions(ctx):
    """fixture cells whose formula text is known from Excel (the xlsx twin / the file's author)"""
    repo = os.environ.get("VERIF_REPO", "/repo")
    cases = [
        # tests/issue_182.xlsb, first sheet: A2 = _xlfn.CONCAT("A","b") (audit E4: was User(_xlfn.CONCAT,"A","b"))
        ("fx182", "xlsb", os.path.join(repo, "tests", "issue_182.xlsb"), (1, 0), '_xlfn.CONCAT("A","b")'),
    ]
    # audit 2 (round 9): the reproducer files of the defects XLS-3 / XLSB-1b, XLSB-2, XLS-4, XLS-5 (notes/audit2/repro),
    # with the texts Excel shows — regression cases of the repaired readers
    rep = os.path.join(vlib.ROOT, "notes", "audit2", "repro", "out")
    cases += [
        ("au_x3a", "xls", os.path.join(rep, "xls_2_memtokens.xls"), (3, 0), "SUM((A1:A2,C1:C2))"),
        ("au_x3b", "xls", os.path.join(rep, "xls_2_memtokens.xls"), (3, 1), "SUM(A1:B2 B1:C2)"),
        ("au_x3c", "xls", os.path.join(rep, "xls_2_memtokens.xls"), (3, 2), "SUM(A1:INDEX(A1:A65536,3))"),
        ("au_b1a", "xlsb", os.path.join(rep, "xlsb_1_memarea.xlsb"), (4, 1), "SUM((A1:A2,C1:C2))"),
        ("au_b1b", "xlsb", os.path.join(rep, "xlsb_1_memfunc.xlsb"), (4, 1), "SUM((A1:A2,C1:C2))"),
        ("au_x5", "xls", os.path.join(rep, "xls_7_externsheet_cont.xls"), (0, 1), "Sheet3!$A$1"),        # through XTI 1375
    ]
    name_cases = [
        ("au_x3n", "xls", os.path.join(rep, "xls_2_memtokens.xls"),
         [("_xlnm.Print_Titles", "Sheet1!$A$1:$B$65536,Sheet1!$A$1:$IV$2"), ("Multi", "Sheet1!$A$1:$A$2,Sheet1!$C$1"), ("Single", "Sheet1!$A$1:$A$2")]),
        ("au_b2n", "xlsb", os.path.join(rep, "xlsb_2_forward_name.xlsb"), [("Alpha", "Beta*2"), ("Beta", "5"), ("Gamma", "Alpha+Beta")]),
        # XLS-4: array constants behind the rgce ({PtgArray} is how the reader writes an array constant: outside the grammar)
        ("au_x4a", "xls", os.path.join(rep, "xls_4a_lbl_rgcb.xls"),
         [("First", "Sheet1!$A$1"), ("Arr", "{PtgArray}"), ("HiddenLocal", "Sheet1!$B$2"), ("Empty", "empty rgce"), ("Last", "Sheet1!$C$3")]),
        ("au_x4b", "xls", os.path.join(rep, "xls_4b_lbl_rgcb_semicolon.xls"), [("First", "Sheet1!$A$1"), ("Txt", "{PtgArray}")]),
    ]
    for lid, fmt, path, want in name_cases:
        if not os.path.exists(path):
            ctx.notes.append("fixture %s not found" % path)
            continue
        line = "%s\topen\t%s\t%s\tnames" % (lid, fmt, path)
        got = ctx.run_impl([line]).get(lid, "")
        ctx.traces += 1
        exp = fg.expected_names(want)
        if got != exp:
            ctx.violations.append({"case": line, "expected": exp, "actual": got, "model": None,
                                   "what": "audit reproducer %s: defined_names" % os.path.basename(path)})
        else:
            ctx.nontrivial("fixture:" + lid)
    for lid, fmt, path, (r, c), text in cases:
        if not os.path.exists(path):
            ctx.notes.append("fixture %s not found" % path)
            continue
        names = ctx.run_impl(["%s_n\topen\t%s\t%s\tsheets" % (lid, fmt, path)])
        first = (names.get(lid + "_n") or "").split(";;")[0].split(",")[0]
        line = "%s\topen\t%s\t%s\tformula %s" % (lid, fmt, path, first)
        got = ctx.run_impl([line]).get(lid, "")
        ctx.traces += 1
        cell = None
        if got.startswith("R[") and "|" in got:
            head, body = got[2:-1].split("|", 1)
            r0, c0, r1, c1 = [int(x) for x in head.split(",")]
            rows = [row.split(",") for row in body.split("/")]
            if r0 <= r <= r1 and c0 <= c <= c1:
                cell = bytes.fromhex(rows[r - r0][c - c0]).decode("utf-8")
        if cell != text:
            ctx.violations.append({"case": line, "expected": text, "actual": cell if cell is not None else got, "model": None,
                                   "what": "fixture %s cell (%d,%d): the formula text Excel shows" % (os.path.basename(path), r, c)})
        else:
            ctx.nontrivial("fixture:" + lid)


def run(ctx):
    argc = load_ftab()
    corpus(ctx)
    run_sheet_names(ctx)
    run_fixture_regressions(ctx)
    run_twins(ctx)
    run_columns(ctx)
    run_a1(ctx)
    seeds = {"xls": [], "xlsb": []}
    for fmt in ("xls", "xlsb"):
        _, impl_lines, model = run_ast_batch(ctx, fmt, ctx.scale(5000, 100000), fmt[-1] + "a", argc)
        seeds[fmt] = [l.split("\t")[-1] for l in impl_lines[:400] if l.split("\t")[-1]]
    for fmt in ("xls", "xlsb"):
        run_raw(ctx, fmt, ctx.scale(6000, 120000), fmt[-1] + "r", seeds[fmt])
    run_files(ctx, ctx.scale(60, 800), argc)
    run_e2e(ctx, argc)


def run_e2e(ctx, argc, factor=1):
    import shutil
    for f in os.listdir(E2E_DIR) if os.path.isdir(E2E_DIR) else []:
        if f.startswith(("e", "s")):      # e*.xlsb/xls/xlsx/ods, s*.xls, sb*.xlsb
            os.remove(os.path.join(E2E_DIR, f))
    mb, ib = run_xlsb_files(ctx, factor * ctx.scale(150, 2000), argc)
    ml, il = run_xls_files2(ctx, factor * ctx.scale(120, 1500), argc)
    run_xls_nested_corpus(ctx)
    run_xls_shared_files(ctx, factor * ctx.scale(120, 1500), argc)
    run_xlsb_shared_files(ctx, factor * ctx.scale(120, 1500), argc)
    mx, ix = run_xlsx_files(ctx, factor * ctx.scale(150, 2000))
    mo, io_ = run_ods_files(ctx, factor * ctx.scale(150, 2000))
    return (mb, ib), (ml, il), (mx, ix), (mo, io_)


def search(ctx):
    argc = load_ftab()
    run_e2e(ctx, argc, factor=4)
    for fmt in ("xls", "xlsb"):
        _, impl_lines, _ = run_ast_batch(ctx, fmt, ctx.scale(50000, 300000), fmt[-1] + "s", argc)
        run_raw(ctx, fmt, ctx.scale(30000, 200000), fmt[-1] + "q", [l.split("\t")[-1] for l in impl_lines[:400]])


def replay(ctx, rep):
    case = rep.get("case")
    print("replaying:", case)
    impl, model = ctx.run_both([case])
    lid = case.split("\t", 1)[0]
    print("impl    :", impl.get(lid))
    print("model   :", model.get(lid))
    print("expected:", rep.get("expected"))
    return 0 if impl.get(lid) == rep.get("expected") else 1
