"""C15 — XLSX shared formulas expand to the translated formula of each member cell.

Correspondence, three routes:
  * hook level: calamine::verif_hooks::xlsx::replace_cell_names on rendered token lists
    (vh sharedfmla tok …) vs the extracted Coq model (vm sharedfmla tok …), which also returns
    the Coq spec (render of the translated tokens), the known class, in_range and wf;
  * raw text: arbitrary (not grammar-shaped) strings through rcn, plus the A1 helpers;
  * end to end: generated .xlsx files with column / row / block groups read through
    Xlsx::worksheet_formula (vh sharedfmla sheet -> the generic `open` command) vs the model
    of next_formula + worksheet_formula (vm sharedfmla sheet).
Verdicts: impl != model -> disagreement; impl != spec outside every known class -> violation;
inside a known class -> known hit (only when the real code really deviates)."""
import os, shutil
import vlib
import sharedfmlagen as G

ASSUMPTIONS = [
    "formula text is taken over the token grammar of SharedFmla.v (whole-column/row references, R1C1 and structured references are outside it)",
    "the harness is built with overflow checks: u32/i64 overflow is a panic (a release build wraps instead)",
    "cells carry an explicit r attribute; the XML layer (quick-xml events, unescape) is exercised end to end but not modelled",
    "Col26.v / Col26_proofs.v are agent c14's (A1 text <-> coordinates)",
]
CLASS_NAMES = {"1": "F22-mixed", "2": "F22-lookalike", "3": "F22-nonascii", "4": "F22-quote",
               "5": "F22-overflow"}
STREAMS = [None, None, None, None, None, None, "mixed", "lookalike", "nonascii", "quote", "overflow"]

def tmpdir(ctx):
    d = os.path.join(vlib.CACHE, "tmp", "c15-%d" % os.getpid())
    os.makedirs(d, exist_ok=True)
    return d

# ----------------------------------------------------------------------------- hook level
def gen_offset(rng, ts, edge=False):
    """an offset that mostly keeps every relative reference on the sheet"""
    refs = [t for t in ts if t[0] == "R"]
    lo_r = -min([t[4] for t in refs if not t[3]] or [5])
    hi_r = G.MAX_ROWS - 1 - max([t[4] for t in refs if not t[3]] or [0])
    lo_c = -min([t[2] for t in refs if not t[1]] or [5])
    hi_c = G.MAX_COLS - 1 - max([t[2] for t in refs if not t[1]] or [0])
    def pick(lo, hi):
        x = rng.random()
        if x < 0.15:
            return 0
        if x < 0.55:
            return max(lo, min(hi, rng.randrange(-6, 40)))
        if x < 0.70:
            return rng.choice([lo, hi, max(lo, -1), min(hi, 1)])
        return rng.randrange(lo, hi + 1)
    shape = rng.random()
    dr, dc = pick(lo_r, hi_r), pick(lo_c, hi_c)
    if shape < 0.45:
        dc = 0
    elif shape < 0.75:
        dr = 0
    if edge:
        which = rng.randrange(4)
        if which == 0: dr = lo_r - rng.choice([1, 2, 1000])
        elif which == 1: dr = hi_r + rng.choice([1, 2, 1000])
        elif which == 2: dc = lo_c - rng.choice([1, 2, 100])
        else: dc = hi_c + rng.choice([1, 2, 100])
    return dr, dc

def classify_tok(ctx, lid, line, ts, dr, dc, impl, model):
    """returns a dict describing the case: ok / known / violation / disagreement"""
    f = (model or "").split("|")
    if impl is None or model is None or len(f) != 7:
        ctx.disagreements.append({"function": "replace_cell_names", "case": line, "impl": impl, "model": model})
        return None
    m_ans, m_spec, known, known_v, inr, wf, rok = f
    my_spec = G.hx(G.render_all(G.translate(ts, dr, dc)))
    if rok != "1" or my_spec != m_spec:
        ctx.disagreements.append({"function": "render/translate (generator vs Coq spec)", "case": line,
                                  "impl": my_spec, "model": model})
        return None
    if impl != m_ans:
        # the tie is broken; still decide below whether the property itself fails on this input
        ctx.disagreements.append({"function": "replace_cell_names", "case": line, "impl": impl, "model": m_ans})
    info = {"impl": impl, "expected": "ok:" + m_spec, "known": known, "inr": inr, "wf": wf, "cls": None}
    if wf != "1":
        ctx.count("tok:not-wf")
        return info
    if inr != "1":
        ctx.count("tok:out-of-range")
        if impl == "panic":
            ctx.known_hits.setdefault("F22-edge", line)
            info["cls"] = "F22-edge"
        elif impl != info["expected"]:
            info["cls"] = "F22-edge"
        return info
    ctx.count("tok:in-range")
    if impl == info["expected"]:
        ctx.count("tok:translated-as-specified")
        return info
    # the real code deviates from the property on a grammatical, in-range formula
    kn = known_v if dc == 0 else known
    if kn == "-":
        ctx.violations.append({"case": line, "expected": info["expected"], "actual": impl, "model": m_ans,
                               "what": "replace_cell_names(%r, (%d,%d)) differs from the translated formula %r"
                                       % (G.render_all(ts), dr, dc, G.render_all(G.translate(ts, dr, dc)))})
        info["cls"] = "violation"
    else:
        name = CLASS_NAMES.get(kn, "F22-class" + kn)
        ctx.known_hits.setdefault(name, line)
        ctx.count("known:" + name)
        info["cls"] = name
    return info

def tok_line(lid, ts, dr, dc):
    return "%s\tsharedfmla\ttok\t%s\t%d\t%d\t%s" % (lid, G.wire_tokens(ts), dr, dc, G.hx(G.render_all(ts)))

def run_tok_batch(ctx, n, tag):
    rng = ctx.rng
    cases, lines = [], []
    for k in range(n):
        stream = rng.choice(STREAMS)
        base = (rng.choice([0, 0, 3, 50, 1000, G.MAX_ROWS - 14]), rng.choice([0, 0, 2, 30, 700, G.MAX_COLS - 14]))
        g = G.FormulaGen(rng, base=base, stream=stream, mixed_ok=False)
        ts = g.formula()
        edge = rng.random() < 0.06
        dr, dc = gen_offset(rng, ts, edge)
        lid = "%s%d" % (tag, k)
        cases.append((lid, ts, dr, dc, stream))
        lines.append(tok_line(lid, ts, dr, dc))
    impl, model = ctx.run_both(lines)
    for (lid, ts, dr, dc, stream), line in zip(cases, lines):
        info = classify_tok(ctx, lid, line, ts, dr, dc, impl.get(lid), model.get(lid))
        ctx.traces += 1
        ctx.count("stream:%s" % (stream or "known-free"))
        ctx.count("shape:%s" % ("vertical" if dc == 0 and dr != 0 else "horizontal" if dr == 0 and dc != 0
                                else "none" if dr == 0 and dc == 0 else "diagonal"))
        if info and any(t[0] == "R" and not (t[1] and t[3]) for t in ts) and (dr or dc):
            ctx.nontrivial(line.split("\t", 2)[2])
        if len(ctx.samples) < 4 and info:
            ctx.sample({"formula": G.render_all(ts), "offset": [dr, dc], "impl": impl.get(lid),
                        "class": info["cls"]})

# the witnesses of the Coq refutation lemmas and other fixed cases (kept alive on every run)
def witness_cases():
    R = lambda ca, c, ra, r: ("R", ca, c, ra, r)
    Y = lambda s: ("Y", s)
    A1 = R(0, 0, 0, 0)
    return [
        ([R(1, 0, 0, 0)], 0, 1), ([R(0, 0, 1, 0)], 0, 1), ([R(1, 0, 0, 0)], 3, 0), ([R(0, 0, 1, 0)], 3, 0),
        ([("F", "LOG10"), A1, Y(")")], 1, 0), ([("S", 1, "Q1"), A1], 1, 0),
        ([("F", "SUMX2MY2"), A1, Y(":"), R(0, 0, 0, 2), Y(","), R(0, 1, 0, 0), Y(":"), R(0, 1, 0, 2), Y(")")], 1, 0),
        ([("F", "ATAN2"), A1, Y(","), R(0, 16383, 0, 0), Y(")")], 0, -16000),
        ([("Q", "é"), Y("&"), A1], 1, 0), ([("S", 1, "Données"), A1], 1, 0), ([("Q", "Ł1")], 0, 0),
        ([("S", 1, 'a"b'), A1, Y("+"), R(0, 1, 0, 1)], 1, 0),
        ([("S", 0, "Revenue2024"), A1], 1, 0), ([A1, Y("*"), ("M", "1000000000", None, None)], 1, 0),
        ([A1, Y("*"), ("M", "999999999", None, None)], 1, 0),
        ([A1], -1, 0), ([A1], 0, -1), ([R(0, 16383, 0, 0)], 0, 1), ([R(0, 0, 0, 1048575)], 1, 0),
        ([R(1, 16383, 1, 1048575)], 5, 5), ([R(0, 16383, 0, 1048575)], -1048575, -16383),
        ([("S", 0, "Sheet1"), A1], 1048575, 16383), ([("N", "TRUE")], 1, 1), ([("E", 1), Y("+"), ("E", 6)], 1, 1),
        ([("M", "1", "5", (True, "3")), Y("*"), A1], 2, 2), ([("Q", 'A1 "x" B2'), Y("&"), A1], 2, 2),
    ]

def run_witnesses(ctx):
    lines, cases = [], []
    for k, (ts, dr, dc) in enumerate(witness_cases()):
        lid = "w%d" % k
        cases.append((lid, ts, dr, dc))
        lines.append(tok_line(lid, ts, dr, dc))
    impl, model = ctx.run_both(lines)
    for (lid, ts, dr, dc), line in zip(cases, lines):
        classify_tok(ctx, lid, line, ts, dr, dc, impl.get(lid), model.get(lid))
        ctx.traces += 1
        ctx.nontrivial(line.split("\t", 2)[2])

# ----------------------------------------------------------------------------- raw text and helpers
ALPH = list("AZaz09$:!'\"(), +-*&.#_") + ["é", "Ł", "日", "ǃ", "Ƃ", "😀"]
def run_raw_batch(ctx, n, tag):
    rng = ctx.rng
    lines = []
    for k in range(n):
        x = rng.random()
        if x < 0.6:
            s = "".join(rng.choice(ALPH) for _ in range(rng.randrange(0, 14)))
            off = (rng.choice([0, 1, -1, 5, 1048575, -1048575, 2 ** 32, -2 ** 32, 2 ** 63 - 1, -2 ** 63, rng.randrange(-50, 50)]),
                   rng.choice([0, 1, -1, 3, 16383, -16383, 2 ** 32 - 1, 2 ** 63 - 1, rng.randrange(-50, 50)]))
            lines.append("%s%d\tsharedfmla\trcn\t%s\t%d\t%d" % (tag, k, G.hx(s), off[0], off[1]))
        elif x < 0.7:
            lines.append("%s%d\tsharedfmla\tc2n\t%d\t%d" % (tag, k, rng.choice([0, 1, 9, 1048575, 2 ** 32 - 2, 2 ** 32 - 1, rng.randrange(2 ** 32)]),
                                                              rng.choice([0, 25, 26, 701, 702, 16383, 16384, 2 ** 32 - 1, rng.randrange(20000)])))
        elif x < 0.8:
            lines.append("%s%d\tsharedfmla\tcn2n\t%d" % (tag, k, rng.choice([0, 25, 26, 701, 702, 16383, 16384, rng.randrange(2 ** 32)])))
        elif x < 0.9:
            s = "".join(rng.choice("ABZXFDaz0159$:") for _ in range(rng.randrange(0, 12)))
            lines.append("%s%d\tsharedfmla\tgrc\t%s" % (tag, k, G.hx(s)))
        else:
            s = rng.choice(["A1:B2", "B2:A1", "A1", "A1:B2:C3", "", ":", "A1:", "XFD1048576:XFD1048576", "C3:C9", "C3:K3",
                            "".join(rng.choice("ABC123:") for _ in range(rng.randrange(0, 9)))])
            lines.append("%s%d\tsharedfmla\tgdim\t%s" % (tag, k, G.hx(s)))
    impl, model = ctx.run_both(lines)
    for l in lines:
        lid = l.split("\t", 1)[0]
        ctx.count("raw:" + l.split("\t")[2])
        if impl.get(lid) != model.get(lid):
            ctx.disagreements.append({"function": l.split("\t")[2], "case": l, "impl": impl.get(lid), "model": model.get(lid)})

def sweep_columns(ctx):
    """finite domain: every column number 0..16400 through column_number_to_name / coordinate_to_name"""
    lines = ["c%d\tsharedfmla\tcn2n\t%d" % (n, n) for n in range(0, 16401)]
    lines += ["d%d\tsharedfmla\tc2n\t%d\t%d" % (n, (n * 64) % 1048576, n) for n in range(0, 16384, 7)]
    impl, model = ctx.run_both(lines)
    bad = [l for l in lines if impl.get(l.split("\t", 1)[0]) != model.get(l.split("\t", 1)[0])]
    for l in bad[:3]:
        lid = l.split("\t", 1)[0]
        ctx.disagreements.append({"function": "column_number_to_name", "case": l, "impl": impl.get(lid), "model": model.get(lid)})
    for n in range(0, 16384, 997):
        if impl.get("c%d" % n) != "ok:" + G.hx(G.letters(n)):
            ctx.violations.append({"case": "c%d\tsharedfmla\tcn2n\t%d" % (n, n), "expected": "ok:" + G.hx(G.letters(n)),
                                   "actual": impl.get("c%d" % n), "model": model.get("c%d" % n),
                                   "what": "column_number_to_name is not bijective base 26"})
    ctx.count("sweep:columns", len(lines))

# ----------------------------------------------------------------------------- end to end
def gen_sheet(rng, kind="normal"):
    """returns (cells for the writer / wire, groups, si_ok) — cells in document order"""
    H = W = 14
    base = (rng.choice([0, 0, 1, 7, 500, 99990, G.MAX_ROWS - H]), rng.choice([0, 0, 1, 4, 20, 690, G.MAX_COLS - W]))
    occupied = {}
    groups = []
    ngroups = rng.choice([1, 1, 2, 2, 3, 4])
    for gi in range(ngroups):
        shape = rng.choice(["col", "col", "col", "row", "row", "block", "single"] if kind != "block" else ["block"])
        h = 1 if shape in ("row", "single") else rng.randrange(2, 7)
        w = 1 if shape in ("col", "single") else rng.randrange(2, 6)
        for _ in range(20):
            r0 = rng.randrange(0, H - h + 1); c0 = rng.randrange(0, W - w + 1)
            box = [(r0 + i, c0 + j) for i in range(h) for j in range(w)]
            if not any(p in occupied for p in box):
                break
        else:
            continue
        stream = rng.choice(STREAMS) if (kind == "normal" and rng.random() < 0.45) else None
        fg = G.FormulaGen(rng, base=(base[0] + r0, base[1] + c0), span=5, stream=stream, mixed_ok=False)
        ts = fg.formula()
        if rng.random() < 0.85:
            # keep every member's translation on the sheet: clamp the references
            fixed = []
            for t in ts:
                if t[0] == "R":
                    _, ca, c, ra, r = t
                    c = min(c, G.MAX_COLS - w) if not ca else c
                    r = min(r, G.MAX_ROWS - h) if not ra else r
                    t = ("R", ca, c, ra, r)
                fixed.append(t)
            ts = fixed
        g = {"shape": shape, "start": (base[0] + r0, base[1] + c0), "end": (base[0] + r0 + h - 1, base[1] + c0 + w - 1),
             "tokens": ts, "members": [], "stream": stream}
        for idx, p in enumerate(box):
            q = (base[0] + p[0], base[1] + p[1])
            if idx == 0:
                occupied[p] = ("master", g)
            elif rng.random() < 0.1:
                occupied[p] = ("plain", "1+" + G.a1(q[0], q[1])) if rng.random() < 0.5 else ("none",)
            else:
                occupied[p] = ("member", g, "" if rng.random() < 0.9 else "OWN(" + G.a1(q[0], q[1]) + ")")
                g["members"].append(q)
        groups.append(g)
    # some stray cells: plain formulas, values, members of an undeclared group, a member outside its ref
    for _ in range(rng.randrange(0, 6)):
        p = (rng.randrange(H), rng.randrange(W))
        if p in occupied:
            continue
        x = rng.random()
        q = (base[0] + p[0], base[1] + p[1])
        if x < 0.5:
            occupied[p] = ("plain", G.render_all(G.FormulaGen(rng, base=q, span=4).formula()))
        elif x < 0.8:
            occupied[p] = ("none",)
        elif x < 0.9:
            occupied[p] = ("stray", 40 + rng.randrange(3), "")
        elif groups:
            occupied[p] = ("outside", rng.choice(groups), "KEEP()")
    # shared indices in document order of the masters
    order = sorted(occupied)
    masters = [occupied[p][1] for p in order if occupied[p][0] == "master"]
    si_vals = []
    cur = rng.choice([0, 0, 0, 1, 5])
    for _ in masters:
        si_vals.append(cur)
        cur += rng.choice([1, 1, 1, 2, 4])
    si_ok = True
    if kind == "si" and len(masters) >= 2:
        x = rng.random()
        if x < 0.5:
            i = rng.randrange(len(masters) - 1)
            si_vals[i], si_vals[i + 1] = si_vals[i + 1], si_vals[i]
        elif x < 0.8:
            si_vals = list(reversed(si_vals))
        else:
            si_vals[-1] = si_vals[0]
        si_ok = all(a < b for a, b in zip(si_vals, si_vals[1:]))
    for g, si in zip(masters, si_vals):
        g["si"] = si
    cells = []
    for p in order:
        q = (base[0] + p[0], base[1] + p[1])
        o = occupied[p]
        if o[0] == "master":
            g = o[1]
            ref = G.a1(*g["start"]) + ":" + G.a1(*g["end"]) if (g["shape"] != "single" or rng.random() < 0.5) else G.a1(*g["start"])
            cells.append((q[0], q[1], ("master", g["si"], ref, G.render_all(g["tokens"]))))
        elif o[0] == "member":
            cells.append((q[0], q[1], ("member", o[1]["si"], o[2])))
        elif o[0] == "outside":
            cells.append((q[0], q[1], ("member", o[1]["si"], o[2])))
        elif o[0] == "stray":
            cells.append((q[0], q[1], ("member", o[1], o[2])))
        elif o[0] == "plain":
            cells.append((q[0], q[1], ("plain", o[1])))
        else:
            cells.append((q[0], q[1], ("none",)))
    return cells, [g for g in groups if "si" in g], si_ok

def expected_sheet(cells, groups):
    """what the property demands: {(r,c): hex text}"""
    by_si = {}
    exp = {}
    for (r, c, kind) in cells:
        k = kind[0]
        if k == "plain":
            exp[(r, c)] = G.hx(kind[1])
        elif k == "master":
            exp[(r, c)] = G.hx(kind[3])
            by_si[kind[1]] = next(g for g in groups if g["si"] == kind[1] and g["start"] == (r, c))
        elif k == "member":
            g = by_si.get(kind[1])
            if g is not None and g["start"][0] <= r <= g["end"][0] and g["start"][1] <= c <= g["end"][1]:
                dr, dc = r - g["start"][0], c - g["start"][1]
                exp[(r, c)] = G.hx(G.render_all(G.translate(g["tokens"], dr, dc)))
            else:
                exp[(r, c)] = G.hx(kind[2])
    return {p: v for p, v in exp.items() if v != ""}

def run_sheet_batch(ctx, n, tag, kinds=("normal", "normal", "normal", "normal", "block", "si")):
    rng = ctx.rng
    d = tmpdir(ctx)
    name = "Sheet1"
    sheets, lines, toklines, tokmeta = [], [], [], {}
    for k in range(n):
        kind = rng.choice(kinds)
        cells, groups, si_ok = gen_sheet(rng, kind)
        path = os.path.join(d, "%s%d.xlsx" % (tag, k))
        G.write_xlsx(path, name, cells, rng)
        lid = "%s%d" % (tag, k)
        sheets.append((lid, cells, groups, si_ok, kind, path))
        lines.append("%s\tsharedfmla\tsheet\t%s\t%s\t%s" % (lid, G.wire_cells(cells), path, G.hx(name)))
        # hook-level classification of every (group, member offset) pair
        for gi, g in enumerate(groups):
            for (r, c) in g["members"]:
                dr, dc = r - g["start"][0], c - g["start"][1]
                tid = "%s.g%d.%d.%d" % (lid, gi, dr, dc)
                toklines.append(tok_line(tid, g["tokens"], dr, dc))
                tokmeta[tid] = (g["tokens"], dr, dc)
    impl, model = ctx.run_both(lines)
    timpl, tmodel = ctx.run_both(toklines)
    tokinfo = {}
    for l in toklines:
        tid = l.split("\t", 1)[0]
        ts, dr, dc = tokmeta[tid]
        tokinfo[tid] = classify_tok(ctx, tid, l, ts, dr, dc, timpl.get(tid), tmodel.get(tid))
    for (lid, cells, groups, si_ok, kind, path), line in zip(sheets, lines):
        ctx.traces += 1
        ctx.count("sheet:" + kind)
        for g in groups:
            ctx.count("group:" + g["shape"])
        a, m = impl.get(lid), model.get(lid)
        short = "%s\tsharedfmla\tsheet\t%s" % (lid, G.wire_cells(cells))
        if a != m:
            keep = os.path.join(vlib.ROOT, "replays", "C15-%s.xlsx" % lid)
            os.makedirs(os.path.dirname(keep), exist_ok=True)
            if len(ctx.disagreements) < 5:
                shutil.copy(path, keep)
            ctx.disagreements.append({"function": "next_formula/worksheet_formula", "case": line.replace(path, keep),
                                      "impl": a, "model": m})
        exp = expected_sheet(cells, groups)
        exp_text = G.range_text(exp)
        if len(groups) >= 1 and any(g["members"] for g in groups):
            ctx.nontrivial(short)
        if a == exp_text:
            ctx.count("sheet:as-specified")
            continue
        # the sheet deviates from the property: attribute every deviating cell to a cause
        causes = set()
        got = G.parse_range_text(a)
        member_of = {}
        for gi, g in enumerate(groups):
            for q in g["members"]:
                member_of[q] = (gi, g)
        if not si_ok:
            causes.add("F22-si-order")
        if got is None:
            # the whole call failed: some member's rewriting failed
            for tid, info in tokinfo.items():
                if tid.startswith(lid + ".") and info and info["impl"] in ("err", "panic") and info["cls"] not in (None, "violation"):
                    causes.add(info["cls"])
            if not causes:
                causes.add("violation")
        else:
            for p in set(exp) | set(got):
                if exp.get(p) == got.get(p):
                    continue
                if p in member_of:
                    gi, g = member_of[p]
                    dr, dc = p[0] - g["start"][0], p[1] - g["start"][1]
                    info = tokinfo.get("%s.g%d.%d.%d" % (lid, gi, dr, dc))
                    if g["shape"] == "block" and dc != 0:
                        causes.add("F22-block")
                    elif info and info["cls"] not in (None, "violation"):
                        causes.add(info["cls"])
                    elif not si_ok:
                        pass
                    else:
                        causes.add("violation")
                elif not si_ok:
                    pass
                else:
                    causes.add("violation")
        if not causes:
            causes.add("violation")     # same cells but another rectangle (or unparsable text)
        if "violation" in causes:
            keep = os.path.join(vlib.ROOT, "replays", "C15-%s.xlsx" % lid)
            os.makedirs(os.path.dirname(keep), exist_ok=True)
            if len(ctx.violations) < 5:
                shutil.copy(path, keep)
            ctx.violations.append({"case": line.replace(path, keep), "expected": exp_text, "actual": a, "model": m,
                                   "what": "worksheet_formula on a generated sheet with shared-formula groups %s"
                                           % [(g["shape"], G.render_all(g["tokens"])) for g in groups]})
        for c in causes - {"violation"}:
            ctx.known_hits.setdefault(c, short)
            ctx.count("known-sheet:" + c)
    shutil.rmtree(d, ignore_errors=True)

def run_fixed_sheets(ctx):
    """hand-made sheets: the witnesses of the group-level classes and the plain cases"""
    A1 = ("R", 0, 0, 0, 0)
    f = [A1, ("Y", "+"), ("M", "1", None, None)]
    txt = G.render_all(f)
    def grp(start, end, si):
        return {"shape": "block" if start[0] != end[0] and start[1] != end[1] else "col" if start[0] != end[0] else "row",
                "start": start, "end": end, "tokens": f, "si": si,
                "members": [(r, c) for r in range(start[0], end[0] + 1) for c in range(start[1], end[1] + 1)][1:]}
    def cells_of(gs, extra=()):
        cells = []
        for g in gs:
            cells.append((g["start"][0], g["start"][1], ("master", g["si"], G.a1(*g["start"]) + ":" + G.a1(*g["end"]), txt)))
            for (r, c) in g["members"]:
                cells.append((r, c, ("member", g["si"], "")))
        cells += list(extra)
        return sorted(cells, key=lambda x: (x[0], x[1]))
    col = grp((1, 1), (4, 1), 0); row = grp((6, 1), (6, 5), 1); blk = grp((8, 1), (10, 3), 2)
    sheets = [
        ("col+row", [col, row], True, ()),
        ("block", [grp((1, 1), (3, 3), 0)], True, ()),
        ("si-swapped", [grp((1, 1), (4, 1), 1), grp((6, 1), (6, 5), 0)], False, ()),
        ("si-gap", [grp((1, 1), (4, 1), 3), grp((6, 1), (6, 5), 9)], True, ()),
        ("all", [col, row, blk], True, ((0, 0, ("plain", "B2*2")), (0, 1, ("none",)), (12, 0, ("member", 7, "KEEP")))),
    ]
    d = tmpdir(ctx)
    lines, meta = [], []
    for k, (nm, gs, si_ok, extra) in enumerate(sheets):
        cells = cells_of(gs, extra)
        path = os.path.join(d, "fx%d.xlsx" % k)
        G.write_xlsx(path, "Sheet1", cells)
        lid = "fx%d" % k
        lines.append("%s\tsharedfmla\tsheet\t%s\t%s\t%s" % (lid, G.wire_cells(cells), path, G.hx("Sheet1")))
        meta.append((lid, nm, cells, gs, si_ok))
    impl, model = ctx.run_both(lines)
    for (lid, nm, cells, gs, si_ok), line in zip(meta, lines):
        ctx.traces += 1
        a, m = impl.get(lid), model.get(lid)
        short = "%s\tsharedfmla\tsheet\t%s" % (lid, G.wire_cells(cells))
        if a != m:
            ctx.disagreements.append({"function": "next_formula/worksheet_formula", "case": line, "impl": a, "model": m})
        exp_text = G.range_text(expected_sheet(cells, gs))
        ctx.nontrivial(short)
        if a == exp_text:
            continue
        if not si_ok:
            ctx.known_hits.setdefault("F22-si-order", short)
        elif any(g["shape"] == "block" for g in gs):
            got = G.parse_range_text(a) or {}
            exp = expected_sheet(cells, gs)
            bad = [p for p in set(exp) | set(got) if exp.get(p) != got.get(p)]
            blocks = [g for g in gs if g["shape"] == "block"]
            if all(any(p in g["members"] and p[1] != g["start"][1] for g in blocks) for p in bad):
                ctx.known_hits.setdefault("F22-block", short)
            else:
                ctx.violations.append({"case": line, "expected": exp_text, "actual": a, "model": m,
                                       "what": "fixed sheet %s: a cell outside the non-first columns of a block group deviates" % nm})
        else:
            ctx.violations.append({"case": line, "expected": exp_text, "actual": a, "model": m,
                                   "what": "fixed sheet %s" % nm})
    shutil.rmtree(d, ignore_errors=True)

# ----------------------------------------------------------------------------- entry points
def run(ctx):
    run_witnesses(ctx)
    run_fixed_sheets(ctx)
    run_tok_batch(ctx, ctx.scale(30000, 500000), "t")
    run_raw_batch(ctx, ctx.scale(10000, 150000), "r")
    run_sheet_batch(ctx, ctx.scale(1500, 25000), "s")
    if ctx.tier == "thorough":
        sweep_columns(ctx)

def search(ctx):
    run_tok_batch(ctx, ctx.scale(60000, 300000), "T")
    run_sheet_batch(ctx, ctx.scale(2000, 10000), "S")
    run_raw_batch(ctx, ctx.scale(20000, 100000), "Q")

def replay(ctx, rep):
    case = rep.get("case")
    print("replaying:", case)
    impl, model = ctx.run_both([case])
    lid = case.split("\t", 1)[0]
    print("impl :", impl.get(lid))
    print("model:", model.get(lid))
    print("expected:", rep.get("expected"))
    return 0 if impl.get(lid) == rep.get("expected") else 1
