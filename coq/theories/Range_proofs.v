(* Range_proofs.v — proofs about the Range model (Range.v) in the vocabulary of Range_spec.v.
   Properties/C05.v closes its theorems by [exact] on the lemmas of the last section. *)
From Calamine Require Import Prelude Range Range_spec.
Open Scope N_scope.
Set Implicit Arguments.

(* ---------------------------------------------------------------------------------------- *)
(* Rectangular lists: a list of length h * w seen as h rows of w cells                      *)
(* ---------------------------------------------------------------------------------------- *)
Lemma nth_error_nil' : forall (A : Type) i, nth_error (@nil A) i = None.
Proof. destruct i; reflexivity. Qed.

Section Grid.
Variable T : Type.

Lemma skipn_skipn' : forall a b (l : list T), skipn a (skipn b l) = skipn (b + a) l.
Proof.
  intros a b; revert a. induction b as [|b IH]; intros a l; [reflexivity|].
  destruct l as [|x l]; [cbn; apply skipn_nil|]. cbn. apply IH.
Qed.

Lemma chunks_aux_nil : forall fuel w, @chunks_aux T fuel w [] = [].
Proof. destruct fuel; reflexivity. Qed.

Lemma chunks_aux_cons : forall h fuel w (l : list T),
  (0 < w)%nat -> length l = (S h * w)%nat -> (S h <= fuel)%nat ->
  chunks_aux fuel w l = firstn w l :: chunks_aux (fuel - 1) w (skipn w l).
Proof.
  intros h fuel w l Hw Hl Hf. destruct fuel as [|f]; [lia|]. cbn [chunks_aux].
  destruct l as [|x l']; [cbn in Hl; lia|]. replace (S f - 1)%nat with f by lia. reflexivity.
Qed.

Lemma chunks_aux_nth : forall h fuel w (l : list T) i,
  (0 < w)%nat -> length l = (h * w)%nat -> (h <= fuel)%nat ->
  nth_error (chunks_aux fuel w l) i =
    if (i <? h)%nat then Some (firstn w (skipn (i * w) l)) else None.
Proof.
  induction h as [|h IH]; intros fuel w l i Hw Hl Hf.
  - destruct l; [|cbn in Hl; lia]. rewrite chunks_aux_nil, nth_error_nil'. reflexivity.
  - rewrite (@chunks_aux_cons h fuel w l Hw Hl Hf).
    destruct i as [|i]; [reflexivity|]. cbn [nth_error].
    rewrite IH; try lia.
    + replace (S i <? S h)%nat with (i <? h)%nat by (destruct (Nat.ltb_spec i h), (Nat.ltb_spec (S i) (S h)); lia).
      destruct (i <? h)%nat; [|reflexivity]. rewrite skipn_skipn'. reflexivity.
    + rewrite skipn_length. nia.
Qed.

Lemma chunks_aux_length : forall h fuel w (l : list T),
  (0 < w)%nat -> length l = (h * w)%nat -> (h <= fuel)%nat ->
  length (chunks_aux fuel w l) = h.
Proof.
  induction h as [|h IH]; intros fuel w l Hw Hl Hf.
  - destruct l; [|cbn in Hl; lia]. rewrite chunks_aux_nil. reflexivity.
  - rewrite (@chunks_aux_cons h fuel w l Hw Hl Hf). cbn [length]. f_equal.
    apply IH; try lia. rewrite skipn_length. nia.
Qed.

Lemma chunks_aux_Forall : forall h fuel w (l : list T),
  (0 < w)%nat -> length l = (h * w)%nat -> (h <= fuel)%nat ->
  Forall (fun row => length row = w) (chunks_aux fuel w l).
Proof.
  induction h as [|h IH]; intros fuel w l Hw Hl Hf.
  - destruct l; [|cbn in Hl; lia]. rewrite chunks_aux_nil. constructor.
  - rewrite (@chunks_aux_cons h fuel w l Hw Hl Hf). constructor.
    + rewrite firstn_length. nia.
    + apply IH; try lia. rewrite skipn_length. nia.
Qed.

Lemma chunks_nth : forall h w (l : list T) i,
  (0 < w)%nat -> length l = (h * w)%nat ->
  nth_error (chunks w l) i =
    if (i <? h)%nat then Some (firstn w (skipn (i * w) l)) else None.
Proof. intros. unfold chunks. apply chunks_aux_nth; nia. Qed.

Lemma chunks_length : forall h w (l : list T),
  (0 < w)%nat -> length l = (h * w)%nat -> length (chunks w l) = h.
Proof. intros. unfold chunks. apply chunks_aux_length; nia. Qed.

Lemma chunks_Forall : forall h w (l : list T),
  (0 < w)%nat -> length l = (h * w)%nat ->
  Forall (fun row => length row = w) (chunks w l).
Proof. intros h w l Hw Hl. unfold chunks. apply chunks_aux_Forall with (h := h); nia. Qed.

Lemma chunk_nth : forall w (l : list T) i j, (j < w)%nat ->
  nth_error (firstn w (skipn (i * w) l)) j = nth_error l (i * w + j).
Proof. intros. rewrite nth_error_firstn_lt by lia. apply nth_error_skipn_add. Qed.

(* the cell (i, j) of the rows produced by chunks *)
Lemma chunks_cell : forall h w (l : list T) i j,
  (0 < w)%nat -> length l = (h * w)%nat -> (i < h)%nat -> (j < w)%nat ->
  match nth_error (chunks w l) i with Some row => nth_error row j | None => None end
  = nth_error l (i * w + j).
Proof.
  intros h w l i j Hw Hl Hi Hj. rewrite (@chunks_nth h) by assumption.
  destruct (Nat.ltb_spec i h); [|lia]. apply chunk_nth; assumption.
Qed.

Lemma concat_rect_length : forall w (rows : list (list T)),
  Forall (fun row => length row = w) rows -> length (concat rows) = (length rows * w)%nat.
Proof.
  intros w rows H. induction H as [|row rows Hr _ IH]; [reflexivity|].
  cbn [concat length]. rewrite app_length, IH, Hr. lia.
Qed.

Lemma concat_rect_nth : forall w (rows : list (list T)) i j,
  Forall (fun row => length row = w) rows -> (j < w)%nat ->
  nth_error (concat rows) (i * w + j) =
    match nth_error rows i with Some row => nth_error row j | None => None end.
Proof.
  intros w rows i j H; revert i. induction H as [|row rows Hr _ IH]; intros i Hj.
  - cbn [concat]. rewrite !nth_error_nil'. reflexivity.
  - cbn [concat]. destruct i as [|i].
    + cbn [nth_error Nat.mul Nat.add]. apply nth_error_app1. lia.
    + rewrite nth_error_app2 by (rewrite Hr; nia). cbn [nth_error].
      rewrite <- IH by assumption. f_equal. rewrite Hr. nia.
Qed.

Lemma Forall_firstn' : forall (P : list T -> Prop) n (l : list (list T)),
  Forall P l -> Forall P (firstn n l).
Proof.
  intros P n l H. apply Forall_forall. intros x Hx.
  rewrite Forall_forall in H. apply H. rewrite <- (firstn_skipn n l). apply in_or_app. now left.
Qed.

Lemma Forall_skipn' : forall (P : list T -> Prop) n (l : list (list T)),
  Forall P l -> Forall P (skipn n l).
Proof.
  intros P n l H. apply Forall_forall. intros x Hx.
  rewrite Forall_forall in H. apply H. rewrite <- (firstn_skipn n l). apply in_or_app. now right.
Qed.

End Grid.

(* ---------------------------------------------------------------------------------------- *)
(* Basic facts about ranges                                                                 *)
(* ---------------------------------------------------------------------------------------- *)
Section RangeBasics.
Variable T : Type.

Lemma is_empty_true : forall r : range T, is_empty r = true -> r_inner r = [].
Proof. intros r H. unfold is_empty in H. destruct (r_inner r); congruence. Qed.

Lemma is_empty_false : forall r : range T, is_empty r = false -> r_inner r <> [].
Proof. intros r H. unfold is_empty in H. destruct (r_inner r); congruence. Qed.

Lemma is_empty_length : forall r : range T, (0 < length (r_inner r))%nat -> is_empty r = false.
Proof. intros r H. unfold is_empty. destruct (r_inner r); [cbn in H; lia|reflexivity]. Qed.

Lemma width_empty : forall r : range T, is_empty r = true -> width r = 0.
Proof. intros r H. unfold width. rewrite H. reflexivity. Qed.

Lemma height_empty : forall r : range T, is_empty r = true -> height r = 0.
Proof. intros r H. unfold height. rewrite H. reflexivity. Qed.

Lemma Wf_ne : forall r : range T, Wf r -> is_empty r = false ->
  fst (r_start r) <= fst (r_end r) /\ snd (r_start r) <= snd (r_end r) /\
  height r = fst (r_end r) - fst (r_start r) + 1 /\
  width r = snd (r_end r) - snd (r_start r) + 1 /\
  N.of_nat (length (r_inner r)) = height r * width r.
Proof.
  intros r [H|(H1 & H2 & H3)] Hne.
  - apply is_empty_false in Hne. contradiction.
  - unfold height, width. rewrite Hne. auto.
Qed.

Lemma get_char : forall (r : range T) i j,
  get r (i, j) =
    if (j <? width r) && (i <? height r)
    then nth_error (r_inner r) (N.to_nat i * N.to_nat (width r) + N.to_nat j)%nat
    else None.
Proof.
  intros r i j. unfold get.
  destruct (width r <=? j) eqn:E1; destruct (j <? width r) eqn:E1'; try lia; cbn [orb andb]; auto.
  destruct (height r <=? i) eqn:E2; destruct (i <? height r) eqn:E2'; try lia; auto.
  rewrite N2Nat.inj_add, N2Nat.inj_mul. reflexivity.
Qed.

Lemma get_value_char : forall (r : range T) q,
  get_value r q =
    if in_box (r_start r) (r_end r) q
    then get r (fst q - fst (r_start r), snd q - snd (r_start r)) else None.
Proof. intros [[sr sc] [er ec] l] q. reflexivity. Qed.

Lemma get_value_empty : forall (r : range T) q, is_empty r = true -> get_value r q = None.
Proof.
  intros r q H. rewrite get_value_char. destruct (in_box _ _ q); [|reflexivity].
  rewrite get_char, (width_empty _ H). destruct (_ <? 0) eqn:E; [lia|reflexivity].
Qed.

(* the absolute accessor on a well-formed non-empty range, as a flat nat index *)
Lemma get_value_ne : forall (r : range T) q, Wf r -> is_empty r = false ->
  get_value r q =
    if in_box (r_start r) (r_end r) q
    then nth_error (r_inner r)
           (N.to_nat (fst q - fst (r_start r)) * N.to_nat (width r)
            + N.to_nat (snd q - snd (r_start r)))%nat
    else None.
Proof.
  intros r q HWf Hne. rewrite get_value_char.
  destruct (in_box _ _ q) eqn:Hb; [|reflexivity].
  destruct (Wf_ne HWf Hne) as (H1 & H2 & Hh & Hw & Hl).
  rewrite get_char. unfold in_box in Hb.
  destruct (_ <? width r) eqn:E1; [|lia]. destruct (_ <? height r) eqn:E2; [|lia]. reflexivity.
Qed.

Lemma Wf_mk : forall sr sc er ec (l : list T), sr <= er -> sc <= ec ->
  N.of_nat (length l) = (er - sr + 1) * (ec - sc + 1) ->
  Wf (mkRange (sr, sc) (er, ec) l).
Proof. intros. right. cbn [r_start r_end r_inner fst snd]. auto. Qed.

Lemma ne_mk : forall sr sc er ec (l : list T),
  N.of_nat (length l) = (er - sr + 1) * (ec - sc + 1) ->
  is_empty (mkRange (sr, sc) (er, ec) l) = false.
Proof. intros. apply is_empty_length. cbn [r_inner]. nia. Qed.

Lemma get_value_mk : forall sr sc er ec (l : list T) q, sr <= er -> sc <= ec ->
  N.of_nat (length l) = (er - sr + 1) * (ec - sc + 1) ->
  get_value (mkRange (sr, sc) (er, ec) l) q =
    if in_box (sr, sc) (er, ec) q
    then nth_error l (N.to_nat (fst q - sr) * N.to_nat (ec - sc + 1) + N.to_nat (snd q - sc))%nat
    else None.
Proof.
  intros sr sc er ec l q H1 H2 Hl.
  rewrite get_value_ne; [|apply Wf_mk; assumption|apply ne_mk; assumption].
  cbn [r_start r_end r_inner fst snd]. unfold width. rewrite ne_mk by assumption. reflexivity.
Qed.

Lemma rect_mk : forall sr sc er ec (l : list T),
  N.of_nat (length l) = (er - sr + 1) * (ec - sc + 1) ->
  rect (mkRange (sr, sc) (er, ec) l) = Some ((sr, sc), (er, ec)).
Proof. intros. unfold rect. rewrite ne_mk by assumption. reflexivity. Qed.

(* a position inside a box has a flat index inside the vector *)
Lemma box_index_lt : forall sr sc er ec q (n : nat),
  in_box (sr, sc) (er, ec) q = true ->
  N.of_nat n = (er - sr + 1) * (ec - sc + 1) ->
  (N.to_nat (fst q - sr) * N.to_nat (ec - sc + 1) + N.to_nat (snd q - sc) < n)%nat.
Proof. intros sr sc er ec [qr qc] n Hb Hn. unfold in_box in Hb. cbn [fst snd] in *. nia. Qed.

End RangeBasics.

(* ---------------------------------------------------------------------------------------- *)
(* Range::new                                                                               *)
(* ---------------------------------------------------------------------------------------- *)
Section New.
Variable T : Type.
Variable d : T.

Lemma new_ok_usize : forall s e : pos, le2 s e -> box_cells s e <= U64MAX ->
  new d s e = Ok (mkRange s e (repeat d (N.to_nat (box_cells s e)))).
Proof.
  intros [sr sc] [er ec] [H1 H2] Hb. unfold box_cells in *. cbn [fst snd] in *.
  unfold new, pos_le_lex, sub32. cbn [fst snd].
  destruct ((sr <? er) || ((sr =? er) && (sc <=? ec))) eqn:E0; [|lia]. cbn [negb].
  destruct (sr <=? er) eqn:E1; [|lia]. cbn [obind].
  destruct (sc <=? ec) eqn:E3; [|lia]. cbn [obind]. cbv zeta.
  destruct (U64MAX <? (er - sr + 1) * (ec - sc + 1)) eqn:E5; [lia|].
  reflexivity.
Qed.

Lemma U32_le_U64 : forall n, n <= U32MAX -> n <= U64MAX.
Proof. intros n H. unfold U32MAX, U64MAX in *. lia. Qed.

Lemma new_ok : forall s e : pos, le2 s e -> box_cells s e <= U32MAX ->
  new d s e = Ok (mkRange s e (repeat d (N.to_nat (box_cells s e)))).
Proof. intros s e Hle Hb. apply new_ok_usize; [assumption|apply U32_le_U64; assumption]. Qed.

(* Range::new panics exactly when the corners are not ordered componentwise (the documented
   precondition) or the rectangle has more than usize::MAX cells *)
Lemma new_panic_iff : forall s e : pos,
  new d s e = Panic <-> ~ (le2 s e /\ box_cells s e <= U64MAX).
Proof.
  intros [sr sc] [er ec]. unfold le2, box_cells. cbn [fst snd]. split.
  - intros Hp [[H1 H2] Hb].
    rewrite (@new_ok_usize (sr, sc) (er, ec)) in Hp; [discriminate|split; assumption|exact Hb].
  - intros Hn. unfold new, pos_le_lex, sub32. cbn [fst snd].
    destruct ((sr <? er) || ((sr =? er) && (sc <=? ec))) eqn:E0; [|reflexivity]. cbn [negb].
    destruct (sr <=? er) eqn:E1; [|reflexivity]. cbn [obind].
    destruct (sc <=? ec) eqn:E3; [|reflexivity]. cbn [obind]. cbv zeta.
    destruct (U64MAX <? (er - sr + 1) * (ec - sc + 1)) eqn:E5; [reflexivity|].
    exfalso. apply Hn. lia.
Qed.

Lemma new_spec_usize : forall (s e : pos),
    le2 s e -> box_cells s e <= U64MAX ->
    exists r, new d s e = Ok r /\ Wf r /\ rect r = Some (s, e) /\
      forall q, get_value r q = if in_box s e q then Some d else None.
Proof.
  intros s e Hle Hb. rewrite (new_ok_usize Hle Hb). eexists; split; [reflexivity|].
  destruct s as [sr sc], e as [er ec]. destruct Hle as [H1 H2]. unfold box_cells in *.
  cbn [fst snd] in *.
  assert (Hl : N.of_nat (length (repeat d (N.to_nat ((er - sr + 1) * (ec - sc + 1)))))
               = (er - sr + 1) * (ec - sc + 1)) by (rewrite repeat_length; lia).
  split; [apply Wf_mk; assumption|]. split; [apply rect_mk; assumption|].
  intro q. rewrite get_value_mk by assumption.
  destruct (in_box (sr, sc) (er, ec) q) eqn:Hq; [|reflexivity].
  apply nth_error_repeat. pose proof (@box_index_lt sr sc er ec q _ Hq Hl) as Hi.
  rewrite repeat_length in Hi. exact Hi.
Qed.

Lemma new_spec : forall (s e : pos),
    le2 s e -> box_cells s e <= U32MAX ->
    exists r, new d s e = Ok r /\ Wf r /\ rect r = Some (s, e) /\
      forall q, get_value r q = if in_box s e q then Some d else None.
Proof. intros s e Hle Hb. apply new_spec_usize; [assumption|apply U32_le_U64; assumption]. Qed.

(* the size of the allocation is the number of cells of the rectangle *)
Lemma new_requested : forall (s e : pos) r, new d s e = Ok r ->
  N.of_nat (length (r_inner r)) = requested_new s e /\ requested_new s e = box_cells s e.
Proof.
  intros s e r Hr. split; [|reflexivity].
  destruct (N.leb_spec (box_cells s e) U64MAX) as [Hb|Hb].
  - assert (Hle : le2 s e).
    { destruct s as [sr sc], e as [er ec]. unfold le2. cbn [fst snd].
      unfold new, pos_le_lex, sub32 in Hr. cbn [fst snd] in Hr.
      destruct ((sr <? er) || ((sr =? er) && (sc <=? ec))) eqn:E0; [|discriminate]. cbn [negb] in Hr.
      destruct (sr <=? er) eqn:E1; [|discriminate]. cbn [obind] in Hr.
      destruct (sc <=? ec) eqn:E3; [|discriminate]. lia. }
    rewrite (new_ok_usize Hle Hb) in Hr. injection Hr as <-. cbn [r_inner].
    rewrite repeat_length, N2Nat.id. reflexivity.
  - exfalso. assert (Hp : new d s e = Panic) by (apply new_panic_iff; intros [_ H]; lia).
    rewrite Hp in Hr. discriminate.
Qed.

End New.

(* ---------------------------------------------------------------------------------------- *)
(* Read accessors                                                                           *)
(* ---------------------------------------------------------------------------------------- *)
Section Accessors.
Variable T : Type.

Lemma enum_from_length : forall (l : list T) s, length (enum_from s l) = length l.
Proof. induction l as [|x l IH]; intros s; cbn [enum_from length]; [reflexivity|]. now rewrite IH. Qed.

Lemma enum_from_nth : forall (l : list T) s k,
  nth_error (enum_from s l) k = option_map (fun v => (s + N.of_nat k, v)) (nth_error l k).
Proof.
  induction l as [|x l IH]; intros s k; cbn [enum_from].
  - rewrite !nth_error_nil'. reflexivity.
  - destruct k as [|k]; cbn [nth_error option_map].
    + do 2 f_equal. lia.
    + rewrite IH. destruct (nth_error l k); cbn [option_map]; [|reflexivity]. do 2 f_equal. lia.
Qed.

Lemma get_ne_iff : forall (r : range T) rel, Wf r ->
  (get r rel <> None <-> (fst rel < height r /\ snd rel < width r)).
Proof.
  intros r [i j] HWf. cbn [fst snd]. rewrite get_char.
  destruct (is_empty r) eqn:Hemp.
  - rewrite (width_empty _ Hemp). destruct (j <? 0) eqn:E; [lia|]. cbn [andb]. split; [congruence|lia].
  - destruct (Wf_ne HWf Hemp) as (_ & _ & _ & _ & Hl).
    destruct (j <? width r) eqn:E1; destruct (i <? height r) eqn:E2; cbn [andb];
      try (split; [congruence|lia]).
    split; [intros _; lia|]. intros _. apply nth_error_Some. nia.
Qed.

Lemma accessors_agree_sec : forall (d : T) (teqb : T -> T -> bool) (r : range T),
    Wf r ->
    length (rows r) = N.to_nat (height r) /\
    Forall (fun row => length row = N.to_nat (width r)) (rows r) /\
    (forall i j, i < height r -> j < width r ->
       match nth_error (rows r) (N.to_nat i) with
       | Some row => nth_error row (N.to_nat j)
       | None => None
       end = get r (i, j) /\ get r (i, j) <> None) /\
    length (cells r) = N.to_nat (height r * width r) /\
    (forall i j, i < height r -> j < width r ->
       nth_error (cells r) (N.to_nat (i * width r + j)) =
       option_map (fun v => (i, j, v)) (get r (i, j))) /\
    used_cells d teqb r = filter (fun c => negb (teqb (snd c) d)) (cells r) /\
    (forall p, get_value r p =
       if in_rect r p then get r (fst p - fst (r_start r), snd p - snd (r_start r)) else None) /\
    (forall rel, index2 r rel = match get r rel with Some v => Ok v | None => Panic end) /\
    (forall rel, get r rel <> None <-> (fst rel < height r /\ snd rel < width r)) /\
    start r = option_map fst (rect r) /\ end_ r = option_map snd (rect r).
Proof.
  intros d teqb r HWf.
  assert (Hidx : forall rel, index2 r rel = match get r rel with Some v => Ok v | None => Panic end).
  { intros [i j]. unfold index2, get.
    destruct (j <? width r) eqn:E1; destruct (width r <=? j) eqn:E1'; try lia; cbn [andb orb]; auto.
    destruct (i <? height r) eqn:E2; destruct (height r <=? i) eqn:E2'; try lia; auto. }
  destruct (is_empty r) eqn:Hemp.
  - (* empty range *)
    pose proof (is_empty_true _ Hemp) as Hin.
    pose proof (width_empty _ Hemp) as Hw. pose proof (height_empty _ Hemp) as Hh.
    unfold used_cells, rows, cells, start, end_, in_rect, rect. rewrite Hemp, Hw, Hh, Hin.
    cbn [length enum_from map option_map].
    split; [reflexivity|]. split; [constructor|]. split; [intros; lia|].
    split; [reflexivity|]. split; [intros; lia|]. split; [reflexivity|].
    split; [intro p; apply get_value_empty; assumption|]. split; [exact Hidx|].
    split; [|split; reflexivity].
    intro rel. rewrite (get_ne_iff rel HWf), Hw, Hh. reflexivity.
  - (* non-empty range *)
    destruct (Wf_ne HWf Hemp) as (H1 & H2 & Hh & Hw & Hl).
    assert (HW0 : (0 < N.to_nat (width r))%nat) by lia.
    assert (Hl' : length (r_inner r) = (N.to_nat (height r) * N.to_nat (width r))%nat) by lia.
    unfold rows, used_cells, start, end_, in_rect, rect. rewrite Hemp.
    split; [apply chunks_length; assumption|].
    split; [apply chunks_Forall with (h := N.to_nat (height r)); assumption|].
    split.
    { intros i j Hi Hj. split.
      - rewrite (@chunks_cell _ (N.to_nat (height r))) by (assumption || lia).
        rewrite get_char. destruct (j <? width r) eqn:E1; [|lia].
        destruct (i <? height r) eqn:E2; [|lia]. reflexivity.
      - apply (get_ne_iff (i, j) HWf). cbn [fst snd]. split; assumption. }
    split.
    { unfold cells. rewrite map_length, enum_from_length. lia. }
    split.
    { intros i j Hi Hj. unfold cells. rewrite nth_error_map, enum_from_nth, get_char.
      destruct (j <? width r) eqn:E1; [|lia]. destruct (i <? height r) eqn:E2; [|lia].
      cbn [andb]. rewrite <- N2Nat.inj_mul, <- N2Nat.inj_add.
      destruct (nth_error (r_inner r) (N.to_nat (i * width r + j))) as [v|]; [|reflexivity].
      cbn [option_map fst snd]. rewrite N2Nat.id, N.add_0_l.
      assert (Hdiv : (i * width r + j) / width r = i)
        by (symmetry; apply N.div_unique with (r := j); lia).
      assert (Hmod : (i * width r + j) mod width r = j)
        by (symmetry; apply N.mod_unique with (q := i); lia).
      rewrite Hdiv, Hmod. reflexivity. }
    split; [reflexivity|].
    split; [intro p; apply get_value_char|].
    split; [exact Hidx|].
    split; [intro rel; apply get_ne_iff; assumption|].
    split; reflexivity.
Qed.

End Accessors.

Lemma accessors_agree :
  forall (T : Type) (d : T) (teqb : T -> T -> bool) (r : range T),
    Wf r ->
    length (rows r) = N.to_nat (height r) /\
    Forall (fun row => length row = N.to_nat (width r)) (rows r) /\
    (forall i j, i < height r -> j < width r ->
       match nth_error (rows r) (N.to_nat i) with
       | Some row => nth_error row (N.to_nat j)
       | None => None
       end = get r (i, j) /\ get r (i, j) <> None) /\
    length (cells r) = N.to_nat (height r * width r) /\
    (forall i j, i < height r -> j < width r ->
       nth_error (cells r) (N.to_nat (i * width r + j)) =
       option_map (fun v => (i, j, v)) (get r (i, j))) /\
    used_cells d teqb r = filter (fun c => negb (teqb (snd c) d)) (cells r) /\
    (forall p, get_value r p =
       if in_rect r p then get r (fst p - fst (r_start r), snd p - snd (r_start r)) else None) /\
    (forall rel, index2 r rel = match get r rel with Some v => Ok v | None => Panic end) /\
    (forall rel, get r rel <> None <-> (fst rel < height r /\ snd rel < width r)) /\
    start r = option_map fst (rect r) /\ end_ r = option_map snd (rect r).
Proof. intros T d teqb r. apply accessors_agree_sec. Qed.

(* ---------------------------------------------------------------------------------------- *)
(* Non-vacuity of the history theorem                                                       *)
(* ---------------------------------------------------------------------------------------- *)
Lemma history_nonvacuous :
  let ops := [ONew (1, 1) (2, 3); OSetValue (4, 5) 7; OSetValue (1, 1) 9;
              OWindow (0, 0) (3, 3); OFromSparse [((2, 3), 5); ((4, 1), 6)];
              OEmpty; OSetValue (3, 3) 1] in
  Wf (@empty N) /\ pre_all 0 (@empty N) ops /\
  exists r, run 0 (@empty N) ops = Ok r /\ r_inner r = [1].
Proof.
  cbv zeta. split; [left; reflexivity|]. split.
  - cbn [pre_all pre].
    split; [vm_compute; intuition discriminate|]. intros r1 E1. vm_compute in E1. injection E1 as <-.
    split; [vm_compute; intuition discriminate|]. intros r2 E2. vm_compute in E2. injection E2 as <-.
    split; [vm_compute; intuition discriminate|]. intros r3 E3. vm_compute in E3. injection E3 as <-.
    split; [vm_compute; intuition discriminate|]. intros r4 E4. vm_compute in E4. injection E4 as <-.
    split.
    { split; [vm_compute; intuition discriminate|]. split; [|vm_compute; intuition discriminate].
      intros c [<-|[<-|[]]]; vm_compute; intuition discriminate. }
    intros r5 E5. vm_compute in E5. injection E5 as <-.
    split; [exact I|]. intros r6 E6. vm_compute in E6. injection E6 as <-.
    split; [left; reflexivity|]. intros r7 E7. exact I.
  - eexists. split; vm_compute; reflexivity.
Qed.

(* ---------------------------------------------------------------------------------------- *)
(* Growing a rectangular vector (nat-indexed)                                               *)
(* ---------------------------------------------------------------------------------------- *)
Section GridExt.
Variable T : Type.
Variable d : T.

(* l1 is an H' x W' grid that agrees with the H x W grid l on the common cells and holds the
   default everywhere else *)
Definition grid_ext (l : list T) (H W : nat) (l1 : list T) (H' W' : nat) : Prop :=
  length l1 = (H' * W')%nat /\
  forall i j, (i < H')%nat -> (j < W')%nat ->
    nth_error l1 (i * W' + j) =
      if (i <? H)%nat && (j <? W)%nat then nth_error l (i * W + j) else Some d.

Lemma grid_ext_refl : forall (l : list T) H W, length l = (H * W)%nat -> grid_ext l H W l H W.
Proof.
  intros l H W Hl. split; [assumption|]. intros i j Hi Hj.
  destruct (Nat.ltb_spec i H); [|lia]. destruct (Nat.ltb_spec j W); [|lia]. reflexivity.
Qed.

Lemma grid_ext_rows : forall (l : list T) H W H', length l = (H * W)%nat -> (H <= H')%nat ->
  grid_ext l H W (l ++ repeat d ((H' - H) * W)) H' W.
Proof.
  intros l H W H' Hl HH. split; [rewrite app_length, repeat_length; nia|].
  intros i j Hi Hj. destruct (Nat.ltb_spec j W); [|lia]. rewrite andb_true_r.
  destruct (Nat.ltb_spec i H).
  - apply nth_error_app1. nia.
  - rewrite nth_error_app2 by nia. apply nth_error_repeat. nia.
Qed.

Lemma grid_ext_cols : forall (l : list T) H W H' W',
  (0 < W)%nat -> length l = (H * W)%nat -> (H <= H')%nat -> (W <= W')%nat ->
  grid_ext l H W
    (flat_map (fun row => row ++ repeat d (W' - W)) (chunks W l) ++ repeat d (W' * (H' - H)))
    H' W'.
Proof.
  intros l H W H' W' HW Hl HH HWW. rewrite flat_map_concat_map.
  set (pad := fun row : list T => row ++ repeat d (W' - W)).
  assert (HF : Forall (fun row => length row = W') (map pad (chunks W l))).
  { apply Forall_map. eapply Forall_impl; [|apply chunks_Forall with (h := H); assumption].
    intros row Hr. unfold pad. cbv beta in *. rewrite app_length, repeat_length. lia. }
  assert (Hlen : length (concat (map pad (chunks W l))) = (H * W')%nat).
  { rewrite (@concat_rect_length T W' _ HF), map_length, (@chunks_length T H W l HW Hl). reflexivity. }
  split; [rewrite app_length, repeat_length, Hlen; nia|].
  intros i j Hi Hj. destruct (Nat.ltb_spec i H) as [HiH|HiH]; cbn [andb].
  - rewrite nth_error_app1 by (rewrite Hlen; nia).
    rewrite (@concat_rect_nth T W' _ i j HF Hj), nth_error_map, (@chunks_nth T H W l i HW Hl).
    destruct (Nat.ltb_spec i H); [|lia]. cbn [option_map]. unfold pad.
    assert (Hrow : length (firstn W (skipn (i * W) l)) = W)
      by (rewrite firstn_length, skipn_length; nia).
    destruct (Nat.ltb_spec j W).
    + rewrite nth_error_app1 by lia. apply chunk_nth. assumption.
    + rewrite nth_error_app2 by lia. apply nth_error_repeat. lia.
  - rewrite nth_error_app2 by (rewrite Hlen; nia). apply nth_error_repeat. rewrite Hlen. nia.
Qed.

End GridExt.

(* ---------------------------------------------------------------------------------------- *)
(* Range::set_value                                                                         *)
(* ---------------------------------------------------------------------------------------- *)
Section SetValue.
Variable T : Type.
Variable d : T.

(* the last statements of set_value, after the vector has been grown to r1 *)
Definition sv_finish (sr sc pr pc : N) (v : T) (r1 : range T) : outcome (range T) :=
  let idx := (pr - sr) * width r1 + (pc - sc) in
  if idx <? N.of_nat (length (r_inner r1))
  then Ok (mkRange (r_start r1) (r_end r1) (list_set (r_inner r1) (N.to_nat idx) v))
  else Panic.

Lemma pos_eqb_true : forall a b : pos, pos_eqb a b = true <-> a = b.
Proof.
  intros [a1 a2] [b1 b2]. unfold pos_eqb. cbn [fst snd]. split.
  - intro H. f_equal; lia.
  - intro H. injection H as -> ->. lia.
Qed.

Lemma flat_index_inj : forall W a b a' b' : N,
  b < W -> b' < W -> a * W + b = a' * W + b' -> a = a' /\ b = b'.
Proof. intros W a b a' b' Hb Hb' H. destruct (N.lt_trichotomy a a') as [Ha|[Ha|Ha]]; nia. Qed.

Lemma sv_finish_spec : forall sr sc er ec (l : list T) pr pc v er' ec' l1,
  sr <= er -> sc <= ec ->
  N.of_nat (length l) = (er - sr + 1) * (ec - sc + 1) ->
  sr <= pr -> sc <= pc -> er' = N.max er pr -> ec' = N.max ec pc ->
  grid_ext d l (N.to_nat (er - sr + 1)) (N.to_nat (ec - sc + 1))
           l1 (N.to_nat (er' - sr + 1)) (N.to_nat (ec' - sc + 1)) ->
  exists r', sv_finish sr sc pr pc v (mkRange (sr, sc) (er', ec') l1) = Ok r' /\ Wf r' /\
    rect r' = Some (bbox (rect (mkRange (sr, sc) (er, ec) l)) (pr, pc)) /\
    forall q, get_value r' q =
      if pos_eqb q (pr, pc) then Some v
      else if in_rect r' q then Some (cell_or d (mkRange (sr, sc) (er, ec) l) q) else None.
Proof.
  intros sr sc er ec l pr pc v er' ec' l1 H1 H2 Hl Hp1 Hp2 Her Hec [Hl1 Hnth].
  assert (H1' : sr <= er') by lia. assert (H2' : sc <= ec') by lia.
  assert (Hl1' : N.of_nat (length l1) = (er' - sr + 1) * (ec' - sc + 1)) by lia.
  unfold sv_finish. cbn [r_start r_end r_inner].
  assert (Hw1 : width (mkRange (sr, sc) (er', ec') l1) = ec' - sc + 1).
  { unfold width. rewrite (ne_mk _ _ _ _ _ Hl1'). reflexivity. }
  rewrite Hw1.
  destruct (_ <? N.of_nat (length l1)) eqn:Eidx; [|nia].
  eexists; split; [reflexivity|].
  set (idx := (pr - sr) * (ec' - sc + 1) + (pc - sc)) in *.
  assert (Hl2 : N.of_nat (length (list_set l1 (N.to_nat idx) v)) = (er' - sr + 1) * (ec' - sc + 1))
    by (rewrite list_set_length; assumption).
  split; [apply Wf_mk; assumption|].
  split.
  { rewrite !rect_mk by assumption. unfold bbox. cbn [fst snd].
    rewrite (N.min_l sr pr), (N.min_l sc pc) by assumption. subst er' ec'. reflexivity. }
  intro q. unfold in_rect. rewrite (rect_mk _ _ _ _ _ Hl2).
  rewrite (@get_value_mk T sr sc er' ec' _ q H1' H2' Hl2).
  destruct (pos_eqb q (pr, pc)) eqn:Eq.
  - apply pos_eqb_true in Eq. subst q. cbn [fst snd].
    destruct (in_box (sr, sc) (er', ec') (pr, pc)) eqn:Eb; [|unfold in_box in Eb; cbn [fst snd] in Eb; lia].
    replace (N.to_nat (pr - sr) * N.to_nat (ec' - sc + 1) + N.to_nat (pc - sc))%nat
      with (N.to_nat idx) by (unfold idx; lia).
    apply nth_error_list_set_eq. lia.
  - destruct (in_box (sr, sc) (er', ec') q) eqn:Eb; [|reflexivity].
    destruct q as [qr qc]. cbn [fst snd].
    assert (Hq : sr <= qr /\ qr <= er' /\ sc <= qc /\ qc <= ec')
      by (unfold in_box in Eb; cbn [fst snd] in Eb; lia).
    assert (Hne : ~ (qr = pr /\ qc = pc)).
    { intros [-> ->]. assert (pos_eqb (pr, pc) (pr, pc) = true) by (apply pos_eqb_true; reflexivity).
      congruence. }
    rewrite nth_error_list_set_neq.
    2:{ unfold idx. intro Hc.
        assert (Hc' : (pr - sr) * (ec' - sc + 1) + (pc - sc) = (qr - sr) * (ec' - sc + 1) + (qc - sc)) by lia.
        apply flat_index_inj in Hc'; lia. }
    rewrite Hnth by lia.
    unfold cell_or. rewrite (@get_value_mk T sr sc er ec l (qr, qc) H1 H2 Hl). cbn [fst snd].
    destruct (in_box (sr, sc) (er, ec) (qr, qc)) eqn:Eb0.
    + assert (Hq0 : qr <= er /\ qc <= ec) by (unfold in_box in Eb0; cbn [fst snd] in Eb0; lia).
      destruct (Nat.ltb_spec (N.to_nat (qr - sr)) (N.to_nat (er - sr + 1))); [|lia].
      destruct (Nat.ltb_spec (N.to_nat (qc - sc)) (N.to_nat (ec - sc + 1))); [|lia].
      cbn [andb].
      destruct (nth_error l _) as [x|] eqn:En; [reflexivity|].
      apply nth_error_None in En.
      pose proof (@box_index_lt sr sc er ec (qr, qc) _ Eb0 Hl) as Hlt. cbn [fst snd] in Hlt. lia.
    + assert (Hq0 : ~ (qr <= er /\ qc <= ec)) by (unfold in_box in Eb0; cbn [fst snd] in Eb0; lia).
      destruct (Nat.ltb_spec (N.to_nat (qr - sr)) (N.to_nat (er - sr + 1)));
      destruct (Nat.ltb_spec (N.to_nat (qc - sc)) (N.to_nat (ec - sc + 1))); cbn [andb];
        try reflexivity. lia.
Qed.

Lemma set_value_spec_sec : forall (r : range T) (p : pos) (v : T),
    Wf r -> pre r (OSetValue p v) ->
    exists r', set_value d r p v = Ok r' /\ Wf r' /\
      rect r' = Some (bbox (rect r) p) /\
      forall q, get_value r' q =
        if pos_eqb q p then Some v
        else if in_rect r' q then Some (cell_or d r q) else None.
Proof.
  intros r p v HWf Hpre. cbn [pre] in Hpre.
  destruct (is_empty r) eqn:Hemp.
  - (* empty range: the result is the single cell *)
    destruct r as [[sr sc] [er ec] l], p as [pr pc]. unfold set_value. cbn [r_start r_end].
    rewrite Hemp. eexists; split; [reflexivity|].
    assert (Hl : N.of_nat (length [v]) = (pr - pr + 1) * (pc - pc + 1)) by (cbn [length]; nia).
    split; [apply Wf_mk; (lia || assumption)|].
    split; [rewrite rect_mk by assumption; unfold rect; rewrite Hemp; reflexivity|].
    intro q. unfold in_rect. rewrite rect_mk by assumption.
    rewrite (@get_value_mk T pr pc pr pc [v] q (N.le_refl _) (N.le_refl _) Hl).
    destruct (pos_eqb q (pr, pc)) eqn:Eq.
    + apply pos_eqb_true in Eq. subst q. cbn [fst snd].
      destruct (in_box (pr, pc) (pr, pc) (pr, pc)) eqn:Eb;
        [|unfold in_box in Eb; cbn [fst snd] in Eb; lia].
      replace (N.to_nat (pr - pr) * N.to_nat (pc - pc + 1) + N.to_nat (pc - pc))%nat with 0%nat by lia.
      reflexivity.
    + destruct (in_box (pr, pc) (pr, pc) q) eqn:Eb; [|reflexivity].
      destruct q as [qr qc]. unfold in_box in Eb. cbn [fst snd] in Eb.
      assert (Hq : (qr, qc) = (pr, pc)) by (f_equal; lia).
      apply pos_eqb_true in Hq. congruence.
  - (* non-empty range *)
    destruct Hpre as [Hpre|(Hle & Hb1 & Hb2)]; [congruence|].
    destruct (Wf_ne HWf Hemp) as (H1 & H2 & Hh & Hw & Hl).
    destruct r as [[sr sc] [er ec] l], p as [pr pc]. destruct Hle as [Hle1 Hle2].
    cbn [r_start r_end r_inner fst snd] in *.
    rewrite Hh, Hw in Hl.
    unfold set_value. cbn [r_start r_end r_inner]. rewrite Hemp, Hh, Hw.
    destruct ((sr <=? pr) && (sc <=? pc)) eqn:E0; [|lia]. cbn [negb].
    destruct (er <? pr) eqn:Er; destruct (ec <? pc) eqn:Ec.
    + (* more rows and more columns *)
      unfold add32. destruct (pr - sr + 1 <=? U32MAX) eqn:Ea; [|lia]. cbn [obind].
      destruct (pc - sc + 1 <=? U32MAX) eqn:Eb; [|lia]. cbn [obind].
      destruct (ec - sc + 1 =? 0) eqn:Ez; [lia|]. cbn [obind].
      apply (@sv_finish_spec sr sc er ec l pr pc v pr pc); try assumption; try lia.
      replace (N.to_nat (pc - sc + 1 - (ec - sc + 1)))
        with (N.to_nat (pc - sc + 1) - N.to_nat (ec - sc + 1))%nat by lia.
      replace (N.to_nat ((pc - sc + 1) * (pr - sr + 1 - (er - sr + 1))))
        with (N.to_nat (pc - sc + 1) * (N.to_nat (pr - sr + 1) - N.to_nat (er - sr + 1)))%nat by nia.
      apply grid_ext_cols; lia.
    + (* more rows *)
      cbn [obind].
      apply (@sv_finish_spec sr sc er ec l pr pc v pr ec); try assumption; try lia.
      replace (N.to_nat ((pr - er) * (ec - sc + 1)))
        with ((N.to_nat (pr - sr + 1) - N.to_nat (er - sr + 1)) * N.to_nat (ec - sc + 1))%nat by nia.
      apply grid_ext_rows; lia.
    + (* more columns *)
      cbn [obind]. unfold add32.
      destruct (pc - sc + 1 <=? U32MAX) eqn:Eb; [|lia]. cbn [obind].
      destruct (ec - sc + 1 =? 0) eqn:Ez; [lia|]. cbn [obind].
      apply (@sv_finish_spec sr sc er ec l pr pc v er pc); try assumption; try lia.
      replace (N.to_nat (pc - sc + 1 - (ec - sc + 1)))
        with (N.to_nat (pc - sc + 1) - N.to_nat (ec - sc + 1))%nat by lia.
      replace (N.to_nat ((pc - sc + 1) * (er - sr + 1 - (er - sr + 1))))
        with (N.to_nat (pc - sc + 1) * (N.to_nat (er - sr + 1) - N.to_nat (er - sr + 1)))%nat by nia.
      apply grid_ext_cols; lia.
    + (* inside the rectangle *)
      cbn [obind].
      apply (@sv_finish_spec sr sc er ec l pr pc v er ec); try assumption; try lia.
      apply grid_ext_refl. lia.
Qed.

End SetValue.

Lemma set_value_spec :
  forall (T : Type) (d : T) (r : range T) (p : pos) (v : T),
    Wf r -> pre r (OSetValue p v) ->
    exists r', set_value d r p v = Ok r' /\ Wf r' /\
      rect r' = Some (bbox (rect r) p) /\
      forall q, get_value r' q =
        if pos_eqb q p then Some v
        else if in_rect r' q then Some (cell_or d r q) else None.
Proof. intros T d. apply set_value_spec_sec. Qed.

(* ---------------------------------------------------------------------------------------- *)
(* Copying a window of one grid over another (nat-indexed)                                  *)
(* ---------------------------------------------------------------------------------------- *)
Section CopyRows.
Variable T : Type.
Variable d : T.

Lemma copy_cols_ok : forall (src dst : list T) sc0 sc1 dc0 dc1,
  (sc1 <= length src)%nat -> (sc0 <= sc1)%nat -> (dc1 <= length dst)%nat -> (dc0 <= dc1)%nat ->
  (sc1 - sc0 = dc1 - dc0)%nat ->
  copy_cols src dst sc0 sc1 dc0 dc1 =
    Ok (firstn dc0 dst ++ firstn (sc1 - sc0) (skipn sc0 src) ++ skipn dc1 dst).
Proof.
  intros src dst sc0 sc1 dc0 dc1 H1 H2 H3 H4 H5. unfold copy_cols.
  destruct (Nat.ltb_spec (length src) sc1); [lia|].
  destruct (Nat.ltb_spec sc1 sc0); [lia|].
  destruct (Nat.ltb_spec (length dst) dc1); [lia|].
  destruct (Nat.ltb_spec dc1 dc0); [lia|].
  destruct (Nat.eqb_spec (sc1 - sc0) (dc1 - dc0)); [|lia]. reflexivity.
Qed.

Lemma copied_length : forall (src dst : list T) sc0 sc1 dc0 dc1,
  (sc1 <= length src)%nat -> (sc0 <= sc1)%nat -> (dc1 <= length dst)%nat -> (dc0 <= dc1)%nat ->
  (sc1 - sc0 = dc1 - dc0)%nat ->
  length (firstn dc0 dst ++ firstn (sc1 - sc0) (skipn sc0 src) ++ skipn dc1 dst) = length dst.
Proof.
  intros. rewrite !app_length, !firstn_length, !skipn_length. lia.
Qed.

Lemma copied_nth : forall (src dst : list T) sc0 sc1 dc0 dc1 j,
  (sc1 <= length src)%nat -> (sc0 <= sc1)%nat -> (dc1 <= length dst)%nat -> (dc0 <= dc1)%nat ->
  (sc1 - sc0 = dc1 - dc0)%nat ->
  nth_error (firstn dc0 dst ++ firstn (sc1 - sc0) (skipn sc0 src) ++ skipn dc1 dst) j =
    if (dc0 <=? j)%nat && (j <? dc1)%nat then nth_error src (j - dc0 + sc0) else nth_error dst j.
Proof.
  intros src dst sc0 sc1 dc0 dc1 j H1 H2 H3 H4 H5.
  assert (L1 : length (firstn dc0 dst) = dc0) by (rewrite firstn_length; lia).
  assert (L2 : length (firstn (sc1 - sc0) (skipn sc0 src)) = (sc1 - sc0)%nat)
    by (rewrite firstn_length, skipn_length; lia).
  destruct (Nat.leb_spec dc0 j) as [Hj|Hj]; cbn [andb].
  - rewrite nth_error_app2 by lia. rewrite L1.
    destruct (Nat.ltb_spec j dc1) as [Hj'|Hj'].
    + rewrite nth_error_app1 by lia. rewrite nth_error_firstn_lt by lia.
      rewrite nth_error_skipn_add. f_equal. lia.
    + rewrite nth_error_app2 by lia. rewrite L2, nth_error_skipn_add. f_equal. lia.
  - rewrite nth_error_app1 by lia. apply nth_error_firstn_lt. lia.
Qed.

Lemma copy_rows_ok : forall sc0 sc1 dc0 dc1 (src dst : list (list T)),
  (sc0 <= sc1)%nat -> (dc0 <= dc1)%nat -> (sc1 - sc0 = dc1 - dc0)%nat ->
  Forall (fun s => sc1 <= length s)%nat src -> Forall (fun t => dc1 <= length t)%nat dst ->
  exists mid, copy_rows src dst sc0 sc1 dc0 dc1 = Ok mid /\
    length mid = length dst /\
    forall i, nth_error mid i =
      match nth_error dst i with
      | None => None
      | Some t =>
          match nth_error src i with
          | Some s => Some (firstn dc0 t ++ firstn (sc1 - sc0) (skipn sc0 s) ++ skipn dc1 t)
          | None => Some t
          end
      end.
Proof.
  intros sc0 sc1 dc0 dc1 src. induction src as [|s src IH]; intros dst H1 H2 H3 HS HD.
  - exists dst. split; [destruct dst; reflexivity|]. split; [reflexivity|].
    intro i. rewrite nth_error_nil'. destruct (nth_error dst i); reflexivity.
  - destruct dst as [|t dst].
    + exists []. split; [reflexivity|]. split; [reflexivity|]. intro i. rewrite !nth_error_nil'. reflexivity.
    + inversion HS as [|? ? Hs HS']; subst. inversion HD as [|? ? Ht HD']; subst.
      destruct (IH dst H1 H2 H3 HS' HD') as (mid & Hmid & Hlen & Hnth).
      cbn [copy_rows]. rewrite copy_cols_ok by assumption. cbn [obind]. rewrite Hmid. cbn [obind].
      eexists; split; [reflexivity|]. split; [cbn [length]; congruence|].
      intros [|i]; cbn [nth_error]; [reflexivity|apply Hnth].
Qed.

(* the whole data flow of Range::range on rectangular vectors *)
Lemma window_nat : forall (l ol : list T) SH SW OH OW srs sre sc0 sc1 ors ore dc0 dc1,
  (0 < SW)%nat -> (0 < OW)%nat -> length l = (SH * SW)%nat -> length ol = (OH * OW)%nat ->
  (forall n, n < OH * OW -> nth_error ol n = Some d)%nat ->
  (srs <= sre)%nat -> (sre <= SH)%nat -> (sc0 <= sc1)%nat -> (sc1 <= SW)%nat ->
  (ors <= ore)%nat -> (ore <= OH)%nat -> (dc0 <= dc1)%nat -> (dc1 <= OW)%nat ->
  (sre - srs = ore - ors)%nat -> (sc1 - sc0 = dc1 - dc0)%nat ->
  exists mid,
    copy_rows (skipn srs (firstn sre (chunks SW l))) (skipn ors (firstn ore (chunks OW ol)))
              sc0 sc1 dc0 dc1 = Ok mid /\
    length (concat (firstn ors (chunks OW ol) ++ mid ++ skipn ore (chunks OW ol))) = (OH * OW)%nat /\
    forall i j, (i < OH)%nat -> (j < OW)%nat ->
      nth_error (concat (firstn ors (chunks OW ol) ++ mid ++ skipn ore (chunks OW ol))) (i * OW + j) =
        if (ors <=? i)%nat && (i <? ore)%nat && (dc0 <=? j)%nat && (j <? dc1)%nat
        then nth_error l ((i - ors + srs) * SW + (j - dc0 + sc0))
        else Some d.
Proof.
  intros l ol SH SW OH OW srs sre sc0 sc1 ors ore dc0 dc1
         HSW HOW Hl Hol Hd Hs1 Hs2 Hc1 Hc2 Ho1 Ho2 Hd1 Hd2 Hrows Hcols.
  set (sall := chunks SW l). set (oall := chunks OW ol).
  assert (LS : length sall = SH) by (apply chunks_length; assumption).
  assert (LO : length oall = OH) by (apply chunks_length; assumption).
  assert (FS : Forall (fun row => length row = SW) sall) by (apply chunks_Forall with (h := SH); assumption).
  assert (FO : Forall (fun row => length row = OW) oall) by (apply chunks_Forall with (h := OH); assumption).
  assert (NS : forall i, (i < SH)%nat -> nth_error sall i = Some (firstn SW (skipn (i * SW) l))).
  { intros i Hi. unfold sall. rewrite (@chunks_nth T SH SW l i HSW Hl).
    destruct (Nat.ltb_spec i SH); [reflexivity|lia]. }
  assert (NO : forall i, (i < OH)%nat -> nth_error oall i = Some (firstn OW (skipn (i * OW) ol))).
  { intros i Hi. unfold oall. rewrite (@chunks_nth T OH OW ol i HOW Hol).
    destruct (Nat.ltb_spec i OH); [reflexivity|lia]. }
  assert (DO : forall i j, (i < OH)%nat -> (j < OW)%nat ->
             nth_error (firstn OW (skipn (i * OW) ol)) j = Some d).
  { intros i j Hi Hj. rewrite chunk_nth by assumption. apply Hd. nia. }
  assert (LOrow : forall i, (i < OH)%nat -> length (firstn OW (skipn (i * OW) ol)) = OW).
  { intros i Hi. rewrite firstn_length, skipn_length. nia. }
  assert (LSrow : forall i, (i < SH)%nat -> length (firstn SW (skipn (i * SW) l)) = SW).
  { intros i Hi. rewrite firstn_length, skipn_length. nia. }
  set (src := skipn srs (firstn sre sall)). set (dst := skipn ors (firstn ore oall)).
  assert (Ldst : length dst = (ore - ors)%nat)
    by (unfold dst; rewrite skipn_length, firstn_length; lia).
  assert (Nsrc : forall k, (k < sre - srs)%nat ->
            nth_error src k = Some (firstn SW (skipn ((srs + k) * SW) l))).
  { intros k Hk. unfold src. rewrite nth_error_skipn_add, nth_error_firstn_lt by lia.
    apply NS. lia. }
  assert (Ndst : forall k, (k < ore - ors)%nat ->
            nth_error dst k = Some (firstn OW (skipn ((ors + k) * OW) ol))).
  { intros k Hk. unfold dst. rewrite nth_error_skipn_add, nth_error_firstn_lt by lia.
    apply NO. lia. }
  assert (Fsrc : Forall (fun s => sc1 <= length s)%nat src).
  { unfold src. apply Forall_skipn', Forall_firstn'. eapply Forall_impl; [|exact FS].
    cbv beta. intros row Hr. lia. }
  assert (Fdst : Forall (fun t => dc1 <= length t)%nat dst).
  { unfold dst. apply Forall_skipn', Forall_firstn'. eapply Forall_impl; [|exact FO].
    cbv beta. intros row Hr. lia. }
  destruct (@copy_rows_ok sc0 sc1 dc0 dc1 src dst Hc1 Hd1 Hcols Fsrc Fdst) as (mid & Hmid & Lmid & Nmid).
  exists mid. split; [exact Hmid|].
  (* rows of the result *)
  assert (Nmid' : forall k, (k < ore - ors)%nat ->
            nth_error mid k = Some (firstn dc0 (firstn OW (skipn ((ors + k) * OW) ol))
                                    ++ firstn (sc1 - sc0) (skipn sc0 (firstn SW (skipn ((srs + k) * SW) l)))
                                    ++ skipn dc1 (firstn OW (skipn ((ors + k) * OW) ol)))).
  { intros k Hk. rewrite Nmid, Ndst, Nsrc by lia. reflexivity. }
  set (out := firstn ors oall ++ mid ++ skipn ore oall).
  assert (Lhead : length (firstn ors oall) = ors) by (rewrite firstn_length; lia).
  assert (Nout : forall i, (i < OH)%nat ->
            nth_error out i =
              if (ors <=? i)%nat && (i <? ore)%nat then nth_error mid (i - ors) else nth_error oall i).
  { intros i Hi. unfold out.
    destruct (Nat.leb_spec ors i) as [H1|H1]; cbn [andb].
    - rewrite nth_error_app2 by lia. rewrite Lhead.
      destruct (Nat.ltb_spec i ore) as [H2|H2].
      + apply nth_error_app1. lia.
      + rewrite nth_error_app2 by lia. rewrite Lmid, Ldst, nth_error_skipn_add. f_equal. lia.
    - rewrite nth_error_app1 by lia. apply nth_error_firstn_lt. lia. }
  assert (Fout : Forall (fun row => length row = OW) out).
  { apply Forall_forall. intros row Hin. apply In_nth_error in Hin. destruct Hin as [i Hi].
    assert (HiOH : (i < OH)%nat).
    { assert (Hlt : (i < length out)%nat) by (apply nth_error_Some; congruence).
      unfold out in Hlt. rewrite !app_length, Lhead, Lmid, Ldst, skipn_length in Hlt. lia. }
    rewrite (Nout i HiOH) in Hi.
    destruct (Nat.leb_spec ors i) as [H1|H1]; destruct (Nat.ltb_spec i ore) as [H2|H2]; cbn [andb] in Hi.
    - rewrite Nmid' in Hi by lia. injection Hi as <-.
      rewrite copied_length; rewrite ?LOrow, ?LSrow by lia; lia.
    - rewrite NO in Hi by lia. injection Hi as <-. apply LOrow. lia.
    - rewrite NO in Hi by lia. injection Hi as <-. apply LOrow. lia.
    - rewrite NO in Hi by lia. injection Hi as <-. apply LOrow. lia. }
  assert (Lout : length out = OH).
  { unfold out. rewrite !app_length, Lhead, Lmid, Ldst, skipn_length. lia. }
  split; [rewrite (@concat_rect_length T OW out Fout), Lout; reflexivity|].
  intros i j Hi Hj. rewrite (@concat_rect_nth T OW out i j Fout Hj), (Nout i Hi).
  destruct (Nat.leb_spec ors i) as [H1|H1]; destruct (Nat.ltb_spec i ore) as [H2|H2]; cbn [andb];
    try (rewrite NO by lia; apply DO; assumption).
  rewrite Nmid' by lia.
  rewrite copied_nth; rewrite ?LOrow, ?LSrow by lia; try lia.
  destruct (Nat.leb_spec dc0 j) as [H3|H3]; destruct (Nat.ltb_spec j dc1) as [H4|H4]; cbn [andb];
    try (apply DO; lia).
  rewrite chunk_nth by lia. f_equal. nia.
Qed.

End CopyRows.


(* ---------------------------------------------------------------------------------------- *)
(* Range::range (window)                                                                    *)
(* ---------------------------------------------------------------------------------------- *)
Section Window.
Variable T : Type.
Variable d : T.

Lemma cell_or_empty : forall (r : range T) q, is_empty r = true -> cell_or d r q = d.
Proof. intros r q H. unfold cell_or. rewrite get_value_empty by assumption. reflexivity. Qed.

Lemma cell_or_mk : forall sr sc er ec (l : list T) q, sr <= er -> sc <= ec ->
  N.of_nat (length l) = (er - sr + 1) * (ec - sc + 1) ->
  Some (cell_or d (mkRange (sr, sc) (er, ec) l) q) =
    if in_box (sr, sc) (er, ec) q
    then nth_error l (N.to_nat (fst q - sr) * N.to_nat (ec - sc + 1) + N.to_nat (snd q - sc))%nat
    else Some d.
Proof.
  intros sr sc er ec l q H1 H2 Hl. unfold cell_or.
  rewrite (@get_value_mk T sr sc er ec l q H1 H2 Hl).
  destruct (in_box (sr, sc) (er, ec) q) eqn:Eb; [|reflexivity].
  destruct (nth_error l _) as [x|] eqn:En; [reflexivity|].
  apply nth_error_None in En. pose proof (@box_index_lt sr sc er ec q _ Eb Hl). lia.
Qed.

Lemma window_spec_usize_sec : forall (r : range T) (s e : pos),
    Wf r -> le2 s e -> box_cells s e <= U64MAX ->
    exists w, window d r s e = Ok w /\ Wf w /\ rect w = Some (s, e) /\
      forall q, get_value w q = if in_box s e q then Some (cell_or d r q) else None.
Proof.
  intros r s e HWf Hle Hb.
  destruct (new_spec_usize d Hle Hb) as (other & Hnew & HWfo & Hrecto & Hgeto).
  rewrite (new_ok_usize d Hle Hb) in Hnew. injection Hnew as Hother.
  unfold window. rewrite (new_ok_usize d Hle Hb). cbn [obind]. rewrite Hother.
  destruct r as [[ssr ssc] [ser sec] l], s as [osr osc], e as [oer oec]. cbn [r_start r_end].
  destruct (is_empty (mkRange (ssr, ssc) (ser, sec) l)) eqn:Hemp.
  { (* empty source *)
    exists other. split; [reflexivity|]. split; [assumption|]. split; [assumption|].
    intro q. rewrite Hgeto, cell_or_empty by assumption. reflexivity. }
  destruct (Wf_ne HWf Hemp) as (H1 & H2 & Hh & Hw & Hl).
  cbn [r_start r_end r_inner fst snd] in H1, H2, Hh, Hw, Hl. rewrite Hh, Hw in Hl.
  cbv zeta.
  destruct ((N.min ser oer <? N.max ssr osr) || (N.min sec oec <? N.max ssc osc)) eqn:Eov.
  { (* no overlap *)
    exists other. split; [reflexivity|]. split; [assumption|]. split; [assumption|].
    intro q. rewrite Hgeto. destruct (in_box (osr, osc) (oer, oec) q) eqn:Eb; [|reflexivity].
    rewrite (@cell_or_mk ssr ssc ser sec l q H1 H2 Hl).
    destruct (in_box (ssr, ssc) (ser, sec) q) eqn:Eb'; [|reflexivity].
    unfold in_box in Eb, Eb'. cbn [fst snd] in Eb, Eb'. lia. }
  (* overlap *)
  destruct Hle as [Hle1 Hle2]. unfold box_cells in Hb. cbn [fst snd] in Hle1, Hle2, Hb.
  assert (Hlo : length (r_inner other) = (N.to_nat (oer - osr + 1) * N.to_nat (oec - osc + 1))%nat).
  { rewrite <- Hother. cbn [r_inner]. unfold box_cells. cbn [fst snd].
    rewrite repeat_length. apply N2Nat.inj_mul. }
  assert (Hwo : width other = oec - osc + 1).
  { rewrite <- Hother. unfold width. rewrite ne_mk; [reflexivity|].
    unfold box_cells. cbn [fst snd]. rewrite repeat_length. clear. lia. }
  assert (Hd : forall n, (n < N.to_nat (oer - osr + 1) * N.to_nat (oec - osc + 1))%nat ->
                 nth_error (r_inner other) n = Some d).
  { intros n Hn. rewrite <- Hother. cbn [r_inner]. apply nth_error_repeat.
    unfold box_cells. cbn [fst snd]. rewrite N2Nat.inj_mul. exact Hn. }
  assert (Hl' : length l = (N.to_nat (ser - ssr + 1) * N.to_nat (sec - ssc + 1))%nat)
    by (rewrite <- N2Nat.inj_mul, <- Hl, Nat2N.id; reflexivity).
  rewrite Hw, Hwo.
  destruct (sec - ssc + 1 =? 0) eqn:Ez1; [clear - Ez1; lia|].
  destruct (oec - osc + 1 =? 0) eqn:Ez2; [clear - Ez2; lia|].
  unfold firstn_skipn_rows. cbn [r_inner].
  (* abstract the corners of the overlap: only their order properties matter *)
  assert (Hov : (ssr <= N.max ssr osr /\ osr <= N.max ssr osr /\
                 N.min ser oer <= ser /\ N.min ser oer <= oer /\ N.max ssr osr <= N.min ser oer) /\
                (ssc <= N.max ssc osc /\ osc <= N.max ssc osc /\
                 N.min sec oec <= sec /\ N.min sec oec <= oec /\ N.max ssc osc <= N.min sec oec))
    by (clear - Eov; lia).
  assert (Hlub : forall qr qc : N,
            (ssr <= qr -> osr <= qr -> N.max ssr osr <= qr) /\
            (qr <= ser -> qr <= oer -> qr <= N.min ser oer) /\
            (ssc <= qc -> osc <= qc -> N.max ssc osc <= qc) /\
            (qc <= sec -> qc <= oec -> qc <= N.min sec oec))
    by (clear; intros; lia).
  clear Eov HWf Hemp Hh Hw Hgeto HWfo Hrecto Hwo Ez1 Ez2 Hb Hother.
  revert Hov Hlub.
  generalize (N.max ssr osr) (N.min ser oer) (N.max ssc osc) (N.min sec oec).
  intros r0 r1 c0 c1 Hov Hlub.
  destruct (@window_nat T d l (r_inner other)
              (N.to_nat (ser - ssr + 1)) (N.to_nat (sec - ssc + 1))
              (N.to_nat (oer - osr + 1)) (N.to_nat (oec - osc + 1))
              (N.to_nat (r0 - ssr)) (N.to_nat (r1 + 1 - ssr))
              (N.to_nat (c0 - ssc)) (N.to_nat (c1 + 1 - ssc))
              (N.to_nat (r0 - osr)) (N.to_nat (r1 + 1 - osr))
              (N.to_nat (c0 - osc)) (N.to_nat (c1 + 1 - osc)))
    as (mid & Hmid & Hlen & Hnth); try assumption;
    try (clear - H1 H2 Hle1 Hle2 Hov; lia).
  rewrite Hmid. cbn [obind]. eexists; split; [reflexivity|].
  match goal with |- Wf (mkRange _ _ ?out) /\ _ => set (outl := out) in * end.
  assert (Hlout : N.of_nat (length outl) = (oer - osr + 1) * (oec - osc + 1))
    by (rewrite Hlen, Nat2N.inj_mul, !N2Nat.id; reflexivity).
  clearbody outl. clear Hmid Hlen Hlo Hd Hl'.
  split; [apply Wf_mk; assumption|]. split; [apply rect_mk; assumption|].
  intro q. rewrite (@get_value_mk T osr osc oer oec outl q Hle1 Hle2 Hlout).
  destruct (in_box (osr, osc) (oer, oec) q) eqn:Eb; [|reflexivity].
  destruct q as [qr qc]. cbn [fst snd].
  assert (Hq : osr <= qr /\ qr <= oer /\ osc <= qc /\ qc <= oec)
    by (clear - Eb; unfold in_box in Eb; cbn [fst snd] in Eb; lia).
  rewrite Hnth by (clear - Hq; lia).
  rewrite (@cell_or_mk ssr ssc ser sec l (qr, qc) H1 H2 Hl). cbn [fst snd].
  specialize (Hlub qr qc).
  destruct (in_box (ssr, ssc) (ser, sec) (qr, qc)) eqn:Eb'; unfold in_box in Eb'; cbn [fst snd] in Eb';
    clear - Hq Eb' Hlub Hov.
  - destruct (Nat.leb_spec (N.to_nat (r0 - osr)) (N.to_nat (qr - osr))); [|lia].
    destruct (Nat.ltb_spec (N.to_nat (qr - osr)) (N.to_nat (r1 + 1 - osr))); [|lia].
    destruct (Nat.leb_spec (N.to_nat (c0 - osc)) (N.to_nat (qc - osc))); [|lia].
    destruct (Nat.ltb_spec (N.to_nat (qc - osc)) (N.to_nat (c1 + 1 - osc))); [|lia].
    cbn [andb].
    match goal with
    | |- nth_error l (?a * ?w + ?b)%nat = nth_error l (?a' * ?w + ?b')%nat =>
        replace a with a' by lia; replace b with b' by lia; reflexivity
    end.
  - destruct (Nat.leb_spec (N.to_nat (r0 - osr)) (N.to_nat (qr - osr)));
    destruct (Nat.ltb_spec (N.to_nat (qr - osr)) (N.to_nat (r1 + 1 - osr)));
    destruct (Nat.leb_spec (N.to_nat (c0 - osc)) (N.to_nat (qc - osc)));
    destruct (Nat.ltb_spec (N.to_nat (qc - osc)) (N.to_nat (c1 + 1 - osc)));
    cbn [andb]; try reflexivity. lia.
Qed.

Lemma window_spec_sec : forall (r : range T) (s e : pos),
    Wf r -> le2 s e -> box_cells s e <= U32MAX ->
    exists w, window d r s e = Ok w /\ Wf w /\ rect w = Some (s, e) /\
      forall q, get_value w q = if in_box s e q then Some (cell_or d r q) else None.
Proof.
  intros r s e HWf Hle Hb. apply window_spec_usize_sec; [assumption|assumption|].
  unfold U32MAX, U64MAX in *. lia.
Qed.

End Window.

(* Range::range with the cell count bounded by usize::MAX only (what Range::new needs since
   19d4f5b); window_spec below is the instance for at most u32::MAX cells *)
Lemma window_spec_usize :
  forall (T : Type) (d : T) (r : range T) (s e : pos),
    Wf r -> le2 s e -> box_cells s e <= U64MAX ->
    exists w, window d r s e = Ok w /\ Wf w /\ rect w = Some (s, e) /\
      forall q, get_value w q = if in_box s e q then Some (cell_or d r q) else None.
Proof. intros T d. apply window_spec_usize_sec. Qed.

Lemma window_spec :
  forall (T : Type) (d : T) (r : range T) (s e : pos),
    Wf r -> le2 s e -> box_cells s e <= U32MAX ->
    exists w, window d r s e = Ok w /\ Wf w /\ rect w = Some (s, e) /\
      forall q, get_value w q = if in_box s e q then Some (cell_or d r q) else None.
Proof. intros T d. apply window_spec_sec. Qed.

(* ---------------------------------------------------------------------------------------- *)
(* Range::from_sparse                                                                       *)
(* ---------------------------------------------------------------------------------------- *)
Section FromSparse.
Variable T : Type.
Variable d : T.

Notation row c := (fst (fst c)).
Notation col c := (snd (fst c)).
Notation minstep := (fun (m : N) (c : pos * T) => if snd (fst c) <? m then snd (fst c) else m).
Notation maxstep := (fun (m : N) (c : pos * T) => if m <? snd (fst c) then snd (fst c) else m).
Notation rminstep := (fun (m : N) (c : pos * T) => if fst (fst c) <? m then fst (fst c) else m).
Notation rmaxstep := (fun (m : N) (c : pos * T) => if m <? fst (fst c) then fst (fst c) else m).

Lemma fold_bbox : forall (l : list (pos * T)) r0 c0 r1 c1,
  fold_left (fun b p => bbox (Some b) p) (map fst l) ((r0, c0), (r1, c1)) =
    ((fold_left rminstep l r0, fold_left minstep l c0),
     (fold_left rmaxstep l r1, fold_left maxstep l c1)).
Proof.
  induction l as [|c l IH]; intros r0 c0 r1 c1; [reflexivity|].
  cbn [map fold_left]. unfold bbox at 2. cbn [fst snd]. rewrite IH.
  replace (N.min c0 (col c)) with (if col c <? c0 then col c else c0)
    by (destruct (col c <? c0) eqn:E; lia).
  replace (N.max c1 (col c)) with (if c1 <? col c then col c else c1)
    by (destruct (c1 <? col c) eqn:E; lia).
  replace (N.min r0 (row c)) with (if row c <? r0 then row c else r0)
    by (destruct (row c <? r0) eqn:E; lia).
  replace (N.max r1 (row c)) with (if r1 <? row c then row c else r1)
    by (destruct (r1 <? row c) eqn:E; lia).
  reflexivity.
Qed.

Lemma fold_minf_bounds : forall (f : pos * T -> N) (l : list (pos * T)) m,
  fold_left (fun m c => if f c <? m then f c else m) l m <= m /\
  forall c, In c l -> fold_left (fun m c => if f c <? m then f c else m) l m <= f c.
Proof.
  intros f. induction l as [|x l IH]; intros m; cbn [fold_left].
  - split; [lia|]. intros c [].
  - destruct (IH (if f x <? m then f x else m)) as [Ha Hb].
    destruct (f x <? m) eqn:E; (split; [lia|]); intros c [<-|Hc]; try lia; apply Hb; assumption.
Qed.

Lemma fold_maxf_bounds : forall (f : pos * T -> N) (l : list (pos * T)) m,
  m <= fold_left (fun m c => if m <? f c then f c else m) l m /\
  forall c, In c l -> f c <= fold_left (fun m c => if m <? f c then f c else m) l m.
Proof.
  intros f. induction l as [|x l IH]; intros m; cbn [fold_left].
  - split; [lia|]. intros c [].
  - destruct (IH (if m <? f x then f x else m)) as [Ha Hb].
    destruct (m <? f x) eqn:E; (split; [lia|]); intros c [<-|Hc]; try lia; apply Hb; assumption.
Qed.

Lemma fold_min_bounds : forall (l : list (pos * T)) m,
  fold_left minstep l m <= m /\ forall c, In c l -> fold_left minstep l m <= col c.
Proof. intros l m. exact (fold_minf_bounds (fun c => col c) l m). Qed.

Lemma fold_max_bounds : forall (l : list (pos * T)) m,
  m <= fold_left maxstep l m /\ forall c, In c l -> col c <= fold_left maxstep l m.
Proof. intros l m. exact (fold_maxf_bounds (fun c => col c) l m). Qed.

Lemma fold_rmin_bounds : forall (l : list (pos * T)) m,
  fold_left rminstep l m <= m /\ forall c, In c l -> fold_left rminstep l m <= row c.
Proof. intros l m. exact (fold_minf_bounds (fun c => row c) l m). Qed.

Lemma fold_rmax_bounds : forall (l : list (pos * T)) m,
  m <= fold_left rmaxstep l m /\ forall c, In c l -> row c <= fold_left rmaxstep l m.
Proof. intros l m. exact (fold_maxf_bounds (fun c => row c) l m). Qed.

(* the four running bounds enclose every cell, whatever the order of the cells *)
Lemma sparse_bounds_enclose : forall (cs : list (pos * T)) rs cmin re cmax,
  sparse_bounds cs = ((rs, cmin), (re, cmax)) ->
  forall c, In c cs -> rs <= row c /\ row c <= re /\ cmin <= col c /\ col c <= cmax.
Proof.
  unfold pos. intros cs rs cmin re cmax Hb c Hc. unfold sparse_bounds in Hb. cbv zeta in Hb.
  injection Hb as <- <- <- <-.
  split; [apply (fold_rmin_bounds cs U32MAX); assumption|].
  split; [apply (fold_rmax_bounds cs 0); assumption|].
  split; [apply (fold_min_bounds cs U32MAX); assumption|].
  apply (fold_max_bounds cs 0); assumption.
Qed.

(* for u32 coordinates they are the tight bounding box *)
Lemma sparse_bounds_tight : forall (c0 : pos * T) (rest : list (pos * T)),
  (forall c, In c (c0 :: rest) -> row c <= U32MAX /\ col c <= U32MAX) ->
  tight_bbox (map fst (c0 :: rest)) = Some (sparse_bounds (c0 :: rest)).
Proof.
  unfold pos. intros c0 rest Hbnd. destruct (Hbnd c0 (or_introl eq_refl)) as [Hr0 Hc0].
  cbn [map tight_bbox]. destruct c0 as [[r0 k0] v0]. cbn [fst snd] in *.
  rewrite fold_bbox. unfold sparse_bounds. cbv zeta. cbn [fold_left fst snd].
  destruct (k0 <? U32MAX) eqn:E1; destruct (0 <? k0) eqn:E2;
  destruct (r0 <? U32MAX) eqn:E3; destruct (0 <? r0) eqn:E4;
    repeat f_equal; lia.
Qed.

(* the loop that stores the cells never panics once the bounds enclose the cells *)
Lemma fs_fold_ok : forall rs cmin cols len (cells : list (N * N * T)) (v : list T),
  (forall c, In c cells -> rs <= row c /\ cmin <= col c) ->
  exists v',
    fold_left (fun (acc : outcome (list T)) c =>
                 do v <- acc;
                 do row <- sub32 (fst (fst c)) rs;
                 do col <- sub32 (snd (fst c)) cmin;
                 let idx := sat_mul_usize row cols + col in
                 if idx <? len then Ok (list_set v (N.to_nat idx) (snd c)) else Ok v)
              cells (Ok v) = Ok v' /\
    length v' = length v.
Proof.
  intros rs cmin cols len cells.
  match goal with |- context [fold_left ?f cells _] => set (F := f) end.
  induction cells as [|c cells IH]; intros v Hin.
  - exists v. split; reflexivity.
  - destruct (Hin c (or_introl eq_refl)) as (Hc1 & Hc2).
    cbn [fold_left].
    assert (HF : exists v1, F (Ok v) c = Ok v1 /\ length v1 = length v).
    { unfold F. cbn [obind]. unfold sub32.
      destruct (rs <=? row c) eqn:E1; [|lia]. cbn [obind].
      destruct (cmin <=? col c) eqn:E2; [|lia]. cbn [obind]. cbv zeta.
      destruct (sat_mul_usize (row c - rs) cols + (col c - cmin) <? len) eqn:E3.
      - eexists; split; [reflexivity|apply list_set_length].
      - eexists; split; reflexivity. }
    destruct HF as (v1 & HF & Hl1). rewrite HF.
    destruct (IH v1) as (v' & Hv' & Hl').
    { intros c' Hc'. apply Hin. right. assumption. }
    exists v'. split; [exact Hv'|]. rewrite Hl'. exact Hl1.
Qed.

(* ... and places every cell when all indices exist *)
Lemma fs_fold : forall rs cmin cols len (cells : list (N * N * T)) (v : list T),
  N.of_nat (length v) = len ->
  (forall c, In c cells ->
     rs <= row c /\ cmin <= col c /\ col c - cmin < cols /\
     (row c - rs) * cols <= U64MAX /\
     (row c - rs) * cols + (col c - cmin) < len) ->
  exists v',
    fold_left (fun (acc : outcome (list T)) c =>
                 do v <- acc;
                 do row <- sub32 (fst (fst c)) rs;
                 do col <- sub32 (snd (fst c)) cmin;
                 let idx := sat_mul_usize row cols + col in
                 if idx <? len then Ok (list_set v (N.to_nat idx) (snd c)) else Ok v)
              cells (Ok v) = Ok v' /\
    length v' = length v /\
    forall q a, rs <= fst q -> cmin <= snd q -> snd q - cmin < cols ->
      nth_error v (N.to_nat ((fst q - rs) * cols + (snd q - cmin))) = Some a ->
      nth_error v' (N.to_nat ((fst q - rs) * cols + (snd q - cmin))) =
        Some (fold_left (fun acc c => if pos_eqb (fst c) q then snd c else acc) cells a).
Proof.
  unfold pos.
  intros rs cmin cols len cells v.
  match goal with |- context [fold_left ?f cells _] => set (F := f) end.
  revert v. induction cells as [|c cells IH]; intros v Hlen Hin.
  - exists v. split; [reflexivity|]. split; [reflexivity|]. intros q a _ _ _ H. exact H.
  - destruct (Hin c (or_introl eq_refl)) as (Hc1 & Hc2 & Hc3 & Hc5 & Hc4).
    cbn [fold_left].
    assert (HF : F (Ok v) c =
                 Ok (list_set v (N.to_nat ((row c - rs) * cols + (col c - cmin))) (snd c))).
    { unfold F. cbn [obind]. unfold sub32.
      destruct (rs <=? row c) eqn:E1; [|lia]. cbn [obind].
      destruct (cmin <=? col c) eqn:E2; [|lia]. cbn [obind]. cbv zeta.
      unfold sat_mul_usize. rewrite N.min_l by exact Hc5.
      destruct ((row c - rs) * cols + (col c - cmin) <? len) eqn:E3; [|lia]. reflexivity. }
    rewrite HF.
    destruct (IH (list_set v (N.to_nat ((row c - rs) * cols + (col c - cmin))) (snd c)))
      as (v' & Hv' & Hlen' & Hnth').
    { rewrite list_set_length. assumption. }
    { intros c' Hc'. apply Hin. right. assumption. }
    exists v'. split; [exact Hv'|]. split; [rewrite Hlen', list_set_length; reflexivity|].
    intros q a Hq1 Hq2 Hq3 Ha. cbn [fold_left].
    destruct (pos_eqb (fst c) q) eqn:Eq.
    + apply pos_eqb_true in Eq. apply Hnth'; try assumption. rewrite <- Eq.
      apply nth_error_list_set_eq. lia.
    + apply Hnth'; try assumption. rewrite nth_error_list_set_neq; [assumption|].
      intro Hc.
      assert (Hc' : (row c - rs) * cols + (col c - cmin) = (fst q - rs) * cols + (snd q - cmin)) by lia.
      apply flat_index_inj in Hc'; try lia.
      assert (Heq : fst c = q) by (destruct c as [[cr cc] cv], q as [qr qc]; cbn [fst snd] in *; f_equal; lia).
      apply pos_eqb_true in Heq. congruence.
Qed.

(* Totality: from_sparse never panics, for any list of cells in any order; the rectangle it
   reports is [sparse_bounds] and its inner vector has exactly [requested_from_sparse] cells *)
Lemma from_sparse_total_sec : forall (cs : list (pos * T)),
  exists r, from_sparse d cs = Ok r /\
    N.of_nat (length (r_inner r)) = requested_from_sparse cs /\
    (cs <> [] -> (r_start r, r_end r) = sparse_bounds cs).
Proof.
  intros cs. destruct cs as [|c0 rest].
  - exists empty. split; [reflexivity|]. split; [reflexivity|]. intros H. congruence.
  - unfold from_sparse, requested_from_sparse.
    destruct (sparse_bounds (c0 :: rest)) as [[rs cmin] [re cmax]] eqn:Eb.
    pose proof (@sparse_bounds_enclose _ _ _ _ _ Eb) as Henc.
    destruct (Henc c0 (or_introl eq_refl)) as (Hr1 & Hr2 & Hk1 & Hk2).
    unfold sub32 at 1. destruct (cmin <=? cmax) eqn:E1; [|lia]. cbn [obind]. cbv zeta.
    unfold sub32 at 1. destruct (rs <=? re) eqn:E3; [|lia]. cbn [obind].
    destruct (@fs_fold_ok rs cmin (cmax - cmin + 1)
                (sat_mul_usize (cmax - cmin + 1) (re - rs + 1)) (c0 :: rest)
                (repeat d (N.to_nat (sat_mul_usize (cmax - cmin + 1) (re - rs + 1)))))
      as (v' & Hv' & Hlen').
    { intros c Hc. destruct (Henc c Hc) as (H1 & _ & H3 & _). split; assumption. }
    match goal with
    | |- context [obind ?X _] => replace X with (Ok v') by (symmetry; exact Hv')
    end.
    cbn [obind]. eexists; split; [reflexivity|]. cbn [r_start r_end r_inner].
    split; [|intros _; reflexivity].
    rewrite Hlen', repeat_length. apply N2Nat.id.
Qed.

Lemma from_sparse_spec_unsorted_sec : forall (cs : list (pos * T)),
    pre_sparse cs ->
    exists r, from_sparse d cs = Ok r /\ Wf r /\
      rect r = tight_bbox (map fst cs) /\
      forall q, get_value r q = if in_rect r q then Some (last_write d cs q) else None.
Proof.
  intros cs [Hbnd Hbox].
  destruct cs as [|c0 rest].
  - exists empty. split; [reflexivity|]. split; [left; reflexivity|]. split; [reflexivity|].
    intro q. rewrite get_value_empty by reflexivity. reflexivity.
  - rewrite (sparse_bounds_tight Hbnd) in *.
    unfold from_sparse.
    destruct (sparse_bounds (c0 :: rest)) as [[rs cmin] [re cmax]] eqn:Eb.
    pose proof (@sparse_bounds_enclose _ _ _ _ _ Eb) as Henc.
    destruct (Henc c0 (or_introl eq_refl)) as (Hr1 & Hr2 & Hk1 & Hk2).
    assert (Hcc : cmin <= cmax) by lia. assert (Hrr : rs <= re) by lia.
    assert (Hre : re <= U32MAX /\ cmax <= U32MAX).
    { unfold sparse_bounds in Eb. cbv zeta in Eb. injection Eb as _ _ <- <-.
      clear - Hbnd. split.
      - assert (H : forall l m, (forall c : pos * T, In c l -> row c <= U32MAX) -> m <= U32MAX ->
                      fold_left rmaxstep l m <= U32MAX).
        { induction l as [|x l IH]; intros m Hl Hm; [exact Hm|]. cbn [fold_left]. apply IH.
          - intros c Hc. apply Hl. right. assumption.
          - destruct (m <? row x); [apply Hl; left; reflexivity|assumption]. }
        apply H.
        + intros c Hc. apply Hbnd. first [assumption | right; assumption].
        + destruct (Hbnd c0 (or_introl eq_refl)) as [Hb1 Hb2]. unfold pos in *.
          try destruct (0 <? row c0); unfold U32MAX in *; lia.
      - assert (H : forall l m, (forall c : pos * T, In c l -> col c <= U32MAX) -> m <= U32MAX ->
                      fold_left maxstep l m <= U32MAX).
        { induction l as [|x l IH]; intros m Hl Hm; [exact Hm|]. cbn [fold_left]. apply IH.
          - intros c Hc. apply Hl. right. assumption.
          - destruct (m <? col x); [apply Hl; left; reflexivity|assumption]. }
        apply H.
        + intros c Hc. apply Hbnd. first [assumption | right; assumption].
        + destruct (Hbnd c0 (or_introl eq_refl)) as [Hb1 Hb2]. unfold pos in *.
          try destruct (0 <? col c0); unfold U32MAX in *; lia. }
    destruct Hre as [Hre Hce].
    unfold box_cells in Hbox. cbn [fst snd] in Hbox.
    unfold sub32 at 1. destruct (cmin <=? cmax) eqn:E1; [|lia]. cbn [obind]. cbv zeta.
    unfold sub32 at 1. destruct (rs <=? re) eqn:E3; [|lia]. cbn [obind].
    assert (Hsat : sat_mul_usize (cmax - cmin + 1) (re - rs + 1) = (cmax - cmin + 1) * (re - rs + 1)).
    { unfold sat_mul_usize. apply N.min_l. rewrite N.mul_comm. exact Hbox. }
    rewrite Hsat.
    destruct (@fs_fold rs cmin (cmax - cmin + 1) ((cmax - cmin + 1) * (re - rs + 1)) (c0 :: rest)
                (repeat d (N.to_nat ((cmax - cmin + 1) * (re - rs + 1)))))
      as (v' & Hv' & Hlen' & Hnth').
    { rewrite repeat_length. apply N2Nat.id. }
    { intros c Hc. destruct (Henc c Hc) as (Hr1' & Hr2' & Hk1' & Hk2'). unfold pos in *.
      split; [assumption|]. split; [assumption|]. split; [lia|]. split.
      - apply N.le_trans with (U32MAX * (U32MAX + 1)).
        + apply N.mul_le_mono; lia.
        + unfold U32MAX, U64MAX. lia.
      - clear - Hr1' Hr2' Hk1' Hk2'. nia. }
    match goal with
    | |- context [obind ?X _] => replace X with (Ok v') by (symmetry; exact Hv')
    end.
    cbn [obind]. eexists; split; [reflexivity|].
    assert (Hlen : N.of_nat (length v') = (re - rs + 1) * (cmax - cmin + 1)).
    { rewrite Hlen', repeat_length, N2Nat.id. apply N.mul_comm. }
    split; [apply Wf_mk; assumption|]. split; [apply rect_mk; assumption|].
    intro q. unfold in_rect. rewrite (@rect_mk T rs cmin re cmax v' Hlen).
    rewrite (@get_value_mk T rs cmin re cmax v' q Hrr Hcc Hlen).
    destruct (in_box (rs, cmin) (re, cmax) q) eqn:Ebx; [|reflexivity].
    rewrite <- !N2Nat.inj_mul, <- !N2Nat.inj_add. unfold last_write.
    assert (Hq : rs <= fst q /\ fst q <= re /\ cmin <= snd q /\ snd q <= cmax)
      by (clear - Ebx; unfold in_box in Ebx; cbn [fst snd] in Ebx; lia).
    apply Hnth'; try (clear - Hq; lia).
    apply nth_error_repeat. clear - Hq. nia.
Qed.

(* with the cells sorted by row (the old precondition) the start row is the first cell's row,
   as in the code before 3140dd1 *)
Lemma sorted_first_min : forall (l : list (pos * T)) c0, sorted_by_row (c0 :: l) ->
  forall c, In c l -> row c0 <= row c.
Proof.
  induction l as [|c1 l IH]; intros c0 Hs c Hc; [destruct Hc|].
  destruct Hs as [H01 Hs]. destruct Hc as [<-|Hc]; [exact H01|].
  specialize (IH c1 Hs c Hc). lia.
Qed.

Lemma fold_rmin_const : forall (l : list (pos * T)) m,
  (forall c, In c l -> m <= row c) -> fold_left rminstep l m = m.
Proof.
  induction l as [|x l IH]; intros m H; [reflexivity|]. cbn [fold_left].
  pose proof (H x (or_introl eq_refl)) as Hx.
  destruct (row x <? m) eqn:E; [lia|]. apply IH. intros c Hc. apply H. right. assumption.
Qed.

Lemma from_sparse_start_row_sorted_sec : forall (c0 : pos * T) (rest : list (pos * T)) (r : range T),
  sorted_by_row (c0 :: rest) -> row c0 <= U32MAX ->
  from_sparse d (c0 :: rest) = Ok r -> fst (r_start r) = row c0.
Proof.
  intros c0 rest r Hs H0 Hr.
  destruct (from_sparse_total_sec (c0 :: rest)) as (r' & Hr' & _ & Hb).
  rewrite Hr in Hr'. injection Hr' as <-.
  specialize (Hb ltac:(discriminate)).
  assert (Hf : fst (r_start r) = fst (fst (sparse_bounds (c0 :: rest)))) by (rewrite <- Hb; reflexivity).
  rewrite Hf. unfold sparse_bounds. cbv zeta. cbn [fst fold_left]. unfold pos in *.
  destruct (row c0 <? U32MAX) eqn:E.
  - apply fold_rmin_const. apply sorted_first_min. exact Hs.
  - replace U32MAX with (row c0) at 1 by lia. apply fold_rmin_const. apply sorted_first_min. exact Hs.
Qed.

(* the old documented precondition (sorted by row, at most u32::MAX rows and columns) implies
   the current one *)
Lemma pre_pre_sparse : forall (r0 : range T) (cs : list (pos * T)),
  pre r0 (OFromSparse cs) -> pre_sparse cs.
Proof.
  intros r0 cs Hpre. cbn [pre] in Hpre. destruct Hpre as (_ & Hbnd & Hbox).
  split; [exact Hbnd|].
  destruct (tight_bbox (map fst cs)) as [[s e]|]; [|exact I].
  destruct Hbox as [H1 H2]. unfold box_cells.
  apply N.le_trans with (U32MAX * U32MAX).
  - apply N.mul_le_mono; lia.
  - unfold U32MAX, U64MAX. lia.
Qed.

Lemma from_sparse_spec_sec : forall (cs : list (pos * T)),
    pre empty (OFromSparse cs) ->
    exists r, from_sparse d cs = Ok r /\ Wf r /\
      rect r = tight_bbox (map fst cs) /\
      forall q, get_value r q = if in_rect r q then Some (last_write d cs q) else None.
Proof.
  intros cs Hpre. apply from_sparse_spec_unsorted_sec. exact (pre_pre_sparse Hpre).
Qed.

End FromSparse.

Lemma from_sparse_spec_unsorted :
  forall (T : Type) (d : T) (cs : list (pos * T)),
    pre_sparse cs ->
    exists r, from_sparse d cs = Ok r /\ Wf r /\
      rect r = tight_bbox (map fst cs) /\
      forall q, get_value r q = if in_rect r q then Some (last_write d cs q) else None.
Proof. intros T d. apply from_sparse_spec_unsorted_sec. Qed.

Lemma from_sparse_start_row_sorted :
  forall (T : Type) (d : T) (c0 : pos * T) (rest : list (pos * T)) (r : range T),
    pre empty (OFromSparse (c0 :: rest)) ->
    from_sparse d (c0 :: rest) = Ok r -> fst (r_start r) = fst (fst c0).
Proof.
  intros T d c0 rest r Hp Hr. cbn [pre] in Hp. destruct Hp as (Hs & Hb & _).
  apply (from_sparse_start_row_sorted_sec d Hs); [|exact Hr]. apply Hb. left. reflexivity.
Qed.

Lemma from_sparse_total :
  forall (T : Type) (d : T) (cs : list (pos * T)),
    exists r, from_sparse d cs = Ok r /\
      N.of_nat (length (r_inner r)) = requested_from_sparse cs /\
      (cs <> [] -> (r_start r, r_end r) = sparse_bounds cs).
Proof. intros T d. apply from_sparse_total_sec. Qed.

Lemma from_sparse_spec :
  forall (T : Type) (d : T) (cs : list (pos * T)),
    pre empty (OFromSparse cs) ->
    exists r, from_sparse d cs = Ok r /\ Wf r /\
      rect r = tight_bbox (map fst cs) /\
      forall q, get_value r q = if in_rect r q then Some (last_write d cs q) else None.
Proof. intros T d. apply from_sparse_spec_sec. Qed.

(* ---------------------------------------------------------------------------------------- *)
(* Histories                                                                                *)
(* ---------------------------------------------------------------------------------------- *)
Lemma step_wf : forall (T : Type) (d : T) (r0 : range T) (o : op T),
  Wf r0 -> pre r0 o -> exists r1, step d r0 o = Ok r1 /\ Wf r1.
Proof.
  intros T d r0 o HWf Hp. destruct o as [s e| |cs|p v|s e]; cbn [step].
  - cbn [pre] in Hp. destruct Hp as [Hle Hb].
    destruct (new_spec d Hle Hb) as (r1 & H1 & H2 & _). eauto.
  - exists empty. split; [reflexivity|left; reflexivity].
  - destruct (@from_sparse_spec T d cs Hp) as (r1 & H1 & H2 & _). eauto.
  - destruct (@set_value_spec T d r0 p v HWf Hp) as (r1 & H1 & H2 & _). eauto.
  - cbn [pre] in Hp. destruct Hp as [Hle Hb].
    destruct (@window_spec T d r0 s e HWf Hle Hb) as (r1 & H1 & H2 & _). eauto.
Qed.

Lemma range_wf_history :
  forall (T : Type) (d : T) (ops : list (op T)) (r0 : range T),
    Wf r0 -> pre_all d r0 ops ->
    exists r, run d r0 ops = Ok r /\ Wf r.
Proof.
  intros T d ops. induction ops as [|o ops IH]; intros r0 HWf Hpre.
  - exists r0. split; [reflexivity|assumption].
  - cbn [pre_all] in Hpre. destruct Hpre as [Hp Hrest].
    destruct (step_wf d o HWf Hp) as (r1 & Hs & HWf1).
    destruct (IH r1 HWf1 (Hrest r1 Hs)) as (r & Hr & HWfr).
    exists r. split; [|assumption]. cbn [run]. rewrite Hs. cbn [obind]. exact Hr.
Qed.

(* ---------------------------------------------------------------------------------------- *)
(* Non-vacuity of the hypotheses of the individual theorems                                 *)
(* ---------------------------------------------------------------------------------------- *)
Example new_pre_ex : le2 (1, 1) (2, 3) /\ box_cells (1, 1) (2, 3) <= U32MAX.
Proof. vm_compute. intuition discriminate. Qed.

Example set_value_pre_ex :
  let r := mkRange (1, 1) (2, 3) [1; 2; 3; 4; 5; 6] in
  Wf r /\ pre r (OSetValue (4, 5) 7) /\ pre r (OSetValue (2, 2) 8) /\ pre (@empty N) (OSetValue (3, 3) 1).
Proof.
  cbv zeta. split; [right; vm_compute; intuition discriminate|].
  split; [right; vm_compute; intuition discriminate|].
  split; [right; vm_compute; intuition discriminate|left; reflexivity].
Qed.

Example from_sparse_pre_ex : pre (@empty N) (OFromSparse [((2, 3), 5); ((2, 1), 4); ((4, 1), 6)]).
Proof.
  cbn [pre]. split; [vm_compute; intuition discriminate|].
  split; [|vm_compute; intuition discriminate].
  intros c [<-|[<-|[<-|[]]]]; vm_compute; intuition discriminate.
Qed.

Example window_pre_ex :
  Wf (mkRange (1, 1) (2, 3) [1; 2; 3; 4; 5; 6]) /\ le2 (0, 2) (1, 4) /\ box_cells (0, 2) (1, 4) <= U32MAX.
Proof. split; [right|]; vm_compute; intuition discriminate. Qed.

(* ---------------------------------------------------------------------------------------- *)
(* Totality (C06 material): which calls can still panic                                     *)
(* ---------------------------------------------------------------------------------------- *)
Lemma from_sparse_no_panic : forall (T : Type) (d : T) (cs : list (pos * T)),
  from_sparse d cs <> Panic.
Proof.
  intros T d cs H. destruct (from_sparse_total d cs) as (r & Hr & _). congruence.
Qed.

Lemma new_no_panic : forall (T : Type) (d : T) (s e : pos),
  le2 s e -> box_cells s e <= U64MAX -> new d s e <> Panic.
Proof. intros T d s e Hle Hb H. apply (new_panic_iff d s e) in H. apply H. split; assumption. Qed.

(* Range::range panics exactly when its Range::new does *)
Lemma window_panic_iff : forall (T : Type) (d : T) (r : range T) (s e : pos), Wf r ->
  (window d r s e = Panic <-> ~ (le2 s e /\ box_cells s e <= U64MAX)).
Proof.
  intros T d r s e HWf. split.
  - intros Hp [Hle Hb]. destruct (window_spec_usize d HWf Hle Hb) as (w & Hw & _). congruence.
  - intros Hn. apply (new_panic_iff d s e) in Hn. unfold window. rewrite Hn. reflexivity.
Qed.

Lemma window_no_panic : forall (T : Type) (d : T) (r : range T) (s e : pos),
  Wf r -> le2 s e -> box_cells s e <= U64MAX -> window d r s e <> Panic.
Proof. intros T d r s e HWf Hle Hb H. apply (window_panic_iff d s e HWf) in H. apply H. split; assumption. Qed.

Lemma set_value_no_panic : forall (T : Type) (d : T) (r : range T) (p : pos) (v : T),
  Wf r -> pre r (OSetValue p v) -> set_value d r p v <> Panic.
Proof.
  intros T d r p v HWf Hp H. destruct (set_value_spec d HWf Hp) as (r' & Hr' & _). congruence.
Qed.

(* the documented panic of set_value: a position above or left of the start corner *)
Lemma set_value_panics_before_start : forall (T : Type) (d : T) (r : range T) (p : pos) (v : T),
  is_empty r = false -> ~ le2 (r_start r) p -> set_value d r p v = Panic.
Proof.
  intros T d [[sr sc] [er ec] l] [pr pc] v He Hn. unfold le2 in Hn. cbn [r_start fst snd] in Hn.
  unfold set_value. cbn [r_start r_end]. rewrite He.
  destruct ((sr <=? pr) && (sc <=? pc)) eqn:E; [exfalso; apply Hn; lia|reflexivity].
Qed.

(* The allocation of from_sparse: two cells are enough to request any area.  (The real code
   then panics with "capacity overflow" or aborts in the allocator: C06 finding
   lib.rs::from_sparse::alloc.) *)
Lemma requested_from_sparse_two : forall (T : Type) (v : T) (n : N), n <= U32MAX ->
  requested_from_sparse [((0, 0), v); ((n, n), v)] = N.min ((n + 1) * (n + 1)) U64MAX.
Proof.
  intros T v n Hn. unfold requested_from_sparse, sparse_bounds. cbv zeta. cbn [fold_left fst snd].
  unfold sat_mul_usize.
  destruct (0 <? U32MAX) eqn:E0; [|unfold U32MAX in E0; lia].
  destruct (0 <? 0) eqn:E1; [lia|].
  destruct (n <? 0) eqn:E2; [lia|].
  destruct (0 <? n) eqn:E3; [rewrite N.sub_0_r; reflexivity|].
  replace n with 0 by lia. reflexivity.
Qed.

Lemma requested_from_sparse_unbounded : forall (n : N), n <= U32MAX ->
  exists cs : list (pos * N),
    length cs = 2%nat /\
    (forall c, In c cs -> fst (fst c) <= U32MAX /\ snd (fst c) <= U32MAX) /\
    requested_from_sparse cs = N.min ((n + 1) * (n + 1)) U64MAX.
Proof.
  intros n Hn. exists [((0, 0), 1); ((n, n), 1)]. split; [reflexivity|]. split.
  - intros c [<-|[<-|[]]]; cbn [fst snd]; unfold U32MAX in *; lia.
  - apply requested_from_sparse_two. assumption.
Qed.

Lemma from_sparse_alloc_refuted :
  exists cs : list (pos * N),
    length cs = 2%nat /\
    (forall c, In c cs -> fst (fst c) <= U32MAX /\ snd (fst c) <= U32MAX) /\
    requested_from_sparse cs = U64MAX.
Proof.
  destruct (@requested_from_sparse_unbounded U32MAX (N.le_refl _)) as (cs & H1 & H2 & H3).
  exists cs. split; [assumption|]. split; [assumption|]. rewrite H3. vm_compute. reflexivity.
Qed.

(* ---------------------------------------------------------------------------------------- *)
(* Histories under the preconditions of the current code                                    *)
(* ---------------------------------------------------------------------------------------- *)
Lemma rect_fits32 : forall (T : Type) (r : range T) s e,
  rect r = Some (s, e) -> dims32 s e -> fits32 r.
Proof.
  intros T r s e Hr Hd. unfold rect in Hr. destruct (is_empty r) eqn:E; [discriminate|].
  injection Hr as <- <-. right. exact Hd.
Qed.

Lemma rect_none_fits32 : forall (T : Type) (r : range T), rect r = None -> fits32 r.
Proof.
  intros T r Hr. unfold rect in Hr. destruct (is_empty r) eqn:E; [left; assumption|discriminate].
Qed.

Lemma dims32_box : forall s e : pos, dims32 s e -> box_cells s e <= U64MAX.
Proof.
  intros s e [H1 H2]. unfold box_cells. apply N.le_trans with (U32MAX * U32MAX).
  - apply N.mul_le_mono; lia.
  - unfold U32MAX, U64MAX. lia.
Qed.

Lemma pre_pre_head : forall (T : Type) (r : range T) (o : op T), pre r o -> pre_head r o.
Proof.
  intros T r o Hp. destruct o as [s e| |cs|p v|s e]; cbn [pre pre_head] in *.
  - destruct Hp as [Hle Hb]. split; [assumption|]. unfold box_cells, dims32 in *.
    destruct Hle as [H1 H2]. split; nia.
  - exact I.
  - destruct Hp as (_ & Hb & Hbox). split; assumption.
  - exact Hp.
  - destruct Hp as [Hle Hb]. split; [assumption|]. unfold box_cells, dims32 in *.
    destruct Hle as [H1 H2]. split; nia.
Qed.

Lemma step_wf_head : forall (T : Type) (d : T) (r0 : range T) (o : op T),
  Wf r0 -> fits32 r0 -> pre_head r0 o ->
  exists r1, step d r0 o = Ok r1 /\ Wf r1 /\ fits32 r1.
Proof.
  intros T d r0 o HWf Hf Hp. destruct o as [s e| |cs|p v|s e]; cbn [step].
  - cbn [pre_head] in Hp. destruct Hp as [Hle Hd].
    destruct (new_spec_usize d Hle (dims32_box Hd)) as (r1 & H1 & H2 & H3 & _).
    exists r1. split; [assumption|]. split; [assumption|]. exact (rect_fits32 _ H3 Hd).
  - exists empty. split; [reflexivity|]. split; left; reflexivity.
  - cbn [pre_head] in Hp. destruct Hp as [Hbnd Hbox].
    assert (Hps : pre_sparse cs).
    { split; [assumption|]. destruct (tight_bbox (map fst cs)) as [[s e]|]; [|exact I].
      apply dims32_box. assumption. }
    destruct (from_sparse_spec_unsorted d Hps) as (r1 & H1 & H2 & H3 & _).
    exists r1. split; [assumption|]. split; [assumption|].
    destruct (tight_bbox (map fst cs)) as [[s e]|].
    + exact (rect_fits32 _ H3 Hbox).
    + exact (rect_none_fits32 _ H3).
  - destruct (@set_value_spec T d r0 p v HWf Hp) as (r1 & H1 & H2 & H3 & _).
    exists r1. split; [assumption|]. split; [assumption|].
    destruct (bbox (rect r0) p) as [s' e'] eqn:Eb.
    apply (rect_fits32 _ H3). cbn [pre_head] in Hp. unfold rect, fits32 in *.
    destruct (is_empty r0) eqn:Ee.
    + cbn [bbox] in Eb. injection Eb as <- <-. unfold dims32. rewrite !N.sub_diag.
      unfold U32MAX. lia.
    + destruct Hp as [Hp|([Hl1 Hl2] & Hp1 & Hp2)]; [discriminate|].
      destruct Hf as [Hf|[Hf1 Hf2]]; [discriminate|].
      destruct (r_start r0) as [sr sc], (r_end r0) as [er ec], p as [pr pc].
      cbn [bbox fst snd] in *. injection Eb as <- <-. unfold dims32. cbn [fst snd]. lia.
  - cbn [pre_head] in Hp. destruct Hp as [Hle Hd].
    destruct (@window_spec_usize T d r0 s e HWf Hle (dims32_box Hd)) as (r1 & H1 & H2 & H3 & _).
    exists r1. split; [assumption|]. split; [assumption|]. exact (rect_fits32 _ H3 Hd).
Qed.

(* every history that respects the preconditions of the current code (from_sparse cells in any
   order) runs without panic through well-formed states with fewer than 2^32 rows and columns *)
Lemma range_wf_history_head :
  forall (T : Type) (d : T) (ops : list (op T)) (r0 : range T),
    Wf r0 -> fits32 r0 -> pre_head_all d r0 ops ->
    exists r, run d r0 ops = Ok r /\ Wf r /\ fits32 r.
Proof.
  intros T d ops. induction ops as [|o ops IH]; intros r0 HWf Hf Hpre.
  - exists r0. split; [reflexivity|split; assumption].
  - cbn [pre_head_all] in Hpre. destruct Hpre as [Hp Hrest].
    destruct (step_wf_head d o HWf Hf Hp) as (r1 & Hs & HWf1 & Hf1).
    destruct (IH r1 HWf1 Hf1 (Hrest r1 Hs)) as (r & Hr & HWfr & Hfr).
    exists r. split; [|split; assumption]. cbn [run]. rewrite Hs. cbn [obind]. exact Hr.
Qed.

Example from_sparse_unsorted_pre_ex :
  pre_sparse [((4, 1), 6); ((2, 3), 5); ((2, 1), 4); ((3, 0), 0)] /\
  ~ sorted_by_row [((4, 1), 6); ((2, 3), 5); ((2, 1), 4); ((3, 0), 0)].
Proof.
  split.
  - split; [|vm_compute; intuition discriminate].
    intros c [<-|[<-|[<-|[<-|[]]]]]; vm_compute; intuition discriminate.
  - cbn [sorted_by_row fst]. intros [H _]. vm_compute in H. apply H. reflexivity.
Qed.

Example history_head_nonvacuous :
  let ops := [OFromSparse [((4, 1), 6); ((2, 3), 5); ((2, 1), 4)]; OSetValue (5, 5) 7;
              OWindow (0, 0) (3, 3); ONew (1, 1) (2, 3); OEmpty; OSetValue (3, 3) 1] in
  Wf (@empty N) /\ fits32 (@empty N) /\ pre_head_all 0 (@empty N) ops /\
  exists r, run 0 (@empty N) ops = Ok r /\ r_inner r = [1].
Proof.
  cbv zeta. split; [left; reflexivity|]. split; [left; reflexivity|]. split.
  - cbn [pre_head_all pre_head].
    split.
    { split; [|vm_compute; intuition discriminate].
      intros c [<-|[<-|[<-|[]]]]; vm_compute; intuition discriminate. }
    intros r1 E1. vm_compute in E1. injection E1 as <-.
    split; [right; vm_compute; intuition discriminate|]. intros r2 E2. vm_compute in E2. injection E2 as <-.
    split; [vm_compute; intuition discriminate|]. intros r3 E3. vm_compute in E3. injection E3 as <-.
    split; [vm_compute; intuition discriminate|]. intros r4 E4. vm_compute in E4. injection E4 as <-.
    split; [exact I|]. intros r5 E5. vm_compute in E5. injection E5 as <-.
    split; [left; reflexivity|]. intros r6 E6. exact I.
  - eexists. split; vm_compute; reflexivity.
Qed.

Example new_usize_pre_ex :
  le2 (0, 0) (70000, 70000) /\ box_cells (0, 0) (70000, 70000) <= U64MAX /\
  ~ box_cells (0, 0) (70000, 70000) <= U32MAX.
Proof. vm_compute. intuition discriminate. Qed.
