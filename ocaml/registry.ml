(* command registry: each cmd_*.ml registers its handler at module initialisation *)
let table : (string, string list -> string) Hashtbl.t = Hashtbl.create 64
let register (name : string) (f : string list -> string) = Hashtbl.replace table name f
let find name = Hashtbl.find_opt table name
