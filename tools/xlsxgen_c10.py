"""xlsxgen — minimal xlsx writer for the C10 checks (zip + XML by hand, no dependency).

write_xlsx(path, numfmts, cellxfs, is_1904, cells, **layout)
  numfmts : list of (id_text, format_code_text)   -- id_text goes verbatim into numFmtId="…"
  cellxfs : list of id_text or None               -- None: the xf has no numFmtId attribute
  cells   : list of dicts {s: int|None, v: text, t: "n"|None, f: formula text|None}
            all placed on row 1, columns A.. in order
  layout  : date1904 spelling, namespace prefix, extra cellStyleXfs/dxfs decoys, escaping mode
            (escape = 0 named entities, 1 decimal, 2 hexadecimal character references)
"""
import zipfile

def xml_escape_attr(s, gt=True, mode=0):
    """attribute-value escaping; mode 0: named entities, 1: decimal character references,
    2: hexadecimal character references (also for the apostrophe)"""
    if mode == 0:
        s = s.replace("&", "&amp;").replace("<", "&lt;").replace('"', "&quot;")
        return s.replace(">", "&gt;") if gt else s
    out = []
    for ch in s:
        if ch in '&<"' or (ch == ">" and gt) or ch == "'":
            out.append(("&#%d;" % ord(ch)) if mode == 1 else ("&#x%X;" % ord(ch)))
        else:
            out.append(ch)
    return "".join(out)

def col_name(i):
    s = ""
    i += 1
    while i > 0:
        i, r = divmod(i - 1, 26)
        s = chr(65 + r) + s
    return s

CONTENT_TYPES = (
    '<?xml version="1.0" encoding="UTF-8" standalone="yes"?>'
    '<Types xmlns="http://schemas.openxmlformats.org/package/2006/content-types">'
    '<Default Extension="rels" ContentType="application/vnd.openxmlformats-package.relationships+xml"/>'
    '<Default Extension="xml" ContentType="application/xml"/>'
    '<Override PartName="/xl/workbook.xml" ContentType="application/vnd.openxmlformats-officedocument.spreadsheetml.sheet.main+xml"/>'
    '<Override PartName="/xl/worksheets/sheet1.xml" ContentType="application/vnd.openxmlformats-officedocument.spreadsheetml.worksheet+xml"/>'
    '<Override PartName="/xl/styles.xml" ContentType="application/vnd.openxmlformats-officedocument.spreadsheetml.styles+xml"/>'
    '</Types>')
ROOT_RELS = (
    '<?xml version="1.0" encoding="UTF-8" standalone="yes"?>'
    '<Relationships xmlns="http://schemas.openxmlformats.org/package/2006/relationships">'
    '<Relationship Id="rId1" Type="http://schemas.openxmlformats.org/officeDocument/2006/relationships/officeDocument" Target="xl/workbook.xml"/>'
    '</Relationships>')
WB_RELS = (
    '<?xml version="1.0" encoding="UTF-8" standalone="yes"?>'
    '<Relationships xmlns="http://schemas.openxmlformats.org/package/2006/relationships">'
    '<Relationship Id="rId1" Type="http://schemas.openxmlformats.org/officeDocument/2006/relationships/worksheet" Target="worksheets/sheet1.xml"/>'
    '<Relationship Id="rId2" Type="http://schemas.openxmlformats.org/officeDocument/2006/relationships/styles" Target="styles.xml"/>'
    '</Relationships>')
NS = "http://schemas.openxmlformats.org/spreadsheetml/2006/main"
NSR = "http://schemas.openxmlformats.org/officeDocument/2006/relationships"

def styles_xml(numfmts, cellxfs, prefix="", decoys=False, gt=True, escape=0):
    p = prefix + ":" if prefix else ""
    xmlns = 'xmlns:%s="%s"' % (prefix, NS) if prefix else 'xmlns="%s"' % NS
    out = ['<?xml version="1.0" encoding="UTF-8" standalone="yes"?>', '<%sstyleSheet %s>' % (p, xmlns)]
    if numfmts:
        out.append('<%snumFmts count="%d">' % (p, len(numfmts)))
        for i, code in numfmts:
            out.append('<%snumFmt numFmtId="%s" formatCode="%s"/>' % (p, i, xml_escape_attr(code, gt, escape)))
        out.append('</%snumFmts>' % p)
    out.append('<%sfonts count="1"><%sfont><%ssz val="11"/></%sfont></%sfonts>' % (p, p, p, p, p))
    out.append('<%sfills count="1"><%sfill><%spatternFill patternType="none"/></%sfill></%sfills>' % (p, p, p, p, p))
    out.append('<%sborders count="1"><%sborder/></%sborders>' % (p, p, p))
    if decoys:
        # cellStyleXfs entries carry date ids too: they must not be mistaken for cell XFs
        out.append('<%scellStyleXfs count="2"><%sxf numFmtId="14" fontId="0"/><%sxf numFmtId="46" fontId="0"/></%scellStyleXfs>' % (p, p, p, p))
    else:
        out.append('<%scellStyleXfs count="1"><%sxf numFmtId="0" fontId="0"/></%scellStyleXfs>' % (p, p, p))
    out.append('<%scellXfs count="%d">' % (p, len(cellxfs)))
    for k, i in enumerate(cellxfs):
        attr = ' numFmtId="%s"' % i if i is not None else ""
        if k % 2:
            # the apply* flags only say whether the cell xf overrides its cellStyleXf in the UI: the
            # numFmtId of the cell xf is the cell's format whatever the flag says (all spellings)
            anf = ["1", "0", "true", "false", None][(k // 2) % 5]
            out.append('<%sxf%s fontId="0" fillId="0" borderId="0" xfId="0"%s/>' % (p, attr, ' applyNumberFormat="%s"' % anf if anf else ""))
        else:
            out.append('<%sxf fontId="0"%s xfId="0"><%salignment horizontal="left"/></%sxf>' % (p, attr, p, p))
    out.append('</%scellXfs>' % p)
    if decoys:
        out.append('<%sdxfs count="1"><%sdxf><%snumFmt numFmtId="164" formatCode="yyyy"/></%sdxf></%sdxfs>' % (p, p, p, p, p))
    out.append('</%sstyleSheet>' % p)
    return "".join(out)

def sheet_xml(cells):
    out = ['<?xml version="1.0" encoding="UTF-8" standalone="yes"?>',
           '<worksheet xmlns="%s"><sheetData><row r="1">' % NS]
    for k, c in enumerate(cells):
        attrs = ' r="%s1"' % col_name(k)
        if c.get("s") is not None:
            attrs += ' s="%s"' % c["s"]
        if c.get("t") is not None:
            attrs += ' t="%s"' % c["t"]
        body = ""
        if c.get("f") is not None:
            body += "<f>%s</f>" % c["f"]
        body += "<v>%s</v>" % c["v"]
        out.append("<c%s>%s</c>" % (attrs, body))
    out.append("</row></sheetData></worksheet>")
    return "".join(out)

def workbook_xml(date1904):
    """date1904: None (no workbookPr), or the attribute text ("1", "true", "0", "false")"""
    pr = "" if date1904 is None else '<workbookPr date1904="%s"/>' % date1904
    return ('<?xml version="1.0" encoding="UTF-8" standalone="yes"?>'
            '<workbook xmlns="%s" xmlns:r="%s">%s<sheets><sheet name="S" sheetId="1" r:id="rId1"/></sheets></workbook>'
            % (NS, NSR, pr))

def write_xlsx(path, numfmts, cellxfs, date1904, cells, prefix="", decoys=False, gt=True, escape=0):
    with zipfile.ZipFile(path, "w", zipfile.ZIP_DEFLATED) as z:
        z.writestr("[Content_Types].xml", CONTENT_TYPES)
        z.writestr("_rels/.rels", ROOT_RELS)
        z.writestr("xl/workbook.xml", workbook_xml(date1904))
        z.writestr("xl/_rels/workbook.xml.rels", WB_RELS)
        z.writestr("xl/styles.xml", styles_xml(numfmts, cellxfs, prefix, decoys, gt, escape))
        z.writestr("xl/worksheets/sheet1.xml", sheet_xml(cells))
