(* Property C20 — encrypted workbooks are reported as password protected, and only those.
   Only the property theorems (closed by [exact]), [Check] pins, non-vacuity examples and
   [Print Assumptions].  Models: Password.v (xls, ods), PasswordCfb.v (xlsx / xlsb);
   proofs: Password_proofs.v, PasswordCfb_proofs.v. *)
From Calamine Require Import Prelude Password Password_proofs PasswordCfb PasswordCfb_proofs.
Open Scope N_scope.

(* ------------------------------------------------------------------ xls *)
(* For every globals stream in which a FILEPASS record — any body: encryption type 0 (XOR key +
   verifier), type 1 (RC4 or CryptoAPI header), or anything else, any length — stands after any
   records (with their CONTINUE records) that the loop passes over, and is followed by any
   well-framed records of any type and content (the ciphertext), the globals loop of
   parse_workbook returns XlsError::Password.  [interp] = the other arms of the loop. *)
Theorem C20_filepass_is_password :
  forall (interp : frec -> outcome unit) (pre : list item) (body : list N)
         (post : list (N * list N)),
    forallb item_ok pre = true ->
    (forall it, In it pre ->
       i_typ it <> FILEPASS /\ i_typ it <> EOF_REC /\ interp (item_rec it) = Ok tt) ->
    body_ok body = true -> forallb raw_ok post = true ->
    xls_globals interp (items_bytes pre ++ rec_bytes FILEPASS body ++ raw_bytes post)
    = Err Password.E_PASSWORD.
Proof. exact filepass_is_password. Qed.

(* the same through Xls::new, the stream being found as "Workbook" … *)
Theorem C20_filepass_is_password_workbook :
  forall (interp : frec -> outcome unit) vba book pre body post,
    forallb item_ok pre = true ->
    (forall it, In it pre ->
       i_typ it <> FILEPASS /\ i_typ it <> EOF_REC /\ interp (item_rec it) = Ok tt) ->
    body_ok body = true -> forallb raw_ok post = true ->
    xls_new interp false vba
            (Ok (items_bytes pre ++ rec_bytes FILEPASS body ++ raw_bytes post)) book
    = Err Password.E_PASSWORD.
Proof. exact xls_new_filepass_workbook. Qed.

(* … or, when there is no such stream, as "Book" *)
Theorem C20_filepass_is_password_book :
  forall (interp : frec -> outcome unit) vba e pre body post,
    forallb item_ok pre = true ->
    (forall it, In it pre ->
       i_typ it <> FILEPASS /\ i_typ it <> EOF_REC /\ interp (item_rec it) = Ok tt) ->
    body_ok body = true -> forallb raw_ok post = true ->
    xls_new interp false vba (Err e)
            (Ok (items_bytes pre ++ rec_bytes FILEPASS body ++ raw_bytes post))
    = Err Password.E_PASSWORD.
Proof. exact xls_new_filepass_book. Qed.

(* converse: a globals substream without a FILEPASS record, closed by its EOF record and followed
   by anything, is never reported — whatever its records make the loop do (errors, panics) *)
Theorem C20_no_false_positive_xls :
  forall (interp : frec -> outcome unit),
    (forall r, interp r <> Err Password.E_PASSWORD) ->
    forall (items : list item) (eofbody rest : list N) (fuel : nat),
      forallb item_ok items = true ->
      (forall it, In it items -> i_typ it <> FILEPASS) ->
      globals_loop interp fuel (items_bytes items ++ rec_bytes EOF_REC eofbody ++ rest)
      <> Err Password.E_PASSWORD.
Proof. exact no_filepass_no_password. Qed.

(* the arms modelled in Password.v satisfy the side condition *)
Theorem C20_no_false_positive_xls_real :
  forall (items : list item) (eofbody rest : list N),
    forallb item_ok items = true ->
    (forall it, In it items -> i_typ it <> FILEPASS) ->
    xls_globals interp_real (items_bytes items ++ rec_bytes EOF_REC eofbody ++ rest)
    <> Err Password.E_PASSWORD.
Proof. exact no_filepass_no_password_real. Qed.

(* ------------------------------------------------------------------ xlsx / xlsb *)
(* over a parsed directory: an entry named EncryptedPackage at any index among any entries *)
Theorem C20_encrypted_ooxml_is_password :
  forall (before : list dentry) (d : dentry) (after_ : list dentry) (zip : outcome unit),
    d_name d = ENCRYPTED_PACKAGE ->
    ooxml_check (Ok (before ++ d :: after_)) = Err PasswordCfb.E_PASSWORD /\
    ooxml_new (Ok (before ++ d :: after_)) zip = Err PasswordCfb.E_PASSWORD.
Proof. exact encrypted_package_is_password. Qed.

(* over the bytes of the directory chain: whole 128-byte entries, the EncryptedPackage entry as a
   writer lays it out (any bytes behind the name terminator, any other fields, any start and
   size — mini stream or regular, empty or large), at any index, both sector sizes *)
Theorem C20_encrypted_ooxml_is_password_bytes :
  forall (before after_ : list (list N)) (pad mid : list N) (start size ss : N)
         (zip : outcome unit),
    Forall (fun e => length e = 128%nat) before ->
    Forall (fun e => length e = 128%nat) after_ ->
    exists ds,
      parse_dirs
        (concat (before ++ dir_entry_bytes ENCRYPTED_PACKAGE pad mid start size :: after_)) ss
        = Ok ds /\
      ooxml_check (Ok ds) = Err PasswordCfb.E_PASSWORD /\
      ooxml_new (Ok ds) zip = Err PasswordCfb.E_PASSWORD.
Proof. exact encrypted_ooxml_is_password. Qed.

(* converse, byte level: a file that starts with the zip local-header signature is rejected by
   Header::from_reader, so — whatever the rest of Cfb::new would do — the check passes and the
   reader opens the zip *)
Theorem C20_no_false_positive_ooxml :
  forall (load : header -> list N -> outcome (list N))
         (after : header -> list dentry -> list N -> outcome unit)
         (f : list N) (zip : outcome unit),
    firstn 4 f = ZIP_LOCAL ->
    (header_from_reader f = Err E_IO \/ header_from_reader f = Err E_OLE) /\
    ooxml_check (cfb_dirs load after f) = Ok tt /\
    ooxml_new (cfb_dirs load after f) zip = zip.
Proof. exact zip_no_false_positive. Qed.

(* converse over a parsed directory: a compound file without an entry of that name (an xls file
   handed to the xlsx reader, say) is not reported *)
Theorem C20_no_false_positive_ooxml_dirs :
  forall cfb : outcome (list dentry),
    (forall dirs, cfb = Ok dirs -> forall d, In d dirs -> d_name d <> ENCRYPTED_PACKAGE) ->
    ooxml_check cfb <> Err PasswordCfb.E_PASSWORD.
Proof. exact no_encrypted_package_not_password. Qed.

(* ------------------------------------------------------------------ ods *)
(* event level: an encryption-data start tag anywhere after a file-entry start tag, each under
   any namespace prefix the code accepts (local name = what follows the first ':'), among any
   other events, any number of entries before, between and after *)
Theorem C20_ods_encryption_data_is_password :
  forall (a : list mevent) (q1 : list N) (b : list mevent) (q2 : list N) (c : list mevent),
    no_err a -> no_err b ->
    str_eqb (local_name q1) FILE_ENTRY = true ->
    str_eqb (local_name q2) ENCRYPTION_DATA = true ->
    manifest_scan (a ++ MStart q1 :: b ++ MStart q2 :: c) = Err Password.E_PASSWORD.
Proof. exact encryption_data_is_password. Qed.

(* structured: for every manifest (any number of entries, every element under its own prefix
   spelling or none) the check answers Password exactly when some entry declares encryption *)
Theorem C20_ods_manifest_spec :
  forall (rp : option (list N)) (es : list entry),
    prefix_ok rp = true -> forallb entry_ok es = true ->
    manifest_scan (render_manifest rp es) = spec_ods es.
Proof. exact manifest_scan_spec. Qed.

Theorem C20_no_false_positive_ods :
  forall evs : list mevent,
    (forall q, In (MStart q) evs -> str_eqb (local_name q) ENCRYPTION_DATA = false) ->
    manifest_scan evs <> Err Password.E_PASSWORD.
Proof. exact no_encryption_data_no_password. Qed.

Check C20_filepass_is_password :
  forall (interp : frec -> outcome unit) (pre : list item) (body : list N)
         (post : list (N * list N)),
    forallb item_ok pre = true ->
    (forall it, In it pre ->
       i_typ it <> FILEPASS /\ i_typ it <> EOF_REC /\ interp (item_rec it) = Ok tt) ->
    body_ok body = true -> forallb raw_ok post = true ->
    xls_globals interp (items_bytes pre ++ rec_bytes FILEPASS body ++ raw_bytes post)
    = Err Password.E_PASSWORD.
Check C20_encrypted_ooxml_is_password :
  forall (before : list dentry) (d : dentry) (after_ : list dentry) (zip : outcome unit),
    d_name d = ENCRYPTED_PACKAGE ->
    ooxml_check (Ok (before ++ d :: after_)) = Err PasswordCfb.E_PASSWORD /\
    ooxml_new (Ok (before ++ d :: after_)) zip = Err PasswordCfb.E_PASSWORD.
Check C20_ods_encryption_data_is_password :
  forall (a : list mevent) (q1 : list N) (b : list mevent) (q2 : list N) (c : list mevent),
    no_err a -> no_err b ->
    str_eqb (local_name q1) FILE_ENTRY = true ->
    str_eqb (local_name q2) ENCRYPTION_DATA = true ->
    manifest_scan (a ++ MStart q1 :: b ++ MStart q2 :: c) = Err Password.E_PASSWORD.
Check C20_no_false_positive_ods :
  forall evs : list mevent,
    (forall q, In (MStart q) evs -> str_eqb (local_name q) ENCRYPTION_DATA = false) ->
    manifest_scan evs <> Err Password.E_PASSWORD.

(* ------------------------------------------------------------------ non-vacuity *)
(* BOF, WRITEACCESS-like 0x005C with a CONTINUE, CodePage 1200; FILEPASS type 1 (RC4);
   then two "encrypted" records, one of them a CONTINUE *)
Definition ex_pre : list item :=
  [mkItem 2057 [0; 6; 5; 0] []; mkItem 92 [1; 2; 3] [[4; 5]; []]; mkItem 66 [176; 4] []].
Definition ex_post : list (N * list N) := [(133, [9; 9; 9]); (60, [7]); (10, [])].

Example C20_filepass_is_password_nonvacuous :
  forallb item_ok ex_pre = true /\
  (forall it, In it ex_pre ->
     i_typ it <> FILEPASS /\ i_typ it <> EOF_REC /\ interp_real (item_rec it) = Ok tt) /\
  body_ok [1; 0; 1; 0; 1; 0] = true /\ forallb raw_ok ex_post = true /\
  xls_globals interp_real (items_bytes ex_pre ++ rec_bytes FILEPASS [1; 0; 1; 0; 1; 0] ++ raw_bytes ex_post)
  = Err Password.E_PASSWORD.
Proof.
  split; [reflexivity|]. split.
  - intros it [<-|[<-|[<-|[]]]]; repeat split; discriminate.
  - repeat split; reflexivity.
Qed.

Example C20_no_false_positive_xls_nonvacuous :
  forallb item_ok ex_pre = true /\ (forall it, In it ex_pre -> i_typ it <> FILEPASS) /\
  xls_globals interp_real (items_bytes ex_pre ++ rec_bytes EOF_REC [] ++ [1; 2; 3]) = Ok tt.
Proof.
  split; [reflexivity|]. split; [|reflexivity].
  intros it [<-|[<-|[<-|[]]]]; discriminate.
Qed.

Example C20_encrypted_ooxml_is_password_nonvacuous :
  exists ds,
    parse_dirs (concat ([repeat 0 128] ++
                        dir_entry_bytes ENCRYPTED_PACKAGE [255; 254; 1] [2; 2] 3 5000 ::
                        [dir_entry_bytes [69; 110; 99] [] [] 0 10])) 512 = Ok ds /\
    map d_name ds = [[]; ENCRYPTED_PACKAGE; [69; 110; 99]] /\
    ooxml_check (Ok ds) = Err PasswordCfb.E_PASSWORD.
Proof. eexists. split; [vm_compute; reflexivity|]. split; reflexivity. Qed.

Example C20_no_false_positive_ooxml_nonvacuous :
  firstn 4 (ZIP_LOCAL ++ repeat 0 600) = ZIP_LOCAL /\
  header_from_reader (ZIP_LOCAL ++ repeat 0 600) = Err E_OLE /\
  header_from_reader (ZIP_LOCAL ++ repeat 0 100) = Err E_IO.
Proof. repeat split; reflexivity. Qed.

(* manifest:file-entry / m:encryption-data, then an unencrypted entry without prefix *)
Definition ex_manifest : list entry :=
  [mkEntry (Some [109;97;110;105;102;101;115;116]) true (Some [109]) [] [[109;58;97;108;103]];
   mkEntry None false None [[120]] []].

Example C20_ods_manifest_spec_nonvacuous :
  prefix_ok (Some [109]) = true /\ forallb entry_ok ex_manifest = true /\
  manifest_scan (render_manifest (Some [109]) ex_manifest) = Err Password.E_PASSWORD /\
  manifest_scan (render_manifest None (tl ex_manifest)) = Ok tt.
Proof. repeat split; reflexivity. Qed.

Example C20_ods_encryption_data_is_password_nonvacuous :
  no_err [MOther; MStart [109;58;109]] /\ no_err [MStart [120]; MEnd [120]] /\
  str_eqb (local_name ([109;58] ++ FILE_ENTRY)) FILE_ENTRY = true /\
  str_eqb (local_name ENCRYPTION_DATA) ENCRYPTION_DATA = true.
Proof.
  split; [intros [H|[H|[]]]; discriminate|]. split; [intros [H|[H|[]]]; discriminate|].
  split; reflexivity.
Qed.

Example C20_no_false_positive_ods_nonvacuous :
  forall q, In (MStart q) (render_manifest None (tl ex_manifest)) ->
            str_eqb (local_name q) ENCRYPTION_DATA = false.
Proof.
  intros q H. vm_compute in H.
  repeat (destruct H as [H|H]; [try discriminate; inversion H; subst; reflexivity|]).
  destruct H.
Qed.

Print Assumptions C20_filepass_is_password.
Print Assumptions C20_filepass_is_password_workbook.
Print Assumptions C20_filepass_is_password_book.
Print Assumptions C20_no_false_positive_xls.
Print Assumptions C20_no_false_positive_xls_real.
Print Assumptions C20_encrypted_ooxml_is_password.
Print Assumptions C20_encrypted_ooxml_is_password_bytes.
Print Assumptions C20_no_false_positive_ooxml.
Print Assumptions C20_no_false_positive_ooxml_dirs.
Print Assumptions C20_ods_encryption_data_is_password.
Print Assumptions C20_ods_manifest_spec.
Print Assumptions C20_no_false_positive_ods.
