"""C15 — XLSX shared formulas expand to the translated formula of each member cell.

Correspondence, three routes:
  * hook level: calamine::verif_hooks::xlsx::replace_cell_names on rendered token lists
    (vh sharedfmla tok …) vs the extracted Coq model (vm sharedfmla tok …), which also returns
    the Coq spec (render of the translated tokens), the clipped form (references that would leave
    the sheet stay), in_range and wf;
  * raw text: arbitrary (not grammar-shaped) strings through rcn, plus the A1 helpers;
  * end to end: generated .xlsx files with column / row / block groups at random master
    positions, masters in arbitrary si order, read through Xlsx::worksheet_formula
    (vh sharedfmla sheet -> the generic `open` command) vs the model of next_formula +
    worksheet_formula (vm sharedfmla sheet).
The model is parameterised by the oracle is_alnum (Rust's char::is_alphanumeric): its values on
the non-ASCII characters of the generators are asked from the harness once per run
(`sharedfmla alnum`) and handed to the model side with every case.
Verdicts: impl != model -> disagreement; impl != spec on a well-formed, in-range case -> violation
(no known class is left)."""
import os, shutil
import vlib
import sharedfmlagen as G

ASSUMPTIONS = [
    "formula text is taken over the token grammar of SharedFmla.v (R1C1 references are outside it; structured references only as balanced bracket groups)",
    "char::is_alphanumeric is an oracle of the model: the proofs constrain it on ASCII only; the check instantiates it from the Rust standard library itself for the non-ASCII characters it generates",
    "the harness is built with overflow checks: i64 overflow in offset_cell_name would be a panic (unreachable for offsets between cells of a sheet: proved)",
    "cells carry an explicit r attribute; the XML layer (quick-xml events, unescape) is exercised end to end but not modelled",
    "Col26.v / Col26_proofs.v are agent c14's (A1 text <-> coordinates)",
]
STREAMS = [None, None, None, None, None, None, "whole", "sheet3d", "illegal", "colon"]
ORACLE = {"arg": "", "set": set()}

def tmpdir(ctx):
    d = os.path.join(vlib.CACHE, "tmp", "c15-%d" % os.getpid())
    os.makedirs(d, exist_ok=True)
    return d

def load_oracle(ctx):
    """char::is_alphanumeric on the non-ASCII characters of the generators, and a check of the
    ASCII part against the definition the proofs assume"""
    cps = list(range(128)) + [ord(ch) for ch in G.nonascii_chars()]
    line = "al\tsharedfmla\talnum\t%s" % ",".join(str(c) for c in cps)
    bits = ctx.run_impl([line]).get("al") or ""
    if len(bits) != len(cps):
        ctx.disagreements.append({"function": "alnum oracle", "case": line, "impl": bits, "model": None})
        return
    for c, b in zip(cps, bits):
        if c < 128:
            want = chr(c).isascii() and chr(c).isalnum()
            if (b == "1") != want:
                ctx.disagreements.append({"function": "alnum oracle (ASCII)", "case": "%d" % c, "impl": b,
                                          "model": "1" if want else "0"})
        elif b == "1":
            ORACLE["set"].add(c)
    ORACLE["arg"] = ",".join(str(c) for c in sorted(ORACLE["set"]))
    ctx.count("oracle:nonascii-chars", len(cps) - 128)
    ctx.count("oracle:nonascii-alnum", len(ORACLE["set"]))

# ----------------------------------------------------------------------------- hook level
def gen_offset(rng, ts, edge=False):
    """an offset that mostly keeps every relative reference on the sheet"""
    rows = [t[4] for t in ts if t[0] == "R" and not t[3]] + \
           [x for t in ts if t[0] == "W" for (a, x) in ((t[1], t[2]), (t[3], t[4])) if not a]
    cols = [t[2] for t in ts if t[0] == "R" and not t[1]] + \
           [x for t in ts if t[0] == "C" for (a, x) in ((t[1], t[2]), (t[3], t[4])) if not a]
    lo_r = -min(rows or [5]); hi_r = G.MAX_ROWS - 1 - max(rows or [0])
    lo_c = -min(cols or [5]); hi_c = G.MAX_COLS - 1 - max(cols or [0])
    def pick(lo, hi):
        x = rng.random()
        if x < 0.15:
            return 0
        if x < 0.55:
            return max(lo, min(hi, rng.randrange(-6, 40)))
        if x < 0.70:
            return rng.choice([lo, hi, max(lo, -1), min(hi, 1)])
        return rng.randrange(lo, hi + 1)
    shape = rng.random()
    dr, dc = pick(lo_r, hi_r), pick(lo_c, hi_c)
    if shape < 0.35:
        dc = 0
    elif shape < 0.65:
        dr = 0
    if edge:
        which = rng.randrange(4)
        if which == 0: dr = max(lo_r - rng.choice([1, 1, 2, 1000]), -G.MAX_ROWS + 1)
        elif which == 1: dr = min(hi_r + rng.choice([1, 1, 2, 1000]), G.MAX_ROWS - 1)
        elif which == 2: dc = max(lo_c - rng.choice([1, 1, 2, 100]), -G.MAX_COLS + 1)
        else: dc = min(hi_c + rng.choice([1, 1, 2, 100]), G.MAX_COLS - 1)
    return dr, dc

def classify_tok(ctx, lid, line, ts, dr, dc, impl, model):
    """returns a dict describing the case: ok / known / violation / disagreement"""
    f = (model or "").split("|")
    if impl is None or model is None or len(f) != 6:
        ctx.disagreements.append({"function": "replace_cell_names", "case": line, "impl": impl, "model": model})
        return None
    m_ans, m_spec, m_clip, inr, wf, rok = f
    my_spec = G.hx(G.render_all(G.translate(ts, dr, dc)))
    my_clip = G.hx(G.render_all(G.translate_clip(ts, dr, dc)))
    if rok != "1" or my_spec != m_spec or my_clip != m_clip or (inr == "1") != G.in_range(ts, dr, dc):
        ctx.disagreements.append({"function": "render/translate (generator vs Coq spec)", "case": line,
                                  "impl": my_spec + "|" + my_clip, "model": model})
        return None
    if impl != m_ans:
        # the tie is broken; still decide below whether the property itself fails on this input
        ctx.disagreements.append({"function": "replace_cell_names", "case": line, "impl": impl, "model": m_ans})
    info = {"impl": impl, "expected": "ok:" + m_spec, "inr": inr, "wf": wf, "cls": None}
    if wf != "1":
        ctx.count("tok:not-wf")
        return info
    sheet_off = -G.MAX_ROWS < dr < G.MAX_ROWS and -G.MAX_COLS < dc < G.MAX_COLS
    if inr != "1":
        ctx.count("tok:out-of-range")
        # the property does not say what a reference that leaves the sheet becomes; the code
        # documents "left unchanged" (theorem C15_translate_total): anything else — a panic, an
        # error, an invalid name — on an offset between two cells of a sheet is reported
        if impl == "ok:" + m_clip:
            ctx.count("tok:edge-left-unchanged")
        elif sheet_off:
            ctx.violations.append({"case": line, "expected": "ok:" + m_clip, "actual": impl, "model": m_ans,
                                   "what": "replace_cell_names(%r, (%d,%d)): a reference that would leave the sheet must stay unchanged (%r)"
                                           % (G.render_all(ts), dr, dc, G.render_all(G.translate_clip(ts, dr, dc)))})
            info["cls"] = "violation"
        else:
            ctx.count("tok:offset-beyond-any-sheet")
        return info
    ctx.count("tok:in-range")
    if impl == info["expected"]:
        ctx.count("tok:translated-as-specified")
        return info
    # the real code deviates from the property on a grammatical, in-range formula
    ctx.violations.append({"case": line, "expected": info["expected"], "actual": impl, "model": m_ans,
                           "what": "replace_cell_names(%r, (%d,%d)) differs from the translated formula %r"
                                   % (G.render_all(ts), dr, dc, G.render_all(G.translate(ts, dr, dc)))})
    info["cls"] = "violation"
    return info

def tok_line(lid, ts, dr, dc):
    return "%s\tsharedfmla\ttok\t%s\t%d\t%d\t%s\t%s" % (lid, G.wire_tokens(ts), dr, dc, G.hx(G.render_all(ts)),
                                                        ORACLE["arg"])

def features(ctx, ts):
    for t in ts:
        k = t[0]
        if k == "R":
            ctx.count("feat:ref-%s" % ("rel", "row-abs", "col-abs", "abs")[2 * t[1] + t[3]])
            if t[2] in (0, G.MAX_COLS - 1) or t[4] in (0, G.MAX_ROWS - 1):
                ctx.count("feat:ref-at-sheet-edge")
        elif k == "F" and any(ch.isdigit() for ch in t[1]):
            ctx.count("feat:function-name-with-digits")
        elif k == "S":
            ctx.count("feat:sheet-%s%s" % ("quoted" if t[1] else "plain", "-nonascii" if not t[2].isascii() else ""))
            if G.is_cell_name(t[2]):
                ctx.count("feat:sheet-named-like-a-cell")
        elif k == "Q" and not t[1].isascii():
            ctx.count("feat:string-nonascii")
        elif k == "Q" and '"' in t[1]:
            ctx.count("feat:string-doubled-quote")
        elif k == "N" and not t[1].isascii():
            ctx.count("feat:name-nonascii")
        elif k == "B":
            ctx.count("feat:bracketed")
        elif k == "M" and t[3] is not None and t[3][0] is None:
            ctx.count("feat:number-1E5-style")
        elif k in ("C", "W", "T"):
            ctx.count("feat:" + {"C": "whole-columns", "W": "whole-rows", "T": "sheet-3d"}[k])

def run_tok_batch(ctx, n, tag):
    rng = ctx.rng
    cases, lines = [], []
    for k in range(n):
        stream = rng.choice(STREAMS)
        base = (rng.choice([0, 0, 3, 50, 1000, G.MAX_ROWS - 14]), rng.choice([0, 0, 2, 30, 700, G.MAX_COLS - 14]))
        g = G.FormulaGen(rng, base=base, stream=stream)
        ts = g.formula()
        edge = rng.random() < 0.08
        dr, dc = gen_offset(rng, ts, edge)
        lid = "%s%d" % (tag, k)
        cases.append((lid, ts, dr, dc, stream))
        lines.append(tok_line(lid, ts, dr, dc))
    impl, model = ctx.run_both(lines)
    for (lid, ts, dr, dc, stream), line in zip(cases, lines):
        info = classify_tok(ctx, lid, line, ts, dr, dc, impl.get(lid), model.get(lid))
        ctx.traces += 1
        ctx.count("stream:%s" % (stream or "mix"))
        ctx.count("shape:%s" % ("vertical" if dc == 0 and dr != 0 else "horizontal" if dr == 0 and dc != 0
                                else "none" if dr == 0 and dc == 0 else "diagonal"))
        features(ctx, ts)
        if info and any(t[0] == "R" and not (t[1] and t[3]) for t in ts) and (dr or dc):
            ctx.nontrivial(line.split("\t", 2)[2])
        if len(ctx.samples) < 4 and info:
            ctx.sample({"formula": G.render_all(ts), "offset": [dr, dc], "impl": impl.get(lid),
                        "class": info["cls"]})

# the witnesses of the Coq lemmas and other fixed cases (kept alive on every run)
def witness_cases():
    R = lambda ca, c, ra, r: ("R", ca, c, ra, r)
    Y = lambda s: ("Y", s)
    A1 = R(0, 0, 0, 0)
    return [
        # the former classes: now translated as specified
        ([R(1, 0, 0, 0), Y("+"), R(0, 0, 1, 0)], 0, 1), ([R(1, 0, 0, 0)], 3, 0), ([R(0, 0, 1, 0)], 3, 2),
        ([("F", "LOG10"), A1, Y(")")], 1, 0), ([("S", 1, "Q1"), A1], 1, 0), ([("S", 0, "Q1"), A1], 1, 0),
        ([("F", "SUMX2MY2"), A1, Y(":"), R(0, 0, 0, 2), Y(","), R(0, 1, 0, 0), Y(":"), R(0, 1, 0, 2), Y(")")], 1, 0),
        ([("F", "ATAN2"), A1, Y(","), R(0, 16383, 0, 0), Y(")")], 0, -16000),
        ([("Q", "é"), Y("&"), A1], 1, 0), ([("S", 1, "Données"), A1], 1, 0), ([("S", 0, "Données"), A1], 1, 0),
        ([("Q", "Ł1")], 0, 0), ([("S", 1, 'a"b'), A1, Y("+"), R(0, 1, 0, 1)], 1, 0),
        ([("S", 0, "Revenue2024"), A1], 1, 0), ([A1, Y("*"), ("M", "1000000000", None, None)], 1, 0),
        ([("M", "1", None, (None, "5")), Y("+"), A1], 1, 1), ([("N", "my_A1"), Y("+"), A1], 1, 1),
        ([("N", "Table1"), ("B", "[[#This Row],[Col A1]]"), Y("+"), A1], 1, 1),
        ([("B", "[1]"), ("S", 0, "Sheet1"), A1], 1, 1), ([("N", "税A1"), Y("*"), A1], 2, 0),
        # the sheet edges: left unchanged
        ([A1], -1, 0), ([A1], 0, -1), ([R(0, 16383, 0, 0)], 0, 1), ([R(0, 0, 0, 1048575)], 1, 0),
        ([R(1, 16383, 1, 1048575)], 5, 5), ([R(0, 16383, 0, 1048575)], -1048575, -16383),
        ([R(0, 16382, 0, 1048574)], 1, 1), ([R(0, 1, 0, 1)], -1, -1), ([R(1, 0, 0, 0)], -1, -1),
        ([("S", 0, "Sheet1"), A1], 1048575, 16383), ([("N", "TRUE")], 1, 1), ([("E", 1), Y("+"), ("E", 6)], 1, 1),
        ([("E", 4), Y("+"), ("E", 0)], 1, 1),
        ([("M", "1", "5", (True, "3")), Y("*"), A1], 2, 2), ([("Q", 'A1 "x" B2'), Y("&"), A1], 2, 2),
        # the classes repaired last: whole ranges, 3-D prefix
        ([("F", "SUM"), ("C", 0, 0, 0, 0), Y(")")], 0, 1), ([("F", "SUM"), ("W", 0, 0, 0, 2), Y(")")], 2, 0),
        ([("F", "SUM"), ("C", 0, 0, 0, 0), Y(")")], 3, 0), ([("F", "SUM"), ("C", 1, 0, 1, 1), Y(")")], 3, 3),
        ([("F", "SUM"), ("C", 0, 0, 1, 1), Y(")")], 0, 1), ([("C", 0, 16382, 0, 16383)], 0, 1), ([("C", 0, 0, 0, 1)], 0, -1),
        ([("W", 1, 0, 0, 1048575)], 1, 0), ([("W", 0, 1048574, 0, 1048574)], 1, 0), ([("S", 0, "Sheet2"), ("C", 0, 0, 0, 1)], 0, 2),
        ([("T", "Q1", "Q3"), A1], 1, 0), ([("T", "Sheet1", "Sheet3"), A1], 1, 0), ([("T", "A", "B"), ("C", 0, 0, 0, 1)], 0, 1),
        # defined names with a non-ASCII letter before a cell-like tail
        ([("N", "売上Q1"), Y("+"), A1], 1, 1), ([("N", "Année2024"), Y("*"), A1], 1, 1),
        # outside the grammar: the text of a range tokenised as names / numbers
        ([("N", "A"), Y(":"), ("N", "B")], 0, 1), ([("M", "1", None, None), Y(":"), ("M", "3", None, None)], 1, 0),
        ([A1, Y(":"), ("S", 0, "Sheet3"), A1], 1, 0), ([("N", "A"), Y(":"), ("F", "IF"), A1, Y(")")], 0, 1),
        # outside the grammar (names that are cell names): correspondence only
        ([("N", "tax1")], 1, 0), ([("N", "Tbl1"), ("B", "[Col]")], 1, 0),
    ]

def run_witnesses(ctx):
    lines, cases = [], []
    for k, (ts, dr, dc) in enumerate(witness_cases()):
        lid = "w%d" % k
        cases.append((lid, ts, dr, dc))
        lines.append(tok_line(lid, ts, dr, dc))
    impl, model = ctx.run_both(lines)
    for (lid, ts, dr, dc), line in zip(cases, lines):
        classify_tok(ctx, lid, line, ts, dr, dc, impl.get(lid), model.get(lid))
        ctx.traces += 1
        ctx.nontrivial(line.split("\t", 2)[2])

# ----------------------------------------------------------------------------- raw text and helpers
ALPH = list("AZaz09$:!'\"(), +-*&.#_[]?\\") + G.RAW_EXTRA
def run_raw_batch(ctx, n, tag):
    rng = ctx.rng
    lines = []
    for k in range(n):
        x = rng.random()
        if x < 0.6:
            if rng.random() < 0.5:
                s = "".join(rng.choice(ALPH) for _ in range(rng.randrange(0, 14)))
            else:
                # cell-shaped words glued to arbitrary neighbours
                s = ""
                for _ in range(rng.randrange(1, 4)):
                    s += rng.choice(["", "$"]) + "".join(rng.choice("AXFDZaq") for _ in range(rng.randrange(0, 5)))
                    s += rng.choice(["", "$"]) + "".join(rng.choice("0123456789") for _ in range(rng.randrange(0, 9)))
                    s += rng.choice(ALPH)
            off = (rng.choice([0, 1, -1, 5, 1048575, -1048575, 2 ** 32, -2 ** 32, 2 ** 63 - 1, -2 ** 63, rng.randrange(-50, 50)]),
                   rng.choice([0, 1, -1, 3, 16383, -16383, 2 ** 32 - 1, 2 ** 63 - 1, -2 ** 63, rng.randrange(-50, 50)]))
            lines.append("%s%d\tsharedfmla\trcn\t%s\t%d\t%d\t%s" % (tag, k, G.hx(s), off[0], off[1], ORACLE["arg"]))
        elif x < 0.7:
            lines.append("%s%d\tsharedfmla\tc2n\t%d\t%d" % (tag, k, rng.choice([0, 1, 9, 1048575, 2 ** 32 - 2, 2 ** 32 - 1, rng.randrange(2 ** 32)]),
                                                              rng.choice([0, 25, 26, 701, 702, 16383, 16384, 2 ** 32 - 1, rng.randrange(20000)])))
        elif x < 0.8:
            lines.append("%s%d\tsharedfmla\tcn2n\t%d" % (tag, k, rng.choice([0, 25, 26, 701, 702, 16383, 16384, rng.randrange(2 ** 32)])))
        elif x < 0.9:
            if rng.random() < 0.5:
                s = "".join(rng.choice("ABZXFDaz0159$:") for _ in range(rng.randrange(0, 12)))
            else:
                # long letter / digit runs: the u64 accumulators saturate, u32::try_from decides
                s = "".join(rng.choice("AZFXaz") for _ in range(rng.choice([0, 1, 3, 6, 7, 8, 13, 14, 15, 20]))) + \
                    rng.choice(["", "7", "1"]) + rng.choice(["", "0", "0" * 23, "0" * 64, "0" * 70]) + \
                    "".join(rng.choice("0123456789") for _ in range(rng.choice([0, 1, 7, 9, 10, 11, 19, 20, 21, 30])))
                s = rng.choice([s, s, "A4294967296", "A4294967297", "A18446744073709551616", "MWLQKWU1", "MWLQKWV1", s + "1"])
            lines.append("%s%d\tsharedfmla\tgrc\t%s" % (tag, k, G.hx(s)))
        else:
            s = rng.choice(["A1:B2", "B2:A1", "A1", "A1:B2:C3", "", ":", "A1:", "XFD1048576:XFD1048576", "C3:C9", "C3:K3",
                            "B3:B2", "C2:B2", "A4294967296:A1", "A1:A4294967297", "a1:b2", "A1:XFD1048576", "A:B", "1:2",
                            "".join(rng.choice("ABC123:") for _ in range(rng.randrange(0, 9)))])
            lines.append("%s%d\tsharedfmla\tgdim\t%s" % (tag, k, G.hx(s)))
    impl, model = ctx.run_both(lines)
    for l in lines:
        lid = l.split("\t", 1)[0]
        ctx.count("raw:" + l.split("\t")[2])
        if impl.get(lid) != model.get(lid):
            ctx.disagreements.append({"function": l.split("\t")[2], "case": l, "impl": impl.get(lid), "model": model.get(lid)})
        elif l.split("\t")[2] == "rcn" and impl.get(lid) == "panic":
            ctx.count("raw:rcn-panic(i64 overflow, offset beyond any sheet)")

def sweep_columns(ctx):
    """finite domain: every column number 0..16400 through column_number_to_name / coordinate_to_name"""
    lines = ["c%d\tsharedfmla\tcn2n\t%d" % (n, n) for n in range(0, 16401)]
    lines += ["d%d\tsharedfmla\tc2n\t%d\t%d" % (n, (n * 64) % 1048576, n) for n in range(0, 16384, 7)]
    impl, model = ctx.run_both(lines)
    bad = [l for l in lines if impl.get(l.split("\t", 1)[0]) != model.get(l.split("\t", 1)[0])]
    for l in bad[:3]:
        lid = l.split("\t", 1)[0]
        ctx.disagreements.append({"function": "column_number_to_name", "case": l, "impl": impl.get(lid), "model": model.get(lid)})
    for n in range(0, 16384, 997):
        if impl.get("c%d" % n) != "ok:" + G.hx(G.letters(n)):
            ctx.violations.append({"case": "c%d\tsharedfmla\tcn2n\t%d" % (n, n), "expected": "ok:" + G.hx(G.letters(n)),
                                   "actual": impl.get("c%d" % n), "model": model.get("c%d" % n),
                                   "what": "column_number_to_name is not bijective base 26"})
    ctx.count("sweep:columns", len(lines))

# ----------------------------------------------------------------------------- end to end
def gen_sheet(rng, kind="normal"):
    """returns (cells for the writer / wire, groups) — cells in document order.  Groups: column,
    row, block or single-cell refs; the master is the top-left cell, any cell of the box, or
    (kind "far") a cell outside the box; shared indices in arbitrary order (kind "si":
    permuted / reversed / repeated)."""
    H = W = 14
    base = (rng.choice([0, 0, 1, 7, 500, 99990, G.MAX_ROWS - H]), rng.choice([0, 0, 1, 4, 20, 690, G.MAX_COLS - W]))
    occupied = {}
    groups = []
    ngroups = rng.choice([1, 1, 2, 2, 3, 4])
    for gi in range(ngroups):
        shape = rng.choice(["col", "col", "row", "row", "block", "block", "single"] if kind != "block" else ["block"])
        h = 1 if shape in ("row", "single") else rng.randrange(2, 7)
        w = 1 if shape in ("col", "single") else rng.randrange(2, 6)
        for _ in range(20):
            r0 = rng.randrange(0, H - h + 1); c0 = rng.randrange(0, W - w + 1)
            box = [(r0 + i, c0 + j) for i in range(h) for j in range(w)]
            if not any(p in occupied for p in box):
                break
        else:
            continue
        x = rng.random()
        if kind == "far" and x < 0.6:
            free = [(r, c) for r in range(H) for c in range(W) if (r, c) not in occupied and (r, c) not in box]
            mpos = rng.choice(free)
        elif x < 0.75:
            mpos = box[0]
        else:
            mpos = rng.choice(box)
        stream = rng.choice(STREAMS) if (kind == "normal" and rng.random() < 0.3) else None
        fg = G.FormulaGen(rng, base=(base[0] + mpos[0], base[1] + mpos[1]), span=5, stream=stream)
        ts = fg.formula()
        if rng.random() < 0.8:
            # keep most members' translations on the sheet: pull the references away from the edges
            fixed = []
            for t in ts:
                if t[0] == "R":
                    _, ca, c, ra, r = t
                    c = min(max(c, H), G.MAX_COLS - W - 1) if not ca else c
                    r = min(max(r, W), G.MAX_ROWS - H - 1) if not ra else r
                    t = ("R", ca, c, ra, r)
                fixed.append(t)
            ts = fixed
        g = {"shape": shape, "start": (base[0] + r0, base[1] + c0), "end": (base[0] + r0 + h - 1, base[1] + c0 + w - 1),
             "master": (base[0] + mpos[0], base[1] + mpos[1]), "tokens": ts, "members": [], "stream": stream}
        occupied[mpos] = ("master", g)
        for p in box:
            q = (base[0] + p[0], base[1] + p[1])
            if p == mpos:
                continue
            if rng.random() < 0.1:
                occupied[p] = ("plain", "1+" + G.a1(q[0], q[1])) if rng.random() < 0.5 else ("none",)
            else:
                occupied[p] = ("member", g, "" if rng.random() < 0.9 else "OWN(" + G.a1(q[0], q[1]) + ")")
                g["members"].append(q)
        groups.append(g)
    # some stray cells: plain formulas, values, members of an undeclared group, a member outside its ref
    for _ in range(rng.randrange(0, 6)):
        p = (rng.randrange(H), rng.randrange(W))
        if p in occupied:
            continue
        x = rng.random()
        q = (base[0] + p[0], base[1] + p[1])
        if x < 0.5:
            occupied[p] = ("plain", G.render_all(G.FormulaGen(rng, base=q, span=4).formula()))
        elif x < 0.8:
            occupied[p] = ("none",)
        elif x < 0.9:
            occupied[p] = ("stray", 40 + rng.randrange(3), "")
        elif groups:
            occupied[p] = ("outside", rng.choice(groups), "KEEP()")
    order = sorted(occupied)
    masters = [occupied[p][1] for p in order if occupied[p][0] == "master"]
    # shared indices: arbitrary order in the document
    pool = rng.sample(range(0, 12), len(masters)) if rng.random() < 0.7 else list(range(len(masters)))
    if kind == "si" and len(masters) >= 2:
        x = rng.random()
        if x < 0.4:
            pool = sorted(pool, reverse=True)
        elif x < 0.7:
            pool[-1] = pool[0]          # a repeated index: the later master replaces the earlier group
        else:
            pool = [5, 0, 9, 3][:len(masters)]
    if rng.random() < 0.03:
        pool[0] = 10 ** 12              # a huge index costs nothing any more
    for g, si in zip(masters, pool):
        g["si"] = si
    cells = []
    for p in order:
        q = (base[0] + p[0], base[1] + p[1])
        o = occupied[p]
        if o[0] == "master":
            g = o[1]
            ref = G.a1(*g["start"]) + ":" + G.a1(*g["end"]) if (g["shape"] != "single" or rng.random() < 0.5) else G.a1(*g["start"])
            cells.append((q[0], q[1], ("master", g["si"], ref, G.render_all(g["tokens"]))))
        elif o[0] == "member":
            cells.append((q[0], q[1], ("member", o[1]["si"], o[2])))
        elif o[0] == "outside":
            cells.append((q[0], q[1], ("member", o[1]["si"], o[2])))
        elif o[0] == "stray":
            cells.append((q[0], q[1], ("member", o[1], o[2])))
        elif o[0] == "plain":
            cells.append((q[0], q[1], ("plain", o[1])))
        else:
            cells.append((q[0], q[1], ("none",)))
    return cells, [g for g in groups if "si" in g]

def walk_sheet(cells, groups):
    """document-order walk: yields (r, c, kind, group or None) where group is the one the
    property attaches a member to (latest master with that si seen so far, cell inside its ref)"""
    by_si = {}
    for (r, c, kind) in cells:
        g = None
        if kind[0] == "master":
            by_si[kind[1]] = next(x for x in groups if x["si"] == kind[1] and x["master"] == (r, c))
        elif kind[0] == "member":
            x = by_si.get(kind[1])
            if x is not None and x["start"][0] <= r <= x["end"][0] and x["start"][1] <= c <= x["end"][1]:
                g = x
        yield r, c, kind, g

def expected_sheet(cells, groups, clip=False):
    """what the property demands: {(r,c): hex text}; with clip=True references that would leave
    the sheet stay unchanged (the documented behaviour outside the property's domain)"""
    exp = {}
    for r, c, kind, g in walk_sheet(cells, groups):
        k = kind[0]
        if k == "plain":
            exp[(r, c)] = G.hx(kind[1])
        elif k == "master":
            exp[(r, c)] = G.hx(kind[3])
        elif k == "member":
            if g is not None:
                dr, dc = r - g["master"][0], c - g["master"][1]
                tr = G.translate_clip if clip else G.translate
                exp[(r, c)] = G.hx(G.render_all(tr(g["tokens"], dr, dc)))
            else:
                exp[(r, c)] = G.hx(kind[2])
    return {p: v for p, v in exp.items() if v != ""}

def run_sheet_batch(ctx, n, tag, kinds=("normal", "normal", "normal", "block", "si", "si", "far")):
    rng = ctx.rng
    d = tmpdir(ctx)
    name = "Sheet1"
    sheets, lines, toklines, tokmeta = [], [], [], {}
    for k in range(n):
        kind = rng.choice(kinds)
        cells, groups = gen_sheet(rng, kind)
        path = os.path.join(d, "%s%d.xlsx" % (tag, k))
        G.write_xlsx(path, name, cells, rng)
        lid = "%s%d" % (tag, k)
        sheets.append((lid, cells, groups, kind, path))
        lines.append("%s\tsharedfmla\tsheet\t%s\t%s\t%s\t%s" % (lid, G.wire_cells(cells), path, G.hx(name), ORACLE["arg"]))
        # hook-level classification of every (group, member offset) pair the property attaches
        for r, c, knd, g in walk_sheet(cells, groups):
            if g is not None:
                dr, dc = r - g["master"][0], c - g["master"][1]
                tid = "%s.%d.%d" % (lid, r, c)
                toklines.append(tok_line(tid, g["tokens"], dr, dc))
                tokmeta[tid] = (g["tokens"], dr, dc)
    impl, model = ctx.run_both(lines)
    timpl, tmodel = ctx.run_both(toklines)
    tokinfo = {}
    for l in toklines:
        tid = l.split("\t", 1)[0]
        ts, dr, dc = tokmeta[tid]
        tokinfo[tid] = classify_tok(ctx, tid, l, ts, dr, dc, timpl.get(tid), tmodel.get(tid))
    for (lid, cells, groups, kind, path), line in zip(sheets, lines):
        ctx.traces += 1
        ctx.count("sheet:" + kind)
        for g in groups:
            ctx.count("group:" + g["shape"])
            ctx.count("master:" + ("top-left" if g["master"] == g["start"] else
                                   "inside" if g["start"][0] <= g["master"][0] <= g["end"][0] and
                                   g["start"][1] <= g["master"][1] <= g["end"][1] else "outside-ref"))
        sis = [g["si"] for g in groups]
        if sis != sorted(sis) or len(set(sis)) != len(sis):
            ctx.count("sheet:si-not-increasing")
        a, m = impl.get(lid), model.get(lid)
        short = "%s\tsharedfmla\tsheet\t%s" % (lid, G.wire_cells(cells))
        if a != m:
            keep = os.path.join(vlib.ROOT, "replays", "C15-%s.xlsx" % lid)
            os.makedirs(os.path.dirname(keep), exist_ok=True)
            if len(ctx.disagreements) < 5:
                shutil.copy(path, keep)
            ctx.disagreements.append({"function": "next_formula/worksheet_formula", "case": line.replace(path, keep),
                                      "impl": a, "model": m})
        # expectation: the property inside its domain; a member whose translation leaves the sheet
        # keeps the clipped text (outside the domain, see classify_tok)
        exp = expected_sheet(cells, groups)
        expc = expected_sheet(cells, groups, clip=True)
        for tid, info in tokinfo.items():
            if tid.startswith(lid + ".") and info and info["inr"] != "1":
                _, r, c = tid.rsplit(".", 2)
                p = (int(r), int(c))
                if p in expc:
                    exp[p] = expc[p]
                else:
                    exp.pop(p, None)
        exp_text = G.range_text(exp)
        if len(groups) >= 1 and any(g["members"] for g in groups):
            ctx.nontrivial(short)
        if a == exp_text:
            ctx.count("sheet:as-specified")
            continue
        # the sheet deviates from the property: attribute every deviating cell to a cause
        causes = set()
        got = G.parse_range_text(a)
        if got is None:
            causes.add("violation")      # the whole call failed
        else:
            for p in set(exp) | set(got):
                if exp.get(p) == got.get(p):
                    continue
                info = tokinfo.get("%s.%d.%d" % (lid, p[0], p[1]))
                if info and info["cls"] not in (None, "violation"):
                    causes.add(info["cls"])
                elif info and info["wf"] != "1":
                    causes.add("outside-grammar")    # e.g. a defined name that is a cell name
                else:
                    causes.add("violation")
        if not causes:
            causes.add("violation")     # same cells but another rectangle (or unparsable text)
        if "outside-grammar" in causes:
            ctx.count("sheet:master-outside-grammar")
            causes.discard("outside-grammar")
        if "violation" in causes:
            keep = os.path.join(vlib.ROOT, "replays", "C15-%s.xlsx" % lid)
            os.makedirs(os.path.dirname(keep), exist_ok=True)
            if len(ctx.violations) < 5:
                shutil.copy(path, keep)
            ctx.violations.append({"case": line.replace(path, keep), "expected": exp_text, "actual": a, "model": m,
                                   "what": "worksheet_formula on a generated sheet with shared-formula groups %s"
                                           % [(g["shape"], g["si"], G.a1(*g["master"]), G.a1(*g["start"]) + ":" + G.a1(*g["end"]),
                                               G.render_all(g["tokens"])) for g in groups]})
        for c in causes - {"violation"}:
            ctx.known_hits.setdefault(c, short)
            ctx.count("known-sheet:" + c)
    shutil.rmtree(d, ignore_errors=True)

BAD_REFS = ["B3:B2", "D2:B2", "D4:B2", "A4294967296:B2", "B2:A4294967297", "A99999999999999999999:B2", "B2:C3:D4", "", ":",
            "B2:", "A:B", "2:3", "b2:d4", "ZZZZZZZZZZZZZZZ1:B2", "B0:B2", "$B$2:$D$4", "B2 :D4", "A1:XFD1048576"]
def run_badref_sheets(ctx, n, tag):
    """robustness of the ref attribute (C06 hardening): a master whose ref is inverted, huge,
    truncated or garbage.  Outside the property's domain: implementation vs model only."""
    rng = ctx.rng
    d = tmpdir(ctx)
    lines, meta = [], []
    for k in range(n):
        cells, groups = gen_sheet(rng, rng.choice(["normal", "block", "si"]))
        idx = [i for i, c in enumerate(cells) if c[2][0] == "master"]
        if not idx:
            continue
        i = rng.choice(idx)
        r, c, kind = cells[i]
        bad = rng.choice(BAD_REFS)
        cells[i] = (r, c, ("master", kind[1], bad, kind[3]))
        path = os.path.join(d, "%s%d.xlsx" % (tag, k))
        G.write_xlsx(path, "Sheet1", cells, rng)
        lid = "%s%d" % (tag, k)
        lines.append("%s\tsharedfmla\tsheet\t%s\t%s\t%s\t%s" % (lid, G.wire_cells(cells), path, G.hx("Sheet1"), ORACLE["arg"]))
        meta.append((lid, bad, path))
    impl, model = ctx.run_both(lines)
    for (lid, bad, path), line in zip(meta, lines):
        ctx.traces += 1
        a, m = impl.get(lid), model.get(lid)
        ctx.count("badref:%s" % ("range" if (a or "").startswith("R[") else a))
        if a != m:
            keep = os.path.join(vlib.ROOT, "replays", "C15-%s.xlsx" % lid)
            os.makedirs(os.path.dirname(keep), exist_ok=True)
            if len(ctx.disagreements) < 5:
                shutil.copy(path, keep)
            ctx.disagreements.append({"function": "next_formula (malformed ref %r)" % bad, "case": line.replace(path, keep),
                                      "impl": a, "model": m})
        if a in ("panic", "abort", "timeout"):
            ctx.violations.append({"case": line, "expected": "a range or an error", "actual": a, "model": m,
                                   "what": "worksheet_formula must not panic on a shared-formula master with ref=%r" % bad})
    shutil.rmtree(d, ignore_errors=True)

def run_fixed_sheets(ctx):
    """hand-made sheets: column, row and block groups, shared indices in every order, a gap, a
    repeated index, a master in the middle of its block, plain cells and strays"""
    A1 = ("R", 0, 0, 0, 0)
    f = [("R", 1, 0, 0, 20), ("Y", "+"), ("R", 0, 5, 1, 0), ("Y", "*"), ("R", 0, 6, 0, 20), ("Y", "+"),
         ("F", "LOG10"), ("R", 0, 7, 0, 21), ("Y", ")")]
    txt = G.render_all(f)
    def grp(start, end, si, master=None):
        master = master or start
        return {"shape": "block" if start[0] != end[0] and start[1] != end[1] else "col" if start[0] != end[0] else "row",
                "start": start, "end": end, "master": master, "tokens": f, "si": si,
                "members": [(r, c) for r in range(start[0], end[0] + 1) for c in range(start[1], end[1] + 1)
                            if (r, c) != master]}
    def cells_of(gs, extra=()):
        cells = []
        for g in gs:
            cells.append((g["master"][0], g["master"][1], ("master", g["si"], G.a1(*g["start"]) + ":" + G.a1(*g["end"]), txt)))
            for (r, c) in g["members"]:
                cells.append((r, c, ("member", g["si"], "")))
        cells += list(extra)
        return sorted(cells, key=lambda x: (x[0], x[1]))
    col = grp((1, 1), (4, 1), 0); row = grp((6, 1), (6, 5), 1); blk = grp((8, 1), (10, 3), 2)
    sheets = [
        ("col+row", [col, row], ()),
        ("block", [grp((1, 1), (3, 3), 0)], ()),
        ("block-master-in-the-middle", [grp((1, 1), (3, 3), 0, master=(2, 2))], ()),
        ("si-swapped", [grp((1, 1), (4, 1), 1), grp((6, 1), (6, 5), 0)], ()),
        ("si-descending-side-by-side", [grp((1, 2), (4, 2), 1), grp((1, 3), (4, 3), 0)], ()),
        ("si-descending-three-columns", [grp((1, 1), (5, 1), 7), grp((1, 2), (5, 2), 3), grp((1, 3), (5, 3), 0)], ()),
        ("si-1-0-2", [grp((1, 1), (4, 1), 1), grp((6, 1), (6, 5), 0), grp((8, 1), (10, 3), 2)], ()),
        ("si-gap", [grp((1, 1), (4, 1), 3), grp((6, 1), (6, 5), 9)], ()),
        ("si-huge", [grp((1, 1), (4, 1), 10 ** 12), grp((6, 1), (6, 5), 0)], ()),
        ("all", [col, row, blk], ((0, 0, ("plain", "B2*2")), (0, 1, ("none",)), (12, 0, ("member", 7, "KEEP")))),
    ]
    d = tmpdir(ctx)
    lines, meta = [], []
    for k, (nm, gs, extra) in enumerate(sheets):
        cells = cells_of(gs, extra)
        path = os.path.join(d, "fx%d.xlsx" % k)
        G.write_xlsx(path, "Sheet1", cells)
        lid = "fx%d" % k
        lines.append("%s\tsharedfmla\tsheet\t%s\t%s\t%s\t%s" % (lid, G.wire_cells(cells), path, G.hx("Sheet1"), ORACLE["arg"]))
        meta.append((lid, nm, cells, gs))
    impl, model = ctx.run_both(lines)
    for (lid, nm, cells, gs), line in zip(meta, lines):
        ctx.traces += 1
        a, m = impl.get(lid), model.get(lid)
        short = "%s\tsharedfmla\tsheet\t%s" % (lid, G.wire_cells(cells))
        if a != m:
            ctx.disagreements.append({"function": "next_formula/worksheet_formula", "case": line, "impl": a, "model": m})
        exp_text = G.range_text(expected_sheet(cells, gs))
        ctx.nontrivial(short)
        if a != exp_text:
            ctx.violations.append({"case": line, "expected": exp_text, "actual": a, "model": m,
                                   "what": "fixed sheet %s" % nm})
    shutil.rmtree(d, ignore_errors=True)

# ----------------------------------------------------------------------------- entry points
def run(ctx):
    load_oracle(ctx)
    run_witnesses(ctx)
    run_fixed_sheets(ctx)
    run_tok_batch(ctx, ctx.scale(30000, 250000), "t")
    run_raw_batch(ctx, ctx.scale(10000, 100000), "r")
    run_sheet_batch(ctx, ctx.scale(1500, 12000), "s")
    run_badref_sheets(ctx, ctx.scale(300, 3000), "b")
    if ctx.tier == "thorough":
        sweep_columns(ctx)

def search(ctx):
    if not ORACLE["arg"]:
        load_oracle(ctx)
    run_tok_batch(ctx, ctx.scale(60000, 300000), "T")
    run_sheet_batch(ctx, ctx.scale(2000, 10000), "S")
    run_raw_batch(ctx, ctx.scale(20000, 100000), "Q")

def replay(ctx, rep):
    case = rep.get("case")
    print("replaying:", case)
    impl, model = ctx.run_both([case])
    lid = case.split("\t", 1)[0]
    print("impl :", impl.get(lid))
    print("model:", model.get(lid))
    print("expected:", rep.get("expected"))
    return 0 if impl.get(lid) == rep.get("expected") else 1
