(* C01: the model side for xlsx worksheets.  Sub-commands (first argument):
     enc   <env> <sheet>      encode (E) a structured sheet, run M (Data and DataRef flavour), S,
                              known_C01 and legal_sheet:
                              -> <events wire>#<M range>#<M ref range>#<S cells>#<known>#<legal>
     run   <env> <hdr> <wire> M only on a raw event list (hdr: - or a row number)
                              -> <M range>#<M ref range>
     wbenc <wb>               encode workbook.xml.rels and workbook.xml
                              -> <rels wire>#<workbook wire>#<known>#<legal_workbook>
     wb    <env> <parts>      M on a package (zip entries in order, name@wire joined by '|')
                              -> openerr | namehex=<range>&…
     norm  <hex>              normalize_target + sheet_type_of -> <hex>:<type or ->
     eic   <hex> <hex>        eq_ignore_ascii_case -> 0/1
     usize <hex>              parse_usize -> n or -
     groc  <hex>              get_row_and_optional_column (hardened scanner) -> ok:r,c | ok:r,- | err
   Event wire format (shared with tools/textgen.py): tokens separated by ' ':
     S<hexname>[,<hexkey>=<hexval>]* | E<hexname> | T<hex> | C<hex> | O
   env   := <strings>|<formats>|<is1904>     strings: x<hex> joined by ','; formats: letters o d t
   sheet := pfx|dim|pre|pre2|junk0|post|rows   ('-' = empty; dim: - | r.c | r.c.r.c)
   row   := idx:explicit:extra:junk0:junk:cells        rows joined by ';', cells by '/'
   cell  := col~explicit~lower~style~value~sform~tn~alt~formula~extra~inner~junk
            value: N<hex> S<hex> B0 B1 X<code> I<hex> K;  sform: h<idx> i f;  formula: - or F<hex>
   Canonical range: R[-] or R[sr,sc,er,ec|n=<cells>|r:c:V,…] (non-empty cells, row-major, absolute
   positions); V as in harness/src/util.rs data_str, plus H<hex> for DataRef::SharedString.
   The oracle parse_f64 is implemented here: Rust's f64::from_str grammar checked by hand, the
   value by strtod (correctly rounded, as Rust's parser is). *)
open Conv
open Prelude
open XmlText
open XlsxSheet

let s_of_hex = scalars_of_hex
let hex_of_s = hex_of_scalars

(* ---------- events ---------- *)
let wire_attrs (a : attrs) =
  String.concat "," (List.map (fun (k, v) -> hex_of_s k ^ "=" ^ hex_of_s v) a)
let wire_event = function
  | Start (n, a) -> "S" ^ hex_of_s n ^ (if a = [] then "" else "," ^ wire_attrs a)
  | End n -> "E" ^ hex_of_s n
  | Text s -> "T" ^ hex_of_s s
  | CData s -> "C" ^ hex_of_s s
  | Other -> "O"
let wire evs = String.concat " " (List.map wire_event evs)

let parse_attr kv =
  match String.split_on_char '=' kv with
  | [k; v] -> (s_of_hex k, s_of_hex v)
  | _ -> failwith "bad attribute"
let parse_attrs s = if s = "" || s = "-" then [] else List.map parse_attr (String.split_on_char ',' s)
let tail1 s = String.sub s 1 (String.length s - 1)
let parse_event tok =
  match tok.[0] with
  | 'S' ->
    (match String.split_on_char ',' (tail1 tok) with
     | n :: rest -> Start (s_of_hex n, List.map parse_attr rest)
     | [] -> failwith "bad start")
  | 'E' -> End (s_of_hex (tail1 tok))
  | 'T' -> Text (s_of_hex (tail1 tok))
  | 'C' -> CData (s_of_hex (tail1 tok))
  | _ -> Other
let unwire s =
  if s = "-" then [] else
  List.map parse_event (List.filter (fun t -> t <> "") (String.split_on_char ' ' s))

let split c s = if s = "" || s = "-" then [] else String.split_on_char c s

(* ---------- the f64 oracle ---------- *)
let is_dig c = c >= '0' && c <= '9'
let rust_float_syntax (s : string) : [ `Num | `Inf | `Nan | `Bad ] * bool =
  let n = String.length s in
  if n = 0 then (`Bad, false) else
  let neg = s.[0] = '-' in
  let i0 = if s.[0] = '+' || s.[0] = '-' then 1 else 0 in
  let body = String.lowercase_ascii (String.sub s i0 (n - i0)) in
  if body = "inf" || body = "infinity" then (`Inf, neg)
  else if body = "nan" then (`Nan, neg)
  else begin
    let m = String.length body in
    let i = ref 0 in
    let digits () = let st = !i in while !i < m && is_dig body.[!i] do incr i done; !i - st in
    let a = digits () in
    let b = if !i < m && body.[!i] = '.' then (incr i; digits ()) else 0 in
    if a + b = 0 then (`Bad, neg)
    else begin
      let ok =
        if !i < m && body.[!i] = 'e' then begin
          incr i;
          if !i < m && (body.[!i] = '+' || body.[!i] = '-') then incr i;
          let e = digits () in e > 0 && !i = m
        end else !i = m in
      ((if ok then `Num else `Bad), neg)
    end
  end

let n_of_int64_unsigned (x : int64) : BinNums.coq_N = n_of_string (Printf.sprintf "%Lu" x)

let parse_f64 (v : BinNums.coq_N list) : BinNums.coq_N option =
  let cs = List.map int_of_n v in
  if List.exists (fun c -> c > 127) cs then None else
  let s = String.init (List.length cs) (fun i -> Char.chr (List.nth cs i)) in
  match rust_float_syntax s with
  | (`Bad, _) -> None
  | (`Inf, neg) -> Some (n_of_int64_unsigned (if neg then 0xFFF0000000000000L else 0x7FF0000000000000L))
  | (`Nan, neg) -> Some (n_of_int64_unsigned (if neg then 0xFFF8000000000000L else 0x7FF8000000000000L))
  | (`Num, _) ->
    (match float_of_string_opt s with
     | Some f -> Some (n_of_int64_unsigned (Int64.bits_of_float f))
     | None -> None)

(* ---------- env ---------- *)
let parse_env (s : string) : env =
  match String.split_on_char '|' s with
  | [strs; fmts; d] ->
    let strings = List.map (fun t -> s_of_hex (tail1 t)) (split ',' strs) in
    let formats = List.map (function 'd' -> NumFmt.DateTime | 't' -> NumFmt.TimeDelta | _ -> NumFmt.Other)
        (List.init (String.length fmts) (String.get fmts)) in
    let formats = if fmts = "-" then [] else formats in
    { e_strings = strings; e_formats = formats; e_1904 = (d = "1") }
  | _ -> failwith "bad env"

(* ---------- structured sheets ---------- *)
let pos_of a b = (n_of_string a, n_of_string b)
let parse_dim s : edim =
  if s = "-" then DimAbsent else
  match String.split_on_char '.' s with
  | [r; c] -> DimCell (pos_of r c)
  | [r; c; r2; c2] -> DimArea (pos_of r c, pos_of r2 c2)
  | _ -> failwith "bad dim"

let parse_value s : lvalue =
  match s.[0] with
  | 'N' -> LNumber (s_of_hex (tail1 s))
  | 'S' -> LString (s_of_hex (tail1 s))
  | 'B' -> LBool (s = "B1")
  | 'X' -> LError (n_of_string (tail1 s))
  | 'I' -> LIso (s_of_hex (tail1 s))
  | _ -> LBlank
let parse_sform s : strform =
  match s.[0] with
  | 'h' -> SfShared (n_of_string (tail1 s))
  | 'i' -> SfInline
  | _ -> SfStr

let parse_cell s : ecell =
  match String.split_on_char '~' s with
  | [col; ex; lo; st; v; sf; tn; alt; f; extra; inner; junk] ->
    { ec_col = n_of_string col; ec_explicit = (ex = "1"); ec_lower = (lo = "1");
      ec_style = (if st = "-" then None else Some (n_of_string st));
      ec_val = parse_value v; ec_sform = parse_sform sf; ec_tn = (tn = "1"); ec_alt = (alt = "1");
      ec_formula = (if f = "-" then None else Some (s_of_hex (tail1 f)));
      ec_extra = parse_attrs extra; ec_inner = unwire inner; ec_junk = unwire junk }
  | _ -> failwith ("bad cell " ^ s)

let parse_row s : erow =
  match String.split_on_char ':' s with
  | [idx; ex; extra; j0; j; cells] ->
    { er_row = n_of_string idx; er_explicit = (ex = "1"); er_extra = parse_attrs extra;
      er_junk0 = unwire j0; er_cells = List.map parse_cell (split '/' cells); er_junk = unwire j }
  | _ -> failwith ("bad row " ^ s)

let parse_sheet s : esheet =
  match String.split_on_char '|' s with
  | [pfx; dim; pre; pre2; j0; post; rows] ->
    { es_pfx = (if pfx = "-" then [] else s_of_hex pfx); es_dim = parse_dim dim;
      es_pre = unwire pre; es_pre2 = unwire pre2; es_junk0 = unwire j0;
      es_rows = List.map parse_row (split ';' rows); es_post = unwire post }
  | _ -> failwith "bad sheet"

(* ---------- canonical printing ---------- *)
let show_bits b = string_of_n b
let b01 b = if b then "1" else "0"
let show_data = function
  | DEmpty -> "E"
  | DFloat b -> "F" ^ show_bits b
  | DString s -> "S" ^ hex_of_s s
  | DBool b -> "B" ^ b01 b
  | DDateTime (b, d, y) -> Printf.sprintf "D%s:%s:%s" (show_bits b) (b01 d) (b01 y)
  | DDateTimeIso s -> "T" ^ hex_of_s s
  | DError c -> "X" ^ string_of_n c
let show_ref = function
  | RShared s -> "H" ^ hex_of_s s
  | v -> show_data (to_data v)

let show_range (show : 'a -> string) (is_empty_v : 'a -> bool) (r : 'a Range.range) : string =
  match Range.start r, Range.end_ r with
  | Some (sr, sc), Some (er, ec) ->
    let w = BinNat.N.add (BinNat.N.sub ec sc) (n_of_int 1) in
    let wi = int_of_n w in
    let sri = int_of_n sr and sci = int_of_n sc in
    let b = Buffer.create 256 in
    let first = ref true in
    let n = ref 0 in
    List.iteri (fun i v ->
        incr n;
        if not (is_empty_v v) then begin
          if not !first then Buffer.add_char b ',';
          first := false;
          Buffer.add_string b (Printf.sprintf "%d:%d:%s" (sri + i / wi) (sci + i mod wi) (show v))
        end) r.Range.r_inner;
    Printf.sprintf "R[%s,%s,%s,%s|n=%d|%s]" (string_of_n sr) (string_of_n sc) (string_of_n er)
      (string_of_n ec) !n (Buffer.contents b)
  | _ -> "R[-]"

let show_out show = function
  | Ok v -> show v
  | Err _ -> "err"
  | Panic -> "panic"
  | OutOfFuel -> "fuel"

let show_data_range o = show_out (show_range show_data (fun v -> v = DEmpty)) o
let show_ref_range o = show_out (show_range show_ref (fun v -> v = REmpty)) o

let parse_hdr s : HeaderRow.header_row =
  if s = "-" then HeaderRow.FirstNonEmptyRow else HeaderRow.HRow (n_of_string s)

let cmd_enc envs sheets =
  let en = parse_env envs in
  let sh = parse_sheet sheets in
  let evs = encode sh in
  let m = xlsx_sheet_model parse_f64 en evs in
  let mr = xlsx_range_ref parse_f64 en HeaderRow.FirstNonEmptyRow evs in
  let spec = used_cells_spec parse_f64 en (logical sh) in
  let specs = String.concat "," (List.map (fun ((r, c), v) ->
      Printf.sprintf "%s:%s:%s" (string_of_n r) (string_of_n c) (show_data v)) spec) in
  let known = "-" in   (* no sheet-level class is left *)
  let legal = if legal_sheet parse_f64 en sh then "1" else "0" in
  String.concat "#" [wire evs; show_data_range m; show_ref_range mr; specs; known; legal]

let cmd_run envs hdr w =
  let en = parse_env envs in
  let evs = unwire w in
  let h = parse_hdr hdr in
  show_data_range (xlsx_range parse_f64 en h evs) ^ "#" ^ show_ref_range (xlsx_range_ref parse_f64 en h evs)

(* ---------- workbook ---------- *)
let parse_sheetref s : esheetref =
  match String.split_on_char '~' s with
  | [name; rid; part; sp; extra; typ] ->
    { sr_name = s_of_hex name; sr_rid = s_of_hex rid; sr_part = s_of_hex part;
      sr_type = (if typ = "-" then [] else s_of_hex typ);
      sr_spelling = (match sp with "1" -> SpAbsolute | "2" -> SpXl | _ -> SpRelative);
      sr_extra = parse_attrs extra; sr_content = SOther [] }
  | _ -> failwith "bad sheetref"
let hex_or_empty s = if s = "-" then [] else s_of_hex s
let parse_wb s : eworkbook =
  match String.split_on_char '|' s with
  | [pfx; relpfx; relspfx; d1904; sheets] ->
    { wb_pfx = hex_or_empty pfx; wb_relpfx = hex_or_empty relpfx; wb_relspfx = hex_or_empty relspfx;
      wb_sheets = List.map parse_sheetref (split ';' sheets);
      wb_date1904 = (if d1904 = "-" then None else Some (s_of_hex (tail1 d1904))) }
  | _ -> failwith "bad workbook"

let cmd_wbenc s =
  let wb = parse_wb s in
  let known = match known_C01_wb wb with None -> "-" | Some k -> "K" ^ string_of_n k in
  String.concat "#" [wire (rels_events wb); wire (workbook_events wb); known;
                     (if legal_workbook wb then "1" else "0")]

let parse_parts s : (str * event list) list =
  List.map (fun p ->
      match String.split_on_char '@' p with
      | [n; w] -> (s_of_hex n, unwire w)
      | _ -> failwith "bad part") (split '|' s)

let cmd_wb envs parts =
  let en = parse_env envs in
  let pk = parse_parts parts in
  match workbook_ranges parse_f64 en.e_strings en.e_formats pk with
  | Ok l ->
    String.concat "&" (List.map (fun (n, o) -> hex_of_s n ^ "=" ^ show_data_range o) l)
  | _ -> "openerr"

let run (args : string list) : string =
  match args with
  | ["enc"; en; sh] -> cmd_enc en sh
  | ["run"; en; hdr; w] -> cmd_run en hdr w
  | ["wbenc"; wb] -> cmd_wbenc wb
  | ["wb"; en; parts] -> cmd_wb en parts
  | ["norm"; h] ->
    let p = normalize_target (s_of_hex h) in
    hex_of_s p ^ ":" ^ (match sheet_type_of p with Some t -> string_of_n t | None -> "-")
  | ["eic"; a; b] -> if eq_ignore_ascii_case (s_of_hex a) (s_of_hex b) then "1" else "0"
  | ["groc"; h] ->
    (match Col26.get_row_and_optional_column (bytes_of_hex h) with
     | Ok (r, Some c) -> Printf.sprintf "ok:%s,%s" (string_of_n r) (string_of_n c)
     | Ok (r, None) -> Printf.sprintf "ok:%s,-" (string_of_n r)
     | Err _ -> "err" | Panic -> "panic" | OutOfFuel -> "fuel")
  | ["usize"; h] -> (match parse_usize (s_of_hex h) with Some n -> string_of_n n | None -> "-")
  | _ -> "bad-args"

let () = Registry.register "xlsxsheet" run
let init () = ()
