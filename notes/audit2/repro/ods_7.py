# ods_7: content.xml indented the way LibreOffice writes it when "Size optimization for ODF format"
# is switched off (Tools > Options > Load/Save > General) and the way every .fods is written:
# new line + indent around table:table-row / table:table-cell / text:p, nothing inside text:p.
# On the current code this fails to open (read_row Mismatch: the lead's finding); once that is
# repaired the white space between <table:table-cell> and <text:p> becomes cell text (ods_2).
import sys; sys.path.insert(0, '/tmp/ag/audit2'); sys.path.insert(0, '/tmp/ag/audit2/repro')
from vhrun import vh, hx
from odslib import write_ods
body = '''
   <table:table table:name="S1">
    <table:table-column/>
    <table:table-row>
     <table:table-cell office:value-type="string" calcext:value-type="string">
      <text:p>abc</text:p>
     </table:table-cell>
     <table:table-cell office:value-type="float" office:value="2" calcext:value-type="float">
      <text:p>2</text:p>
     </table:table-cell>
     <table:table-cell office:value-type="string" calcext:value-type="string">
      <office:annotation>
       <dc:date>2024-01-01T00:00:00</dc:date>
       <text:p>note</text:p>
      </office:annotation>
      <text:p>l1</text:p>
      <text:p>l2 <text:s/>x</text:p>
     </table:table-cell>
    </table:table-row>
   </table:table>
   <table:named-expressions/>
  '''
p = write_ods('ods_7_lo_pretty.ods', body)
print('lo_pretty', vh('ods', p, ['range ' + hx('S1')]))
