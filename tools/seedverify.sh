#!/bin/bash
# usage: tools/seedverify.sh <dir with patch.diff, demo/, meta.json>
# Confirms, in a scratch copy of /repo (removed afterwards): (1) the demonstration passes on the
# unchanged tree, (2) with the patch the crate builds and the existing suite gives the baseline
# result (110 pass, only mul_rk fails), (3) the demonstration fails with the patch.
set -u
SD=$(readlink -f "$1")
NAME=$(echo "$SD" | tr "/" "_")
W=/tmp/seedverify/$NAME
rm -rf "$W"; mkdir -p "$W"
rsync -a --exclude target --exclude .git /repo/ "$W/repo/"
cd "$W/repo"
export CARGO_NET_OFFLINE=true CARGO_TARGET_DIR="$W/target"
[ -d "$SD/demo" ] && cp -r "$SD/demo/." .
CMD=$(python3 -c "import json;print(json.load(open('$SD/meta.json'))['demo_cmd'])")
CMD=$(echo "$CMD" | sed -e 's#cd /tmp/seed/[A-Za-z0-9]* *&& *##' -e 's#CARGO_NET_OFFLINE=true ##')
echo "demo_cmd: $CMD"
timeout 1500 bash -c "$CMD" > "$W/demo_without.log" 2>&1; r1=$?
# the suite is run without the demonstration files present
if [ -d "$SD/demo" ]; then (cd "$SD/demo" && find . -type f) | while read f; do rm -f "./$f"; done; fi
patch -p1 -s < "$SD/patch.diff" || { echo "$NAME: patch does not apply"; exit 3; }
FEAT=""; echo "$CMD" | grep -q 'features dates' && FEAT="--features dates"
timeout 3000 cargo test --workspace --no-fail-fast --offline $FEAT > "$W/suite.log" 2>&1
pass=$(grep -E '^test .* \.\.\. ok$' "$W/suite.log" | grep -vc seeded_)
failed=$(grep -E '^test .* \.\.\. FAILED$' "$W/suite.log" | grep -v seeded_ | sed 's/^test \(.*\) \.\.\. FAILED/\1/' | tr '\n' ' ')
[ -d "$SD/demo" ] && cp -r "$SD/demo/." .
timeout 1500 bash -c "$CMD" > "$W/demo_with.log" 2>&1; r2=$?
echo "$NAME demo_without_rc=$r1 demo_with_rc=$r2 suite_pass=$pass suite_failed=[$failed]"
if [ "$r1" = 0 ] && [ "$r2" != 0 ] && [ "$failed" = "mul_rk " ]; then echo "$NAME VERIFIED"; rc=0; else echo "$NAME NOT-VERIFIED"; tail -20 "$W/demo_without.log" "$W/demo_with.log"; rc=1; fi
cd /; rm -rf "$W"
exit $rc
