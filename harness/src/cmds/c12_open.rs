// C12 end to end: open an .xls file with the public API and list sheet names and text cells.
// args[0] = path.
// answer: ok:<sheet>|<sheet>…  with sheet = <hex utf8 name>=<row>:<col>:<hex utf8>,…   (cells of
// worksheet_range in row-major order; non-text cells print as ?) ; err (open or range error)
use crate::util::hexstr;
use calamine::{open_workbook, Data, Reader, Xls};

pub fn run(args: &[&str]) -> String {
    let mut wb: Xls<_> = match open_workbook(args[0]) {
        Ok(w) => w,
        Err(_) => return "err".to_string(),
    };
    let names = wb.sheet_names();
    let mut out = Vec::new();
    for n in names {
        let range = match wb.worksheet_range(&n) {
            Ok(r) => r,
            Err(_) => return "err".to_string(),
        };
        let (sr, sc) = range.start().unwrap_or((0, 0));
        let cells: Vec<String> = range
            .used_cells()
            .map(|(i, j, v)| match v {
                Data::String(s) => format!("{}:{}:{}", sr as usize + i, sc as usize + j, hexstr(s)),
                _ => format!("{}:{}:?", sr as usize + i, sc as usize + j),
            })
            .collect();
        out.push(format!("{}={}", hexstr(&n), cells.join(",")));
    }
    format!("ok:{}", out.join("|"))
}
