"""C08 — header-row option selects the first row without altering any cell.
Implementation side: real workbooks (the repository's fixtures and generated files in the four
formats) through the public API (`open` harness command: hdr n; range name …).
Model side: HeaderRow.v (lazy path for xlsx/xlsb, eager path for xls/ods) on the default-option
range of the same sheet.  Spec: the three conditions of the property statement, checked directly
on the implementation's answer."""
import os, vlib
from vlib import hexs, parse_range, range_cells

U32 = 2**32 - 1
ASSUMPTIONS = [
    "the lazy-path model is fed the non-Empty cells of the default-option range in row-major order (document order of a well-formed sheet)",
    "cell values are abstracted to identifiers: the header-row code never inspects a value except for Empty",
]
LAZY = ("xlsx", "xlsb")

def sheet_sources(ctx):
    """(fmt, path) of workbooks to exercise: fixtures + generated files when writers are available"""
    src = []
    for e, p in vlib.fixtures(("xlsx", "xlsm", "xlsb", "xls", "ods")):
        src.append((vlib.fmt_of_ext(e), p))
    try:
        import gensheets
        src += gensheets.generate(ctx, n=ctx.scale(20, 200))
    except ImportError:
        ctx.notes.append("generated workbooks unavailable (tools/gensheets.py missing): fixtures only")
    return src

def ids_of(pr):
    """abstract a parsed range to value ids (0 = Empty); returns (box text, values text, idmap)"""
    ids = {"E": 0}
    if pr is None or isinstance(pr, str):
        return "-", "", ids
    (sr, sc), (er, ec), rows = pr
    vals = []
    for row in rows:
        for v in row:
            if v not in ids:
                ids[v] = len(ids)
            vals.append(str(ids[v]))
    return "%d,%d,%d,%d" % (sr, sc, er, ec), ",".join(vals), ids

def to_ids(pr, ids):
    if pr is None:
        return "-"
    if isinstance(pr, str):
        return pr
    (sr, sc), (er, ec), rows = pr
    return "%d,%d,%d,%d|%s" % (sr, sc, er, ec, "/".join(",".join(str(ids.get(v, -1)) for v in row) for row in rows))

def candidates(pr, rng):
    if pr is None or isinstance(pr, str):
        return [0, 1, 7, U32]
    (sr, _), (er, _), _ = pr
    c = {0, max(sr - 1, 0), sr, sr + 1, (sr + er) // 2, er, er + 1, er + 5, U32, U32 - 1}
    c.add(rng.randrange(0, er + 3))
    return sorted(x for x in c if 0 <= x <= U32)

def spec_ok(default_cells, n, got):
    """the three conditions of the statement on the implementation's answer"""
    if isinstance(got, str):
        return "call failed: " + got
    have = any(p[0] >= n for p in default_cells)
    if not have:
        return None if got is None else "sheet has no cell at or below row %d but the range is not empty" % n
    if got is None:
        return "range is empty although a non-empty cell exists at or below row %d" % n
    (sr, sc), (er, ec), rows = got
    if sr != n:
        return "range starts at row %d, not at the header row %d" % (sr, n)
    gc = range_cells(got)
    for p, v in default_cells.items():
        if p[0] >= n and gc.get(p) != v:
            return "cell %s reads %s, default option gives %s" % (p, gc.get(p), v)
    for p, v in gc.items():
        if p[0] < n:
            return "a value from row %d < %d appears" % (p[0], n)
        if default_cells.get(p) != v:
            return "cell %s holds %s which the default option does not" % (p, v)
    return None

def run(ctx):
    srcs = sheet_sources(ctx)
    # pass 1: sheet names and default ranges
    lines = ["a%d\topen\t%s\t%s\tsheets" % (k, f, p) for k, (f, p) in enumerate(srcs)]
    impl = ctx.run_impl(lines)
    jobs = []
    for k, (f, p) in enumerate(srcs):
        a = impl.get("a%d" % k, "")
        if a.startswith("openerr") or a in ("panic", "abort", "timeout", "nofile", ""):
            ctx.count("unopenable:" + f)
            continue
        for hn in [h for h in a.split(",") if h][:6]:
            jobs.append((f, p, hn))
    lines = ["b%d\topen\t%s\t%s\trange %s" % (k, f, p, hn) for k, (f, p, hn) in enumerate(jobs)]
    impl0 = ctx.run_impl(lines)
    # pass 2: header rows; each line also checks that the option can be changed back
    lines, meta = [], []
    for k, (f, p, hn) in enumerate(jobs):
        pr = parse_range(impl0.get("b%d" % k, "panic"))
        if isinstance(pr, str):
            ctx.count("default_range_failed:" + f)
            continue
        for n in candidates(pr, ctx.rng):
            lid = "c%d_%d" % (k, n)
            lines.append("%s\topen\t%s\t%s\thdr %d;range %s;hdr -;range %s;hdr %d;range %s" % (lid, f, p, n, hn, hn, n, hn))
            meta.append((lid, f, p, hn, n, pr))
    # xls: the option given at open time (XlsOptions.header_row) must behave exactly like the option
    # set afterwards, and must be changeable (downwards, and back to the default) afterwards
    olines, ometa = [], []
    for k, (f, p, hn) in enumerate(jobs):
        if f != "xls":
            continue
        pr = parse_range(impl0.get("b%d" % k, "panic"))
        if isinstance(pr, str) or pr is None:
            continue
        (sr, _), (er, _), _ = pr
        kk = ctx.rng.choice(sorted({sr + 1, (sr + er) // 2 + 1, er, er + 1}))
        jj = ctx.rng.randrange(0, kk) if kk > 0 else 0
        lid = "o%d" % k
        olines.append("%s\topen\txls@%d\t%s\trange %s;hdr %d;range %s;hdr -;range %s" % (lid, kk, p, hn, jj, hn, hn))
        olines.append("%sr\topen\txls\t%s\thdr %d;range %s;hdr %d;range %s;hdr -;range %s" % (lid, p, kk, hn, jj, hn, hn))
        ometa.append((lid, p, hn, kk, jj))
    oimpl = ctx.run_impl(olines)
    for lid, p, hn, kk, jj in ometa:
        a = (oimpl.get(lid) or "abort").split(";;")
        r = (oimpl.get(lid + "r") or "abort").split(";;")
        ctx.traces += 1
        ctx.count("open_time_option")
        case = "open xls@%d %s range %s; hdr %d; range; hdr -; range" % (kk, p, vlib.unhexs(hn), jj)
        if len(a) < 5 or len(r) < 6:
            ctx.violations.append({"case": case, "expected": "no panic", "actual": ";;".join(a)[:300], "model": "", "what": "the call sequence did not complete"})
        elif (a[0], a[2], a[4]) != (r[1], r[3], r[5]):
            ctx.violations.append({"case": case, "expected": ";;".join((r[1], r[3], r[5]))[:400], "actual": ";;".join((a[0], a[2], a[4]))[:400], "model": "",
                                   "what": "a header row given at open time (XlsOptions) does not behave like the same option set afterwards, or cannot be changed back"})
        else:
            ctx.nontrivial("opt|%s|%s|%d|%d" % (p, hn, kk, jj))
    # "changing the option affects only subsequent reads": no other call — in particular none that
    # FAILS (unknown table, unknown sheet, index past the end) — may change the option in force:
    # [hdr n, X, range s] must read what [hdr n, range s] reads
    slines, smeta = [], []
    seen_job = set()
    for lid, f, p, hn, n, pr in meta:
        if (f, p, hn) in seen_job or pr is None or not (pr[0][0] < n <= pr[1][0]):
            continue
        seen_job.add((f, p, hn))
        nosuch = vlib.hexs("No such thing")
        others = ["range " + nosuch, "formula " + nosuch, "at 4000", "formula " + hn, "wsall", "vba", "names"]
        if f in LAZY:
            others += ["ref " + nosuch, "atref 4000"]
        if f in ("xlsx", "xls"):
            others += ["merges " + nosuch, "merges " + hn]
        if f == "xlsx":
            others += ["table " + nosuch, "table " + nosuch, "tables", "allmerges"]
        ctx.rng.shuffle(others)
        must = [x for x in others if x.startswith("table ")][:1]
        for j, x in enumerate(must + [x for x in others if not x.startswith("table ")][:3]):
            slines.append("s%s_%d\topen\t%s\t%s\thdr %d;%s;range %s" % (lid, j, f, p, n, x, hn))
            smeta.append(("s%s_%d" % (lid, j), lid, f, p, hn, n, x))
    impl = ctx.run_impl(lines)
    simpl = ctx.run_impl(slines)
    for sid, lid, f, p, hn, n, x in smeta:
        a = (simpl.get(sid) or "abort").split(";;")
        ref = (impl.get(lid) or "abort").split(";;")
        ctx.traces += 1
        ctx.count("option_survives_call:" + x.split(" ")[0])
        case = "open %s %s hdr %d; %s; range %s" % (f, p, n, x, vlib.unhexs(hn))
        if len(a) < 3 or len(ref) < 2:
            ctx.violations.append({"case": case, "expected": "no panic", "actual": ";;".join(a)[:300], "model": "", "what": "the call sequence did not complete"})
        elif a[2] != ref[1]:
            ctx.violations.append({"case": case, "expected": ref[1][:400], "actual": a[2][:400], "model": "",
                                   "what": "the header-row option in force was changed by an unrelated call (%s)" % x})
        else:
            ctx.nontrivial("surv|%s|%s|%d|%s" % (p, hn, n, x))
    mlines = []
    for lid, f, p, hn, n, pr in meta:
        box, vals, ids = ids_of(pr)
        if f in LAZY:
            cells = range_cells(pr)
            ctext = ",".join("%d:%d:%d" % (r, c, ids[v]) for (r, c), v in sorted(cells.items()))
            mlines.append("%s\thdr\tlazy\t%d\t%s" % (lid, n, ctext))
        else:
            mlines.append("%s\thdr\teager\t%d\t%s\t%s" % (lid, n, box, vals))
    model = ctx.run_model(mlines)
    for lid, f, p, hn, n, pr in meta:
        ans = impl.get(lid, "abort").split(";;")
        case = "open %s %s hdr %d; range %s" % (f, p, n, vlib.unhexs(hn))
        ctx.traces += 1
        ctx.count("fmt:" + f)
        dc = range_cells(pr)
        where = "before" if pr and n < pr[0][0] else "after" if pr and n > pr[1][0] else "inside" if pr else "emptysheet"
        ctx.count("header_row:" + where)
        if len(ans) < 6:
            ctx.violations.append({"case": case, "expected": "no panic", "actual": ";;".join(ans), "model": model.get(lid),
                                   "what": "the call sequence did not complete (panic/abort)"})
            continue
        got, back, again = parse_range(ans[1]), parse_range(ans[3]), parse_range(ans[5])
        _, _, ids = ids_of(pr)
        why = spec_ok(dc, n, got)
        if why is None and to_ids(back, ids) != to_ids(pr, ids):
            why = "after changing the option back, the default-option range differs"
        if why is None and to_ids(again, ids) != to_ids(got, ids):
            why = "the same header row read twice gives different ranges"
        if why:
            ctx.violations.append({"case": case, "expected": "C08 statement", "actual": ans[1][:400], "model": model.get(lid), "what": why})
            continue
        if to_ids(got, ids) != model.get(lid):
            ctx.disagreements.append({"function": "worksheet_range header row (%s path)" % ("lazy" if f in LAZY else "eager"),
                                      "case": case, "impl": to_ids(got, ids)[:400], "model": (model.get(lid) or "")[:400]})
        if pr is not None:
            ctx.nontrivial("%s|%s|%d" % (p, hn, n))
        ctx.sample({"case": case, "result": ans[1][:120]})

    import shutil
    shutil.rmtree(vlib.tmpdir(ctx), ignore_errors=True)

def search(ctx):
    run(ctx)
