(* Property C14 — formulas are reported at their cell with the A1 text the file encodes.
   This file contains only the property theorems (closed by [exact]), [Check] pins of the main
   statements, non-vacuity examples and [Print Assumptions].
   Models: Col26.v (column letters, cell references, xlsx coordinate parsers), Ptg.v (the two token
   decoders, the expression AST, its rendering and its encoders); proofs: Col26_proofs.v,
   Ptg_proofs.v, FormulaPos_proofs.v (on top of Range_proofs.from_sparse_spec); tables:
   CalamineGen.Tables (regenerated from src/utils.rs on every run) against FtabRef.v (frozen: the
   pinned source + the 3 arities corrected against the Ftab, audit E1-E3).
   FormulaEnv.v (round 3): where the decoders' environment comes from — the BrtName / BrtExternSheet
   records of workbook.bin, the Lbl / ExternSheet records of the xls globals — and the formula range
   of the stored-text readers; proofs: FormulaEnv_proofs.v.
   Not covered here (see notes/C14.md): the XML event level of the xlsx/ods conjunct "the stored
   text is returned unchanged" (checked end to end on generated files, no Coq model) and the
   record-level decoding of the cell position (row/column fields of the FORMULA / BrtFmla records:
   properties C02 / C03; also checked end to end). *)
From Coq Require Import String.
From Calamine Require Import Prelude Range Range_spec Col26 Col26_proofs FtabRef FtabMatch Ptg Ptg_proofs
  FormulaPos_proofs FormulaEnv FormulaEnv_proofs Ptg_total FormulaEnv_total FormulaSheet FormulaSheet_proofs
  FormulaSheetB_proofs.
From CalamineGen Require Tables.
Open Scope N_scope.

(* ---------------------------------------------------------------- column letters *)
Theorem C14_letters_injective : forall c d, letters c = letters d -> c = d.
Proof. exact letters_injective. Qed.

Theorem C14_letters_inverse : forall c, col_of_letters (letters c) = c.
Proof. exact col_of_letters_letters. Qed.

Theorem C14_push_column_is_letters : forall col buf, col < 2 ^ 32 ->
  push_column col buf = Ok (buf ++ letters col).
Proof. exact push_column_is_letters. Qed.

(* the shared reference helper: 14-bit column, a $ exactly on the absolute components *)
Theorem C14_push_cell_ref_spec : forall r c rr cr buf, c < 16384 -> r < 2 ^ 32 ->
  push_cell_ref r (col_field c rr cr) buf = Ok (buf ++ a1_ref r c rr cr).
Proof. exact push_cell_ref_spec. Qed.

Theorem C14_column_number_to_name_is_letters : forall c, c < 16384 ->
  column_number_to_name c = Ok (letters c).
Proof. exact column_number_to_name_is_letters. Qed.

(* A1 names survive the round trip through the two xlsx functions; the row bound is exact *)
Theorem C14_a1_roundtrip : forall r c, r + 1 < ROW_TEXT_LIMIT -> c < 16384 ->
  exists s, coordinate_to_name (r, c) = Ok s /\ get_row_column s = Ok (r, c).
Proof. exact a1_roundtrip. Qed.

(* since the C06 hardening (u64 saturating accumulation, u32::try_from at the end) no text makes the
   A1 scanner or get_dimension panic; the former 10-digit overflow (C14_row_text_overflow) is gone *)
Theorem C14_no_panic_a1 : forall range,
  (get_row_and_optional_column range <> Panic /\ get_row_and_optional_column range <> OutOfFuel) /\
  (get_row_column range <> Panic /\ get_row_column range <> OutOfFuel) /\
  (get_row range <> Panic /\ get_row range <> OutOfFuel) /\
  (get_dimension range <> Panic /\ get_dimension range <> OutOfFuel).
Proof.
  intros range. repeat split;
    first [ apply get_row_and_optional_column_total | apply get_row_column_total
          | apply get_row_total | apply get_dimension_total ].
Qed.

Theorem C14_reversed_dimension_ok : forall r0 c0 r1 c1,
  r0 + 1 < ROW_TEXT_LIMIT -> r1 + 1 < ROW_TEXT_LIMIT -> c0 < COL_TEXT_LIMIT -> c1 < COL_TEXT_LIMIT ->
  get_dimension (a1_name r0 c0 ++ [ch_colon] ++ a1_name r1 c1) = Ok ((r0, c0), (r1, c1)).
Proof. exact get_dimension_reversed_ok. Qed.

Theorem C14_lower_case_agrees : forall range,
  get_row_and_optional_column (map to_lower range) = get_row_and_optional_column range.
Proof. exact get_row_and_optional_column_lower. Qed.

(* ---------------------------------------------------------------- the token decoders *)
Theorem C14_tables_match_reference :
  Tables.FTAB_LEN = FTAB_LEN_REF /\ Tables.FTAB = FTAB_REF /\ Tables.FTAB_ARGC = FTAB_ARGC_REF.
Proof. exact tables_match_reference. Qed.

Theorem C14_rpn_correct_xls : forall show_f64 env e,
  wf_xls env e = true -> N.of_nat (length (encode_xls e)) < 65536 ->
  xls_parse_formula show_f64 env (frame_xls (encode_xls e)) = Ok (render_xls show_f64 env e).
Proof. exact rpn_correct_xls. Qed.

Theorem C14_rpn_correct_xlsb : forall show_f64 env e,
  wf_xlsb env e = true ->
  xlsb_parse_formula show_f64 env (encode_xlsb e) = Ok (render_xlsb show_f64 env e).
Proof. exact rpn_correct_xlsb. Qed.

(* CHOOSE as Excel writes it — PtgAttrChoose with n + 1 jump offsets after the index, a PtgAttrGoto
   after each of the n values, PtgFuncVar(n + 1, CHOOSE) — for every n, any jump words (audit G1:
   the xlsb decoder skipped a fixed 10 bytes, right for n = 3 only; repaired) *)
Theorem C14_choose_correct_xlsb : forall show_f64 env k idx offs vals,
  wf_xlsb env (e_choose k idx offs vals) = true ->
  xlsb_parse_formula show_f64 env (encode_xlsb (e_choose k idx offs vals))
  = Ok (lit "CHOOSE(" ++ join_comma (render_xlsb show_f64 env idx ::
                                      map (fun vg => render_xlsb show_f64 env (fst vg)) vals) ++ [ch_rpar]).
Proof. exact choose_correct_xlsb. Qed.

Theorem C14_choose_correct_xls : forall show_f64 env k idx offs vals,
  wf_xls env (e_choose k idx offs vals) = true ->
  N.of_nat (length (encode_xls (e_choose k idx offs vals))) < 65536 ->
  xls_parse_formula show_f64 env (frame_xls (encode_xls (e_choose k idx offs vals)))
  = Ok (lit "CHOOSE(" ++ join_comma (render_xls show_f64 env idx ::
                                      map (fun vg => render_xls show_f64 env (fst vg)) vals) ++ [ch_rpar]).
Proof. exact choose_correct_xls. Qed.

(* user-defined / future functions: PtgFuncVar with tab 0x00FF, the first parameter (a name token) is
   the function's name — name(arguments), not User(name,arguments) (audit E4, repaired) *)
Theorem C14_user_function_correct_xlsb : forall show_f64 env k kn idx args,
  wf_xlsb env (EFuncVar k 255 (EName kn idx :: args)) = true ->
  xlsb_parse_formula show_f64 env (encode_xlsb (EFuncVar k 255 (EName kn idx :: args)))
  = Ok (spec_name (be_names env) idx ++ [ch_lpar] ++ join_comma (map (render_xlsb show_f64 env) args) ++ [ch_rpar]).
Proof. exact user_function_correct_xlsb. Qed.

Theorem C14_user_function_correct_xls : forall show_f64 env k kn idx args,
  wf_xls env (EFuncVar k 255 (EName kn idx :: args)) = true ->
  N.of_nat (length (encode_xls (EFuncVar k 255 (EName kn idx :: args)))) < 65536 ->
  xls_parse_formula show_f64 env (frame_xls (encode_xls (EFuncVar k 255 (EName kn idx :: args))))
  = Ok (spec_name (xe_names env) idx ++ [ch_lpar] ++ join_comma (map (render_xls show_f64 env) args) ++ [ch_rpar]).
Proof. exact user_function_correct_xls. Qed.

(* the repaired defects' witnesses, computed: issue_182.xlsb!A2 (_xlfn.CONCAT("A","b")), CHOOSE with
   1 / 2 / 3 / 4 / 10 values in both formats (in domain, decoded to the spec text), MMULT / LENB /
   CONVERT with 2 / 1 / 3 parameters, formulas with PtgAttrSpace in front of the first operand *)
Example C14_repaired_witnesses_nonvacuous :
  let xenv := {| xe_sheets := []; xe_names := [lit "_xlfn.CONCAT"]; xe_xtis := []; xe_base := None |} in
  let benv := {| be_sheets := []; be_names := [lit "_xlfn.CONCAT"]; be_base := None |} in
  let sf := fun _ : N => @nil N in
  xlsb_parse_formula sf benv [0x23; 1; 0; 0; 0; 0x17; 1; 0; 65; 0; 0x19; 0x40; 0; 1; 0x17; 1; 0; 98; 0; 0x42; 3; 255; 0]
    = Ok (lit "_xlfn.CONCAT(""A"",""b"")") /\
  encode_xlsb (EFuncVar CVal 255 [EName CRef 1; EStr false [65]; EAttrSkip 0x40 256 (EStr false [98])])
    = [0x23; 1; 0; 0; 0; 0x17; 1; 0; 65; 0; 0x19; 0x40; 0; 1; 0x17; 1; 0; 98; 0; 0x42; 3; 255; 0] /\
  forallb (fun n => match xlsb_parse_formula sf benv (encode_xlsb (ex_choose n)) with
                    | Ok s => leqb s (ex_choose_text n) | _ => false end
                    && wf_xlsb benv (ex_choose n)
                    && match xls_parse_formula sf xenv (frame_xls (encode_xls (ex_choose n))) with
                       | Ok s => leqb s (ex_choose_text n) | _ => false end
                    && wf_xls xenv (ex_choose n)) [1; 2; 3; 4; 10]%nat = true /\
  encode_xlsb (ex_choose 2)
    = [0x1E; 2; 0; 0x19; 0x04; 2; 0; 0; 0; 4; 0; 8; 0; 0x1E; 10; 0; 0x19; 0x08; 8; 0;
       0x1E; 11; 0; 0x19; 0x08; 4; 0; 0x42; 3; 100; 0] /\
  xls_parse_formula sf xenv (frame_xls (encode_xls (EFunc CVal 165 [EInt 1; EInt 2]))) = Ok (lit "MMULT(1,2)") /\
  xlsb_parse_formula sf benv (encode_xlsb (EFunc CVal 211 [EStr false [97]])) = Ok (lit "LENB(""a"")") /\
  xlsb_parse_formula sf benv (encode_xlsb (EFunc CVal 468 [EInt 1; EStr false [109]; EStr false [102]]))
    = Ok (lit "CONVERT(1,""m"",""f"")") /\
  xls_parse_formula sf xenv (frame_xls (encode_xls (EAttrSkip 0x40 0x0100 (EBin 3 (EInt 1) (EAttrSkip 0x40 0x0200 (EInt 2))))))
    = Ok (lit "1+2").
Proof. exact repaired_witnesses. Qed.

(* no known class is left: K_STR_WIDE (F21) was fixed by a3d91ee, K_STR_QUOTE by 6ef7f34; the former
   witnesses now satisfy the spec (16-bit strings incl. surrogate pairs and doubled quotes are part
   of the proved grammar) *)
Example C14_former_known_witnesses_nonvacuous :
  let env := {| xe_sheets := []; xe_names := []; xe_xtis := []; xe_base := None |} in
  let benv := {| be_sheets := []; be_names := []; be_base := None |} in
  xls_parse_formula (fun _ => []) env (frame_xls (encode_xls (EStr true [97; 98]))) = Ok (lit """ab""") /\
  xls_parse_formula (fun _ => []) env (frame_xls (encode_xls (EStr false [97; 34; 98]))) = Ok (lit """a""""b""") /\
  xlsb_parse_formula (fun _ => []) benv (encode_xlsb (EStr false [97; 34; 98])) = Ok (lit """a""""b""") /\
  xls_parse_formula (fun _ => []) env (frame_xls (encode_xls (EStr true [20013; 128512]))) = Ok [34; 20013; 128512; 34] /\
  xlsb_parse_formula (fun _ => []) benv (encode_xlsb (EStr false [65279; 128512])) = Ok [34; 65279; 128512; 34].
Proof. exact former_known_witnesses. Qed.

(* ---------------------------------------------------------------- totality (C06 hardening) *)
(* no byte string whatsoever makes the two token decoders panic: every operand read is covered by
   the `expected` pre-check, every String::insert / split_off / fargs[w0..w1] / `*s -= start` site is
   safe because the operand stack is a non-increasing list of offsets <= the buffer length
   (Ptg_total.inv); names, sheets and f64 printing are arbitrary *)
Theorem C14_no_panic_parse_formula_xls : forall show_f64 env data,
  xls_parse_formula show_f64 env data <> Panic.
Proof. exact no_panic_parse_formula_xls. Qed.

Theorem C14_no_panic_parse_formula_xlsb : forall show_f64 env rgce,
  xlsb_parse_formula show_f64 env rgce <> Panic.
Proof. exact no_panic_parse_formula_xlsb. Qed.

(* … nor do the loops that build their environment, on any record list *)
Theorem C14_no_panic_xlsb_read_names : forall show_f64 sheets recs,
  xlsb_read_names show_f64 sheets recs <> Panic.
Proof. exact no_panic_xlsb_read_names. Qed.

Theorem C14_no_panic_xls_read_names : forall show_f64 sheets recs,
  xls_read_names show_f64 sheets recs <> Panic.
Proof. exact no_panic_xls_read_names. Qed.

(* ---------------------------------------------------------------- positions *)
Theorem C14_formula_positions : forall (formulas : list (pos * list N)),
  pre empty (OFromSparse formulas) -> NoDup (map fst formulas) ->
  exists r, from_sparse [] formulas = Ok r /\ rect r = tight_bbox (map fst formulas) /\
    (forall p text, In (p, text) formulas -> get_value r p = Some text) /\
    (forall q, in_rect r q = true -> ~ In q (map fst formulas) -> get_value r q = Some []) /\
    (forall q, in_rect r q = false -> get_value r q = None).
Proof. exact formula_positions. Qed.


(* ---------------------------------------------------------------- the decoders' environment *)
(* xlsb: the loop over the records that follow BrtEndBundleShs, run on ANY list of BrtName records
   (hidden, built-in, function, macro … — [wf_name_rec] bounds field widths only) yields one
   (name, formula) entry per record, in record order *)
Theorem C14_xlsb_names_of_records : forall show_f64 sheets ds e p st,
  forallb wf_name_rec ds = true -> is_end_rec e = true ->
  xlsb_names_loop show_f64 sheets (map (fun d => (0x0027, enc_brtname d)) ds ++ [(e, p)]) st
  = do r <- spec_names_xlsb show_f64 (ws_ext st) (ws_names st) ds; Ok (ws_ext st, r).
Proof. exact xlsb_names_of_records. Qed.

Theorem C14_xlsb_read_names_spec : forall show_f64 sheets xtis ds e p,
  forallb wf_xti xtis = true -> N.of_nat (length xtis) < 4294967296 ->
  forallb wf_name_rec ds = true -> is_end_rec e = true ->
  xlsb_read_names show_f64 sheets
    ((0x016A, enc_externsheet xtis) :: map (fun d => (0x0027, enc_brtname d)) ds ++ [(e, p)])
  = do r <- spec_names_xlsb show_f64 (spec_extern_xlsb sheets xtis) [] ds;
    Ok (spec_extern_xlsb sheets xtis, r).
Proof. exact xlsb_read_names_spec. Qed.

(* the reported list is the record list, in order (the code filters nothing; the property's
   "defined names" are read as: every name record of the file) *)
Theorem C14_defined_names_in_order : forall show_f64 ext ds r,
  spec_names_xlsb show_f64 ext [] ds = Ok r -> map fst r = map nr_name ds.
Proof. exact defined_names_in_order_xlsb. Qed.

(* xls: the name a Lbl record defines is [lb_logical]: the stored string, except that a built-in name
   (fBuiltin, one character holding an id of MS-XLS 2.5.114) is "_xlnm." ++ its name, as xlsx and xlsb
   store it (audit G5, repaired: the one-character id used to be reported) *)
Theorem C14_builtin_names_table : forall c, nthN BUILTIN_NAMES c = builtin_name c.
Proof. exact builtin_table. Qed.

Theorem C14_defined_names_in_order_xls : forall show_f64 sheets gs names xtis, forallb wf_grec gs = true ->
  xls_read_names show_f64 sheets (flat_map enc_grec gs) = Ok (names, xtis) ->
  map fst names = map lb_logical (lbls_of gs) /\ xtis = xtis_of gs.
Proof. exact defined_names_in_order_xls. Qed.

(* … and the reported text of the i-th name is the A1 rendering of its whole formula, for every
   well-formed AST (any construct of the grammar; names defined through names stored before or
   after them included) — through C14_rpn_correct_xls.  Former known class K_XLS_NAME_FORMULA. *)
Theorem C14_defined_name_text_is_render_xls : forall show_f64 sheets gs names xtis i d e,
  forallb wf_grec gs = true ->
  xls_read_names show_f64 sheets (flat_map enc_grec gs) = Ok (names, xtis) ->
  nth_error (lbls_of gs) i = Some d -> lb_rgce d = encode_xls e ->
  N.of_nat (length (encode_xls e)) < 65536 ->
  let env := {| xe_sheets := sheets; xe_names := map lb_logical (lbls_of gs); xe_xtis := xtis_of gs; xe_base := None |} in
  wf_xls env e = true ->
  nth_error names i = Some (lb_logical d, render_xls show_f64 env e).
Proof. exact defined_name_text_is_render_xls. Qed.

(* the name used for PtgName index i+1 is the i-th record's name, whatever flags the records carry;
   stated on the table and on the decoder itself *)
Theorem C14_name_index_stable : forall show_f64 ext ds r i d,
  spec_names_xlsb show_f64 ext [] ds = Ok r -> nth_error ds i = Some d ->
  spec_name (map fst r) (N.of_nat i + 1) = nr_name d.
Proof. exact name_index_stable_xlsb. Qed.

Theorem C14_name_index_stable_xls : forall show_f64 sheets gs names xtis i d, forallb wf_grec gs = true ->
  xls_read_names show_f64 sheets (flat_map enc_grec gs) = Ok (names, xtis) ->
  nth_error (lbls_of gs) i = Some d ->
  spec_name (map fst names) (N.of_nat i + 1) = lb_logical d.
Proof. exact name_index_stable_xls. Qed.

Theorem C14_ptgname_is_ith_record_xlsb : forall show_f64 ext ds r i d k,
  spec_names_xlsb show_f64 ext [] ds = Ok r -> nth_error ds i = Some d ->
  N.of_nat i + 1 < 4294967296 ->
  xlsb_parse_formula show_f64 {| be_sheets := ext; be_names := map fst r; be_base := None |}
    (encode_xlsb (EName k (N.of_nat i + 1))) = Ok (nr_name d).
Proof. exact ptgname_is_ith_record_xlsb. Qed.

(* audit 2, XLSB-2 (repaired): the text of an xlsb defined name is the rendering of its expression
   against the names of ALL BrtName records — a name may use one stored after it (Excel stores the
   names sorted); before the fix each name was decoded against the names read so far, and the spec
   said the same *)
Theorem C14_defined_name_text_is_render_xlsb : forall show_f64 ext ds r i d e,
  spec_names_xlsb show_f64 ext [] ds = Ok r -> nth_error ds i = Some d ->
  nr_rgce d = encode_xlsb e ->
  wf_xlsb {| be_sheets := ext; be_names := map nr_name ds; be_base := None |} e = true ->
  nth_error r i = Some (nr_name d, render_xlsb show_f64 {| be_sheets := ext; be_names := map nr_name ds; be_base := None |} e).
Proof. exact defined_name_text_is_render_xlsb. Qed.

Theorem C14_ptgname_is_ith_record_xls : forall show_f64 sheets gs names xtis i d k,
  forallb wf_grec gs = true ->
  xls_read_names show_f64 sheets (flat_map enc_grec gs) = Ok (names, xtis) ->
  nth_error (lbls_of gs) i = Some d -> N.of_nat i + 1 < 4294967296 ->
  xls_parse_formula show_f64 {| xe_sheets := sheets; xe_names := map fst names; xe_xtis := xtis; xe_base := None |}
    (frame_xls (encode_xls (EName k (N.of_nat i + 1)))) = Ok (lb_logical d).
Proof. exact ptgname_is_ith_record_xls. Qed.

(* 3-D references go through the XTI table: entry i names the sheet its firstSheet field points to, or
   the span of sheets firstSheet … lastSheet (C14_resolve_xti_sheet_text / _span_text below) *)
Theorem C14_sheet3d_through_xti_xlsb : forall sheets xtis i x nm,
  nth_error xtis i = Some x ->
  spec_sheet_xlsb {| be_sheets := spec_extern_xlsb sheets xtis; be_names := nm; be_base := None |} (N.of_nat i)
  = resolve_xti sheets (snd (fst x)) (snd x).
Proof. exact sheet3d_through_xti_xlsb. Qed.

(* xls: a 3-D token names the sheet itabFirst of the ixti-th XTI of the file — all EXTERNSHEET records and
   their CONTINUE records concatenated (audit 2, XLS-5, repaired: the continuation used to be ignored) —
   as formula text writes it in front of '!' ([sheet_text], the grammar's rule: bare for a word, else
   between apostrophes with apostrophes doubled: audit G7, repaired); when itabLast names another sheet,
   the span First:Last ([span_text]: audit G6, repaired — itabLast used to be ignored and the spec said
   the same) *)
Theorem C14_sheet3d_through_xti_xls : forall show_f64 sheets gs names xtis i x nm, forallb wf_grec gs = true ->
  xls_read_names show_f64 sheets (flat_map enc_grec gs) = Ok (names, xtis) ->
  nth_error (xtis_of gs) i = Some x -> snd (fst x) < 32768 -> snd x < 32768 ->
  spec_sheet_xls {| xe_sheets := sheets; xe_names := nm; xe_xtis := xtis; xe_base := None |} (N.of_nat i)
  = match nthN sheets (snd (fst x)), nthN sheets (snd x) with
    | Some a, Some b => if snd (fst x) =? snd x then sheet_text a else span_text a b
    | Some a, None => sheet_text a
    | None, _ => lit "#REF"
    end.
Proof. exact sheet3d_through_xti_xls. Qed.

(* the quoting the code applies is the grammar's, for every name and every pair of names *)
Theorem C14_sheet_name_quoting : forall s, quote_sheet_name s = sheet_text s.
Proof. exact quote_sheet_name_spec. Qed.
Theorem C14_sheet_span_quoting : forall a b, quote_sheet_span a b = span_text a b.
Proof. exact quote_sheet_span_spec. Qed.
(* the decoder's own lookup is the spec's *)
Theorem C14_sheet_name_xls_is_spec : forall env ix, sheet_name_xls env ix = spec_sheet_xls env ix.
Proof. exact sheet_name_xls_spec. Qed.

(* xlsb: an XTI pointing at a sheet of this workbook resolves to that sheet's formula text, one spanning
   two different sheets of it to First:Last *)
Theorem C14_resolve_xti_sheet_text : forall sheets first s, first < 2147483648 ->
  nthN sheets first = Some s -> resolve_xti sheets first first = sheet_text s.
Proof. exact resolve_xti_sheet_text. Qed.
Theorem C14_resolve_xti_span_text : forall sheets first last s t, first < 2147483648 -> last < 2147483648 ->
  first <> last -> nthN sheets first = Some s -> nthN sheets last = Some t ->
  resolve_xti sheets first last = span_text s t.
Proof. exact resolve_xti_span_text. Qed.

(* ---------------------------------------------------------------- supporting links (iSupBook) *)
(* What an XTI points INTO is its supporting link: xls, the iSupBook-th SupBook record of the globals
   ([links_of]); xlsb, the externalLink-th record between BrtBeginExternals and BrtExternSheet
   (BrtSupBookSrc / BrtSupSelf / BrtSupSame / BrtSupAddin in any order).  itabFirst / itabLast are sheets of
   THIS workbook exactly when the link is SupSelf / SupSame; through a link to another workbook the full
   spec writes [n]Sheet!A1 ([sheet_through_link]).
   KNOWN FINDING K_EXTERN_BOOK: neither reader looks at the supporting links or at iSupBook — a reference
   into another workbook comes out with the name of a sheet of this workbook.  Class [known_C14] (computable):
   the expression goes through an XTI whose link is not this workbook.  Outside the class the full spec holds
   (the four theorems below); inside it is refuted (C14_refuted_extern_xls / _xlsb). *)
Theorem C14_rpn_correct_links_xls : forall show_f64 links env e,
  wf_xls env e = true -> N.of_nat (length (encode_xls e)) < 65536 ->
  known_C14 links (xe_xtis env) e = None ->
  xls_parse_formula show_f64 env (frame_xls (encode_xls e)) = Ok (render_xls_links show_f64 links env e).
Proof. exact rpn_correct_links_xls. Qed.

Theorem C14_rpn_correct_links_xlsb : forall show_f64 sheets links xtis nm base e,
  wf_xlsb {| be_sheets := spec_extern_xlsb sheets xtis; be_names := nm; be_base := base |} e = true ->
  known_C14 links xtis e = None ->
  xlsb_parse_formula show_f64 {| be_sheets := spec_extern_xlsb sheets xtis; be_names := nm; be_base := base |}
    (encode_xlsb e)
  = Ok (render_xlsb show_f64 {| be_sheets := spec_extern_links_xlsb sheets links xtis; be_names := nm; be_base := base |} e).
Proof. exact rpn_correct_links_xlsb. Qed.

(* xlsb: the EXTERNALS block — BrtBeginExternals, then the supporting links, any number of any kind in any
   order, then BrtExternSheet — in front of the names: the table the reader builds is [spec_extern_xlsb] *)
Theorem C14_xlsb_read_names_links_spec : forall show_f64 sheets bp sups xtis ds e p,
  forallb wf_xti xtis = true -> N.of_nat (length xtis) < 4294967296 ->
  forallb wf_name_rec ds = true -> is_end_rec e = true ->
  xlsb_read_names show_f64 sheets
    ((0x0161, bp) :: map sup_rec_xlsb sups ++
     (0x016A, enc_externsheet xtis) :: map (fun d => (0x0027, enc_brtname d)) ds ++ [(e, p)])
  = do r <- spec_names_xlsb show_f64 (spec_extern_xlsb sheets xtis) [] ds;
    Ok (spec_extern_xlsb sheets xtis, r).
Proof. exact xlsb_read_names_links_spec. Qed.

Theorem C14_defined_name_text_through_links_xlsb : forall show_f64 sheets links xtis ds r i d e,
  spec_names_xlsb show_f64 (spec_extern_xlsb sheets xtis) [] ds = Ok r -> nth_error ds i = Some d ->
  nr_rgce d = encode_xlsb e ->
  wf_xlsb {| be_sheets := spec_extern_xlsb sheets xtis; be_names := map nr_name ds; be_base := None |} e = true ->
  known_C14 links xtis e = None ->
  nth_error r i = Some (nr_name d,
    render_xlsb show_f64 {| be_sheets := spec_extern_links_xlsb sheets links xtis; be_names := map nr_name ds; be_base := None |} e).
Proof. exact defined_name_text_through_links_xlsb. Qed.

Theorem C14_defined_name_text_through_links_xls : forall show_f64 sheets gs names xtis i d e,
  forallb wf_grec gs = true ->
  xls_read_names show_f64 sheets (flat_map enc_grec gs) = Ok (names, xtis) ->
  nth_error (lbls_of gs) i = Some d -> lb_rgce d = encode_xls e ->
  N.of_nat (length (encode_xls e)) < 65536 ->
  let env := {| xe_sheets := sheets; xe_names := map lb_logical (lbls_of gs); xe_xtis := xtis_of gs; xe_base := None |} in
  wf_xls env e = true ->
  known_C14 (links_of gs) (xtis_of gs) e = None ->
  nth_error names i = Some (lb_logical d, render_xls_links show_f64 (links_of gs) env e).
Proof. exact defined_name_text_through_links_xls. Qed.

(* an XTI of this workbook means, through the links, what C14_sheet3d_through_xti_* say *)
Theorem C14_local_xti_through_links : forall links tab_at local x,
  xti_local links x = true -> sheet_through_link links tab_at local x = local.
Proof. exact sheet_through_link_local. Qed.

(* the refutations: a file with three supporting links (add-in functions, another workbook with the sheets
   Data and Other Sheet, this workbook — in that order) and a name through the XTI of the other workbook *)
Theorem C14_refuted_extern_xls :
  forallb wf_grec ex_ext_globals = true /\ wf_xls ex_ext_env ex_ext_expr = true /\
  links_of ex_ext_globals = [SupAddin; SupExt [lit "Data"; lit "Other Sheet"]; SupSelf] /\
  known_C14 (links_of ex_ext_globals) (xtis_of ex_ext_globals) ex_ext_expr = Some K_EXTERN_BOOK /\
  known_C14 (links_of ex_ext_globals) (xtis_of ex_ext_globals) (ERef3d CRef 0 A1abs) = None /\
  xls_read_names (fun _ => []) [lit "S1"; lit "S2"] (flat_map enc_grec ex_ext_globals)
  = Ok ([(lit "Their", lit "S2!$A$1+S2!$A$1"); (lit "Ours", lit "S2!$A$1")], [(2, 1, 1); (1, 1, 1); (1, 0, 1)]) /\
  render_xls_links (fun _ => []) (links_of ex_ext_globals) ex_ext_env ex_ext_expr = lit "'[1]Other Sheet'!$A$1+S2!$A$1" /\
  render_xls_links (fun _ => []) (links_of ex_ext_globals) ex_ext_env (ERef3d CRef 2 A1abs) = lit "'[1]Data:Other Sheet'!$A$1" /\
  lit "S2!$A$1+S2!$A$1" <> lit "'[1]Other Sheet'!$A$1+S2!$A$1".
Proof. exact refuted_extern_xls. Qed.

Theorem C14_refuted_extern_xlsb :
  let sheets := [lit "S1"; lit "S2"] in
  let links := [SupAddin; SupExt [lit "Data"; lit "Other Sheet"]; SupSelf] in
  let sups := [(SupAddin, []); (SupExt [lit "Data"; lit "Other Sheet"], enc_wide (lit "rId1")); (SupSelf, [])] in
  let xtis := [(2, 1, 1); (1, 1, 1); (1, 0, 1)] in
  let ds := [ {| nr_flags := 0; nr_chkey := 0; nr_itab := 4294967295; nr_name := lit "Their";
                 nr_rgce := encode_xlsb ex_ext_expr; nr_tail := [] |};
              {| nr_flags := 0; nr_chkey := 0; nr_itab := 4294967295; nr_name := lit "Ours";
                 nr_rgce := encode_xlsb (ERef3d CRef 0 A1abs); nr_tail := [] |} ] in
  let env := {| be_sheets := spec_extern_xlsb sheets xtis; be_names := [lit "Their"; lit "Ours"]; be_base := None |} in
  let full := {| be_sheets := spec_extern_links_xlsb sheets links xtis; be_names := [lit "Their"; lit "Ours"]; be_base := None |} in
  map fst sups = links /\ wf_xlsb env ex_ext_expr = true /\
  known_C14 links xtis ex_ext_expr = Some K_EXTERN_BOOK /\ known_C14 links xtis (ERef3d CRef 0 A1abs) = None /\
  xlsb_read_names (fun _ => []) sheets
    ((0x0161, []) :: map sup_rec_xlsb sups ++ (0x016A, enc_externsheet xtis)
       :: map (fun d => (0x0027, enc_brtname d)) ds ++ [(0x009D, [])])
  = Ok ([lit "S2"; lit "S2"; lit "S1:S2"], [(lit "Their", lit "S2!$A$1+S2!$A$1"); (lit "Ours", lit "S2!$A$1")]) /\
  spec_extern_links_xlsb sheets links xtis = [lit "S2"; lit "'[1]Other Sheet'"; lit "'[1]Data:Other Sheet'"] /\
  render_xlsb (fun _ => []) full ex_ext_expr = lit "'[1]Other Sheet'!$A$1+S2!$A$1" /\
  lit "S2!$A$1+S2!$A$1" <> lit "'[1]Other Sheet'!$A$1+S2!$A$1".
Proof. exact refuted_extern_xlsb. Qed.

(* ---------------------------------------------------------------- shared and array formulas (xls) *)
(* former known class K_PTGEXP, xls half (repaired): the cells of a shared / array formula carry only
   PtgExp(first cell); the formula is in the SHRFMLA / ARRAY record that follows the first cell's FORMULA
   record.  The decoder with a base cell: PtgRefN / PtgAreaN are part of the proved grammar
   (C14_rpn_correct_xls covers ERefN / EAreaN: relative components are offsets from the base cell
   [xe_base], added modulo 65536 rows / 256 columns — Ptg.translate). *)
Theorem C14_translate_offsets_are_signed : forall (base d : Z), (0 <= base)%Z ->
  ((base + d mod 65536) mod 65536 = (base + d) mod 65536)%Z /\
  ((base + (d mod 16384) mod 256) mod 256 = (base + d) mod 256)%Z.
Proof. intros base d H. split; [apply translate_signed_row|apply translate_signed_col]; exact H. Qed.

(* the formula cells of a whole sheet substream, from its records (the sheet's BOF, the items, EOF,
   whatever follows): stream order, one cell per FORMULA record of the sheet itself; plain cells with
   the text of their own tokens, the cells of a shared group with the group's expression translated to
   their own position, the cells of an array group with the array's expression.  The items of a
   layout include substreams nested in the sheet (FSub: the chart substream of an embedded chart
   object, [MS-XLS] 2.1.7.20.5) holding ANY records — FORMULA / SHRFMLA / ARRAY records at cells of
   the sheet's groups, further BOF … EOF pairs — anywhere between the formula records: they
   contribute nothing and disturb nothing (audit 2, XLS-2) *)
Theorem C14_sheet_formulas_xls : forall show_f64 unrec sheets names xtis l bof after,
  wf_layout sheets names xtis l ->
  xls_sheet_formulas show_f64 unrec sheets names xtis (enc_fsheet bof l after)
  = Ok (spec_formulas show_f64 sheets names xtis l).
Proof. exact sheet_formulas_spec. Qed.

Theorem C14_shared_formula_members_xls : forall show_f64 unrec sheets names xtis l bof after p hd first phd rng cuse e r,
  wf_layout sheets names xtis l ->
  In (FShared first phd rng cuse e) l -> In (FMember p hd first) l ->
  xls_sheet_formulas show_f64 unrec sheets names xtis (enc_fsheet bof l after) = Ok r ->
  In (p, render_xls show_f64 (env_at sheets names xtis (Some p)) e) r /\
  In (first, render_xls show_f64 (env_at sheets names xtis (Some first)) e) r.
Proof. exact shared_formula_members_xls. Qed.

Theorem C14_array_formula_members_xls : forall show_f64 unrec sheets names xtis l bof after p hd first phd rng flags e r,
  wf_layout sheets names xtis l ->
  In (FArray first phd rng flags e) l -> In (FMember p hd first) l ->
  xls_sheet_formulas show_f64 unrec sheets names xtis (enc_fsheet bof l after) = Ok r ->
  In (p, render_xls show_f64 (env_at sheets names xtis None) e) r /\
  In (first, render_xls show_f64 (env_at sheets names xtis None) e) r.
Proof. exact array_formula_members_xls. Qed.

(* a column of three cells sharing  =A2*2+$C$1  (first cell B2), read from B2, B3 and B4; a reference
   whose translation wraps (row offset -1 seen from row 1 = row 65536); an array formula over A6:B7;
   between B2 and B3 an embedded chart whose substream holds a FORMULA record at B2, a SHRFMLA and an
   ARRAY record and a further BOF … EOF pair (ex_shared_layout, FSub) *)
Example C14_shared_formula_nonvacuous :
  wf_layout [] [] [] ex_shared_layout /\
  xls_sheet_formulas (fun _ => []) (fun _ _ => []) [] [] []
    (enc_fsheet [0; 6; 16; 0] ex_shared_layout [(0x0809, []); (0x0006, [1; 2])])
  = Ok [((0, 3), lit "SUM(D65536:E$2)"); ((0, 4), lit "SUM(E65536:F$2)");
        ((1, 1), lit "A2*2+$C$1"); ((2, 1), lit "A3*2+$C$1"); ((3, 1), lit "A4*2+$C$1");
        ((5, 0), lit "SUM(A1:B2)"); ((5, 1), lit "SUM(A1:B2)"); ((6, 0), lit "SUM(A1:B2)"); ((6, 1), lit "SUM(A1:B2)")].
Proof. exact shared_formula_nonvacuous. Qed.

(* ---------------------------------------------------------------- shared and array formulas (xlsb) *)
(* former known class K_PTGEXP, xlsb half (repaired by "fix: xlsb cells of shared and array formulas were
   reported without their formula"): a cell of a shared / array formula carries only PtgExp (row of the
   group's first cell in the token, its column in rgcb); the formula is in the BrtShrFmla / BrtArrFmla
   record that follows the first cell's BrtFmla* record.  XlsbCellsReader::next_formula looks one record
   ahead after a PtgExp cell and decodes the group's formula with the cell's own position as base:
   C14_rpn_correct_xlsb covers ERefN / EAreaN — relative components are offsets from [be_base], added
   modulo 1048576 rows / 16384 columns (Ptg.translate_b). *)
Theorem C14_translate_offsets_are_signed_xlsb : forall (base d : Z), (0 <= base)%Z ->
  ((base + d mod 4294967296) mod 1048576 = (base + d) mod 1048576)%Z /\
  ((base + d mod 16384) mod 16384 = (base + d) mod 16384)%Z.
Proof. intros base d H. split; [apply translate_b_signed_row|apply translate_b_signed_col]; exact H. Qed.

(* the formula cells of a whole sheet, from the records that follow BrtBeginSheetData: stream order, one
   cell per BrtFmla* record at (row of the last BrtRowHdr, column of the record); plain cells with the
   text of their own tokens, the cells of a shared group with the group's expression translated to their
   own position, the cells of an array group with the array's expression, a PtgExp cell naming a cell that
   has started no group with no text.  For every legal layout: any interleaving of rows, the four formula
   cell records with any cached value, groups with any rfx (bounding boxes larger than the used cells
   included), ignored records, and whatever follows BrtEndSheetData. *)
Theorem C14_sheet_formulas_xlsb : forall show_f64 sheets names l endd rest,
  wf_layout_b sheets names l ->
  xlsb_sheet_formulas show_f64 sheets names (flat_map enc_bitem l ++ (0x0092, endd) :: rest)
  = Ok (spec_formulas_b show_f64 sheets names [] l).
Proof. exact sheet_formulas_xlsb. Qed.

(* worksheet_formula = Range::from_sparse over those cells, the ones without text dropped
   (C14_stored_text_positions says what that range holds) *)
Theorem C14_sheet_formula_range_xlsb : forall show_f64 sheets names l endd rest,
  wf_layout_b sheets names l ->
  xlsb_sheet_formula_range show_f64 sheets names (flat_map enc_bitem l ++ (0x0092, endd) :: rest)
  = formula_range false (spec_formulas_b show_f64 sheets names [] l).
Proof. exact sheet_formula_range_xlsb. Qed.

Theorem C14_shared_formula_members_xlsb : forall show_f64 sheets names l1 l2 l3 p h first fh rng e tl endd rest r,
  wf_layout_b sheets names (l1 ++ BShared first fh rng e tl :: l2 ++ BMember p h first :: l3) ->
  ~ In first (flat_map first_of_b l2) ->
  xlsb_sheet_formulas show_f64 sheets names
    (flat_map enc_bitem (l1 ++ BShared first fh rng e tl :: l2 ++ BMember p h first :: l3) ++ (0x0092, endd) :: rest) = Ok r ->
  In (p, render_xlsb show_f64 (benv_at sheets names (Some p)) e) r /\
  In (first, render_xlsb show_f64 (benv_at sheets names (Some first)) e) r.
Proof. exact shared_formula_members_xlsb. Qed.

Theorem C14_array_formula_members_xlsb : forall show_f64 sheets names l1 l2 l3 p h first fh rng flags e tl endd rest r,
  wf_layout_b sheets names (l1 ++ BArray first fh rng flags e tl :: l2 ++ BMember p h first :: l3) ->
  ~ In first (flat_map first_of_b l2) ->
  xlsb_sheet_formulas show_f64 sheets names
    (flat_map enc_bitem (l1 ++ BArray first fh rng flags e tl :: l2 ++ BMember p h first :: l3) ++ (0x0092, endd) :: rest) = Ok r ->
  In (p, render_xlsb show_f64 (benv_at sheets names None) e) r /\
  In (first, render_xlsb show_f64 (benv_at sheets names None) e) r.
Proof. exact array_formula_members_xlsb. Qed.

(* end to end, model of next_formula loop + from_sparse: the range worksheet_formula returns holds, at the
   position of a member cell, the master formula translated to that position *)
Theorem C14_worksheet_formula_members_xlsb : forall show_f64 sheets names l1 l2 l3 p h first fh rng e tl endd rest,
  let l := l1 ++ BShared first fh rng e tl :: l2 ++ BMember p h first :: l3 in
  wf_layout_b sheets names l ->
  ~ In first (flat_map first_of_b l2) ->
  pre empty (OFromSparse (filter nonempty_cell (spec_formulas_b show_f64 sheets names [] l))) ->
  NoDup (map fst (spec_formulas_b show_f64 sheets names [] l)) ->
  render_xlsb show_f64 (benv_at sheets names (Some p)) e <> [] ->
  exists r, xlsb_sheet_formula_range show_f64 sheets names (flat_map enc_bitem l ++ (0x0092, endd) :: rest) = Ok r /\
            get_value r p = Some (render_xlsb show_f64 (benv_at sheets names (Some p)) e).
Proof. exact worksheet_formula_members_xlsb. Qed.

(* D1:E1 share a formula whose row offset -1 wraps to row 1048576; B2:B4 share =A2*2+$C$1 (column offset
   -1 stored as 0x3FFF; the record's rfx is a larger box; the first cell is a BrtFmlaString, another member
   a BrtFmlaBool); a plain cell, an orphan PtgExp cell and a cell without tokens in between; an array
   formula over A6:B7; the far corner XFC1048576:XFD1048576 where +1 / +1 wraps to XFD1 / A1; and the range
   worksheet_formula builds from the first sheet *)
Example C14_shared_formula_xlsb_nonvacuous :
  wf_layout_b [] [] ex_shared_layout_b /\
  xlsb_sheet_formulas (fun _ => []) [] [] (flat_map enc_bitem ex_shared_layout_b ++ [(0x0092, []); (0x0082, [])])
  = Ok [((0, 3), lit "SUM(D1048576:E$2)"); ((0, 4), lit "SUM(E1048576:F$2)");
        ((1, 1), lit "A2*2+$C$1"); ((2, 1), lit "A3*2+$C$1"); ((2, 2), lit "7"); ((3, 1), lit "A4*2+$C$1");
        ((3, 2), []); ((3, 3), []);
        ((5, 0), lit "SUM(A1:B2)"); ((5, 1), lit "SUM(A1:B2)"); ((6, 0), lit "SUM(A1:B2)"); ((6, 1), lit "SUM(A1:B2)")] /\
  wf_layout_b [] [] ex_corner_layout_b /\
  xlsb_sheet_formulas (fun _ => []) [] [] (flat_map enc_bitem ex_corner_layout_b ++ [(0x0092, [])])
  = Ok [((1048575, 16382), lit "XFD1"); ((1048575, 16383), lit "A1")] /\
  (exists r, xlsb_sheet_formula_range (fun _ => []) [] []
               (flat_map enc_bitem ex_shared_layout_b ++ [(0x0092, []); (0x0082, [])]) = Ok r /\
             get_value r (3, 1) = Some (lit "A4*2+$C$1") /\ get_value r (3, 2) = Some []).
Proof. exact shared_formula_nonvacuous_xlsb. Qed.

(* stored-text readers: non-empty texts at their positions, "" elsewhere in their tight box *)
Theorem C14_stored_text_positions : forall (cells : list (pos * list N)),
  pre empty (OFromSparse (filter nonempty_cell cells)) -> NoDup (map fst cells) ->
  exists r, formula_range false cells = Ok r /\
    rect r = tight_bbox (map fst (filter nonempty_cell cells)) /\
    (forall p t, In (p, t) cells -> t <> [] -> get_value r p = Some t) /\
    (forall q, in_rect r q = true -> (forall t, In (q, t) cells -> t = []) -> get_value r q = Some []) /\
    (forall q, in_rect r q = false -> get_value r q = None).
Proof. exact stored_text_positions. Qed.

Example C14_xlsb_names_nonvacuous :
  forallb wf_name_rec ex_names = true /\ forallb wf_xti [(0, 1, 1); (0, 4294967294, 4294967294)] = true /\
  xlsb_read_names (fun _ => []) [lit "S1"; lit "O'Neil 2"]
    ((0x0165, []) :: (0x016A, enc_externsheet [(0, 1, 1); (0, 4294967294, 4294967294)])
       :: map (fun d => (0x0027, enc_brtname d)) ex_names ++ [(0x009D, [])])
  = Ok ([lit "'O''Neil 2'"; lit "#ThisWorkbook"],
        [(lit "_xlnm._FilterDatabase", lit "'O''Neil 2'!$A$1:$C$10"); (lit "Rate", [26085; 128512; 42; 50]); ([26085; 128512], lit "5")]).
Proof. exact xlsb_names_nonvacuous. Qed.

Example C14_xls_names_nonvacuous :
  forallb wf_grec ex_globals = true /\
  xls_read_names (fun _ => []) [lit "S1"; lit "My Sheet"] (flat_map enc_grec ex_globals)
  = Ok ([(lit "_xlnm._FilterDatabase", lit "'My Sheet'!$A$1:$C$10"); ([26085; 128512], lit "S1!$AB$5")], [(0, 1, 1); (0, 0, 0)]).
Proof. exact xls_names_nonvacuous. Qed.

Example C14_stored_text_positions_nonvacuous :
  let cs := [((1, 2), [65; 49]); ((1, 3), []); ((1, 5), [66; 50]); ((9, 0), [])] in
  pre (@empty (list N)) (OFromSparse (filter nonempty_cell cs)) /\ NoDup (map fst cs) /\
  exists r, formula_range false cs = Ok r /\ get_value r (1, 5) = Some [66; 50] /\
            get_value r (1, 3) = Some [] /\ get_value r (9, 0) = None.
Proof.
  cbv zeta. split; [|split].
  - cbn. unfold U32MAX. repeat split; try lia; destruct H as [<-|[<-|[]]]; cbn; lia.
  - cbn. repeat constructor; cbn; intuition congruence.
  - eexists. split; [vm_compute; reflexivity|]. vm_compute. repeat split.
Qed.

(* ---------------------------------------------------------------- non-vacuity *)
Example C14_rpn_nonvacuous :
  wf_xls ex_env_xls ex_expr = true /\
  N.of_nat (length (encode_xls ex_expr)) < 65536 /\
  wf_xlsb ex_env_xlsb ex_expr = true /\
  render_xls (fun _ => []) ex_env_xls ex_expr =
    lit "SUM(A1,$AB$2:XFD65536,,Sheet2!B$3)+-(""h""""i""&""" ++ [26085; 128512] ++
    lit """)*IF(TRUE,rate,SUM(7))%".
Proof. exact rpn_nonvacuous. Qed.

Example C14_a1_nonvacuous :
  1048575 + 1 < ROW_TEXT_LIMIT /\ 16383 < 16384 /\
  coordinate_to_name (1048575, 16383) = Ok (lit "XFD1048576") /\
  get_row_column (lit "xfd1048576") = Ok (1048575, 16383) /\
  push_cell_ref 4 (col_field 27 true false) [] = Ok (lit "$AB5").
Proof. vm_compute. repeat split. Qed.

Example C14_formula_positions_nonvacuous :
  let fs := [((1, 2), [65; 49]); ((1, 5), [66; 50]); ((4, 0), [83; 85; 77; 40; 41])] in
  pre (@empty (list N)) (OFromSparse fs) /\ NoDup (map fst fs) /\
  exists r, from_sparse [] fs = Ok r /\ get_value r (4, 0) = Some [83; 85; 77; 40; 41] /\
            get_value r (2, 3) = Some [] /\ get_value r (0, 0) = None.
Proof. exact formula_positions_nonvacuous. Qed.

(* ---------- round 9: a name through a span of sheets, the XTI array cut in the middle of an XTI over the
   ExternSheet record and two CONTINUE records, Lbl records with extra data behind the tokens, a union behind
   PtgMemFunc, supporting links add-in / other workbook / this workbook with the workbook's own XTIs at link
   index 2: outside the known class, the full spec is what the reader reports ---------- *)
Definition ex9_globals : list grec :=
  [ GSup SupAddin 1 [];
    GSup (SupExt [lit "Data"]) 1 (lit "b.xls");
    GSup SupSelf 3 [];
    GExt [(2, 0, 2); (1, 0, 0); (2, 1, 1)] [5%nat; 7%nat];
    GLbl {| lb_flags := 32; lb_chkey := 0; lb_itab := 1; lb_wide := false; lb_name := [7];   (* Print_Titles *)
            lb_rgce := encode_xls (EMem CRef MFunc 0 (EBin 16 (EArea3d CRef 2 (Build_cref 0 0 false false) (Build_cref 65535 1 false false))
                                                              (EArea3d CRef 0 (Build_cref 0 0 false false) (Build_cref 1 255 false false))));
            lb_rgcb := [1; 0; 9; 9] |} ].
Example C14_round9_nonvacuous :
  let e := EMem CRef MFunc 0 (EBin 16 (EArea3d CRef 2 (Build_cref 0 0 false false) (Build_cref 65535 1 false false))
                                      (EArea3d CRef 0 (Build_cref 0 0 false false) (Build_cref 1 255 false false))) in
  let env := {| xe_sheets := [lit "First"; lit "My Sheet"; lit "Last"]; xe_names := [lit "_xlnm.Print_Titles"];
                xe_xtis := xtis_of ex9_globals; xe_base := None |} in
  forallb wf_grec ex9_globals = true /\ wf_xls env e = true /\
  known_C14 (links_of ex9_globals) (xtis_of ex9_globals) e = None /\
  length (flat_map enc_grec ex9_globals) = 7%nat /\
  xls_read_names (fun _ => []) [lit "First"; lit "My Sheet"; lit "Last"] (flat_map enc_grec ex9_globals)
  = Ok ([(lit "_xlnm.Print_Titles", lit "'My Sheet'!$A$1:$B$65536,First:Last!$A$1:$IV$2")], [(2, 0, 2); (1, 0, 0); (2, 1, 1)]) /\
  render_xls_links (fun _ => []) (links_of ex9_globals) env e = lit "'My Sheet'!$A$1:$B$65536,First:Last!$A$1:$IV$2".
Proof. vm_compute. repeat split. Qed.

(* ---------------------------------------------------------------- pins *)
Check C14_push_column_is_letters : forall col buf, col < 2 ^ 32 ->
  push_column col buf = Ok (buf ++ letters col).
Check C14_rpn_correct_xls : forall show_f64 env e,
  wf_xls env e = true -> N.of_nat (length (encode_xls e)) < 65536 ->
  xls_parse_formula show_f64 env (frame_xls (encode_xls e)) = Ok (render_xls show_f64 env e).
Check C14_rpn_correct_xlsb : forall show_f64 env e,
  wf_xlsb env e = true ->
  xlsb_parse_formula show_f64 env (encode_xlsb e) = Ok (render_xlsb show_f64 env e).
Check C14_a1_roundtrip : forall r c, r + 1 < ROW_TEXT_LIMIT -> c < 16384 ->
  exists s, coordinate_to_name (r, c) = Ok s /\ get_row_column s = Ok (r, c).
Check C14_formula_positions : forall (formulas : list (pos * list N)),
  pre empty (OFromSparse formulas) -> NoDup (map fst formulas) ->
  exists r, from_sparse [] formulas = Ok r /\ rect r = tight_bbox (map fst formulas) /\
    (forall p text, In (p, text) formulas -> get_value r p = Some text) /\
    (forall q, in_rect r q = true -> ~ In q (map fst formulas) -> get_value r q = Some []) /\
    (forall q, in_rect r q = false -> get_value r q = None).

Check C14_no_panic_parse_formula_xls : forall show_f64 env data,
  xls_parse_formula show_f64 env data <> Panic.
Check C14_no_panic_parse_formula_xlsb : forall show_f64 env rgce,
  xlsb_parse_formula show_f64 env rgce <> Panic.
Check C14_name_index_stable : forall show_f64 ext ds r i d,
  spec_names_xlsb show_f64 ext [] ds = Ok r -> nth_error ds i = Some d ->
  spec_name (map fst r) (N.of_nat i + 1) = nr_name d.
Check C14_defined_names_in_order : forall show_f64 ext ds r,
  spec_names_xlsb show_f64 ext [] ds = Ok r -> map fst r = map nr_name ds.
Check C14_xlsb_read_names_spec : forall show_f64 sheets xtis ds e p,
  forallb wf_xti xtis = true -> N.of_nat (length xtis) < 4294967296 ->
  forallb wf_name_rec ds = true -> is_end_rec e = true ->
  xlsb_read_names show_f64 sheets
    ((0x016A, enc_externsheet xtis) :: map (fun d => (0x0027, enc_brtname d)) ds ++ [(e, p)])
  = do r <- spec_names_xlsb show_f64 (spec_extern_xlsb sheets xtis) [] ds;
    Ok (spec_extern_xlsb sheets xtis, r).
Check C14_defined_name_text_is_render_xlsb : forall show_f64 ext ds r i d e,
  spec_names_xlsb show_f64 ext [] ds = Ok r -> nth_error ds i = Some d ->
  nr_rgce d = encode_xlsb e ->
  wf_xlsb {| be_sheets := ext; be_names := map nr_name ds; be_base := None |} e = true ->
  nth_error r i = Some (nr_name d, render_xlsb show_f64 {| be_sheets := ext; be_names := map nr_name ds; be_base := None |} e).
Check C14_defined_name_text_is_render_xls : forall show_f64 sheets gs names xtis i d e,
  forallb wf_grec gs = true ->
  xls_read_names show_f64 sheets (flat_map enc_grec gs) = Ok (names, xtis) ->
  nth_error (lbls_of gs) i = Some d -> lb_rgce d = encode_xls e ->
  N.of_nat (length (encode_xls e)) < 65536 ->
  let env := {| xe_sheets := sheets; xe_names := map lb_logical (lbls_of gs); xe_xtis := xtis_of gs; xe_base := None |} in
  wf_xls env e = true ->
  nth_error names i = Some (lb_logical d, render_xls show_f64 env e).
Check C14_sheet3d_through_xti_xls : forall show_f64 sheets gs names xtis i x nm, forallb wf_grec gs = true ->
  xls_read_names show_f64 sheets (flat_map enc_grec gs) = Ok (names, xtis) ->
  nth_error (xtis_of gs) i = Some x -> snd (fst x) < 32768 -> snd x < 32768 ->
  spec_sheet_xls {| xe_sheets := sheets; xe_names := nm; xe_xtis := xtis; xe_base := None |} (N.of_nat i)
  = match nthN sheets (snd (fst x)), nthN sheets (snd x) with
    | Some a, Some b => if snd (fst x) =? snd x then sheet_text a else span_text a b
    | Some a, None => sheet_text a
    | None, _ => lit "#REF"
    end.
Check C14_resolve_xti_span_text : forall sheets first last s t, first < 2147483648 -> last < 2147483648 ->
  first <> last -> nthN sheets first = Some s -> nthN sheets last = Some t ->
  resolve_xti sheets first last = span_text s t.
Check C14_rpn_correct_links_xls : forall show_f64 links env e,
  wf_xls env e = true -> N.of_nat (length (encode_xls e)) < 65536 ->
  known_C14 links (xe_xtis env) e = None ->
  xls_parse_formula show_f64 env (frame_xls (encode_xls e)) = Ok (render_xls_links show_f64 links env e).
Check C14_rpn_correct_links_xlsb : forall show_f64 sheets links xtis nm base e,
  wf_xlsb {| be_sheets := spec_extern_xlsb sheets xtis; be_names := nm; be_base := base |} e = true ->
  known_C14 links xtis e = None ->
  xlsb_parse_formula show_f64 {| be_sheets := spec_extern_xlsb sheets xtis; be_names := nm; be_base := base |}
    (encode_xlsb e)
  = Ok (render_xlsb show_f64 {| be_sheets := spec_extern_links_xlsb sheets links xtis; be_names := nm; be_base := base |} e).
Check C14_xlsb_read_names_links_spec : forall show_f64 sheets bp sups xtis ds e p,
  forallb wf_xti xtis = true -> N.of_nat (length xtis) < 4294967296 ->
  forallb wf_name_rec ds = true -> is_end_rec e = true ->
  xlsb_read_names show_f64 sheets
    ((0x0161, bp) :: map sup_rec_xlsb sups ++
     (0x016A, enc_externsheet xtis) :: map (fun d => (0x0027, enc_brtname d)) ds ++ [(e, p)])
  = do r <- spec_names_xlsb show_f64 (spec_extern_xlsb sheets xtis) [] ds;
    Ok (spec_extern_xlsb sheets xtis, r).
Check C14_sheet_formulas_xlsb : forall show_f64 sheets names l endd rest,
  wf_layout_b sheets names l ->
  xlsb_sheet_formulas show_f64 sheets names (flat_map enc_bitem l ++ (0x0092, endd) :: rest)
  = Ok (spec_formulas_b show_f64 sheets names [] l).
Check C14_shared_formula_members_xlsb : forall show_f64 sheets names l1 l2 l3 p h first fh rng e tl endd rest r,
  wf_layout_b sheets names (l1 ++ BShared first fh rng e tl :: l2 ++ BMember p h first :: l3) ->
  ~ In first (flat_map first_of_b l2) ->
  xlsb_sheet_formulas show_f64 sheets names
    (flat_map enc_bitem (l1 ++ BShared first fh rng e tl :: l2 ++ BMember p h first :: l3) ++ (0x0092, endd) :: rest) = Ok r ->
  In (p, render_xlsb show_f64 (benv_at sheets names (Some p)) e) r /\
  In (first, render_xlsb show_f64 (benv_at sheets names (Some first)) e) r.
Check C14_array_formula_members_xlsb : forall show_f64 sheets names l1 l2 l3 p h first fh rng flags e tl endd rest r,
  wf_layout_b sheets names (l1 ++ BArray first fh rng flags e tl :: l2 ++ BMember p h first :: l3) ->
  ~ In first (flat_map first_of_b l2) ->
  xlsb_sheet_formulas show_f64 sheets names
    (flat_map enc_bitem (l1 ++ BArray first fh rng flags e tl :: l2 ++ BMember p h first :: l3) ++ (0x0092, endd) :: rest) = Ok r ->
  In (p, render_xlsb show_f64 (benv_at sheets names None) e) r /\
  In (first, render_xlsb show_f64 (benv_at sheets names None) e) r.

Check C14_sheet_formulas_xls : forall show_f64 unrec sheets names xtis l bof after,
  wf_layout sheets names xtis l ->
  xls_sheet_formulas show_f64 unrec sheets names xtis (enc_fsheet bof l after)
  = Ok (spec_formulas show_f64 sheets names xtis l).
Check C14_shared_formula_members_xls : forall show_f64 unrec sheets names xtis l bof after p hd first phd rng cuse e r,
  wf_layout sheets names xtis l ->
  In (FShared first phd rng cuse e) l -> In (FMember p hd first) l ->
  xls_sheet_formulas show_f64 unrec sheets names xtis (enc_fsheet bof l after) = Ok r ->
  In (p, render_xls show_f64 (env_at sheets names xtis (Some p)) e) r /\
  In (first, render_xls show_f64 (env_at sheets names xtis (Some first)) e) r.
Check C14_array_formula_members_xls : forall show_f64 unrec sheets names xtis l bof after p hd first phd rng flags e r,
  wf_layout sheets names xtis l ->
  In (FArray first phd rng flags e) l -> In (FMember p hd first) l ->
  xls_sheet_formulas show_f64 unrec sheets names xtis (enc_fsheet bof l after) = Ok r ->
  In (p, render_xls show_f64 (env_at sheets names xtis None) e) r /\
  In (first, render_xls show_f64 (env_at sheets names xtis None) e) r.

Print Assumptions C14_letters_injective.
Print Assumptions C14_letters_inverse.
Print Assumptions C14_push_column_is_letters.
Print Assumptions C14_push_cell_ref_spec.
Print Assumptions C14_column_number_to_name_is_letters.
Print Assumptions C14_a1_roundtrip.
Print Assumptions C14_no_panic_a1.
Print Assumptions C14_no_panic_parse_formula_xls.
Print Assumptions C14_no_panic_parse_formula_xlsb.
Print Assumptions C14_no_panic_xlsb_read_names.
Print Assumptions C14_no_panic_xls_read_names.
Print Assumptions C14_reversed_dimension_ok.
Print Assumptions C14_lower_case_agrees.
Print Assumptions C14_tables_match_reference.
Print Assumptions C14_rpn_correct_xls.
Print Assumptions C14_rpn_correct_xlsb.
Print Assumptions C14_choose_correct_xlsb.
Print Assumptions C14_choose_correct_xls.
Print Assumptions C14_user_function_correct_xlsb.
Print Assumptions C14_user_function_correct_xls.
Print Assumptions C14_sheet_name_quoting.
Print Assumptions C14_resolve_xti_sheet_text.
Print Assumptions C14_resolve_xti_span_text.
Print Assumptions C14_sheet_span_quoting.
Print Assumptions C14_sheet_name_xls_is_spec.
Print Assumptions C14_formula_positions.
Print Assumptions C14_xlsb_names_of_records.
Print Assumptions C14_xlsb_read_names_spec.
Print Assumptions C14_defined_names_in_order.
Print Assumptions C14_defined_names_in_order_xls.
Print Assumptions C14_name_index_stable.
Print Assumptions C14_name_index_stable_xls.
Print Assumptions C14_ptgname_is_ith_record_xlsb.
Print Assumptions C14_ptgname_is_ith_record_xls.
Print Assumptions C14_sheet3d_through_xti_xlsb.
Print Assumptions C14_sheet3d_through_xti_xls.
Print Assumptions C14_defined_name_text_is_render_xls.
Print Assumptions C14_defined_name_text_is_render_xlsb.
Print Assumptions C14_builtin_names_table.
Print Assumptions C14_translate_offsets_are_signed.
Print Assumptions C14_sheet_formulas_xls.
Print Assumptions C14_shared_formula_members_xls.
Print Assumptions C14_array_formula_members_xls.
Print Assumptions C14_translate_offsets_are_signed_xlsb.
Print Assumptions C14_sheet_formulas_xlsb.
Print Assumptions C14_sheet_formula_range_xlsb.
Print Assumptions C14_shared_formula_members_xlsb.
Print Assumptions C14_array_formula_members_xlsb.
Print Assumptions C14_worksheet_formula_members_xlsb.
Print Assumptions C14_stored_text_positions.
Print Assumptions C14_rpn_correct_links_xls.
Print Assumptions C14_rpn_correct_links_xlsb.
Print Assumptions C14_xlsb_read_names_links_spec.
Print Assumptions C14_defined_name_text_through_links_xlsb.
Print Assumptions C14_defined_name_text_through_links_xls.
Print Assumptions C14_local_xti_through_links.
Print Assumptions C14_refuted_extern_xls.
Print Assumptions C14_refuted_extern_xlsb.
