(* MetaXls_proofs: the xls reader's report of sheets and date flag equals the logical workbook
   (property C16, xls).  Defined names: see the end of the file for what is covered. *)
From Calamine Require Import Prelude BiffSst BiffSst_proofs Meta Meta_proofs.
From Calamine Require Col26 Col26_proofs Utf16 Utf16_proofs Ptg NumFmt.
Open Scope N_scope.

(* ------------------------------------------------------------------------------------- *)
(** * UTF-16: the BiffSst decoder inverts the Utf16 encoder *)

Lemma biff_decode_encode : forall s, forallb scalarb s = true ->
  utf16_decode (Utf16.utf16_encode s) = s.
Proof.
  induction s as [|c s IH]; intros H; [reflexivity|].
  cbn in H. apply andb_true_iff in H. destruct H as [Hc Hs]. specialize (IH Hs).
  change (Utf16.utf16_encode (c :: s)) with (Utf16.enc_scalar c ++ Utf16.utf16_encode s).
  unfold scalarb, Utf16.scalarb, Utf16.is_surr in Hc.
  unfold Utf16.enc_scalar. destruct (c <? 65536) eqn:E; cbn [app].
  - rewrite dec_bmp; [rewrite IH; reflexivity| |]; unfold is_high, is_low; lia.
  - rewrite dec_high_low; [|unfold is_high; lia|unfold is_low; lia].
    rewrite IH. f_equal. unfold pair_scalar. lia.
Qed.

Lemma encode_units_lt : forall s, forallb scalarb s = true ->
  all_lt 65536 (Utf16.utf16_encode s) = true.
Proof.
  induction s as [|c s IH]; intros H; [reflexivity|].
  cbn in H. apply andb_true_iff in H. destruct H as [Hc Hs]. specialize (IH Hs).
  change (Utf16.utf16_encode (c :: s)) with (Utf16.enc_scalar c ++ Utf16.utf16_encode s).
  rewrite all_lt_app, IH, andb_true_r.
  unfold scalarb, Utf16.scalarb, Utf16.is_surr in Hc.
  unfold Utf16.enc_scalar. destruct (c <? 65536) eqn:E; unfold all_lt; cbn [forallb]; lia.
Qed.

Lemma encode_latin1 : forall s, forallb (fun c => c <? 256) s = true ->
  Utf16.utf16_encode s = s.
Proof.
  induction s as [|c s IH]; intros H; [reflexivity|].
  cbn in H. apply andb_true_iff in H. destruct H as [Hc Hs].
  change (Utf16.utf16_encode (c :: s)) with (Utf16.enc_scalar c ++ Utf16.utf16_encode s).
  rewrite (IH Hs). unfold Utf16.enc_scalar. replace (c <? 65536) with true by lia. reflexivity.
Qed.

Lemma name_ok_parts : forall s, name_ok s = true ->
  forallb scalarb s = true /\ filter (fun c => negb (c =? 0)) s = s.
Proof.
  induction s as [|c s IH]; intros H; [split; reflexivity|].
  cbn in H. apply andb_true_iff in H. destruct H as [Hc Hs].
  apply andb_true_iff in Hc. destruct Hc as [H1 H2]. destruct (IH Hs) as [I1 I2].
  split; cbn; [rewrite H1, I1; reflexivity|rewrite H2, I2; reflexivity].
Qed.

Lemma short_legal : forall wide s, name_ok s = true ->
  len (units_of s) <= 255 -> wide_ok wide s = true ->
  legal_short_string wide (units_of s) = true.
Proof.
  intros wide s Hn Hl Hw. destruct (name_ok_parts s Hn) as [Hs _].
  unfold legal_short_string, units_of. rewrite (encode_units_lt s Hs).
  replace (len (Utf16.utf16_encode s) <=? 255) with true by (unfold units_of in Hl; lia).
  cbn [andb]. unfold seg_ok. unfold wide_ok in Hw. destruct wide; [reflexivity|].
  cbn [orb] in *. rewrite (encode_latin1 s Hw). exact Hw.
Qed.

(* ------------------------------------------------------------------------------------- *)
(** * record framing *)

Definition nc (s : bytes) : Prop := starts_continue s = false.

Lemma nc_frame : forall t body rest, t <> 60 -> len body <= 65535 -> nc (frame t body ++ rest).
Proof. intros. apply frame_not_continue; assumption. Qed.

Lemma xjunk_facts : forall r, xjunk_ok r = true -> fst r <> 60 /\ len (snd r) <= 65535.
Proof.
  intros [t b] H. unfold xjunk_ok in H. cbn [fst snd] in *.
  apply andb_true_iff in H. destruct H as [H H3]. apply andb_true_iff in H. destruct H as [H1 H2].
  split; [|lia]. intros ->. cbn in H1. discriminate.
Qed.

Lemma nc_frames : forall j rest, forallb xjunk_ok j = true -> nc rest -> nc (frames j ++ rest).
Proof.
  intros [|r j] rest H Hn; [exact Hn|].
  cbn in H. apply andb_true_iff in H. destruct H as [H1 _].
  destruct (xjunk_facts r H1) as [F1 F2].
  change (frames (r :: j)) with (frame (fst r) (snd r) ++ frames j).
  rewrite <- app_assoc. apply nc_frame; assumption.
Qed.

(* the globals loop skips ignorable records *)
Lemma globals_junk1 : forall t b rest st, xjunk_ok (t, b) = true -> nc rest ->
  xls_globals (records (frame t b ++ rest)) st = xls_globals (records rest) st.
Proof.
  intros t b rest st H Hn. destruct (xjunk_facts (t, b) H) as [F1 F2]. cbn [fst snd] in *.
  rewrite (records_plain t b rest F2 Hn). cbn [xls_globals].
  unfold xjunk_ok in H. cbn [fst snd] in H.
  apply andb_true_iff in H. destruct H as [H _]. apply andb_true_iff in H. destruct H as [H _].
  apply orb_true_iff in H. destruct H as [H|H];
    [apply orb_true_iff in H; destruct H as [H|H];
     [apply orb_true_iff in H; destruct H as [H|H]|]|].
  - apply negb_true_iff in H. unfold xls_interpreted in H.
    repeat (apply orb_false_iff in H; destruct H as [H ?]).
    repeat match goal with E : (t =? _) = false |- _ => rewrite E; clear E end.
    reflexivity.
  - apply andb_true_iff in H. destruct H as [Ht Hl]. apply N.eqb_eq in Ht. subst t.
    cbn. replace (len b <? 4) with false by lia. reflexivity.
  - apply andb_true_iff in H. destruct H as [Ht Hl]. apply N.eqb_eq in Ht. subst t.
    cbn. replace (len b <? 4) with false by lia. replace (len b <? 5) with false by lia.
    reflexivity.
  - (* a CodePage record of any value *)
    apply andb_true_iff in H. destruct H as [Ht Hl]. apply N.eqb_eq in Ht. subst t.
    cbn. replace (len b <? 2) with false by lia. reflexivity.
Qed.

Lemma globals_junk : forall j rest st, forallb xjunk_ok j = true -> nc rest ->
  xls_globals (records (frames j ++ rest)) st = xls_globals (records rest) st.
Proof.
  induction j as [|[t b] j IH]; intros rest st H Hn; [reflexivity|].
  cbn in H. apply andb_true_iff in H. destruct H as [H1 H2].
  change (frames ((t, b) :: j)) with (frame t b ++ frames j). rewrite <- app_assoc.
  rewrite (globals_junk1 t b _ st H1 (nc_frames j rest H2 Hn)).
  apply IH; assumption.
Qed.

(* ------------------------------------------------------------------------------------- *)
(** * BoundSheet8 *)

Lemma land_hs : forall v hi, v <= 2 -> N.land (v + 4 * hi) 3 = v.
Proof.
  intros v hi Hv. change 3 with (N.ones 2). rewrite N.land_ones. change (2 ^ 2) with 4. lia.
Qed.

Lemma len_ge6 : forall p a b (x : bytes), (len (le32 p ++ [a; b] ++ x) <? 6) = false.
Proof.
  intros p a b x. rewrite !len_app. change (len (le32 p)) with 4. change (len [a; b]) with 2. lia.
Qed.

Lemma sheet_metadata_enc : forall s ch, ls_legal s ch = true ->
  xls_sheet_metadata (boundsheet_body (ls_pos ch) (xls_vis_code (m_vis s) + 4 * ls_hi ch)
                                      (xls_kind_code (m_kind s)) (ls_wide ch) (units_of (m_name s)))
  = Ok (ls_pos ch, s).
Proof.
  intros s ch H. unfold ls_legal in H.
  apply andb_true_iff in H. destruct H as [H Hhi].
  apply andb_true_iff in H. destruct H as [H Hpos].
  apply andb_true_iff in H. destruct H as [H Hwide].
  apply andb_true_iff in H. destruct H as [H Hlen].
  apply andb_true_iff in H. destruct H as [Hkind Hname].
  destruct (name_ok_parts (m_name s) Hname) as [Hsc Hfil].
  assert (Hleg : legal_short_string (ls_wide ch) (units_of (m_name s)) = true)
    by (apply short_legal; [assumption|lia|assumption]).
  unfold xls_sheet_metadata, boundsheet_body. rewrite len_ge6.
  rewrite read_u32_le32 by lia. cbn [obind].
  unfold le32 at 1 2. cbn [app nth_error of_option obind].
  rewrite land_hs by (destruct (m_vis s); cbn; lia).
  change (drop 6 (le32 (ls_pos ch) ++ ?a :: ?b :: ?x)) with x.
  rewrite <- (app_nil_r (short_xl_string _ _)), (parse_short_string_ok _ _ [] Hleg).
  unfold units_of. rewrite (biff_decode_encode _ Hsc).
  destruct s as [nm v k]. cbn [m_name m_vis m_kind] in *.
  destruct v, k; try discriminate; cbn [xls_vis_code xls_kind_code obind]; rewrite Hfil;
    reflexivity.
Qed.

Lemma len_boundsheet : forall s ch, ls_legal s ch = true ->
  len (boundsheet_body (ls_pos ch) (xls_vis_code (m_vis s) + 4 * ls_hi ch)
                       (xls_kind_code (m_kind s)) (ls_wide ch) (units_of (m_name s))) <= 65535.
Proof.
  intros s ch H. unfold ls_legal in H.
  apply andb_true_iff in H. destruct H as [H _].
  apply andb_true_iff in H. destruct H as [H _].
  apply andb_true_iff in H. destruct H as [H _].
  apply andb_true_iff in H. destruct H as [_ Hlen].
  apply len_boundsheet_body. lia.
Qed.

Lemma nc_boundsheets : forall sheets chs rest, forallb2 ls_legal sheets chs = true -> nc rest ->
  nc (flat_map (fun sc => boundsheet (fst sc) (snd sc)) (combine sheets chs) ++ rest).
Proof.
  intros [|s sheets] [|ch chs] rest H Hn; cbn in H; try discriminate; [exact Hn|].
  apply andb_true_iff in H. destruct H as [H1 _].
  cbn [combine flat_map fst snd]. unfold boundsheet at 1. rewrite <- app_assoc.
  apply nc_frame; [discriminate|apply len_boundsheet; exact H1].
Qed.

Definition push_sheets (st : xls_state) (l : list (N * meta)) : xls_state :=
  mkXlsState (xg_sheets st ++ l) (xg_names st) (xg_xtis st) (xg_1904 st).

Lemma globals_boundsheets : forall sheets chs rest st,
  forallb2 ls_legal sheets chs = true -> nc rest ->
  xls_globals (records (flat_map (fun sc => boundsheet (fst sc) (snd sc)) (combine sheets chs)
                        ++ rest)) st =
  xls_globals (records rest)
              (push_sheets st (map (fun sc => (ls_pos (snd sc), fst sc)) (combine sheets chs))).
Proof.
  induction sheets as [|s sheets IH]; intros [|ch chs] rest st H Hn; cbn in H; try discriminate.
  - unfold push_sheets. cbn. rewrite app_nil_r. destruct st; reflexivity.
  - apply andb_true_iff in H. destruct H as [H1 H2].
    cbn [combine flat_map map fst snd]. unfold boundsheet at 1. rewrite <- app_assoc.
    rewrite (records_plain 133 _ _ (len_boundsheet s ch H1) (nc_boundsheets sheets chs rest H2 Hn)).
    cbn [xls_globals]. change (133 =? 47) with false. change (133 =? 66) with false.
    change (133 =? 34) with false. change (133 =? 1054) with false. change (133 =? 224) with false.
    change (133 =? 133) with true. cbn iota.
    rewrite (sheet_metadata_enc s ch H1). cbn [obind].
    rewrite (IH chs rest _ H2 Hn). unfold push_sheets. cbn [xg_sheets xg_names xg_xtis xg_1904].
    rewrite <- app_assoc. reflexivity.
Qed.

(* ------------------------------------------------------------------------------------- *)
(** * sheets and date flag: workbooks without defined names *)

Lemma combine_map_snd_fst : forall (A B C : Type) (f : B -> C) (l : list A) (m : list B),
  length l = length m ->
  map snd (map (fun sc : A * B => (f (snd sc), fst sc)) (combine l m)) = l.
Proof.
  induction l as [|x l IH]; intros [|y m] H; cbn in *; try discriminate; [reflexivity|].
  f_equal. apply IH. lia.
Qed.

Lemma len_bof_ok : len bof_globals <= 65535.
Proof. vm_compute. discriminate. Qed.
Lemma len_nil_ok : len (@nil N) <= 65535.
Proof. vm_compute. discriminate. Qed.
Lemma len_le16_ok : forall x, len (le16 x) <= 65535.
Proof. intros x. change (len (le16 x)) with 2. lia. Qed.

(* PARTIAL (workbooks with no defined name and no ExternSheet table): every sheet is reported in
   workbook order with its exact name, visibility and kind, and the date flag is the workbook's *)
Theorem xls_parse_encode_partial : forall show_f64 c wb,
  xls_legal c wb = true -> wb_names wb = [] -> lc_xtis c = [] ->
  xls_parse_workbook show_f64 (xls_stream c wb) = Ok (mkParsed (wb_sheets wb) [] [] (wb_1904 wb)).
Proof.
  intros show_f64 c wb Hl Hnm Hxt. unfold xls_legal in Hl.
  apply andb_true_iff in Hl. destruct Hl as [Hl Hpos].
  apply andb_true_iff in Hl. destruct Hl as [Hl Htail].
  apply andb_true_iff in Hl. destruct Hl as [Hl _].
  apply andb_true_iff in Hl. destruct Hl as [Hl _].
  apply andb_true_iff in Hl. destruct Hl as [Hl _].
  apply andb_true_iff in Hl. destruct Hl as [Hl _].
  apply andb_true_iff in Hl. destruct Hl as [Hl _].
  apply andb_true_iff in Hl. destruct Hl as [Hl Hsheets].
  apply andb_true_iff in Hl. destruct Hl as [Hl J3].
  apply andb_true_iff in Hl. destruct Hl as [Hl J2].
  apply andb_true_iff in Hl. destruct Hl as [J0 J1].
  assert (Nt : nc (lc_tail c)) by (apply negb_true_iff in Htail; exact Htail).
  unfold xls_parse_workbook.
  assert (Hg : xls_globals (records (xls_stream c wb)) xls_state0 =
               Ok (mkXlsState (map (fun sc => (ls_pos (snd sc), fst sc))
                                   (combine (wb_sheets wb) (lc_sheets c))) [] [] (wb_1904 wb))).
  { unfold xls_stream. rewrite Hnm, Hxt. cbn [combine flat_map app].
    assert (N4 : nc (frame 10 [] ++ lc_tail c)) by (apply nc_frame; [discriminate|exact len_nil_ok]).
    assert (N3 : nc (frames (lc_junk3 c) ++ frame 10 [] ++ lc_tail c)) by (apply nc_frames; assumption).
    assert (N2 : nc (frames (lc_junk2 c) ++ frames (lc_junk3 c) ++ frame 10 [] ++ lc_tail c))
      by (apply nc_frames; assumption).
    assert (Nb : nc (flat_map (fun sc => boundsheet (fst sc) (snd sc))
                              (combine (wb_sheets wb) (lc_sheets c)) ++
                     frames (lc_junk2 c) ++ frames (lc_junk3 c) ++ frame 10 [] ++ lc_tail c))
      by (apply nc_boundsheets; assumption).
    assert (N1 : nc (frames (lc_junk1 c) ++
                     flat_map (fun sc => boundsheet (fst sc) (snd sc))
                              (combine (wb_sheets wb) (lc_sheets c)) ++
                     frames (lc_junk2 c) ++ frames (lc_junk3 c) ++ frame 10 [] ++ lc_tail c))
      by (apply nc_frames; assumption).
    set (R1 := frames (lc_junk1 c) ++ _) in *.
    assert (Nd : nc ((if lc_omit_1904 c && negb (wb_1904 wb) then []
                      else frame 34 (le16 (b2n (wb_1904 wb)))) ++ R1)).
    { destruct (lc_omit_1904 c && negb (wb_1904 wb)); [exact N1|].
      apply nc_frame; [discriminate|apply len_le16_ok]. }
    assert (N0 : nc (frames (lc_junk0 c) ++
                     (if lc_omit_1904 c && negb (wb_1904 wb) then []
                      else frame 34 (le16 (b2n (wb_1904 wb)))) ++ R1))
      by (apply nc_frames; assumption).
    (* BOF *)
    rewrite (records_plain 2057 bof_globals _ len_bof_ok N0).
    cbn [xls_globals]. change (2057 =? 47) with false. change (2057 =? 66) with false.
    change (2057 =? 34) with false. change (2057 =? 1054) with false.
    change (2057 =? 224) with false. change (2057 =? 133) with false.
    change (2057 =? 2057) with true. cbn iota.
    change (read_u16 bof_globals) with (@Ok N 1536). cbn [obind].
    change (4 <=? len bof_globals) with true. cbn iota.
    change (read_u16 (drop 2 bof_globals)) with (@Ok N 5). cbn [obind].
    change (bof_is_biff8 1536 5) with true. cbn iota.
    rewrite (globals_junk (lc_junk0 c) _ _ J0 Nd).
    (* Date1904 *)
    assert (Hd : xls_globals
                   (records ((if lc_omit_1904 c && negb (wb_1904 wb) then []
                              else frame 34 (le16 (b2n (wb_1904 wb)))) ++ R1)) xls_state0 =
                 xls_globals (records R1) (mkXlsState [] [] [] (wb_1904 wb))).
    { destruct (lc_omit_1904 c && negb (wb_1904 wb)) eqn:Eo.
      - apply andb_true_iff in Eo. destruct Eo as [_ Eo]. apply negb_true_iff in Eo. rewrite Eo.
        reflexivity.
      - rewrite (records_plain 34 _ R1 (len_le16_ok _) N1). cbn [xls_globals].
        change (34 =? 47) with false. change (34 =? 66) with false. change (34 =? 34) with true.
        cbn iota. rewrite <- (app_nil_r (le16 _)), read_u16_le16. cbn [obind].
        destruct (wb_1904 wb); reflexivity. }
    rewrite Hd. unfold R1.
    rewrite (globals_junk (lc_junk1 c) _ _ J1 Nb).
    rewrite (globals_boundsheets (wb_sheets wb) (lc_sheets c) _ _ Hsheets N2).
    rewrite (globals_junk (lc_junk2 c) _ _ J2 N3).
    rewrite (globals_junk (lc_junk3 c) _ _ J3 N4).
    rewrite (records_plain 10 [] (lc_tail c) len_nil_ok Nt).
    reflexivity. }
  rewrite Hg. unfold xls_resolve. cbn [obind xg_sheets xg_names xg_xtis xg_1904 map_o].
  assert (Hex : existsb (fun pm : N * meta => len (xls_stream c wb) <? fst pm)
                        (map (fun sc => (ls_pos (snd sc), fst sc))
                             (combine (wb_sheets wb) (lc_sheets c))) = false).
  { apply not_true_is_false. intros He. apply existsb_exists in He.
    destruct He as [pm [Hin Hlt]]. apply in_map_iff in Hin. destruct Hin as [[s0 ch0] [<- Hin]].
    apply in_combine_r in Hin. cbn [fst snd] in *. rewrite forallb_forall in Hpos. specialize (Hpos _ Hin).
    cbn [fst] in Hlt. lia. }
  rewrite Hex.
  rewrite (combine_map_snd_fst _ _ _ ls_pos _ _ (forallb2_length _ _ _ _ _ Hsheets)). reflexivity.
Qed.

(* non-vacuity *)
Definition ex_xls_wb : workbook Ptg.expr :=
  mkWb [mkMeta [97; 233] Hidden MacroSheet; mkMeta [128512; 20013] VeryHidden WorkSheet;
        mkMeta [98] Visible Vba] [] true.
Definition ex_xls_c : xls_choice :=
  mkLc [mkLs 0 false 3; mkLs 10 true 0; mkLs 4 true 1] [] [] [] [(225, [176; 4])]
       [(224, [0; 0; 14; 0]); (1054, [164; 0; 1; 0; 0; 100])] [] [(255, [])] false [9; 8].
Lemma xls_nonvacuous :
  xls_legal ex_xls_c ex_xls_wb = true /\
  xls_parse_workbook (fun _ => []) (xls_stream ex_xls_c ex_xls_wb) =
  Ok (mkParsed (wb_sheets ex_xls_wb) [] [] true).
Proof. vm_compute. repeat split. Qed.
