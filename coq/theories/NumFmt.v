(* NumFmt.v — property C10: model of calamine's number-format classification (src/formats.rs)
   and of the style plumbing of the three Excel formats, plus the specification side: an AST of
   the spreadsheet number-format grammar with [render] and [classify].
   Definitions only (executable, extracted); proofs are in NumFmt_proofs.v.

   Strings are lists of Unicode scalar values (N); ids of xlsx are lists of bytes (N < 256). *)
From Calamine Require Import Prelude.
Open Scope N_scope.
Set Implicit Arguments.

(* ===================================================================================== *)
(** * Part M — the model of src/formats.rs *)

Inductive cell_format : Type := Other | DateTime | TimeDelta.

Definition cell_format_eqb (a b : cell_format) : bool :=
  match a, b with
  | Other, Other | DateTime, DateTime | TimeDelta, TimeDelta => true
  | _, _ => false
  end.

Definition mem (c : N) (l : list N) : bool := existsb (N.eqb c) l.

(* char::to_ascii_lowercase / char::eq_ignore_ascii_case *)
Definition to_ascii_lowercase (c : N) : N := if (65 <=? c) && (c <=? 90) then c + 32 else c.
Definition eq_ignore_ascii_case (a b : N) : bool :=
  to_ascii_lowercase a =? to_ascii_lowercase b.

(* the nine local variables of detect_custom_number_format *)
Record st : Type := mkSt {
  escaped : bool;
  is_quote : bool;
  brackets : N;      (* u8 *)
  prev : N;          (* char *)
  hms : bool;
  ap : bool;
  a_run : N;         (* u8: unquoted `a`s in a row (0, 1 or 2 at the top of the loop) *)
  digit : bool;      (* the previous character was a digit placeholder *)
  keyword : N        (* u8: characters of a `General` keyword still to pass over *)
}.

Definition init : st := mkSt false false 0 32 false false 0 false 0.   (* prev = ' ' *)

(* u8::saturating_add(1) / saturating_sub(1) *)
Definition sat_inc (b : N) : N := if b <? 255 then b + 1 else 255.
Definition sat_dec (b : N) : N := b - 1.     (* N subtraction truncates at 0 *)

Inductive step_result : Type :=
| Continue (q : st)
| Return (f : cell_format).

(* character classes named in the match arms *)
Definition is_esc (s : N) : bool := mem s [95; 92; 42].                    (* '_' | '\\' | '*' *)
Definition is_a (s : N) : bool := mem s [97; 65].                          (* 'a' | 'A' *)
Definition is_pm_slash (s : N) : bool := mem s [112; 109; 47; 80; 77].     (* 'p'|'m'|'/'|'P'|'M' *)
Definition is_date_letter (s : N) : bool :=
  mem s [100; 109; 104; 121; 115; 68; 77; 72; 89; 83].        (* d m h y s D M H Y S *)
Definition is_mhs (s : N) : bool := mem s [109; 104; 115; 77; 72; 83].     (* m h s M H S *)
Definition is_g (s : N) : bool := mem s [103; 71].                         (* 'g' | 'G' *)
Definition is_e (s : N) : bool := mem s [101; 69].                         (* 'e' | 'E' *)
Definition is_gb (s : N) : bool := mem s [103; 98; 71; 66].                (* 'g' | 'b' | 'G' | 'B' *)
Definition is_placeholder (s : N) : bool := mem s [48; 35; 63; 46; 44].    (* '0' | '#' | '?' | '.' | ',' *)

(* is_general(&format[i..]): s.get(..7).is_some_and(|w| w.eq_ignore_ascii_case("General")).
   The Rust test looks at the first seven BYTES; they equal "General" up to ASCII case exactly
   when the first seven characters do (seven ASCII bytes are seven characters, and `get` answers
   None when byte 7 is not a character boundary, in which case a non-ASCII byte is among them). *)
Definition kw_general : list N := [103; 101; 110; 101; 114; 97; 108].     (* "general" *)
Fixpoint starts_with_ci (w l : list N) : bool :=
  match w, l with
  | [], _ => true
  | _ :: _, [] => false
  | x :: w', c :: l' => (to_ascii_lowercase c =? x) && starts_with_ci w' l'
  end.
Definition is_general (l : list N) : bool := starts_with_ci kw_general l.

(* One iteration of `for (i, s) in format.char_indices()`; [rest] is what follows s in the format
   (format[i..] = s :: rest).  In source order: the keyword skip (`continue`: prev is not
   updated), `exponent = take(&mut digit)`, the a_run block with its early return, then the match
   on (s, escaped, is_quote, ap, brackets) — arms as of the fix "date formats made only of
   weekday / era / Buddhist-year tokens" on top of ac433ce, c5a918f, a61713f — then `prev = s`.
   `a_run += 1` cannot overflow: a_run is reset or the function returns at 3
   (NumFmt_proofs.a_run_bounded); `keyword -= 1` runs under `keyword > 0`. *)
Definition step (q : st) (s : N) (rest : list N) : step_result :=
  let '(mkSt e iq b p h a ar dg kw) := q in
  (* if keyword > 0 { keyword -= 1; continue; } *)
  if 0 <? kw then Continue (mkSt e iq b p h a ar dg (kw - 1))
  else
  let exponent := dg in                          (* digit is false from here on, see below *)
  (* if !escaped && !is_quote && brackets == 0 && matches!(s, 'a' | 'A')
       { a_run += 1; if a_run == 3 { return DateTime } } else { a_run = 0 } *)
  let plain_a := negb e && negb iq && (b =? 0) && is_a s in
  if plain_a && (ar + 1 =? 3) then Return DateTime
  else
  let ar := if plain_a then ar + 1 else 0 in
  (* (_, true, ..) => escaped = false *)
  if e then Continue (mkSt false iq b s h a ar false 0)
  (* (DQUOTE, _, true, _, _) => is_quote = false *)
  else if (s =? 34) && iq then Continue (mkSt e false b s h a ar false 0)
  (* (_, _, true, _, _) => ()      inside a quoted literal nothing is special *)
  else if iq then Continue (mkSt e iq b s h a ar false 0)
  (* ('_' | '\\' | '*', ..) => escaped = true *)
  else if is_esc s then Continue (mkSt true iq b s h a ar false 0)
  (* (DQUOTE, _, _, _, _) => is_quote = true *)
  else if s =? 34 then Continue (mkSt e true b s h a ar false 0)
  (* (';', ..) => return Other *)
  else if s =? 59 then Return Other
  (* ('[', ..) => brackets = brackets.saturating_add(1) *)
  else if s =? 91 then Continue (mkSt e iq (sat_inc b) s h a ar false 0)
  (* (']', .., 1) if hms => return TimeDelta *)
  else if (s =? 93) && (b =? 1) && h then Return TimeDelta
  (* (']', ..) => brackets = brackets.saturating_sub(1) *)
  else if s =? 93 then Continue (mkSt e iq (sat_dec b) s h a ar false 0)
  (* ('a' | 'A', _, _, false, 0) => ap = true *)
  else if is_a s && negb a && (b =? 0) then Continue (mkSt e iq b s h true ar false 0)
  (* ('p' | 'm' | '/' | 'P' | 'M', _, _, true, 0) => return DateTime *)
  else if is_pm_slash s && a && (b =? 0) then Return DateTime
  (* ('g' | 'G', .., 0) if is_general(&format[i..]) => keyword = 6 *)
  else if is_g s && (b =? 0) && is_general (s :: rest) then Continue (mkSt e iq b s h a ar false 6)
  (* ('e' | 'E', _, _, false, 0) if !exponent => return DateTime *)
  else if is_e s && negb a && (b =? 0) && negb exponent then Return DateTime
  (* ('g' | 'b' | 'G' | 'B', _, _, false, 0) => return DateTime *)
  else if is_gb s && negb a && (b =? 0) then Return DateTime
  (* ('d' | 'm' | 'h' | 'y' | 's' | 'D' | 'M' | 'H' | 'Y' | 'S', _, _, false, 0) => return DateTime *)
  else if is_date_letter s && negb a && (b =? 0) then Return DateTime
  (* _ => { ap = false;
            if hms && s.eq_ignore_ascii_case(&prev) {} else { hms = prev == '[' && matches!(s, m h s M H S) }
            digit = matches!(s, '0' | '#' | '?' | '.' | ',') } *)
  else
    let h' := if h && eq_ignore_ascii_case s p then h else (p =? 91) && is_mhs s in
    Continue (mkSt e iq b s h' false ar (is_placeholder s) 0).

(* the loop with its early returns *)
Fixpoint run (q : st) (l : list N) : step_result :=
  match l with
  | [] => Continue q
  | c :: t => match step q c t with
              | Continue q' => run q' t
              | Return f => Return f
              end
  end.

(* detect_custom_number_format: no panic site (the two bracket counters saturate, a_run stays
   below 3, keyword is decremented only when positive, format[i..] starts at a character
   boundary and `get(..7)` is checked), no fuel (one pass) *)
Definition detect (format : list N) : cell_format :=
  match run init format with
  | Return f => f
  | Continue _ => Other
  end.

(* builtin_format_by_id(id: &[u8]): a match on byte-string literals *)
Fixpoint bytes_eqb (a b : list N) : bool :=
  match a, b with
  | [], [] => true
  | x :: a', y :: b' => (x =? y) && bytes_eqb a' b'
  | _, _ => false
  end.

Definition builtin_format_by_id (id : list N) : cell_format :=
  if existsb (bytes_eqb id)
       [ [49;52]; [49;53]; [49;54]; [49;55]; [49;56]; [49;57];   (* "14" .. "19" *)
         [50;48]; [50;49]; [50;50];                               (* "20" "21" "22" *)
         [52;53];                                                 (* "45" *)
         [52;55] ]                                                (* "47" *)
  then DateTime
  else if bytes_eqb id [52;54] then TimeDelta                     (* "46" *)
  else Other.

(* builtin_format_by_code(code: u16) *)
Definition builtin_format_by_code (code : N) : cell_format :=
  if ((14 <=? code) && (code <=? 22)) || (code =? 45) || (code =? 47) then DateTime
  else if code =? 46 then TimeDelta
  else Other.

(* ---- value wrapping ---- *)
(* Data / DataRef restricted to the variants the number paths produce.  A float is its 64 raw
   bits; ExcelDateTime::new(value, type, is_1904) is the triple (bits, is_duration, is_1904). *)
Inductive data : Type :=
| DInt (v : Z)
| DFloat (bits : N)
| DDateTime (bits : N) (is_duration : bool) (is_1904 : bool).

(* `value as f64` for an i64: round to nearest, ties to even, as raw IEEE-754 binary64 bits *)
Definition f64_bits_of_mag (m : N) : N :=      (* m > 0 *)
  let sz := N.size m in                          (* 2^(sz-1) <= m < 2^sz *)
  if sz <=? 53 then
    (* exact: mantissa m * 2^(53-sz) has its top bit at position 52 *)
    let mant := N.shiftl m (53 - sz) in
    N.shiftl (sz - 1 + 1023) 52 + (mant - N.shiftl 1 52)
  else
    let sh := sz - 53 in
    let q := N.shiftr m sh in
    let r := m - N.shiftl q sh in
    let half := N.shiftl 1 (sh - 1) in
    let q' := if (half <? r) || ((half =? r) && N.odd q) then q + 1 else q in
    (* q' may reach 2^53: the sum below then carries into the exponent field, which is right *)
    N.shiftl (sz - 1 + 1023) 52 + (q' - N.shiftl 1 52).

Definition i64_as_f64_bits (v : Z) : N :=
  match v with
  | Z0 => 0
  | Zpos p => f64_bits_of_mag (Npos p)
  | Zneg p => N.shiftl 1 63 + f64_bits_of_mag (Npos p)
  end.

(* format_excel_f64_ref(value, format: Option<&CellFormat>, is_1904) (format_excel_f64 = .into()) *)
Definition format_excel_f64_ref (bits : N) (format : option cell_format) (is_1904 : bool) : data :=
  match format with
  | Some DateTime => DDateTime bits false is_1904
  | Some TimeDelta => DDateTime bits true is_1904
  | _ => DFloat bits
  end.

(* format_excel_i64(value, format, is_1904) *)
Definition format_excel_i64 (v : Z) (format : option cell_format) (is_1904 : bool) : data :=
  match format with
  | Some DateTime => DDateTime (i64_as_f64_bits v) false is_1904
  | Some TimeDelta => DDateTime (i64_as_f64_bits v) true is_1904
  | _ => DInt v
  end.

(* ===================================================================================== *)
(** * Part M2 — style plumbing of xlsx / xls / xlsb as pure functions *)

(* BTreeMap::insert in document order, then get: the last entry with the key wins *)
Fixpoint assoc_last {K V : Type} (keq : K -> K -> bool) (k : K) (l : list (K * V)) : option V :=
  match l with
  | [] => None
  | (k', v) :: t =>
    match assoc_last keq k t with
    | Some r => Some r
    | None => if keq k k' then Some v else None
    end
  end.

(* --- xlsx: Xlsx::read_styles.  numFmts: (raw bytes of numFmtId, formatCode) in document order;
   cellXfs: the raw bytes of each xf's numFmtId attribute, None when the attribute is absent.
   formatCode is the attribute value after quick-xml's decode_and_unescape_value (commit 35d58d0);
   XML parsing itself, including entity unescaping, is not modelled. *)
Record xlsx_styles : Type := mkXlsxStyles {
  xs_numfmts : list (list N * list N);
  xs_cellxfs : list (option (list N))
}.

Definition nonempty {A} (l : list A) : bool := match l with [] => false | _ => true end.

Definition xlsx_read_styles (s : xlsx_styles) : list cell_format :=
  (* `if !format.is_empty() { number_formats.insert(id, format) }` *)
  let number_formats := filter (fun e => nonempty (snd e)) (xs_numfmts s) in
  map (fun xf =>
         match xf with
         | None => Other                                   (* map_or(CellFormat::Other, …) *)
         | Some id =>
           match assoc_last bytes_eqb id number_formats with
           | Some fmt => detect fmt
           | None => builtin_format_by_id id
           end
         end) (xs_cellxfs s).

(* read_v, numeric arms (t="n" or no t): the `s` attribute already parsed to an index
   (atoi_simd, 0 on failure); None = no `s` attribute => formats.first(), the default style *)
Definition xlsx_cell_number (formats : list cell_format) (is_1904 : bool)
           (s_attr : option N) (bits : N) : data :=
  let cell_format :=
      match s_attr with
      | Some id => nth_error formats (N.to_nat id)
      | None => nth_error formats 0
      end in
  format_excel_f64_ref bits cell_format is_1904.

(* --- xls: Xls::parse_workbook.  FORMAT records (ifmt, string) and XF records (ifmt) in stream
   order; formats.get(&fmt) else builtin_format_by_code(fmt). *)
Record biff_styles : Type := mkBiffStyles {
  bs_formats : list (N * list N);
  bs_xfs : list N
}.

Definition xls_formats (s : biff_styles) : list cell_format :=
  let formats := map (fun e => (fst e, detect (snd e))) (bs_formats s) in
  map (fun fmt => match assoc_last N.eqb fmt formats with
                  | Some f => f
                  | None => builtin_format_by_code fmt
                  end) (bs_xfs s).

(* a decoded number: NUMBER / float RK / RK with a fractional /100 give a float, an integer RK an
   i64 (the RK arithmetic itself belongs to another property) *)
Inductive num : Type := NF (bits : N) | NI (v : Z).

(* parse_number / rk_num: formats.get(ixfe) then format_excel_f64 / format_excel_i64 *)
Definition xls_cell_number (formats : list cell_format) (is_1904 : bool) (ixfe : N) (v : num) : data :=
  let format := nth_error formats (N.to_nat ixfe) in
  match v with
  | NF bits => format_excel_f64_ref bits format is_1904
  | NI z => format_excel_i64 z format is_1904
  end.

(* the FORMULA arm (commit aa1af82): a numeric cached value goes through
   format_excel_f64(f, self.formats.get(ixfe), self.is_1904) like a NUMBER cell *)
Definition xls_formula_number (formats : list cell_format) (is_1904 : bool) (ixfe : N) (bits : N) : data :=
  format_excel_f64_ref bits (nth_error formats (N.to_nat ixfe)) is_1904.

(* --- xlsb: Xlsb::read_styles.  BrtFmt (ifmt, string), BrtXF (ifmt): built-in table first, the
   custom map only when the built-in answer is Other. *)
Definition xlsb_formats (s : biff_styles) : list cell_format :=
  let number_formats := map (fun e => (fst e, detect (snd e))) (bs_formats s) in
  map (fun fmt_code =>
         match builtin_format_by_code fmt_code with
         | DateTime => DateTime
         | TimeDelta => TimeDelta
         | Other => match assoc_last N.eqb fmt_code number_formats with
                    | Some f => f
                    | None => Other
                    end
         end) (bs_xfs s).

(* next_cell: BrtCellReal/BrtFmlaNum/float RK/RK÷100 -> format_excel_f64_ref; integer RK: the
   inlined match (same result as format_excel_i64, as DataRef) *)
Definition xlsb_cell_number (formats : list cell_format) (is_1904 : bool) (style_ref : N) (v : num) : data :=
  let format := nth_error formats (N.to_nat style_ref) in
  match v with
  | NF bits => format_excel_f64_ref bits format is_1904
  | NI z =>
    match format with
    | Some DateTime => DDateTime (i64_as_f64_bits z) false is_1904
    | Some TimeDelta => DDateTime (i64_as_f64_bits z) true is_1904
    | _ => DInt z
    end
  end.

(* ===================================================================================== *)
(** * Part S — the specification: number-format grammar, render, classify *)

Inductive dletter : Type := LD | LM | LH | LY | LS.            (* d m h y s *)
Inductive eletter : Type := EH | EM | ES.                      (* [h] [m] [s] *)
Inductive placeholder : Type := PZero | PHash | PQuest.        (* 0 # ? *)
Inductive colour : Type :=
| CBlack | CBlue | CCyan | CGreen | CMagenta | CRed | CWhite | CYellow
| CIndexed (n : N).                                            (* [Color n], 1..56 *)
Inductive cmp : Type := OpLt | OpLe | OpGt | OpGe | OpEq | OpNe.

(* Keyword tokens carry [ups], the per-letter upper-case flags (missing flags = lower case):
   the grammar is case-insensitive and every casing is a different string for the scanner. *)
Inductive token : Type :=
| TDigit (p : placeholder)               (* 0 # ? *)
| TLit (c : N)                           (* punctuation shown as is: $ - + / ( ) : ! ^ & ' ~ { } < > = space . , % *)
| TGeneral (ups : list bool)             (* General *)
| TExp (ups : list bool) (plus : bool)   (* E+ E- e+ e- *)
| TAt                                    (* @ *)
| TEsc (c : N)                           (* \c *)
| TPad (c : N)                           (* _c *)
| TFill (c : N)                          (* *c *)
| TQuoted (s : list N)                   (* "text" *)
| TColour (c : colour) (ups : list bool) (* [Red] [Color 12] *)
| TCond (op : cmp) (num : list N)        (* [>=100] [<-1.5] *)
| TLocale (cur : list N) (lcid : list N) (* [$€-407] [$-409] [$USD] *)
| TDate (l : dletter) (n : nat) (ups : list bool)     (* n+1 letters: d dd ddd dddd m … *)
| TAmPm (ups : list bool)                (* AM/PM *)
| TAP (ups : list bool)                  (* A/P *)
| TSecFrac (n : nat)                     (* .0 .00 .000 : '.' and n+1 zeros *)
| TElapsed (l : eletter) (n : nat) (ups : list bool) (* [h] [hh] [mm] [ss] … *)
(* date tokens of Excel's format language that ECMA-376 lists only inside the locale-specific
   built-in formats of 18.8.30 ([$-411]ge.m.d, [$-404]e/m/d, d/m/bb) and that [MS-OI29500] adds to
   the grammar of 18.8.31; a format may consist of nothing else (the weekday column aaa of
   Japanese / Chinese / Korean workbooks, a year column ggge or bbbb) *)
| TWeekday (long : bool) (ups : list bool)    (* aaa aaaa : day of the week *)
| TEra (n : nat) (ups : list bool)            (* g gg ggg : era, n+1 letters *)
| TEraYear (long : bool) (ups : list bool)    (* e ee : year of the era *)
| TBuddhist (long : bool) (ups : list bool).  (* bb bbbb : Buddhist year *)

Definition section := list token.
Definition ast := list section.            (* sections are separated by ';' *)

(* ---- render ---- *)
Definition to_ascii_uppercase (c : N) : N := if (97 <=? c) && (c <=? 122) then c - 32 else c.

Fixpoint recase (w : list N) (ups : list bool) : list N :=
  match w, ups with
  | [], _ => []
  | c :: w', [] => c :: recase w' []
  | c :: w', u :: ups' => (if u then to_ascii_uppercase c else c) :: recase w' ups'
  end.

Definition dletter_char (l : dletter) : N :=
  match l with LD => 100 | LM => 109 | LH => 104 | LY => 121 | LS => 115 end.
Definition eletter_char (l : eletter) : N :=
  match l with EH => 104 | EM => 109 | ES => 115 end.
Definition placeholder_char (p : placeholder) : N :=
  match p with PZero => 48 | PHash => 35 | PQuest => 63 end.

(* decimal ASCII digits of n; fuel 20 is enough below 10^20 *)
Fixpoint decimal_aux (fuel : nat) (n : N) (acc : list N) : list N :=
  match fuel with
  | O => acc
  | S f => if n <? 10 then (48 + n) :: acc
           else decimal_aux f (n / 10) ((48 + n mod 10) :: acc)
  end.
Definition decimal (n : N) : list N := decimal_aux 20 n [].

Definition colour_name (c : colour) : list N :=
  match c with
  | CBlack => [98;108;97;99;107]
  | CBlue => [98;108;117;101]
  | CCyan => [99;121;97;110]
  | CGreen => [103;114;101;101;110]
  | CMagenta => [109;97;103;101;110;116;97]
  | CRed => [114;101;100]
  | CWhite => [119;104;105;116;101]
  | CYellow => [121;101;108;108;111;119]
  | CIndexed _ => [99;111;108;111;114]            (* "color" *)
  end.
Definition colour_suffix (c : colour) : list N :=
  match c with CIndexed n => decimal n | _ => [] end.

Definition cmp_chars (o : cmp) : list N :=
  match o with
  | OpLt => [60] | OpLe => [60;61] | OpGt => [62] | OpGe => [62;61] | OpEq => [61] | OpNe => [60;62]
  end.

Definition w_general : list N := [103;101;110;101;114;97;108].    (* general *)
Definition w_ampm : list N := [97;109;47;112;109].                (* am/pm *)
Definition w_ap : list N := [97;47;112].                          (* a/p *)

(* the text between '[' and ']' of a bracket token *)
Definition bracket_content (t : token) : list N :=
  match t with
  | TColour c ups => recase (colour_name c) ups ++ colour_suffix c
  | TCond op num => cmp_chars op ++ num
  | TLocale cur lcid => 36 :: cur ++ (match lcid with [] => [] | _ => 45 :: lcid end)
  | TElapsed l n ups => recase (repeat (eletter_char l) (S n)) ups
  | _ => []
  end.

Definition render_tok (t : token) : list N :=
  match t with
  | TDigit p => [placeholder_char p]
  | TLit c => [c]
  | TGeneral ups => recase w_general ups
  | TExp ups plus => recase [101] ups ++ [if plus then 43 else 45]
  | TAt => [64]
  | TEsc c => [92; c]
  | TPad c => [95; c]
  | TFill c => [42; c]
  | TQuoted s => 34 :: s ++ [34]
  | TColour _ _ | TCond _ _ | TLocale _ _ | TElapsed _ _ _ => 91 :: bracket_content t ++ [93]
  | TDate l n ups => recase (repeat (dletter_char l) (S n)) ups
  | TAmPm ups => recase w_ampm ups
  | TAP ups => recase w_ap ups
  | TSecFrac n => 46 :: repeat 48 (S n)
  | TWeekday long ups => recase (repeat 97 (if long then 4 else 3)%nat) ups
  | TEra n ups => recase (repeat 103 (S n)) ups
  | TEraYear long ups => recase (repeat 101 (if long then 2 else 1)%nat) ups
  | TBuddhist long ups => recase (repeat 98 (if long then 4 else 2)%nat) ups
  end.

Definition render_section (s : section) : list N := flat_map render_tok s.

Fixpoint render (a : ast) : list N :=
  match a with
  | [] => []
  | [s] => render_section s
  | s :: rest => render_section s ++ 59 :: render rest
  end.

(* ---- classify: the kind of the first deciding token of the first section ---- *)
Definition tok_kind (t : token) : cell_format :=
  match t with
  | TDate _ _ _ | TAmPm _ | TAP _ => DateTime
  | TWeekday _ _ | TEra _ _ | TEraYear _ _ | TBuddhist _ _ => DateTime
  | TElapsed _ _ _ => TimeDelta
  | _ => Other
  end.

Fixpoint classify_section (s : section) : cell_format :=
  match s with
  | [] => Other
  | t :: r => match tok_kind t with
              | Other => classify_section r
              | k => k
              end
  end.

Definition classify (a : ast) : cell_format :=
  match a with
  | [] => Other
  | s :: _ => classify_section s
  end.

(* ---- well-formedness of a derivation (computable) ---- *)
Definition lit_chars : list N :=
  [36; 45; 43; 47; 40; 41; 58; 33; 94; 38; 39; 126; 123; 125; 60; 62; 61; 32;   (* $-+/():!^&'~{}<>= space *)
   46; 44; 37].                                                                 (* . , % *)
(* characters that may not occur inside a bracketed prefix *)
Definition bracket_special (c : N) : bool := mem c [91; 93; 34; 92; 95; 42; 59].  (* [ ] DQUOTE \ _ * ; *)
Definition is_digit (c : N) : bool := (48 <=? c) && (c <=? 57).
Definition is_hex (c : N) : bool :=
  is_digit c || ((65 <=? c) && (c <=? 70)) || ((97 <=? c) && (c <=? 102)).
Definition is_numchar (c : N) : bool := is_digit c || (c =? 46) || (c =? 45).

Definition wf_tok (t : token) : bool :=
  match t with
  | TLit c => mem c lit_chars
  | TQuoted s => negb (mem 34 s)
  | TColour (CIndexed n) _ => (1 <=? n) && (n <=? 56)
  | TCond _ num => nonempty num && forallb is_numchar num
  | TLocale cur lcid => forallb (fun c => negb (bracket_special c)) cur && forallb is_hex lcid
  | TEra n _ => Nat.leb n 2
  | _ => true
  end.

(* Two tokens depend on their left neighbour.  The exponent E+ / E- / e+ / e- is part of a number
   (18.8.31: it follows the digit placeholders of the mantissa): it is well-formed only directly
   after a placeholder 0 # ?, a decimal point or a comma.  Anywhere else the letter e is the year
   of the era, which conversely cannot stand directly after a placeholder (a section is a number
   or a date, not both; "0e" has no reading).  [ends_num t]: the rendering of t ends with a
   placeholder character in the sense above. *)
Definition ends_num (t : token) : bool :=
  match t with
  | TDigit _ | TSecFrac _ => true
  | TLit c => (c =? 46) || (c =? 44)
  | _ => false
  end.
Definition ctx_tok (after_num : bool) (t : token) : bool :=
  match t with
  | TExp _ _ => after_num
  | TEraYear _ _ => negb after_num
  | _ => true
  end.
Fixpoint ctx_ok (after_num : bool) (s : section) : bool :=
  match s with
  | [] => true
  | t :: r => ctx_tok after_num t && ctx_ok (ends_num t) r
  end.

Definition wf_section (s : section) : bool := forallb wf_tok s && ctx_ok false s.
Definition wf (a : ast) : bool := forallb wf_section a.

(* characters the scanner acts on outside quotes, escapes and brackets; every other character
   leaves a boundary state unchanged (proof vocabulary, also used by the test driver) *)
Definition significant (c : N) : bool :=
  mem c [34; 92; 95; 42; 91; 93; 59; 47;
         97; 112; 100; 109; 104; 121; 115; 65; 80; 68; 77; 72; 89; 83;
         103; 101; 98; 71; 69; 66].                                      (* g e b G E B *)

(* ---- the ECMA-376 list of built-in date/time format ids (18.8.30), written by hand ---- *)
Definition ecma_builtin (id : N) : cell_format :=
  if mem id [14; 15; 16; 17; 18; 19; 20; 21; 22; 45; 47] then DateTime
  else if id =? 46 then TimeDelta
  else Other.

(* [0; 1; …; n-1] in decreasing order, without nat *)
Definition N_below (n : N) : list N :=
  snd (N.iter n (fun kl => (fst kl + 1, fst kl :: snd kl)) (0, [])).

(* ---- logical style table and the specified resolution ---- *)
(* customs: (id, format string); xfs: format id of each cell XF (None: attribute absent, which
   means id 0 = General).  A custom entry takes precedence over the built-in meaning of its id. *)
Record style_table : Type := mkStyleTable {
  customs : list (N * list N);
  xfs : list (option N)
}.

Definition resolve (t : style_table) (fmt : option N) : cell_format :=
  match fmt with
  | None => Other
  | Some id => match assoc_last N.eqb id (customs t) with
               | Some s => detect s
               | None => ecma_builtin id
               end
  end.

Definition spec_formats (t : style_table) : list cell_format := map (resolve t) (xfs t).

(* what the cell must be: DateTime with the duration flavour iff elapsed, else the plain number;
   serial bits and date system unchanged *)
Definition num_bits (v : num) : N := match v with NF b => b | NI z => i64_as_f64_bits z end.
Definition spec_cell (k : cell_format) (is_1904 : bool) (v : num) : data :=
  match k with
  | DateTime => DDateTime (num_bits v) false is_1904
  | TimeDelta => DDateTime (num_bits v) true is_1904
  | Other => match v with NF b => DFloat b | NI z => DInt z end
  end.

(* encoders of the logical table into what each reader sees (ids of xlsx as decimal text) *)
Definition enc_xlsx (t : style_table) : xlsx_styles :=
  mkXlsxStyles (map (fun e => (decimal (fst e), snd e)) (customs t))
               (map (option_map decimal) (xfs t)).
Definition enc_biff (t : style_table) : biff_styles :=
  mkBiffStyles (customs t) (map (fun o => match o with Some i => i | None => 0 end) (xfs t)).
