(* Property C15 — XLSX shared formulas expand to the translated formula of each member cell.
   Only the property theorems (closed by [exact]), [Check] pins, non-vacuity examples and
   [Print Assumptions].  Model / spec / known classes: SharedFmla.v; proofs: SharedFmla_proofs.v
   (which uses Col26.v / Col26_proofs.v). *)
From Calamine Require Import Prelude Col26 SharedFmla SharedFmla_proofs.
Open Scope N_scope.

(* the rewriting of the master text: for every formula of the token grammar, at every offset
   that keeps its references on the sheet, outside the known classes, the real scanner returns
   the text of the formula whose relative reference components moved by the offset *)
Theorem C15_translate_correct :
  forall ts off,
    wf_formula ts = true -> in_range ts off -> known_C15 ts = None ->
    replace_cell_names (render_all ts) off = Ok (render_all (map (translate off) ts)).
Proof. exact translate_correct. Qed.

(* vertical groups (column offset 0): mixed references are translated correctly too *)
Theorem C15_translate_correct_vertical :
  forall ts dr,
    wf_formula ts = true -> in_range ts (dr, 0%Z) -> known_C15_v ts = None ->
    replace_cell_names (render_all ts) (dr, 0%Z) = Ok (render_all (map (translate (dr, 0%Z)) ts)).
Proof. exact translate_correct_vertical. Qed.

(* a text without any candidate that parses as a cell name comes out unchanged *)
Theorem C15_inert_text :
  forall off u, off_ok off = true -> text_class u = None -> rcn_bytes u off = Ok u.
Proof. exact inert_text. Qed.

Example C15_translate_correct_nonvacuous :
  wf_formula ex_tokens = true /\ in_range ex_tokens (5, 2)%Z /\ known_C15 ex_tokens = None /\
  render_all (map (translate (5, 2)%Z) ex_tokens) <> render_all ex_tokens.
Proof. exact translate_correct_nonvacuous. Qed.

(* known classes (F22): each is inhabited inside the grammar and inside [in_range], and the
   model (= the real code, see the correspondence check) does not return the translated text *)
Theorem C15_refuted_mixed :
  exists ts off, wf_formula ts = true /\ in_range ts off /\ known_C15 ts = Some CL_MIXED /\
    replace_cell_names (render_all ts) off <> Ok (render_all (map (translate off) ts)).
Proof. exact refuted_mixed. Qed.
Theorem C15_refuted_lookalike :
  exists ts off, wf_formula ts = true /\ in_range ts off /\ known_C15 ts = Some CL_LOOKALIKE /\
    replace_cell_names (render_all ts) off <> Ok (render_all (map (translate off) ts)).
Proof. exact refuted_lookalike. Qed.
Theorem C15_refuted_nonascii :
  exists ts off, wf_formula ts = true /\ in_range ts off /\ known_C15 ts = Some CL_NONASCII /\
    replace_cell_names (render_all ts) off = Err E_UTF8.
Proof. exact refuted_nonascii. Qed.
Theorem C15_refuted_quote :
  exists ts off, wf_formula ts = true /\ in_range ts off /\ known_C15 ts = Some CL_QUOTE /\
    replace_cell_names (render_all ts) off <> Ok (render_all (map (translate off) ts)).
Proof. exact refuted_quote. Qed.
Theorem C15_refuted_overflow :
  exists ts off, wf_formula ts = true /\ in_range ts off /\ known_C15 ts = Some CL_OVERFLOW /\
    replace_cell_names (render_all ts) off = Panic.
Proof. exact refuted_overflow. Qed.

(* the groups: on every sheet whose shared indices increase in document order and whose members
   are outside the known classes, every cell is reported with the formula the property demands:
   a member inside the declared ref of its group gets the master formula translated by its own
   offset (1-D refs, and the first column of 2-D refs), every other cell keeps its own text *)
Theorem C15_group_covers_range :
  forall cs,
    sheet_okb [] None cs = true ->
    run_cells [] (map encode_cell cs) = Ok (spec_cells [] cs) /\
    sheet_formulas (map encode_cell cs)
      = Ok (filter (fun pv => negb (fval_is_empty (snd pv))) (spec_cells [] cs)).
Proof. exact group_covers_range. Qed.

(* the offset map built from the declared ref serves exactly the cells of a 1-D ref *)
Theorem C15_offset_map_inside :
  forall g p,
    group_okb g = true -> in_box (g_start g) (g_end g) p = true ->
    known_member g p = None -> p <> g_master g ->
    omap_get (build_offset_map (g_start g, g_end g) (g_master g)) p = Some (member_offset g p).
Proof. exact offset_map_inside. Qed.
Theorem C15_offset_map_outside :
  forall g p,
    group_okb g = true -> in_box (g_start g) (g_end g) p = false ->
    omap_get (build_offset_map (g_start g, g_end g) (g_master g)) p = None.
Proof. exact offset_map_outside. Qed.

Example C15_group_covers_range_nonvacuous :
  sheet_okb [] None ex_sheet = true /\
  nth_error (spec_cells [] ex_sheet) 6 = Some ((4, 1), VBytes [36;65;52;43;49]) /\
  nth_error (spec_cells [] ex_sheet) 7 = Some ((5, 5), VText [75]) /\
  nth_error (spec_cells [] ex_sheet) 12 = Some ((6, 4), VBytes [36;65;36;49;42;70;49]).
Proof. exact group_covers_range_nonvacuous. Qed.

Theorem C15_refuted_block :
  exists g p, group_okb g = true /\ in_box (g_start g) (g_end g) p = true /\
    known_member g p = Some CL_BLOCK /\
    run_cells [] (map encode_cell [SMaster g; SMember p (g_si g) []])
      = Ok [(g_master g, VText (render_all (g_tokens g))); (p, VText [])] /\
    member_formula g p <> [].
Proof. exact refuted_block. Qed.
Theorem C15_refuted_si_order :
  exists cs, run_cells [] (map encode_cell cs) <> Ok (spec_cells [] cs) /\
    sheet_okb [] None cs = false.
Proof. exact refuted_si_order. Qed.

Check C15_translate_correct :
  forall ts off,
    wf_formula ts = true -> in_range ts off -> known_C15 ts = None ->
    replace_cell_names (render_all ts) off = Ok (render_all (map (translate off) ts)).
Check C15_translate_correct_vertical :
  forall ts dr,
    wf_formula ts = true -> in_range ts (dr, 0%Z) -> known_C15_v ts = None ->
    replace_cell_names (render_all ts) (dr, 0%Z) = Ok (render_all (map (translate (dr, 0%Z)) ts)).

Check C15_group_covers_range :
  forall cs,
    sheet_okb [] None cs = true ->
    run_cells [] (map encode_cell cs) = Ok (spec_cells [] cs) /\
    sheet_formulas (map encode_cell cs)
      = Ok (filter (fun pv => negb (fval_is_empty (snd pv))) (spec_cells [] cs)).

Print Assumptions C15_translate_correct.
Print Assumptions C15_translate_correct_vertical.
Print Assumptions C15_inert_text.
Print Assumptions C15_refuted_mixed.
Print Assumptions C15_refuted_lookalike.
Print Assumptions C15_refuted_nonascii.
Print Assumptions C15_refuted_quote.
Print Assumptions C15_refuted_overflow.
Print Assumptions C15_group_covers_range.
Print Assumptions C15_offset_map_inside.
Print Assumptions C15_offset_map_outside.
Print Assumptions C15_refuted_block.
Print Assumptions C15_refuted_si_order.
