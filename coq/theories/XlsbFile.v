(* XlsbFile.v — the parts of an xlsb package read together: Xlsb::new on the workbook
   relationships and workbook.bin (Meta.xlsb_open, C16), the shared strings, then
   worksheet_range_ref for every sheet of the metadata on the part its relationship names
   (XlsbRec.workbook_range_ref, C03), with the date system of workbook.bin handed to every cell.
   Outside this composition (hence `_partial` in Properties/Whole.v): the zip container (no model
   exists), the XML tokeniser under the relationship events, and styles.bin — the cell formats
   enter as the list NumFmt.xlsb_formats yields (C10).
   Definitions only; proofs: XlsbFile_proofs.v. *)
From Calamine Require Import Prelude Range RK.
From Calamine Require BiffSst Meta XlsbRec HeaderRow.
Open Scope N_scope.
Set Implicit Arguments.

Definition E_NOTFOUND : N := 6.

Record xlsb_result : Type := mkXbRes {
  xb_sheets : list Meta.meta;
  xb_names : list (Meta.str * Meta.str);
  xb_1904 : bool;
  xb_ranges : list (Meta.str * range XlsbRec.dref)
}.

Section Model.
Variable fdiv100 : N -> N.
Variable show_f64 : N -> list N.

(* pk: the parts of the package by path (zip lookup) *)
Definition xlsb_package_model (formats : list cellfmt) (rel_evs : list Meta.event) (wbbin : BiffSst.bytes)
           (sst : option (list N)) (pk : Meta.amap (list N)) : outcome xlsb_result :=
  do p <- Meta.xlsb_open show_f64 rel_evs wbbin;
  do ranges <- Meta.map_o (fun np : Meta.str * Meta.str =>
      (* worksheet_range_ref(name): self.sheets.iter().find(|(n, _)| n == name) *)
      match find (fun e : Meta.str * Meta.str => Meta.str_eqb (fst e) (fst np)) (Meta.p_paths p) with
      | None => Err E_NOTFOUND
      | Some e =>
        match Meta.map_get (snd e) pk with
        | None => Err E_NOTFOUND
        | Some part =>
          do r <- XlsbRec.workbook_range_ref fdiv100 formats (Meta.p_1904 p) sst
                                             HeaderRow.FirstNonEmptyRow part;
          Ok (fst np, r)
        end
      end) (Meta.p_paths p);
  Ok (mkXbRes (Meta.p_sheets p) (Meta.p_names p) (Meta.p_1904 p) ranges).
End Model.
